"""C12 / C13: websocket adapter. Lean: Props/C12C13 (all schedules; parameterised by the design facts the
extractor reads from ws/websocket.go). Implementation side: stress engine wsstress with a
fault-injecting net.Conn."""
import os

from . import common as C

THEOREMS = {
    "C12": ["ShipVerif.Ws.C12_write_vs_close", "ShipVerif.Ws.wsCfg_is_fixed", "ShipVerif.Ws.inv_run", "ShipVerif.Ws.C12_pinned_panics",
            "ShipVerif.Ws.C12_write_waits", "ShipVerif.Ws.C12_timeout_case_drops"],
    "C13": ["ShipVerif.Ws.C13_transport_loss", "ShipVerif.Ws.C13_pumps_terminate", "ShipVerif.Ws.wsCfg_is_fixed", "ShipVerif.Ws.inv_run",
            "ShipVerif.Ws.C13_pinned_leaks_socket", "ShipVerif.Ws.C13_local_close_reported_before_fix",
            "ShipVerif.Ws.C13_no_late_delivery", "ShipVerif.Ws.inv2_run", "ShipVerif.Ws.C13_no_recheck_delivers_late"],
}


def check(pid, tier, seed):
    R = C.Result(pid, tier, seed)
    R.assumptions = [
        "Go primitives as stated in Model/Ws.lean (send on closed channel panics, capacity-1 channel, closed channel always ready in select, sync.Once, mutex sections atomic); the once body is one atomic step",
        "gorilla/websocket: ReadMessage returns an error once the socket is closed; WriteMessage fails on a closed or failing socket",
        "the seven design facts are read syntactically from ws/websocket.go",
        "C13 'no delivery after close' holds up to the one message whose read had completed before the close (stated in the theorem)",
    ]
    changed, err = C.regen_facts()
    p = C.lake_build(["ShipVerif.Props.C12C13"])
    lean_ok = p.returncode == 0 and not err
    th = THEOREMS[pid]
    aud = C.audit(pid, th, ["ShipVerif.Props.C12C13"]) if lean_ok else []
    forb = C.grep_forbidden()
    discharged = sum(1 for a in aud if a["ok"]) if lean_ok and not forb else 0
    hb = C.build_harness()
    if hb.returncode != 0:
        R.violation({"broken": "harness does not build against /repo", "detail": (hb.stdout or "")[-3000:]}, "build", no_input=True)
        R.coverage = {"obligations": len(th), "discharged": discharged, "checker_cmd": "lake build ShipVerif.Props.C12C13", "trusted_base": C.TRUSTED_BASE}
        return R.finish()
    d = C.workdir(pid)
    runs = [(seed, 1500)] if tier == "quick" else [(seed + k, 8000) for k in range(5)]
    total, bad, shapes, samples, kinds = 0, [], set(), [], {}
    for s, n in runs:
        out = os.path.join(d, "ws_out.txt")
        q = C.run([C.HARNESS, "wsstress", "-seed", str(s), "-n", str(n), "-out", out], cwd=d, timeout=C.engine_timeout())
        if q.returncode != 0:
            bad.append({"seed": s, "line": "harness wsstress crashed (a panic outside a writer goroutine kills the process): " + (q.stdout or "")[-1500:]})
            continue
        for line in open(out):
            total += 1
            parts = line.split()
            kind = parts[2]
            kinds[kind] = kinds.get(kind, 0) + 1
            shapes.add(" ".join(parts[2:6]))
            if line.startswith("BAD"):
                msgs = [m for m in line.split(" | ") if (pid + ":") in m] if (" | " in line or pid + ":" in line) else []
                if (pid + ":") in line:
                    bad.append({"seed": s, "line": line.strip()})
            elif len(samples) < 3:
                samples.append(line.strip())
    if bad:
        R.violation({"property": pid, "kind": "stress trial violates " + pid,
                     "replay": "harness wsstress -seed <seed> -n <n>: trial id, kind and writer counts are in `line`; trials are seeded individually (seed*104729+trial)",
                     "count": len(bad), "first": bad[:5]}, "stress")
    elif not lean_ok:
        R.violation({"property": pid, "broken": "proof obligation: Generated.wsCfg = Cfg.fixed (wsCfg_is_fixed) / theorems of Props/C12C13 no longer check",
                     "facts_changed": changed, "detail": ((p.stdout or "") + (err or ""))[-3000:]}, "proof", no_input=True)
    if forb:
        R.violation({"broken": "forbidden construct in Lean sources", "hits": forb}, "audit", no_input=True)
    bad_ax = [a for a in aud if not a["ok"]]
    if lean_ok and bad_ax:
        R.violation({"broken": "axiom audit", "theorems": bad_ax}, "axioms", no_input=True)
    R.coverage = {
        "obligations": len(th), "discharged": discharged,
        "checker_cmd": "cd /verif/lean && lake build ShipVerif.Props.C12C13; lake env lean Audit.lean (#print axioms)",
        "trusted_base": C.TRUSTED_BASE + ["syntactic extraction of the ws design facts (extract/main.go wsCfg)"],
        "theorems": aud,
        "evaluations": total,
        "distinct_nontrivial": len(shapes),
        "rule": "one evaluation = one stress trial (1-8 writers x 1-6 messages, one closing event of 7 kinds at a random moment) on a real WebsocketConnection over loopback with a fault-injecting net.Conn; distinct = distinct (kind, writers, per-writer, lost) tuples",
        "samples": samples,
        "closing_kinds": kinds,
        "facts_changed": changed,
    }
    return R.finish()
