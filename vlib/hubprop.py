"""C10, C15, C18 and the hub half of C11: the pairing hub. Lean: Props/HubProps (theorems over all event
histories of Model/Hub). Tie: engine hubstep - a real hub.Hub with mock connections, an inert mDNS, a
recording HubReader and TCP listeners that see every dial; each event is applied to the hub and to the Lean
model (shipdrv hub) and the observations compared. The property predicates are also evaluated directly on
the implementation's own trace (no model involved), and for C15 a twin run with canonical spellings of
every SKI is compared with the run that used re-formatted ones."""
import os
import re

from . import common as C

THEOREMS = {
    "C10": ["ShipVerif.Hub.C10_task_guard", "ShipVerif.Hub.C10_dial_only_registered", "ShipVerif.Hub.C10_no_dial_after_shutdown",
            "ShipVerif.Hub.C10_unregister_effect", "ShipVerif.Hub.C10_cancel_effect", "ShipVerif.Hub.C10_trust_sources", "ShipVerif.Hub.cs_names",
            "ShipVerif.Dial.C10_removed_stays_removed", "ShipVerif.Dial.dialCfg_is_fixed", "ShipVerif.Dial.dinv_run",
            "ShipVerif.Dial.C10_pinned_dial_survives_removal", "ShipVerif.Dial.C10_recheck_without_exclusion",
            "ShipVerif.Shut.C10_shutdown_final", "ShipVerif.Shut.C10_no_attempt_after_shutdown", "ShipVerif.Shut.C10_unguarded_attempt_after_shutdown", "ShipVerif.Shut.shutCfg_is_fixed", "ShipVerif.Shut.sinv_run",
            "ShipVerif.Shut.C10_pinned_dial_survives_shutdown", "ShipVerif.Shut.C10_recheck_without_exclusion_shutdown"],
    "C15": ["ShipVerif.Hub.C15_op_invariant", "ShipVerif.Hub.C15_variant_invariant", "ShipVerif.Ski.normalize_variant",
            "ShipVerif.Ski.normalize_idem", "ShipVerif.Ski.normalize_canonical", "ShipVerif.Ski.ops_eq"],
    "C18": ["ShipVerif.Hub.C18_notifications_converge", "ShipVerif.Hub.C18_quiescent", "ShipVerif.Hub.C18_fifo", "ShipVerif.Hub.J_step", "ShipVerif.Hub.cs_names"],
    "C11": ["ShipVerif.Hub.C11_registry", "ShipVerif.Reg.C11_newest_kept", "ShipVerif.Reg.regCfg_is_fixed", "ShipVerif.Reg.rinv_run",
            "ShipVerif.Reg.C11_two_sections_drop_newer",
            "ShipVerif.Life.C11_notifications_consistent", "ShipVerif.Life.lifeCfg_is_fixed", "ShipVerif.Life.linv_run",
            "ShipVerif.Life.C11_delayed_end_of_older_connection"],
    "C05": ["ShipVerif.Hub.C05_attempts_settle", "ShipVerif.Hub.settled_step", "ShipVerif.Hub.C10_task_guard", "ShipVerif.Hub.C10_dial_only_registered"],
    "C01": ["ShipVerif.Hub.C10_trust_sources", "ShipVerif.Hub.C10_unregister_effect", "ShipVerif.Hub.C10_cancel_effect"],
}
IMPORTS = ["ShipVerif.Props.HubProps", "ShipVerif.Props.C15", "ShipVerif.Props.C11Reg", "ShipVerif.Props.C10Dial", "ShipVerif.Props.C10Shut", "ShipVerif.Props.C11Life", "ShipVerif.Props.C05Hub"]
ENDED = {14, 15, 16, 17, 39}   # aborted or failed handshakes: the connection closes itself


def norm(hx):
    raw = bytes.fromhex(hx).decode("latin1")
    return raw.replace(" ", "").replace("-", "").lower().encode("latin1").hex()


def parse(line):
    """'<others> ; <pairings> | <rows>' -> (others list, pairings list, {key: {t,d,c,n,r}})"""
    left, _, rows = line.partition(" | ")
    others, _, pairs = left.partition(" ; ")
    r = {}
    for row in rows.split():
        k, _, rest = row.partition(":")
        r[k] = dict(x.split("=", 1) for x in rest.split(","))
    return others.split(), pairs.split(), r


def canon_line(line):
    others, pairs, rows = parse(line)
    return (sorted(others), sorted(pairs), sorted((k, tuple(sorted(v.items()))) for k, v in rows.items()))


def project(pid, line):
    others, pairs, rows = parse(line)
    if pid == "C10":
        return (sorted(o for o in others if o.split(":")[0] in ("dial", "close", "abort", "approve")),
                sorted((k, v.get("t"), v.get("n"), v.get("r")) for k, v in rows.items() if v.get("t") == "1" or v.get("n") != "-" or v.get("r") == "1"))
    if pid == "C01":
        return sorted((k, v.get("t")) for k, v in rows.items() if v.get("t") == "1")
    if pid == "C18":
        return (pairs, sorted((k, v.get("d")) for k, v in rows.items() if v.get("d") != "0"))
    if pid == "C05":
        return sorted((k, v.get("r"), v.get("n")) for k, v in rows.items() if v.get("r") == "1" or v.get("n") != "-")
    if pid == "C11":
        return (sorted(o for o in others if o.startswith("disc:")), sorted((k, v.get("c")) for k, v in rows.items() if v.get("c") != "-"))
    return canon_line(line)


def predicates(pid, ins, impl):
    """evaluate the property directly on the implementation trace; returns (violations, evaluations, shapes)"""
    bad, evals, shapes = [], 0, set()
    hist = []
    scn = -1
    intent, reg, st, lastp, shut = {}, {}, {}, {}, False
    trusted = {}
    for i, ev in enumerate(ins):
        if ev == "new":
            hist, intent, reg, st, lastp, shut = [], {}, {}, {}, {}, False
            trusted = {}
            scn += 1
            continue
        if i >= len(impl):
            break
        out = impl[i]
        hist.append(ev)
        if out.startswith("PANIC") or ev == "panic":
            bad.append({"scenario": scn, "history": list(hist), "why": "panic in the hub: " + out})
            continue
        w = ev.split()
        if w[0] == "cancelrace":
            # the registered connection reported hello-ok while the cancel was under way: the update, then the cancel
            if w[2] in reg:
                st[reg[w[2]]] = int(w[3])
            w = ["cancel", w[1]]
        others, pairs, rows = parse(out)
        evals += 1
        shapes.add(" ".join(h.split()[0] for h in hist[-3:]))
        for p in pairs:
            _, k, v = p.split(":")
            lastp[k] = v

        def fail(why):
            bad.append({"scenario": scn, "history": list(hist), "impl": out, "why": why})

        if w[0] == "burst":
            if pid == "C01":
                has13 = any(part.split(":")[0] == "13" for part in w[2].split(","))
                for kk in set(list(trusted) + list(rows)):
                    now = rows.get(kk, {}).get("t", "0") == "1"
                    if now and not trusted.get(kk, False) and not (has13 and kk == w[1]):
                        bad.append({"scenario": scn, "history": list(hist), "impl": out, "why": "the hub started to answer 'paired' for %s without registration or hello-ok" % kk})
                    trusted[kk] = now
            for part in w[2].split(","):
                stn = part.split(":")[0]
                if stn == "13":
                    intent[w[1]] = True
                if w[1] in reg:
                    st[reg[w[1]]] = int(stn)
            continue
        k = norm(w[1]) if w[0] in ("register", "unregister", "cancel", "disconnect", "pairingdetail", "lookup") else (w[1] if len(w) > 1 and w[0] in ("connected", "connupdate", "connclosed", "report") else None)
        # --- history facts before the event's effects
        if pid == "C10":
            for o in others:
                if o.startswith("dial:"):
                    dk = o.split(":")[1]
                    if shut:
                        fail("a connection to %s was initiated after Shutdown" % dk)
                    elif not intent.get(dk, False):
                        fail("a connection to %s was initiated although the user has not registered it (or has unregistered / cancelled it since)" % dk)
            if w[0] == "unregister":
                if k in reg and ("close:%d:1:4500" % reg[k]) not in others:
                    fail("UnregisterRemoteSKI did not close the registered connection %d of %s" % (reg[k], k))
                if rows.get(k, {}).get("t", "0") != "0":
                    fail("the SKI is still trusted after UnregisterRemoteSKI")
                if rows.get(k, {}).get("n", "-") != "-":
                    fail("the connection attempt counter survives UnregisterRemoteSKI: a sleeping dial task would still dial")
            if w[0] == "cancel":
                if k in reg:
                    cid = reg[k]
                    after = 15 if st.get(cid) in (8, 11) else st.get(cid)
                    if ("abort:%d" % cid) not in others:
                        fail("CancelPairingWithSKI did not abort the pending handshake of connection %d" % cid)
                    elif after not in ENDED and ("close:%d:0:4452" % cid) not in others:
                        fail("CancelPairingWithSKI left connection %d (handshake state %s, not ended) able to complete later" % (cid, after))
                if rows.get(k, {}).get("t", "0") != "0":
                    fail("the SKI is still trusted after CancelPairingWithSKI")
        if pid == "C01":
            # the answer the hub gives a connection that asks "is this SKI paired?" changes only with user intent or hello-ok
            for kk in set(list(trusted) + list(rows)):
                now = rows.get(kk, {}).get("t", "0") == "1"
                was = trusted.get(kk, False)
                if now and not was and not ((w[0] == "register" and k == kk) or (w[0] == "connupdate" and w[1] == kk and w[2] == "13")):
                    fail("the hub started to answer 'paired' for %s although the user did not register it and no connection of it reported hello-ok" % kk)
                if w[0] in ("unregister", "cancel") and k == kk and now:
                    fail("the hub still answers 'paired' for %s after %s" % (kk, w[0]))
                trusted[kk] = now
        if pid == "C11" and w[0] == "connclosed":
            cid = int(w[2])
            if others.count("disc:" + k) != 1:
                fail("HandleConnectionClosed reported %d disconnects" % others.count("disc:" + k))
            want = None if reg.get(k) == cid else reg.get(k)
            got = rows.get(k, {}).get("c", "-")
            if (str(want) if want is not None else "-") != got:
                fail("registry for %s holds %s after connection %d closed; connection %s was registered before" % (k, got, cid, reg.get(k)))
        if pid == "C05" and w[0] == "tick":
            # every sleeping connection attempt has had its turn (delays are 1-2 s, a tick is 2.2 s): none may still count
            # as running, or mDNS reports for that SKI are ignored from now on and the hub never dials it again
            for kk, v in rows.items():
                if v.get("r") == "1":
                    fail("after all sleeping connection attempts had their turn, an attempt for %s still counts as running: further mDNS reports for it are ignored, the hub will not dial it again" % kk)
        if pid == "C18":
            for o in others:
                if o.startswith("stale:"):
                    fail("a pairing notification for %s showed an older detail object after a newer one had been shown" % o.split(":")[1])
        if pid == "C18" and w[0] == "tick":
            for kk in set(list(lastp) + list(rows)):
                d = rows.get(kk, {}).get("d", "0")
                if kk in lastp:
                    if lastp[kk] != d:
                        fail("at quiescence the last ServicePairingDetailUpdate for %s showed state %s but the hub reports %s" % (kk, lastp[kk], d))
                elif d != "0":
                    fail("the pairing state of %s is %s but the application was never notified" % (kk, d))
        # --- update history facts
        if w[0] == "register":
            intent[k] = True
        elif w[0] in ("unregister", "cancel"):
            intent[k] = False
            if w[0] == "cancel" and k in reg and st.get(reg[k]) in (8, 11):
                st[reg[k]] = 15
        elif w[0] == "connupdate":
            if w[2] == "13":
                intent[k] = True
            if k in reg:
                st[reg[k]] = int(w[2])
        elif w[0] == "connected":
            reg[k] = int(w[2])
            st[int(w[2])] = int(w[3])
        elif w[0] == "connclosed":
            if reg.get(k) == int(w[2]):
                del reg[k]
        elif w[0] == "shutdown":
            shut = True
    return bad, evals, shapes


def run_engine(d, seed, n, events, canon=False, only=-1, slow=1):
    tag = ("c" if canon else "s") + ("r" if only >= 0 else "")
    fin, fimpl = os.path.join(d, "hub_in_%s.txt" % tag), os.path.join(d, "hub_impl_%s.txt" % tag)
    cmd = [C.HARNESS, "hubstep", "-seed", str(seed), "-n", str(n), "-events", str(events), "-workers", str(min(n, 150)), "-in", fin, "-impl", fimpl,
           "-only", str(only), "-slow", str(slow)]
    if canon:
        cmd.append("-canon")
    q = C.run(cmd, cwd=d, timeout=C.engine_timeout())
    if q.returncode != 0:
        return None, None, (q.stdout or "")[-2000:]
    return open(fin).read().splitlines(), open(fimpl).read().splitlines(), None


def run_model(d, fin):
    fmodel = os.path.join(d, "hub_model.txt")
    with open(fin) as f, open(fmodel, "w") as g:
        C.run([C.SHIPDRV, "hub"], stdin=f, stdout=g, check=False)
    return open(fmodel).read().splitlines()


def analyse(pid, d, seed, n, ev, only=-1, slow=1):
    """one engine run (+ model, + canonical twin for C15): returns dict with violations by class, each tagged with its scenario index"""
    out = {"bad": [], "diffs": [], "twin": [], "evals": 0, "shapes": set(), "samples": [], "scen": 0, "crash": None}
    ins, impl, e = run_engine(d, seed, n, ev, only=only, slow=slow)
    if ins is None:
        out["crash"] = e
        return out
    tag = "s" + ("r" if only >= 0 else "")
    model = run_model(d, os.path.join(d, "hub_in_%s.txt" % tag))
    b, evs, sh = predicates(pid, ins, impl)
    out["bad"] = [dict(x, seed=seed) for x in b]
    out["evals"] += evs
    out["shapes"] |= sh
    hist, scn = [], -1
    for i, a in enumerate(impl):
        if ins[i] == "new":
            hist = []
            scn += 1
            continue
        if len(hist) == 0:
            out["scen"] += 1
        hist.append(ins[i])
        m = model[i] if i < len(model) else "?"
        if project(pid, a) != project(pid, m):
            out["diffs"].append({"seed": seed, "scenario": scn, "history": list(hist), "impl": a, "model": m})
        if len(out["samples"]) < 3 and len(hist) == 6:
            out["samples"].append({"history": list(hist), "impl": a})
    if pid == "C15":
        ins2, impl2, e = run_engine(d, seed, n, ev, canon=True, only=only, slow=slow)
        if ins2 is None:
            out["crash"] = e
            return out
        hist, skip, scn = [], False, -1
        for i in range(min(len(ins), len(ins2))):
            if ins[i] == "new":
                hist, skip = [], False
                scn += 1
                continue
            if skip:
                continue
            hist.append(ins[i])
            w1, w2 = ins[i].split(), ins2[i].split()
            same_event = w1[0] == w2[0] and (w1[1:] == w2[1:] or (len(w1) > 1 and len(w2) > 1 and w1[0] in ("register", "unregister", "cancel", "cancelrace", "disconnect", "pairingdetail", "lookup") and norm(w1[1]) == w2[1]))
            if not same_event:
                skip = True     # generator followed a divergent state: reported at the first differing output
                continue
            out["evals"] += 1
            # the order of notifications within one line is C18's subject (and scheduler dependent when C18 fails): compare as multisets
            if canon_line(impl[i]) != canon_line(impl2[i]):
                out["twin"].append({"seed": seed, "scenario": scn, "history_with_formatted_skis": list(hist), "observed_with_formatted_skis": impl[i],
                                    "observed_with_canonical_skis": impl2[i],
                                    "why": "the same operation history has a different effect when SKIs are re-formatted (hex-encoded raw arguments; canonical form = lower case without spaces and dashes)"})
                skip = True
    return out


def confirm(pid, d, cls, cands, n, ev):
    """the lock-step engine reads asynchronous effects after a settling wait; a candidate counts only if the same
    scenario, re-run alone with four times longer waits, shows a violation of the same class again"""
    hk = "history_with_formatted_skis" if cls == "twin" else "history"
    seen, confirmed, tried = set(), [], 0
    for c in sorted(cands, key=lambda x: len(x[hk])):
        key = (c["seed"], c["scenario"])
        if key in seen:
            continue
        seen.add(key)
        if tried >= 4:
            break
        tried += 1
        r = analyse(pid, d, c["seed"], n, ev, only=c["scenario"], slow=4)
        again = [x for x in r[cls] if x["scenario"] == c["scenario"]]
        if again:
            confirmed.append(min(again, key=lambda x: len(x[hk])))
            break
    return confirmed, tried


def hub_part(R, pid, tier, seed):
    """runs proofs + engine for the hub half of `pid`; adds violations to R; returns a coverage dict"""
    obligations = THEOREMS[pid]
    changed, err = C.regen_facts()
    p = C.lake_build(["ShipVerif.Props.HubProps", "ShipVerif.Props.C15", "ShipVerif.Props.C11Reg", "ShipVerif.Props.C10Dial", "ShipVerif.Props.C10Shut", "ShipVerif.Props.C11Life", "ShipVerif.Props.C05Hub", "shipdrv"])
    lean_ok = p.returncode == 0 and not err
    aud = C.audit(pid + "hub", obligations, IMPORTS) if lean_ok else []
    forb = C.grep_forbidden()
    discharged = sum(1 for a in aud if a["ok"]) if lean_ok and not forb else 0
    cov = {"obligations": len(obligations), "discharged": discharged, "theorems": aud, "facts_changed": changed}
    hb = C.build_harness()
    if hb.returncode != 0:
        R.violation({"broken": "harness does not build against /repo", "detail": (hb.stdout or "")[-3000:]}, "build", no_input=True)
        return cov
    d = C.workdir(pid + "hub")
    runs = [(seed, 90, 14)] if tier == "quick" else [(seed + k, 400, 18) for k in range(3)]
    bad, diffs, twin = [], [], []
    total, shapes, samples, scen = 0, set(), [], 0
    unconfirmed = {}
    for s, n, ev in runs:
        r = analyse(pid, d, s, n, ev)
        if r["crash"]:
            R.violation({"property": pid, "kind": "harness hubstep crashed", "detail": r["crash"]}, "crash")
            continue
        total += r["evals"]
        shapes |= r["shapes"]
        scen += r["scen"]
        samples = samples or r["samples"]
        for cls, acc in (("twin", twin), ("bad", bad), ("diffs", diffs)):
            if r[cls] and not acc:
                got, tried = confirm(pid, d, cls, r[cls], n, ev)
                if got:
                    acc += [dict(got[0], first_run_count=len(r[cls]))]
                else:
                    unconfirmed[cls] = unconfirmed.get(cls, 0) + len(r[cls])
    if pid == "C11":
        # the registry under concurrency: a connection's end racing with the registration of its successor
        fout = os.path.join(d, "regrace_out.txt")
        nr, nslow = (60000, 60) if tier == "quick" else (600000, 400)
        q = C.run([C.HARNESS, "regrace", "-n", str(nr), "-slow", str(nslow), "-out", fout], cwd=d, timeout=C.engine_timeout())
        rl = open(fout).read().splitlines() if os.path.exists(fout) else []
        rbad = [l for l in rl if l.startswith("BAD")]
        summ = [l for l in rl if l.startswith("SUMMARY")]
        cov["registry_race"] = summ[0] if summ else "engine failed: " + (q.stdout or "")[-500:]
        if rbad or q.returncode != 0 or not summ:
            R.violation({"property": pid, "kind": "the end of a connection removed the registry entry of a newer connection to the same SKI",
                         "replay": "harness regrace -n %d -slow %d: HandleConnectionClosed(old) and registerConnection(new) released together on a real hub.Hub (plain), or the new connection registered while the application is inside RemoteSKIDisconnected (slow)" % (nr, nslow),
                         "first": rbad[:3], "summary": summ, "engine_output": (q.stdout or "")[-1500:] if q.returncode != 0 else ""}, "regrace")
    if twin:
        R.violation({"property": pid, "kind": "C15 violated on the real hub", "replay": "harness hubstep -seed <seed> -only <scenario> with and without -canon; arguments are hex of the raw SKI string",
                     "shortest": twin[0]}, "twin")
    elif bad:
        R.violation({"property": pid, "kind": "%s violated on the real hub" % pid, "replay": "harness hubstep -seed <seed> -only <scenario>: `history` applied to a hub.Hub with mock connections (connected/connupdate/burst/connclosed are the connection's callbacks; tick = 2.2 s pass)",
                     "shortest": bad[0]}, "hub")
    elif not lean_ok:
        R.violation({"property": pid, "broken": "lake build ShipVerif.Props.HubProps: proof obligation no longer checks", "facts_changed": changed,
                     "detail": ((p.stdout or "") + (err or ""))[-3000:]}, "hubproof", no_input=True)
    elif diffs:
        R.violation({"property": pid, "broken": "correspondence Hub.step (Lean) vs hub.Hub on the observations %s reads; the property held on every implementation trace explored" % pid,
                     "shortest": diffs[0]}, "hubcorr", no_input=True)
    if forb:
        R.violation({"broken": "forbidden construct in Lean sources", "hits": forb}, "audit", no_input=True)
    bad_ax = [a for a in aud if not a["ok"]]
    if lean_ok and bad_ax:
        R.violation({"broken": "axiom audit", "theorems": bad_ax}, "hubaxioms", no_input=True)
    cov.update({"hub_events": total, "hub_scenarios": scen, "hub_shapes": len(shapes), "hub_samples": samples,
                "timing_candidates_not_reproduced_with_longer_waits": unconfirmed})
    return cov


def check(pid, tier, seed):
    R = C.Result(pid, tier, seed)
    R.assumptions = [
        "connections are mock api.ShipConnectionInterface objects registered through the verif hook; what a real connection may report is constrained by the Conn theorems (C01, C04, C09, C11)",
        "mDNS is inert (reports are injected); dials go to harness TCP listeners that refuse the websocket upgrade, so every dial fails; a successful dial is the separate `connected` event",
        "hub operations are applied one at a time and settle before the next (races between hub API calls: see C20); dial tasks sleep 1-2 s (delay-range hook) and run during `tick`",
        "the model's dial is atomic with its guard checks; in the code the guard checks and the TCP connect are a few statements apart",
    ]
    cov = hub_part(R, pid, tier, seed)
    thcov = {}
    if pid in ("C18", "C10") or tier == "thorough":
        # end to end: real SHIP connections report their state changes to real hubs
        from . import twohubs
        thcov = twohubs.th_part(R, pid, tier, seed)
    if pid == "C18":
        # liveness of the notification queue: an update queued at the moment the delivery goroutine ends
        d = C.workdir("C18notify")
        fout = os.path.join(d, "notifystress_out.txt")
        runs = [(seed, 60000)] if tier == "quick" else [(seed + k, 400000) for k in range(3)]
        nops, nbad = 0, []
        for s, n in runs:
            q = C.run([C.HARNESS, "notifystress", "-seed", str(s), "-n", str(n), "-out", fout], cwd=d, timeout=C.engine_timeout())
            if q.returncode != 0:
                R.violation({"property": pid, "kind": "harness notifystress crashed", "detail": (q.stdout or "")[-2000:]}, "notifycrash")
                continue
            for l in open(fout).read().splitlines():
                if l.startswith("BAD"):
                    nbad.append({"seed": s, "n": n, "why": l[4:]})
                elif l.startswith("SUMMARY"):
                    nops += int(re.search(r"ops=(\d+)", l).group(1)) if not nbad else 0
        NT = ["ShipVerif.Notify.notifyCfg_is_fixed", "ShipVerif.Notify.inv_run", "ShipVerif.Notify.C18_queue_drained", "ShipVerif.Notify.C18_single_deliverer",
              "ShipVerif.Notify.C18_queue_drained_repo", "ShipVerif.Notify.C18_late_clear_loses_update"]
        pb = C.lake_build(["ShipVerif.Props.C18Notify"])
        n_ok = pb.returncode == 0
        naud = C.audit("C18notify", NT, ["ShipVerif.Props.C18Notify"]) if n_ok else []
        cov["obligations"] += len(NT)
        cov["discharged"] += sum(1 for a in naud if a["ok"]) if n_ok else 0
        cov["theorems"] = cov.get("theorems", []) + naud
        if not n_ok and not nbad:
            R.violation({"property": pid, "broken": "lake build ShipVerif.Props.C18Notify: the regenerated fact of hub/hub.go deliverPairingNotifications (the delivery-active mark is cleared in the critical section that finds the queue empty) no longer matches; C18_late_clear_loses_update is the schedule that then loses an update",
                         "detail": (pb.stdout or "")[-2000:]}, "notifyproof", no_input=True)
        if n_ok and [a for a in naud if not a["ok"]]:
            R.violation({"broken": "axiom audit", "theorems": [a for a in naud if not a["ok"]]}, "notifyaxioms", no_input=True)
        if nbad:
            R.violation({"property": pid, "kind": "a pairing-state update is never delivered: at a stable point the application's last notification differs from the state the hub reports",
                         "replay": "harness notifystress -seed <seed> -n <n>: a started hub without peers, RegisterRemoteSKI / CancelPairingWithSKI back to back, the application's callback busy for 0-3 us",
                         "count": len(nbad), "first": nbad[0]}, "notify")
        thcov["notification_liveness_operations"] = nops
    R.coverage = {
        "obligations": cov["obligations"], "discharged": cov["discharged"],
        "checker_cmd": "cd /verif/lean && lake build ShipVerif.Props.HubProps; lake env lean Audit.lean (#print axioms)",
        "trusted_base": C.TRUSTED_BASE + ["harness mock connection / inert mDNS / dial listeners; hand-written Hub model tied by lock-step correspondence only (no regenerated design facts beyond state-name, state-map and delay tables)"],
        "theorems": cov.get("theorems", []),
        "evaluations": cov.get("hub_events", 0),
        "distinct_nontrivial": cov.get("hub_shapes", 0),
        "rule": "one evaluation = one hub event (user operation with a randomly re-formatted SKI, mDNS report, connection callback, 2.2 s tick) applied to a real hub.Hub and to the Lean model, observations compared and the property predicate evaluated on the implementation's trace; for C15 also one event of the canonical-spelling twin run; distinct = distinct windows of three consecutive event kinds",
        "traces_validated_against_impl": cov.get("hub_scenarios", 0),
        "samples": cov.get("hub_samples", []),
        "facts_changed": cov.get("facts_changed", []),
        "timing_candidates_not_reproduced_with_longer_waits": cov.get("timing_candidates_not_reproduced_with_longer_waits", {}),
        **thcov,
    }
    return R.finish()
