"""Conn-model based checks: C01, C04, C06, C09, C11 (connection part).

Steps: regenerate facts -> lake build (re-proves the certificate against the regenerated tables; the
reachable set is recomputed by the untrusted driver when the tables changed) -> axiom audit -> build
the harness from /repo -> lock-step correspondence stepC vs ShipConnection -> the property's monitor is
evaluated on every implementation trace by the Lean driver."""
import os
import re

from . import common as C

THEOREMS = {
    "C01": ["ShipVerif.Conn.C01_trust_gate", "ShipVerif.Conn.cert_run", "ShipVerif.Conn.concrete_ok"],
    "C04": ["ShipVerif.Conn.C04_state_graph", "ShipVerif.Conn.spec_phase_order", "ShipVerif.Conn.cert_run",
            "ShipVerif.Conn.concrete_ok"],
    "C06": ["ShipVerif.Conn.C06_after_setup", "ShipVerif.Conn.cert_run", "ShipVerif.Conn.concrete_ok"],
    "C09": ["ShipVerif.Conn.C09_report_once", "ShipVerif.Conn.cert_run", "ShipVerif.Conn.concrete_ok"],
    "C11": ["ShipVerif.Conn.C11_closed_once", "ShipVerif.Conn.cert_run", "ShipVerif.Conn.concrete_ok"],
}

# observation tokens a property's monitor reads (projection used to decide whether a divergence between
# model and implementation touches the property)
PROJ = {
    "C01": (("S", "Q", "SETUP", "P:"), ()),
    "C04": (("S", "W:", "WSC", "CB"), ("t", "ws")),
    "C06": (("SETUP", "P:"), ("buf",)),
    "C09": (("S", "ID:", "SETUP"), ()),
    "C11": (("CB", "WSC"), ("ws",)),
}

SCENARIOS = {"quick": 4000, "thorough": 60000}


def project(pid, line):
    toks, keys = PROJ[pid]
    if line in ("new", "disabled", "bad-op"):
        return line
    obs, _, snap = line.partition("|")
    o = [t for t in obs.split() if t.startswith(toks)]
    # frame classes only (C04 reads the class, not the data)
    o = [t.split(":")[0] + ":" + t.split(":")[1].split(".")[0] + "." + ".".join(t.split(":")[1].split(".")[1:2]) if t.startswith("W:") else t for t in o]
    s = [t for t in snap.split() if t.split("=")[0] in keys]
    return " ".join(o) + " | " + " ".join(s)


def split_scenarios(lines):
    """-> list of (start_index, [lines])"""
    out, cur, start = [], None, 0
    for i, l in enumerate(lines):
        if l.startswith("new"):
            if cur is not None:
                out.append((start, cur))
            cur, start = [l], i
        elif cur is not None:
            cur.append(l)
    if cur is not None:
        out.append((start, cur))
    return out


def run_engine(pid, seed, n, events=30):
    d = C.workdir(pid)
    fin, fimpl, fmodel, fpred = [os.path.join(d, x) for x in ("conn_in.txt", "conn_impl.txt", "conn_model.txt", "conn_pred.txt")]
    p = C.run([C.HARNESS, "connstep", "-seed", str(seed), "-n", str(n), "-events", str(events), "-in", fin, "-impl", fimpl],
              cwd=d, timeout=C.engine_timeout())
    if p.returncode != 0:
        raise RuntimeError("harness connstep failed: " + (p.stdout or "")[-2000:])
    with open(fin) as f, open(fmodel, "w") as g:
        C.run([C.SHIPDRV, "conn"], stdin=f, stdout=g, check=True)
    ins = open(fin).read().splitlines()
    impl = open(fimpl).read().splitlines()
    model = open(fmodel).read().splitlines()
    # predicate input: E/O interleaved
    fpi = os.path.join(d, "conn_predin.txt")
    with open(fpi, "w") as g:
        for a, b in zip(ins, impl):
            if a.startswith("new"):
                g.write(a + "\n")
            else:
                g.write("E " + a + "\nO " + b + "\n")
    with open(fpi) as f, open(fpred, "w") as g:
        C.run([C.SHIPDRV, "connpred"], stdin=f, stdout=g, check=True)
    pred = open(fpred).read().splitlines()
    return ins, impl, model, pred


def analyse(pid, ins, impl, model, pred):
    """returns dict with counts, pred violations and divergences for this property"""
    res = {"events": 0, "scenarios": 0, "pred_viol": [], "diverge": [], "diverge_other": 0, "pairs": set(),
           "kinds": {}, "states": {}, "hang_panic": []}
    if len(model) != len(impl):
        res["diverge"].append({"scenario": -1, "reason": "model output length %d != implementation %d" % (len(model), len(impl))})
    sc_in = split_scenarios(ins)
    pi = 0  # index into pred lines (one per event line)
    for sidx, (start, lines) in enumerate(sc_in):
        res["scenarios"] += 1
        prev_state = "0"
        first_div = None
        first_viol = None
        why_viol = None
        expected, delivered = [], []   # C06 on data: payloads received / payloads handed to the reader, in order
        for k in range(1, len(lines)):
            i = start + k
            res["events"] += 1
            ev = lines[k].split()[0]
            res["kinds"][ev] = res["kinds"].get(ev, 0) + 1
            il = impl[i] if i < len(impl) else ""
            ml = model[i] if i < len(model) else ""
            m = re.search(r"st=(\d+)", il)
            st = m.group(1) if m else "?"
            cls = ev
            if ev == "msg":
                mm = re.search(r"dg=(\d) data=(\w+)\S* len3=\d close=(\w+)", lines[k])
                cls = "msg:%s:%s:%s" % (mm.group(1), mm.group(2), mm.group(3)) if mm else "msg"
            res["pairs"].add((prev_state, cls, st))
            res["states"][st] = res["states"].get(st, 0) + 1
            prev_state = st
            if "PANIC" in il or "HANG" in il:
                res["hang_panic"].append(sidx)
            pv = pred[pi] if pi < len(pred) else "ok"
            pi += 1
            if pv.startswith("viol") and pid in pv.split()[1].split(",") and first_viol is None:
                first_viol = k
            if pid == "C06" and first_viol is None:
                md = re.search(r" dg=1 data=ok:([0-9a-f]*)", lines[k]) if ev == "msg" else None
                if md:
                    expected.append(md.group(1))
                delivered += re.findall(r"(?:^| )P:([0-9a-f]*)", il.split(" | ")[0])
                if delivered != expected[:len(delivered)]:
                    first_viol = k
                    why_viol = "payloads handed to the reader %s are not a prefix of the valid payloads received %s (lost, duplicated, altered or reordered)" % (delivered[-3:], expected[:len(delivered)][-3:])
            if pid == "C09" and first_viol is None and ev == "msg":
                # data level: a stored SHIP id admits exactly that id
                hm = re.search(r"stored=([0-9a-f]*)", lines[0])
                am = re.search(r" acc=meth:id:([0-9a-f]*)", lines[k])
                obs = il.split(" | ")[0].split()
                if hm and hm.group(1) and am is not None and am.group(1) != hm.group(1) and ("SETUP" in obs or "S37" in obs or "S38" in obs):
                    first_viol = k
                    why_viol = "the application stored SHIP id %r for this SKI, the peer presented %r in its access methods, and the handshake went on to approval / set up the remote device" % (
                        bytes.fromhex(hm.group(1)).decode("latin1"), bytes.fromhex(am.group(1)).decode("latin1"))
            il_c = il.replace(" final=1", "")
            if il_c != ml and first_div is None:
                if project(pid, il_c) != project(pid, ml):
                    first_div = k
                else:
                    res["diverge_other"] += 1
        if first_viol is not None:
            res["pred_viol"].append({"scenario": sidx, "event": first_viol, "why": why_viol, "header": lines[0], "events": lines[1:first_viol + 1],
                                     "impl": impl[start + 1:start + first_viol + 1], "model": model[start + 1:start + first_viol + 1]})
        if first_div is not None:
            res["diverge"].append({"scenario": sidx, "event": first_div, "header": lines[0], "events": lines[1:first_div + 1],
                                   "impl": impl[start + 1:start + first_div + 1], "model": model[start + 1:start + first_div + 1]})
    return res


PIPE_THEOREMS = ["ShipVerif.Pipe.C06_no_duplicates", "ShipVerif.Pipe.fresh_run", "ShipVerif.Pipe.C06_in_order_no_invention", "ShipVerif.Pipe.C06_nothing_lost_while_open", "ShipVerif.Pipe.C06_exactly_once_when_drained",
                 "ShipVerif.Pipe.C06_not_before_setup", "ShipVerif.Pipe.pinv_run", "ShipVerif.Pipe.pipeCfg_is_fixed", "ShipVerif.Pipe.C06_async_flush_reorders",
                 "ShipVerif.Ws.C12_write_waits", "ShipVerif.Ws.wsCfg_is_fixed"]


def pipe_part(R, tier, seed):
    """C06 end to end: Pipe model theorems (two Ws endpoints + the receiving SHIP layer, all schedules) and the datapipe engine"""
    p = C.lake_build(["ShipVerif.Props.C06Pipe", "ShipVerif.Props.C06Once"])
    lean_ok = p.returncode == 0
    aud = C.audit("C06pipe", PIPE_THEOREMS, ["ShipVerif.Props.C06Pipe", "ShipVerif.Props.C06Once"]) if lean_ok else []
    cov = {"obligations": len(PIPE_THEOREMS), "discharged": sum(1 for a in aud if a["ok"]) if lean_ok else 0, "theorems": aud}
    d = C.workdir("C06pipe")
    runs = [(seed, 24)] if tier == "quick" else [(seed + k, 120) for k in range(3)]
    scen, bad, samples = 0, [], []
    for s, n in runs:
        fout = os.path.join(d, "datapipe_out.txt")
        q = C.run([C.HARNESS, "datapipe", "-seed", str(s), "-n", str(n), "-out", fout], cwd=d, timeout=C.engine_timeout())
        if q.returncode != 0:
            R.violation({"property": "C06", "kind": "harness datapipe crashed (a panic in a library goroutine ends the process)", "detail": (q.stdout or "")[-3000:]}, "pipecrash")
            continue
        by = {}
        for l in open(fout).read().splitlines():
            w = l.split(" ", 2)
            if w[0] == "S":
                scen += 1
                by[int(w[1])] = w[2]
                if len(samples) < 3:
                    samples.append(w[2])
            elif w[0] == "BAD":
                bad.append({"seed": s, "scenario": int(w[1]), "n": n, "why": w[2], "setting": by.get(int(w[1]), "")})
    if bad:
        R.violation({"property": "C06", "kind": "datagrams handed to an open connection did not reach the peer's reader exactly once and in order",
                     "replay": "harness datapipe -seed <seed> -n <n> -only <scenario>: two real SHIP connections over loopback websockets; `setting` = counts x payload padding per direction, application stalls, path stall, ending",
                     "count": len(bad), "first": bad[:3]}, "pipe")
    elif not lean_ok:
        R.violation({"property": "C06", "broken": "lake build ShipVerif.Props.C06Pipe: a proof obligation of the end-to-end pipeline no longer checks (design facts of ws/websocket.go and ship/handshake.go are re-read on every run)",
                     "detail": (p.stdout or "")[-3000:]}, "pipeproof", no_input=True)
    bad_ax = [a for a in aud if not a["ok"]]
    if lean_ok and bad_ax:
        R.violation({"broken": "axiom audit", "theorems": bad_ax}, "pipeaxioms", no_input=True)
    cov.update({"pipe_scenarios": scen, "pipe_samples": samples})
    return cov


RACE_THEOREMS = ["ShipVerif.Race.raceCfg_stable", "ShipVerif.Race.raceCfg_recognised", "ShipVerif.Race.C04_call_in_window_refused",
                 "ShipVerif.Race.C04_abort_not_revived", "ShipVerif.Race.C04_abort_not_revived_repo", "ShipVerif.Race.C01_no_progress_after_abort",
                 "ShipVerif.Race.C04_abort_in_window_is_revived",
                 "ShipVerif.Inter.entering_links", "ShipVerif.Inter.readyInit_sites_fixed", "ShipVerif.Inter.inv_run",
                 "ShipVerif.Inter.C01_trust_gate_interleaved", "ShipVerif.Inter.C01_no_grant_no_progress",
                 "ShipVerif.Inter.C04_outcome_not_final_interleaved"]


def race_facts():
    t = open(os.path.join(C.LEAN, "ShipVerif", "Generated", "RaceFacts.lean")).read()
    nums = lambda name: [int(x) for x in re.findall(r"\d+", re.search(name + r" := \[(.*?)\]", t, re.S).group(1))]
    w = re.search(r"windows := \[(.*?)\],\n", t, re.S).group(1)
    return {"windows": set((int(a), int(b)) for a, b in re.findall(r"\((\d+), (\d+)\)", w)), "abort": nums("abortStates"), "approve": nums("approveStates")}


def race_corr(line, facts):
    """one gate scenario against Model/Race.lean: the call reports states iff it found a state it acts in (`accepts`), and
    the (state in force during the write, first state assigned after it) pair is one of the regenerated windows"""
    toks = line.split(" | ", 1)[1].split()
    if not any(t.startswith("PARK:") for t in toks):
        return None
    i = next(k for k, t in enumerate(toks) if t.startswith("PARK:"))
    park = int(toks[i][5:])
    j = next((k for k in range(i, len(toks)) if toks[k].startswith("EV:user:")), None)
    r = next((k for k in range(i, len(toks)) if toks[k] == "EV:released"), None)
    if j is None or r is None:
        return None
    op = toks[j][8:].replace("(still-running)", "")
    st = lambda ts: [int(re.sub(r"\D", "", t)) for t in ts if re.fullmatch(r"S\d+e?", t)]
    eff = st(toks[j + 1:r])
    nxt = len(toks)
    for k in range(r + 1, len(toks)):
        if toks[k].startswith("EV:"):
            nxt = k
            break
    post = st(toks[r + 1:nxt])
    out = {"park": park, "op": op, "effect": eff, "post": post[:1]}
    if op in ("abort", "approve"):
        acc = park in facts[op]
        if acc != bool(eff):
            out["mismatch"] = "the call %s found state %d: Model/Race.lean `accepts` says %s, the implementation reported %s" % (op, park, acc, eff)
        elif not eff and post and (park, post[0]) not in facts["windows"]:
            out["mismatch"] = "the handler assigned state %d after a write made in state %d: not among the regenerated windows" % (post[0], park)
    return out


def race_part(R, pid, tier, seed):
    """C01 / C04 with two goroutines: a user call (approve, abort, close, connection error) runs while a message handler
    is blocked inside a transport write; the order-independent parts of the property are evaluated on the observations"""
    p = C.lake_build(["ShipVerif.Props.C04Race", "ShipVerif.Props.C01Inter"])
    lean_ok = p.returncode == 0
    aud = C.audit(pid + "race", RACE_THEOREMS, ["ShipVerif.Props.C04Race", "ShipVerif.Props.C01Inter"]) if lean_ok else []
    facts = race_facts()
    mism, parks = [], {}
    d = C.workdir(pid + "race")
    runs = [(seed, 3000)] if tier == "quick" else [(seed + k, 8000) for k in range(4)]
    scen, raced, bad, ops, sched, obs = 0, 0, [], {}, 0, {}
    for s, n in runs:
        fout = os.path.join(d, "userrace_out.txt")
        q = C.run([C.HARNESS, "userrace", "-seed", str(s), "-n", str(n), "-out", fout], cwd=d, timeout=C.engine_timeout())
        if q.returncode != 0:
            R.violation({"property": pid, "kind": "harness userrace crashed (a panic in a library goroutine ends the process)", "detail": (q.stdout or "")[-3000:]}, "racecrash")
            continue
        by = {}
        for l in open(fout).read().splitlines():
            w = l.split(" ", 2)
            if w[0] == "S":
                scen += 1
                by[int(w[1])] = w[2]
                rc = race_corr(w[2], facts) if not w[2].startswith("sched ") else None
                if rc:
                    k = "%s@%d:%s" % (rc["op"], rc["park"], "acts" if rc["effect"] else "refused")
                    parks[k] = parks.get(k, 0) + 1
                    if "mismatch" in rc:
                        mism.append(dict(rc, seed=s, scenario=int(w[1]), observations=w[2]))
                if w[2].startswith("sched ") and "EV:sched@" in w[2]:
                    sched += 1
                if "(blocked-in-write)" in w[2]:
                    raced += 1
                    m = re.search(r"race=(\w+)@", w[2])
                    if m:
                        ops[m.group(1)] = ops.get(m.group(1), 0) + 1
            elif w[0] == "OBS":
                k = re.sub(r"\d+", "N", w[2].split(";")[0].split("(")[0]).strip()
                obs[k] = obs.get(k, 0) + 1
            elif w[0] == "BAD" and w[2].startswith(pid + " "):
                bad.append({"seed": s, "scenario": int(w[1]), "n": n, "why": w[2], "observations": by.get(int(w[1]), "")})
    if bad:
        v = min(bad, key=lambda x: len(x["observations"]))
        R.violation({"property": pid, "kind": "a user call that ran while a message handler was inside a transport write leaves the connection in a history the property forbids",
                     "replay": "harness userrace -seed <seed> -n <n>, scenario <scenario>: one real ShipConnection; `observations` is the linearised record (EV:msg@<state>(blocked-in-write) = the handler is held in its write, EV:user:<call> = the call made meanwhile, EV:released = the write returns)",
                     "count": len(bad), "first": v}, "userrace")
    elif not lean_ok:
        R.violation({"property": pid, "broken": "lake build ShipVerif.Props.C04Race / C01Inter: an obligation on the regenerated facts no longer checks - `stable` of ship/hs_*.go and ship/connection.go (no user call acts in a state that is in force during a handler's write followed by the assignment of a progress state) or `readyInit_sites_fixed` (the ready branch of hello is entered only under the trust condition of the dispatch and by ApprovePendingHandshake)",
                     "facts": {"windows": sorted(facts["windows"]), "abortStates": facts["abort"], "approveStates": facts["approve"]},
                     "detail": (p.stdout or "")[-2500:]}, "raceproof", no_input=True)
    elif mism:
        R.violation({"property": pid, "broken": "correspondence Model/Race.lean vs ship.ShipConnection (a user call inside a handler's write)", "count": len(mism), "first": mism[0]}, "racecorr", no_input=True)
    bad_ax = [a for a in aud if not a["ok"]]
    if lean_ok and bad_ax:
        R.violation({"broken": "axiom audit", "theorems": bad_ax}, "raceaxioms", no_input=True)
    return {"obligations": len(RACE_THEOREMS), "discharged": sum(1 for a in aud if a["ok"]) if lean_ok else 0, "theorems": aud,
            "race_calls_by_state_in_force": parks, "race_scenarios": scen, "race_scenarios_with_call_inside_write": raced, "race_user_calls": ops,
            "serial_scheduler_scenarios": sched,
            "observations_outside_the_quantifier": {"note": "C04 conditions under the serial scheduler (two or three activities of one connection interleaved at writes and state reports); C04 is stated over sequences of events, these are reported and not judged", "counts": obs}}


def check(pid, tier, seed):
    R = C.Result(pid, tier, seed)
    R.assumptions = [
        "the theorems apply the events of one connection one at a time; a user call racing a message handler on another goroutine is explored by the userrace engine only (calls placed inside a blocked transport write, judged by the order-independent parts of the property), not proved",
        "no message is delivered and no error reported after the data connection is closed (discharged by C13)",
        "user calls reach a connection only while it is registered in the hub (hub routing)",
        "encoding/json turns bytes into the structs the handlers inspect (the harness computes the views with the repository's own structs)",
    ]
    obligations = THEOREMS[pid]
    # 1. facts + proofs
    changed, err = C.regen_facts()
    if err:
        R.violation({"broken": "facts extractor failed on /repo", "detail": err[-2000:]}, "extract", no_input=True)
    build_targets = ["ShipVerif.Props.ConnProps", "shipdrv"]
    if "Facts.lean" in changed:
        C.log("facts changed: recomputing the reachable set")
        C.regen_conn_reach()
    p = C.lake_build(build_targets)
    lean_ok = p.returncode == 0
    if not lean_ok:
        # maybe only the generated reachable set is stale (model tables changed): recompute once
        C.regen_conn_reach()
        p = C.lake_build(build_targets)
        lean_ok = p.returncode == 0
    aud = C.audit(pid, obligations, ["ShipVerif.Props.ConnProps"]) if lean_ok else []
    forb = C.grep_forbidden()
    discharged = sum(1 for a in aud if a["ok"]) if lean_ok and not forb else 0
    # 2. implementation side
    hb = C.build_harness()
    if hb.returncode != 0:
        R.violation({"broken": "harness does not build against /repo", "detail": (hb.stdout or "")[-3000:]}, "build", no_input=True)
        R.coverage = {"obligations": len(obligations), "discharged": discharged, "checker_cmd": "lake build ShipVerif", "trusted_base": C.TRUSTED_BASE}
        return R.finish()
    n = SCENARIOS[tier]
    seeds = [seed] if tier == "quick" else [seed, seed + 1, seed + 2]
    tot = {"events": 0, "scenarios": 0, "pairs": set(), "kinds": {}, "states": {}, "diverge_other": 0}
    pred_viol, diverge, hang = [], [], []
    samples = []
    for s in seeds:
        ins, impl, model, pred = run_engine(pid, s, n)
        a = analyse(pid, ins, impl, model, pred)
        tot["events"] += a["events"]
        tot["scenarios"] += a["scenarios"]
        tot["pairs"] |= a["pairs"]
        tot["diverge_other"] += a["diverge_other"]
        for k, v in a["kinds"].items():
            tot["kinds"][k] = tot["kinds"].get(k, 0) + v
        for k, v in a["states"].items():
            tot["states"][k] = tot["states"].get(k, 0) + v
        pred_viol += [dict(x, seed=s) for x in a["pred_viol"]]
        diverge += [dict(x, seed=s) for x in a["diverge"]]
        hang += a["hang_panic"]
        if not samples:
            sc = split_scenarios(ins)
            for start, lines in sc[:2]:
                samples.append({"scenario": lines[0], "events": [l[:160] for l in lines[1:6]], "impl": impl[start + 1:start + 6]})
    # 3. verdict
    if pred_viol:
        v = min(pred_viol, key=lambda x: len(x["events"]))
        R.violation({"property": pid, "kind": "monitor P_%s fails on an implementation trace" % pid,
                     "replay": "feed `events` to harness connstep (one ShipConnection, see header); `impl` is what the code did",
                     **v, "count": len(pred_viol)}, "trace")
    elif not lean_ok:
        R.violation({"property": pid, "broken": "lake build: a proof obligation of the Conn certificate no longer checks",
                     "theorems": obligations, "detail": (p.stdout or "")[-3000:]}, "proof", no_input=True)
    elif diverge:
        v = min(diverge, key=lambda x: len(x.get("events", [])))
        R.violation({"property": pid, "broken": "correspondence stepC (Lean model) vs ship.ShipConnection on the observations P_%s reads" % pid,
                     "note": "P_%s held on all %d implementation traces explored" % (pid, tot["scenarios"]),
                     **v, "count": len(diverge)}, "corr", no_input=True)
    if forb:
        R.violation({"broken": "forbidden construct in Lean sources", "hits": forb}, "audit", no_input=True)
    bad_ax = [a for a in aud if not a["ok"]]
    if lean_ok and bad_ax:
        R.violation({"broken": "axiom audit", "theorems": bad_ax}, "axioms", no_input=True)
    hubcov = None
    if pid in ("C11", "C01"):
        from . import hubprop
        hubcov = hubprop.hub_part(R, pid, tier, seed)
    if pid == "C11":
        # the application's setup / disconnect notifications against the registry, on two real hubs (double connections,
        # silent partitions, restarts)
        from . import twohubs
        hubcov.update(twohubs.th_part(R, pid, tier, seed))
    racecov = None
    if pid in ("C01", "C04"):
        racecov = race_part(R, pid, tier, seed)
    pipecov = None
    if pid == "C06":
        pipecov = pipe_part(R, tier, seed)
    if pid == "C09":
        # the stored SHIP id reaches the connection through the hub (ServeHTTP / connectFoundService): two real hubs
        from . import twohubs
        hubcov = dict(twohubs.th_part(R, pid, tier, seed), obligations=0, discharged=0)
    R.coverage = {
        "obligations": len(obligations) + (hubcov["obligations"] if hubcov else 0) + (pipecov["obligations"] if pipecov else 0) + (racecov["obligations"] if racecov else 0),
        "discharged": discharged + (hubcov["discharged"] if hubcov else 0) + (pipecov["discharged"] if pipecov else 0) + (racecov["discharged"] if racecov else 0),
        "hub_part": hubcov,
        "end_to_end": pipecov,
        "user_call_races": racecov,
        "checker_cmd": "cd /verif/lean && lake build ShipVerif  (certificate shards by `decide +kernel`); lake env lean Audit.lean (#print axioms)",
        "trusted_base": C.TRUSTED_BASE,
        "theorems": aud,
        "evaluations": tot["events"],
        "distinct_nontrivial": len([p for p in tot["pairs"] if p[0] != "0"]),
        "rule": "one evaluation = one event applied in lock-step to ship.ShipConnection and to the Lean model stepC; distinct = distinct (state before, event class, state after) triples beyond the initial state",
        "traces_validated_against_impl": tot["scenarios"],
        "samples": samples,
        "event_kinds": tot["kinds"],
        "states_visited": tot["states"],
        "divergences_outside_property_alphabet": tot["diverge_other"],
        "hang_or_panic_scenarios": len(hang),
        "facts_changed": changed,
    }
    return R.finish()
