"""C08: no peer-controlled input crashes or wedges the process. Lean: Props/C08 - every partial operation the
type-checked inventory finds in packages ship, ws, mdns, util, hub (regenerated on every run) is justified by a
dominating condition (soundness of that decision proved for all values) or by a listed waiver, and no sync.Once
body re-enters its once. Engines (search + correspondence): connstep -fuzz (structured mutations and arbitrary
bytes in every handshake state, both roles, lock-step with the Conn model; panics and handlers that do not
return are caught per event), wsfuzz (arbitrary websocket frames against a real WebsocketConnection), mdnsfuzz
(arbitrary TXT records, hosts, addresses and ports through the real TXT parser and resolver callback)."""
import os
import re

from . import common as C
from . import conn as CONN

THEOREMS = ["ShipVerif.Panic.all_sites_justified", "ShipVerif.Panic.once_bodies_reentry_free", "ShipVerif.Panic.C08_guarded_sites_safe",
            "ShipVerif.Panic.below_sound", "ShipVerif.Panic.atMost_sound",
            "ShipVerif.LockOrder.lockOrder_ranked", "ShipVerif.LockOrder.C08_no_lock_cycle", "ShipVerif.LockOrder.no_deadlock"]


def unjustified():
    """ask Lean which sites are not justified (for the replay file)"""
    src = os.path.join(C.workdir("C08"), "unjust.lean")
    with open(src, "w") as f:
        f.write("import ShipVerif.Generated.PanicFacts\nopen ShipVerif.Panic\n"
                "#eval (ShipVerif.Generated.panicSites.filter (fun s => !s.justified)).map (fun s => (s.pkg, s.fn, s.text))\n"
                "#eval (ShipVerif.Generated.onceBodies.filter (fun b => !b.reentryFree)).map (fun b => (b.pkg, b.fn, b.once))\n")
    C.lake_build(["ShipVerif.Generated.PanicFacts"])
    p = C.run(["lake", "env", "lean", src], cwd=C.LEAN)
    return (p.stdout or "")[-3000:]


def lock_cycle():
    """nodes the extractor could not rank: they lie on a cycle of the (held, wanted) relation - a possible wedge"""
    try:
        t = open(os.path.join(C.LEAN, "ShipVerif", "Generated", "OrderFacts.lean")).read()
        m = re.search(r"def lockCycle : List String := \[(.*)\]", t)
        nodes = re.findall(r'"([^"]*)"', m.group(1)) if m else []
        edges = [e for e in re.findall(r'\("([^"]*)", "([^"]*)", "([^"]*)"\)', t) if e[0] in nodes and e[1] in nodes]
        return {"nodes": nodes, "edges_among_them (held, wanted, function)": edges}
    except OSError:
        return {}


def check(pid, tier, seed):
    R = C.Result(pid, tier, seed)
    R.assumptions = [
        "lock order: the (held, wanted) pairs are computed per package with may-hold sets (sync.Once, channel closes and channel receives included as resources); calls through interfaces into other packages are not followed",
        "the inventory lists explicit partial operations (index, slice, *p, field access through a pointer-typed field or element, x.(T), integer / and %, channel send and close, writes to maps held in fields, panic calls); nil receivers, nil locals and panics inside dependencies (gorilla/websocket, encoding/json, go-avahi, zeroconf) are covered by the engines only",
        "waived sites rest on the named theorem or source fact (Model/Panic.lean `waivers`), not on a dominating condition",
        "a handler that does not return within 5 s counts as wedged",
    ]
    changed, err = C.regen_facts(sites=True)
    p = C.lake_build(["ShipVerif.Props.C08", "ShipVerif.Props.C08Order", "ShipVerif.Props.ConnProps", "shipdrv"])
    lean_ok = p.returncode == 0 and not err
    aud = C.audit(pid, THEOREMS, ["ShipVerif.Props.C08", "ShipVerif.Props.C08Order"]) if lean_ok else []
    forb = C.grep_forbidden()
    discharged = sum(1 for a in aud if a["ok"]) if lean_ok and not forb else 0
    hb = C.build_harness()
    if hb.returncode != 0:
        R.violation({"broken": "harness does not build against /repo", "detail": (hb.stdout or "")[-3000:]}, "build", no_input=True)
        R.coverage = {"obligations": len(THEOREMS), "discharged": discharged, "checker_cmd": "lake build ShipVerif.Props.C08", "trusted_base": C.TRUSTED_BASE}
        return R.finish()
    d = C.workdir(pid)
    found = []          # concrete failing inputs
    diverge = []
    cov = {}
    # --- SHIP messages in every state, both roles
    n = 2500 if tier == "quick" else 20000
    seeds = [seed] if tier == "quick" else [seed, seed + 1]
    ev_total, garbage_by_state, scen = 0, {}, 0
    for s in seeds:
        fin, fimpl, fmodel = [os.path.join(d, x) for x in ("conn_in.txt", "conn_impl.txt", "conn_model.txt")]
        q = C.run([C.HARNESS, "connstep", "-seed", str(s), "-n", str(n), "-events", "30", "-fuzz", "-in", fin, "-impl", fimpl], cwd=d, timeout=C.engine_timeout())
        if q.returncode != 0:
            found.append({"engine": "connstep -fuzz", "seed": s, "why": "the process died (panic outside a handler call?)", "detail": (q.stdout or "")[-3000:]})
            continue
        with open(fin) as f, open(fmodel, "w") as g:
            C.run([C.SHIPDRV, "conn"], stdin=f, stdout=g, check=False)
        ins, impl, model = [open(x).read().splitlines() for x in (fin, fimpl, fmodel)]
        hist, header, st = [], "", "0"
        for i, a in enumerate(impl):
            if ins[i].startswith("new"):
                hist, header, st = [], ins[i], "0"
                scen += 1
                continue
            hist.append(ins[i])
            ev_total += 1
            if ins[i].startswith("msg ") and ("hello=err" in ins[i] or "init=bad" in ins[i]):
                garbage_by_state[st] = garbage_by_state.get(st, 0) + 1
            if "PANIC" in a or "HANG" in a:
                m = re.search(r"PANIC:([0-9a-f]*)", a)
                found.append({"engine": "connstep -fuzz", "seed": s, "scenario": header, "history": [h[:400] for h in hist],
                              "why": ("panic: " + bytes.fromhex(m.group(1)).decode("utf8", "replace")) if m else "the handler did not return within 5 s", "impl": a[:400]})
            else:
                mm = model[i] if i < len(model) else "?"
                if a.replace(" final=1", "") != mm.replace(" final=1", "") and len(diverge) < 50:
                    diverge.append({"seed": s, "scenario": header, "history": [h[:300] for h in hist], "impl": a[:400], "model": mm[:400]})
            m = re.search(r"st=(\d+)", a)
            if m:
                st = m.group(1)
    cov["ship_events"] = ev_total
    cov["ship_scenarios"] = scen
    cov["malformed_messages_by_state_delivered_in"] = dict(sorted(garbage_by_state.items(), key=lambda x: int(x[0])))
    # --- websocket frames
    wn = 400 if tier == "quick" else 4000
    fout, flog = os.path.join(d, "wsfuzz.txt"), os.path.join(d, "wsfuzz_log.txt")
    q = C.run([C.HARNESS, "wsfuzz", "-seed", str(seed), "-n", str(wn), "-out", fout, "-log", flog], cwd=d, timeout=C.engine_timeout())
    if q.returncode != 0:
        last = open(flog).read().splitlines()[-3:] if os.path.exists(flog) else []
        found.append({"engine": "wsfuzz", "seed": seed, "why": "the process died while reading frames", "last_inputs": last, "detail": (q.stdout or "")[-3000:]})
    else:
        lines = open(fout).read().splitlines()
        cov["ws"] = lines[0] if lines else ""
        cov["ws_frame_kinds"] = {l.split()[1]: int(l.split()[2]) for l in lines if l.startswith("kind ")}
        for l in lines:
            if l.startswith("BAD"):
                found.append({"engine": "wsfuzz", "seed": seed, "why": l[4:], "replay": "harness wsfuzz -seed %d -n %d; the frames of the trial are in wsfuzz_log.txt" % (seed, wn)})
    # --- a peer that stops reading while the connection is closed with a reason (a handler does that on malformed input):
    #     the close, the pumps and the writers have to come back
    fout = os.path.join(d, "wsstall.txt")
    q = C.run([C.HARNESS, "wsstress", "-seed", str(seed), "-n", "10" if tier == "quick" else "60", "-stallonly", "-out", fout], cwd=d, timeout=C.engine_timeout())
    if q.returncode != 0:
        found.append({"engine": "wsstress -stallonly", "seed": seed, "why": "the process died", "detail": (q.stdout or "")[-3000:]})
    else:
        stalls = open(fout).read().splitlines()
        cov["ws_stalled_peer_trials"] = len(stalls)
        for l in stalls:
            if l.startswith("BAD") and ("did not return" in l or "still alive" in l):
                found.append({"engine": "wsstress -stallonly", "seed": seed, "why": "a peer that stops reading wedges the connection: " + l[:600],
                              "replay": "harness wsstress -seed %d -n 10 -stallonly" % seed})
    # --- user calls made while a message handler of the same connection is held inside a transport write
    fout = os.path.join(d, "userrace.txt")
    un = 1500 if tier == "quick" else 12000
    q = C.run([C.HARNESS, "userrace", "-seed", str(seed), "-n", str(un), "-out", fout], cwd=d, timeout=C.engine_timeout())
    if q.returncode != 0:
        found.append({"engine": "userrace", "seed": seed, "why": "the process died", "detail": (q.stdout or "")[-3000:]})
    else:
        ls = open(fout).read().splitlines()
        cov["user_call_race_scenarios"] = sum(1 for l in ls if l.startswith("S "))
        for l in ls:
            if l.startswith("BAD") and l.split(" ", 2)[2].startswith("C08 "):
                found.append({"engine": "userrace", "seed": seed, "why": l.split(" ", 2)[2], "replay": "harness userrace -seed %d -n %d, scenario %s" % (seed, un, l.split()[1])})
    # --- mDNS callbacks
    mn = 20000 if tier == "quick" else 300000
    fout, flog = os.path.join(d, "mdnsfuzz.txt"), os.path.join(d, "mdnsfuzz_log.txt")
    q = C.run([C.HARNESS, "mdnsfuzz", "-seed", str(seed), "-n", str(mn), "-out", fout, "-log", flog], cwd=d, timeout=C.engine_timeout())
    if q.returncode != 0:
        last = open(flog, errors="replace").read().splitlines()[-2:] if os.path.exists(flog) else []
        found.append({"engine": "mdnsfuzz", "seed": seed, "why": "the process died in the TXT parser or resolver callback", "last_inputs": [x[:1000] for x in last], "detail": (q.stdout or "")[-3000:]})
    else:
        lines = open(fout, errors="replace").read().splitlines()
        cov["mdns"] = lines[0] if lines else ""
        for l in lines:
            if l.startswith("BAD"):
                found.append({"engine": "mdnsfuzz", "seed": seed, "why": l[4:1000]})
    # --- verdict
    if found:
        R.violation({"property": pid, "kind": "peer-controlled input crashes or wedges the real code", "count": len(found), "first": found[0], "others": [f["why"][:200] for f in found[1:10]]}, "input")
    elif not lean_ok:
        R.violation({"property": pid, "broken": "lake build ShipVerif.Props.C08: the inventory of partial operations regenerated from /repo is no longer justified (or the facts extractor failed); the engines found no failing input",
                     "unjustified_sites_and_once_bodies": unjustified() if not err else "", "lock_order_cycle": lock_cycle(), "facts_changed": changed, "detail": ((p.stdout or "") + (err or ""))[-2500:]}, "proof", no_input=True)
    elif diverge:
        v = min(diverge, key=lambda x: len(x["history"]))
        R.violation({"property": pid, "broken": "correspondence stepC (Lean) vs ship.ShipConnection under malformed input; no crash and no wedge on any input explored",
                     "count": len(diverge), "shortest": v}, "corr", no_input=True)
    if forb:
        R.violation({"broken": "forbidden construct in Lean sources", "hits": forb}, "audit", no_input=True)
    bad_ax = [a for a in aud if not a["ok"]]
    if lean_ok and bad_ax:
        R.violation({"broken": "axiom audit", "theorems": bad_ax}, "axioms", no_input=True)
    R.coverage = {
        "obligations": len(THEOREMS), "discharged": discharged,
        "checker_cmd": "cd /verif/lean && lake build ShipVerif.Props.C08 (inventory regenerated by /verif/extract -sites); lake env lean Audit.lean (#print axioms)",
        "trusted_base": C.TRUSTED_BASE + ["the site inventory of /verif/extract/sites.go (go/types with the source importer): which operations it lists, the dominating conditions it computes (enclosing conditions, && / || operands, early exits, range loops; invalidated by assignments) and their encoding", "the waiver table in Model/Panic.lean"],
        "theorems": aud,
        "evaluations": ev_total + sum(cov.get("ws_frame_kinds", {}).values()) + mn,
        "distinct_nontrivial": len(garbage_by_state) + len(cov.get("ws_frame_kinds", {})),
        "rule": "one evaluation = one SHIP event applied to ship.ShipConnection and the Lean model in lock-step (malformed and out-of-phase messages dominate), one websocket frame sent to a real WebsocketConnection, or one resolver callback on a real MdnsManager; distinct = handshake states that received malformed input + websocket frame kinds",
        "facts_changed": changed,
        **cov,
    }
    return R.finish()
