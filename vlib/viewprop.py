"""C17: visible-services view. Lean: Props/C17 (well-formedness invariant, refinement of the entry map to a
set specification for all event lists; report delivery under all goroutine schedules, parameterised by a
design fact re-read from mdns/mdns.go). Tie: engine mdnsview (lock-step through the resolver hook +
ordering bursts on a real manager)."""
import os

from . import common as C

THEOREMS = ["ShipVerif.View.C17_view_refines_spec", "ShipVerif.View.C17_wellformed", "ShipVerif.Async.C17_reports_converge",
            "ShipVerif.Async.guardedCfg", "ShipVerif.Async.C17_pinned_reports_reorder"]


def check(pid, tier, seed):
    R = C.Result(pid, tier, seed)
    R.assumptions = [
        "TXT validation is C16's entryOf; here an event carries only whether its record is valid and whether it announces the local SKI",
        "addresses are identified by their textual form (net.IP.String), link-local = IPv6 IsLinkLocalUnicast",
        "Go scheduler: goroutines run in any order (Async model); the hub's handling of a report (hub.ReportMdnsEntries) runs inside the manager's report mutex",
        "the guard fact is read syntactically from mdns/mdns.go (every ReportMdnsEntries call sits in a goroutine that locks and returns when a newer sequence number was delivered)",
    ]
    changed, err = C.regen_facts()
    p = C.lake_build(["ShipVerif.Props.C17", "shipdrv"])
    lean_ok = p.returncode == 0 and not err
    aud = C.audit(pid, THEOREMS, ["ShipVerif.Props.C17"]) if lean_ok else []
    forb = C.grep_forbidden()
    discharged = sum(1 for a in aud if a["ok"]) if lean_ok and not forb else 0
    hb = C.build_harness()
    if hb.returncode != 0:
        R.violation({"broken": "harness does not build against /repo", "detail": (hb.stdout or "")[-3000:]}, "build", no_input=True)
        R.coverage = {"obligations": len(THEOREMS), "discharged": discharged, "checker_cmd": "lake build ShipVerif.Props.C17", "trusted_base": C.TRUSTED_BASE}
        return R.finish()
    d = C.workdir(pid)
    runs = [(seed, 4000, 150)] if tier == "quick" else [(seed + k, 60000, 1500) for k in range(3)]
    total, diffs, bad_view, bad_ord, shapes, samples = 0, [], [], [], set(), []
    for s, n, b in runs:
        fin, fimpl, fmodel, ford = [os.path.join(d, x) for x in ("view_in.txt", "view_impl.txt", "view_model.txt", "view_ord.txt")]
        q = C.run([C.HARNESS, "mdnsview", "-seed", str(s), "-n", str(n), "-bursts", str(b), "-in", fin, "-impl", fimpl, "-ord", ford], cwd=d, timeout=C.engine_timeout())
        if q.returncode != 0:
            R.violation({"property": pid, "kind": "harness mdnsview crashed (panic in processMdnsEntry?)", "detail": (q.stdout or "")[-2000:]}, "crash")
            continue
        with open(fin) as f, open(fmodel, "w") as g:
            C.run([C.SHIPDRV, "view"], stdin=f, stdout=g, check=lean_ok)
        ins = open(fin).read().splitlines()
        impl = open(fimpl).read().splitlines()
        model = open(fmodel).read().splitlines() if os.path.exists(fmodel) else []
        hist = []
        for i, a in enumerate(impl):
            if a == "new":
                hist = [ins[i]]
                continue
            hist.append(ins[i])
            total += 1
            m = model[i].split(" | ")[0].strip() if i < len(model) else "?"
            shapes.add(ins[i].split("ski=")[0] + ins[i].split("remove=")[-1] + str(min(a.count(":"), 4)))
            if a.strip() != m:
                rec = {"seed": s, "history": hist[-16:], "impl_entries": a, "model_entries": m}
                # a repeated or link-local address, or a ski listed twice, is a violation of the property itself
                ent = [x for x in a.split(";") if x]
                dup = any(len(x.split(":")[1].split(",")) != len(set(x.split(":")[1].split(","))) for x in ent if ":" in x and x.split(":")[1])
                ll = ins[[j for j in range(i, -1, -1) if ins[j].startswith("new")][0]].split("ll=")[1].split(",")
                has_ll = any(y in ll for x in ent if ":" in x for y in x.split(":")[1].split(",") if y)
                if dup or has_ll:
                    bad_view.append(dict(rec, why="entry lists an address twice" if dup else "entry lists an IPv6 link-local address"))
                else:
                    diffs.append(rec)
            if len(samples) < 3 and i % 211 == 17:
                samples.append({"event": ins[i], "entries": a})
        for line in open(ford):
            total += 1
            if line.startswith("BAD"):
                bad_ord.append({"seed": s, "line": line.strip()[:400]})
    if bad_view:
        R.violation({"property": pid, "kind": "the stored view violates C17 (duplicates / unusable addresses)", "replay": "feed `history` to MdnsManager.VerifResolve in order",
                     "count": len(bad_view), "first": bad_view[:3]}, "view")
    elif bad_ord:
        R.violation({"property": pid, "kind": "an older visible-services snapshot was delivered after a newer one, or the last delivered snapshot is not the final state",
                     "replay": "harness mdnsview -bursts: N adds of distinct services in a row on a real manager; sizes of the delivered snapshots in delivery order are in `line`",
                     "count": len(bad_ord), "first": bad_ord[:3]}, "order")
    elif diffs:
        # the entry sets differ from the model: which services are known is the property itself
        R.violation({"property": pid, "kind": "the set of known services / their addresses differs from the specification for this history (Lean: abs (run evs) = specRun evs)",
                     "replay": "feed `history` to MdnsManager.VerifResolve in order", "count": len(diffs), "first": diffs[:3]}, "view")
    elif not lean_ok:
        R.violation({"property": pid, "broken": "lake build ShipVerif.Props.C17: proof obligation no longer checks (guardedCfg is re-proved against the regenerated design fact)",
                     "facts_changed": changed, "detail": ((p.stdout or "") + (err or ""))[-3000:]}, "proof", no_input=True)
    if forb:
        R.violation({"broken": "forbidden construct in Lean sources", "hits": forb}, "audit", no_input=True)
    bad_ax = [a for a in aud if not a["ok"]]
    if lean_ok and bad_ax:
        R.violation({"broken": "axiom audit", "theorems": bad_ax}, "axioms", no_input=True)
    R.coverage = {
        "obligations": len(THEOREMS), "discharged": discharged,
        "checker_cmd": "cd /verif/lean && lake build ShipVerif.Props.C17; lake env lean Audit.lean (#print axioms)",
        "trusted_base": C.TRUSTED_BASE + ["syntactic extraction of the report guard (extract/main.go mdnsReportGuarded)"],
        "theorems": aud,
        "evaluations": total,
        "distinct_nontrivial": len(shapes),
        "rule": "one evaluation = one resolver event applied in lock-step to a real MdnsManager and the Lean model (entries compared after every event), or one ordering burst of 5-35 events with a recording report sink; distinct = distinct (validity, local, ski, remove, #entries) event shapes",
        "samples": samples,
        "facts_changed": changed,
    }
    return R.finish()
