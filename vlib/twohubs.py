"""Engine twohubs: two real hubs on loopback with real SHIP connections between them. C05 is decided here
(Lean: Props/C05 - the double-connection rule and one double-connection episode under all interleavings);
other checks (C09 hub glue; C03, C10, C11, C18 end to end in the thorough tier) call th_part for the
scenarios' verdicts on their property."""
import os

from . import common as C

THEOREMS = ["ShipVerif.Double.C05_rule_agreement", "ShipVerif.Double.keepNew_order", "ShipVerif.Double.C05_double_connection",
            "ShipVerif.Double.C05_progress", "ShipVerif.Double.keepRule_expected", "ShipVerif.Double.establish_atomic_expected", "ShipVerif.Double.R_closed"]


def run_engine(d, seed, n, ops, only=-1):
    out = os.path.join(d, "twohubs%s.txt" % ("_r" if only >= 0 else ""))
    q = C.run([C.HARNESS, "twohubs", "-seed", str(seed), "-n", str(n), "-ops", str(ops), "-workers", str(min(n, 30)), "-only", str(only), "-out", out], cwd=d, timeout=C.engine_timeout())
    if q.returncode != 0:
        return None, (q.stdout or "")[-3000:]
    return open(out).read().splitlines(), None


def th_part(R, pid, tier, seed, quick_n=40, thorough_n=200):
    """run the engine, report violations of `pid` (confirmed by re-running the scenario alone); returns coverage"""
    d = C.workdir(pid + "th")
    runs = [(seed, quick_n, 8)] if tier == "quick" else [(seed + k, thorough_n, 10) for k in range(2)]
    scen, cfgs, expect_up, samples, unsettled = 0, set(), 0, [], 0
    cands, unconfirmed, confirmed = [], 0, None
    for s, n, ops in runs:
        lines, err = run_engine(d, s, n, ops)
        if lines is None:
            R.violation({"property": pid, "kind": "harness twohubs crashed (a panic in a library goroutine ends the process)", "detail": err}, "thcrash")
            continue
        by = {}
        for l in lines:
            w = l.split(" ", 2)
            if w[0] == "S":
                scen += 1
                by[int(w[1])] = w[2]
                parts = w[2].split(" | ")
                if len(parts) > 1:
                    cfgs.add(parts[1])
                if "expectUp=1" in w[2]:
                    expect_up += 1
                if "settled=0" in w[2]:
                    unsettled += 1
                if len(samples) < 3:
                    samples.append(w[2][:400])
            elif w[0] == "BAD" and w[2].startswith(pid + " "):
                cands.append({"seed": s, "scenario": int(w[1]), "n": n, "ops": ops, "why": w[2][len(pid) + 1:]})
        for c in cands:
            c.setdefault("trace", by.get(c["scenario"], ""))
        if cands and confirmed is None:
            for c in cands[:3]:
                lines2, err = run_engine(d, c["seed"], c["n"], c["ops"], only=c["scenario"])
                again = [l for l in (lines2 or []) if l.startswith("BAD %d %s " % (c["scenario"], pid))]
                if again:
                    confirmed = dict(c, again=again[0][:600])
                    break
                unconfirmed += 1
    if confirmed:
        R.violation({"property": pid, "kind": "%s violated between two real hubs" % pid,
                     "replay": "harness twohubs -seed %d -n %d -ops %d -only %d (ops: reg/unreg/cancel/vis/invis/disc/auto/restart of hub A or B, wait<ms>; then a quiet period)" % (confirmed["seed"], confirmed["n"], confirmed["ops"], confirmed["scenario"]),
                     "candidates_first_run": len(cands), "confirmed": confirmed}, "twohubs")
    return {"twohubs_scenarios": scen, "twohubs_configurations": len(cfgs), "twohubs_expect_connection": expect_up, "twohubs_samples": samples,
            "twohubs_candidates_not_reproduced": unconfirmed,
            "twohubs_scenarios_that_never_settled_(endless_retry:_C11/C18_not_judged_there)": unsettled}


def check(pid, tier, seed):
    R = C.Result(pid, tier, seed)
    R.assumptions = [
        "SKIs are compared as numbers in the model: canonical SKIs are lower-case hex strings of equal length, whose string order is the numeric one",
        "the model covers one double-connection episode (each hub dials at most once, establishments and close propagations in any order); re-dialling after losses, back-off timing and restarts are exercised on two real hubs only (engine twohubs, dial delays scaled to 0-1 s)",
        "mDNS is replaced by a harness provider that is fed the other hub's record; both hubs run in one process over loopback TLS",
    ]
    changed, err = C.regen_facts()
    p = C.lake_build(["ShipVerif.Props.C05"])
    lean_ok = p.returncode == 0 and not err
    aud = C.audit(pid, THEOREMS, ["ShipVerif.Props.C05"]) if lean_ok else []
    forb = C.grep_forbidden()
    discharged = sum(1 for a in aud if a["ok"]) if lean_ok and not forb else 0
    hb = C.build_harness()
    if hb.returncode != 0:
        R.violation({"broken": "harness does not build against /repo", "detail": (hb.stdout or "")[-3000:]}, "build", no_input=True)
        R.coverage = {"obligations": len(THEOREMS), "discharged": discharged, "checker_cmd": "lake build ShipVerif.Props.C05", "trusted_base": C.TRUSTED_BASE}
        return R.finish()
    cov = th_part(R, pid, tier, seed, quick_n=60)
    # the dial coordination that convergence rests on (attempt counters, the attempt-running flag), in lock-step on one hub
    from . import hubprop
    hcov = hubprop.hub_part(R, pid, tier, seed)
    cov["dial_coordination"] = {k: v for k, v in hcov.items() if k != "theorems"}
    if not R.violations and not lean_ok:
        R.violation({"property": pid, "broken": "lake build ShipVerif.Props.C05: proof obligation no longer checks (keepRule_expected is re-proved against the rule re-read from hub/hub_connections.go)",
                     "facts_changed": changed, "detail": ((p.stdout or "") + (err or ""))[-3000:]}, "proof", no_input=True)
    if forb:
        R.violation({"broken": "forbidden construct in Lean sources", "hits": forb}, "audit", no_input=True)
    bad_ax = [a for a in aud if not a["ok"]]
    if lean_ok and bad_ax:
        R.violation({"broken": "axiom audit", "theorems": bad_ax}, "axioms", no_input=True)
    R.coverage = {
        "obligations": len(THEOREMS), "discharged": discharged,
        "checker_cmd": "cd /verif/lean && lake build ShipVerif.Props.C05; lake env lean Audit.lean (#print axioms)",
        "trusted_base": C.TRUSTED_BASE + ["syntactic extraction of the SKI rule (extract keepRule); the episode model Model/Double.lean is hand-written and tied to the code by the rule facts and by end-to-end runs of two real hubs, not by a lock-step correspondence"],
        "theorems": aud,
        "evaluations": cov["twohubs_scenarios"],
        "distinct_nontrivial": cov["twohubs_configurations"],
        "rule": "one evaluation = one scenario of two real hubs: random user operations and disturbances (register, unregister, cancel, visibility, disconnect, auto-accept, restart), a quiet period, then the verdict on the final facts of both hubs incl. a SPINE payload in each direction; distinct = distinct final configurations",
        "facts_changed": changed,
        **cov,
    }
    return R.finish()
