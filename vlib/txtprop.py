"""C16: mDNS TXT / QR round trip. Lean: Props/C16 (shorten length + UTF-8 validity, TXT round trip, QR
unambiguity; all byte strings). Tie: engine txtqr (real MdnsManager -> fake provider -> library parser and
entry processing of a second manager; QRCodeText) compared with the model; the reference QR parser is run
on the implementation's QR text."""
import os

from . import common as C

THEOREMS = ["ShipVerif.Mdns.C16_txt_roundtrip", "ShipVerif.Mdns.shorten_length", "ShipVerif.Mdns.shorten_valid",
            "ShipVerif.Mdns.C16_qr_unambiguous", "ShipVerif.Mdns.qrParse_render", "ShipVerif.Mdns.valid_take"]


def kvs(line):
    return dict(t.split("=", 1) for t in line.split() if "=" in t)


def check(pid, tier, seed):
    R = C.Result(pid, tier, seed)
    R.assumptions = [
        "fmt %d / strconv.ParseUint round-trip decimal categories (categories are carried as their decimal text)",
        "the Avahi / zeroconf providers hand the TXT strings to parseTxt unchanged (255-byte TXT string limit of DNS-SD not modelled)",
        "the reader's own SKI differs from the announced one (a service ignores itself)",
    ]
    changed, err = C.regen_facts()
    p = C.lake_build(["ShipVerif.Props.C16", "shipdrv"])
    lean_ok = p.returncode == 0 and not err
    aud = C.audit(pid, THEOREMS, ["ShipVerif.Props.C16"]) if lean_ok else []
    forb = C.grep_forbidden()
    discharged = sum(1 for a in aud if a["ok"]) if lean_ok and not forb else 0
    hb = C.build_harness()
    if hb.returncode != 0:
        R.violation({"broken": "harness does not build against /repo", "detail": (hb.stdout or "")[-3000:]}, "build", no_input=True)
        R.coverage = {"obligations": len(THEOREMS), "discharged": discharged, "checker_cmd": "lake build ShipVerif.Props.C16", "trusted_base": C.TRUSTED_BASE}
        return R.finish()
    d = C.workdir(pid)
    runs = [(seed, 20000)] if tier == "quick" else [(seed + k, 300000) for k in range(4)]
    total = 0
    bad_entry, bad_qr, bad_short, diffs = [], [], [], []
    shapes, samples = set(), []
    for s, n in runs:
        fin, fimpl, fmodel = [os.path.join(d, x) for x in ("txt_in.txt", "txt_impl.txt", "txt_model.txt")]
        q = C.run([C.HARNESS, "txtqr", "-seed", str(s), "-n", str(n), "-in", fin, "-impl", fimpl], cwd=d, timeout=C.engine_timeout())
        if q.returncode != 0:
            R.violation({"property": pid, "kind": "harness txtqr crashed", "detail": (q.stdout or "")[-2000:]}, "crash")
            continue
        with open(fin) as f, open(fmodel, "w") as g:
            C.run([C.SHIPDRV, "txtqr"], stdin=f, stdout=g, check=lean_ok)
        ins = open(fin).read().splitlines()
        impl = open(fimpl).read().splitlines()
        model = open(fmodel).read().splitlines() if os.path.exists(fmodel) else []
        for i in range(0, len(impl), 2):
            total += 1
            if i + 1 >= len(model):
                diffs.append({"seed": s, "cfg": ins[i], "reason": "no model output"})
                continue
            a, m, mp = kvs(impl[i]), kvs(model[i]), kvs(model[i + 1])
            cfg = ins[i]
            c = kvs(cfg)
            shapes.add((min(len(c.get("brand", "")) // 2, 40) // 4, c.get("cats", "-").count(","), c.get("auto")))
            rec = {"seed": s, "cfg": cfg, "impl": impl[i][:600], "model": model[i][:600]}
            if a.get("entry") != m.get("entry") or a.get("port") != "1":
                bad_entry.append(rec)
            elif mp.get("pairs") != m.get("pairs"):
                bad_qr.append(dict(rec, parsed_impl_qr=mp.get("pairs")))
            elif any(vi == "1" and vo != "1" for vi, vo in zip(m.get("validin", ""), m.get("validout", ""))):
                bad_short.append(rec)
            elif a.get("txt") != m.get("txt") or a.get("qr") != m.get("qr"):
                diffs.append(rec)
            if len(samples) < 3 and i > 10:
                samples.append({"cfg": cfg[:300], "txt": a.get("txt", "")[:200]})
    if bad_entry:
        R.violation({"property": pid, "kind": "the entry read back from the announced TXT record differs from the announced configuration (Lean: expected = entryOf (txtOf cfg))",
                     "replay": "NewMDNS(cfg) -> AnnounceMdnsEntry via fake provider -> parseTxt -> processMdnsEntry of a second manager", "count": len(bad_entry), "first": bad_entry[:3]}, "txt")
    elif bad_qr:
        R.violation({"property": pid, "kind": "the QR text does not parse back into exactly the configured fields", "count": len(bad_qr), "first": bad_qr[:3]}, "qr")
    elif bad_short:
        R.violation({"property": pid, "kind": "a shortened field is invalid UTF-8 although the input was valid", "count": len(bad_short), "first": bad_short[:3]}, "utf8")
    elif diffs:
        R.violation({"property": pid, "broken": "correspondence txtOf / qrText (Lean) vs AnnounceMdnsEntry / QRCodeText: texts differ although the round trip still holds",
                     "count": len(diffs), "first": diffs[:3]}, "corr", no_input=True)
    elif not lean_ok:
        R.violation({"property": pid, "broken": "lake build ShipVerif.Props.C16: proof obligation no longer checks", "facts_changed": changed,
                     "detail": ((p.stdout or "") + (err or ""))[-3000:]}, "proof", no_input=True)
    if forb:
        R.violation({"broken": "forbidden construct in Lean sources", "hits": forb}, "audit", no_input=True)
    bad_ax = [a for a in aud if not a["ok"]]
    if lean_ok and bad_ax:
        R.violation({"broken": "axiom audit", "theorems": bad_ax}, "axioms", no_input=True)
    R.coverage = {
        "obligations": len(THEOREMS), "discharged": discharged,
        "checker_cmd": "cd /verif/lean && lake build ShipVerif.Props.C16; lake env lean Audit.lean (#print axioms)",
        "trusted_base": C.TRUSTED_BASE,
        "theorems": aud,
        "evaluations": total,
        "distinct_nontrivial": len(shapes),
        "rule": "one evaluation = one configuration (fields of 0-45 bytes with '=', ';', ':', multi-byte runes at the 32-byte boundary, 1/10 invalid UTF-8; 0-4 categories; both auto-accept values; random port) announced by a real MdnsManager and read back by another; distinct = distinct (brand length bucket, #categories, auto) tuples",
        "samples": samples,
        "facts_changed": changed,
    }
    return R.finish()
