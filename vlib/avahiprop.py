"""C19: Avahi provider vs daemon restarts. Lean: Props/C19 (invariant over all event histories; design facts
re-read from mdns/avahi.go). Tie: engine avahistep - the real AvahiProvider against a harness
avahi.ServerInterface (injected by hook) whose daemon goes away and comes back; daemon-side facts compared
with the model after every event; the property is evaluated directly on the implementation's states."""
import os

from . import common as C

THEOREMS = ["ShipVerif.Avahi.C19_resume", "ShipVerif.Avahi.C19_shutdown_final", "ShipVerif.Avahi.C19_results_reported", "ShipVerif.Avahi.invL_run", "ShipVerif.Avahi.cfg_fixed", "ShipVerif.Avahi.inv_run",
            "ShipVerif.Avahi.C19_pinned_resurrects_announcement", "ShipVerif.Avahi.C19_pinned_restart_after_shutdown"]


def kv(line):
    return dict(t.split("=", 1) for t in line.split() if "=" in t)


def check(pid, tier, seed):
    R = C.Result(pid, tier, seed)
    R.assumptions = [
        "go-avahi / D-Bus are replaced by a harness implementation of avahi.ServerInterface: Setup fails while the daemon is away, a new Setup starts a fresh session (older browsers and entry groups are gone), a lost daemon is reported once through the Disconnected event",
        "the manager starts a provider that is not running and announces only through a running provider (MdnsManager does); concurrent Disconnected events for one outage are not modelled",
        "one reconnect attempt per second: a `tick` in the engine waits for the provider's own loop to make its next attempt; the engine does not start a provider again while a reconnect loop of its previous life is still asleep (the model and its theorems do cover that)",
    ]
    changed, err = C.regen_facts()
    p = C.lake_build(["ShipVerif.Props.C19", "shipdrv"])
    lean_ok = p.returncode == 0 and not err
    aud = C.audit(pid, THEOREMS, ["ShipVerif.Props.C19"]) if lean_ok else []
    forb = C.grep_forbidden()
    discharged = sum(1 for a in aud if a["ok"]) if lean_ok and not forb else 0
    hb = C.build_harness()
    if hb.returncode != 0:
        R.violation({"broken": "harness does not build against /repo", "detail": (hb.stdout or "")[-3000:]}, "build", no_input=True)
        R.coverage = {"obligations": len(THEOREMS), "discharged": discharged, "checker_cmd": "lake build ShipVerif.Props.C19", "trusted_base": C.TRUSTED_BASE}
        return R.finish()
    d = C.workdir(pid)
    runs = [(seed, 150, 12)] if tier == "quick" else [(seed + k, 1500, 16) for k in range(3)]
    total, bad, diffs, shapes, samples = 0, [], [], set(), []
    for s, n, ev in runs:
        fin, fimpl, fmodel = [os.path.join(d, x) for x in ("avahi_in.txt", "avahi_impl.txt", "avahi_model.txt")]
        q = C.run([C.HARNESS, "avahistep", "-seed", str(s), "-n", str(n), "-events", str(ev), "-workers", str(min(n, 200)), "-in", fin, "-impl", fimpl, "-shut", os.path.join(d, "avahi_shutdown.txt"), "-shutdowns", "60" if tier == "quick" else "600"], cwd=d, timeout=C.engine_timeout())
        if q.returncode != 0:
            R.violation({"property": pid, "kind": "harness avahistep crashed", "detail": (q.stdout or "")[-2000:]}, "crash")
            continue
        with open(fin) as f, open(fmodel, "w") as g:
            C.run([C.SHIPDRV, "avahi"], stdin=f, stdout=g, check=lean_ok)
        for l in open(os.path.join(d, "avahi_shutdown.txt")):
            total += 1
            if l.startswith("BAD"):
                bad.append({"seed": s, "history": ["start", "announce 1", "browse results streaming in / one result in flight", "shutdown"], "why": l.strip()})
        ins = open(fin).read().splitlines()
        impl = open(fimpl).read().splitlines()
        model = open(fmodel).read().splitlines() if os.path.exists(fmodel) else []
        hist, running, prev = [], False, {}
        for i, a in enumerate(impl):
            if a == "new":
                hist, running, prev = [], False, {}
                continue
            hist.append(ins[i])
            total += 1
            shapes.add(" ".join(h.split()[0] for h in hist[-3:]))
            if a.startswith("HANG") or a.startswith("PANIC"):
                bad.append({"seed": s, "history": list(hist), "why": "Shutdown did not return / panicked: " + a})
                continue
            st = kv(a)
            # running = started successfully and not shut down since (tracked from the history)
            ev0 = ins[i].split()[0]
            if ev0 == "shutdown":
                running = False
            elif ev0 in ("start", "tick", "tickflaky") and st.get("browsing") == "1":
                running = True
            # services resolved afterwards are reported again: a browse result the daemon emitted (it held a browser) reaches the manager
            if ev0 == "service" and prev.get("browsing") == "1" and st.get("rep") == prev.get("rep"):
                bad.append({"seed": s, "history": list(hist), "state": a, "why": "the daemon held a browser for the provider and emitted a browse result; it was not taken / not reported to the manager"})
            prev = st
            # the property, evaluated on the implementation's own state
            if st.get("late", "0") != "0":
                bad.append({"seed": s, "history": list(hist), "state": a, "why": "a reconnect attempt touched the daemon after a manual shutdown"})
            elif not running and ev0 in ("shutdown", "tick", "tickflaky", "up", "down") and "shutdown" in [h.split()[0] for h in hist] and \
                    (st.get("browsing") == "1" or st.get("published") != "-") and "start" not in [h.split()[0] for h in hist[len(hist) - list(reversed([h.split()[0] for h in hist])).index("shutdown"):]]:
                bad.append({"seed": s, "history": list(hist), "state": a, "why": "browsing or announcing after a manual shutdown"})
            elif running and st.get("up") == "1" and st.get("loops") == "0" and (st.get("browsing") != "1" or st.get("published") != st.get("wanted")):
                bad.append({"seed": s, "history": list(hist), "state": a, "why": "daemon reachable, no reconnect pending, provider running: not browsing or the published TXT is not the one wanted now"})
            m = model[i] if i < len(model) else "?"
            if a != m:
                diffs.append({"seed": s, "history": list(hist), "impl": a, "model": m})
            if len(samples) < 3 and len(hist) == 7:
                samples.append({"history": list(hist), "state": a})
    if bad:
        v = min(bad, key=lambda x: len(x["history"]))
        R.violation({"property": pid, "kind": "C19 violated on the real AvahiProvider", "replay": "harness avahistep: apply `history` to a provider created with VerifNewAvahiProvider(fake server); tick = wait for the reconnect loop's next attempt",
                     "count": len(bad), "shortest": v}, "avahi")
    elif diffs:
        v = min(diffs, key=lambda x: len(x["history"]))
        R.violation({"property": pid, "broken": "correspondence Avahi.step (Lean) vs AvahiProvider on daemon-side facts; C19 held on every implementation state explored",
                     "count": len(diffs), "shortest": v}, "corr", no_input=True)
    elif not lean_ok:
        R.violation({"property": pid, "broken": "lake build ShipVerif.Props.C19: proof obligation no longer checks (cfg_fixed is re-proved against the regenerated design facts)",
                     "facts_changed": changed, "detail": ((p.stdout or "") + (err or ""))[-3000:]}, "proof", no_input=True)
    if forb:
        R.violation({"broken": "forbidden construct in Lean sources", "hits": forb}, "audit", no_input=True)
    bad_ax = [a for a in aud if not a["ok"]]
    if lean_ok and bad_ax:
        R.violation({"broken": "axiom audit", "theorems": bad_ax}, "axioms", no_input=True)
    R.coverage = {
        "obligations": len(THEOREMS), "discharged": discharged,
        "checker_cmd": "cd /verif/lean && lake build ShipVerif.Props.C19; lake env lean Audit.lean (#print axioms)",
        "trusted_base": C.TRUSTED_BASE + ["harness implementation of avahi.ServerInterface; syntactic extraction of the reconnect-loop facts"],
        "theorems": aud,
        "evaluations": total,
        "distinct_nontrivial": len(shapes),
        "rule": "one evaluation = one event (start, daemon down/up, reconnect tick, announce, unannounce, browse result, shutdown) applied to a real AvahiProvider with an injected fake daemon, daemon-side state compared with the Lean model; distinct = distinct windows of three consecutive event kinds",
        "samples": samples,
        "facts_changed": changed,
    }
    return R.finish()
