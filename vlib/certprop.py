"""C02: peer identity. Lean: Props/C02 (decision logic of inbound / outbound acceptance, hex codec laws,
generator). Tie: engine tlspeer - a real hub on loopback against adversarial TLS/websocket clients and
servers; the model's decision is compared with what the hub did (SHIP message processed or not, and under
which SKI)."""
import os
import re

from . import common as C

THEOREMS = ["ShipVerif.Accept.inbound_accept_sound", "ShipVerif.Accept.inbound_no_identity_theft",
            "ShipVerif.Accept.outbound_proceed_sound", "ShipVerif.Accept.gen_passes",
            "ShipVerif.Accept.hex_length", "ShipVerif.Accept.hex_lower", "ShipVerif.Accept.hex_injective"]


def canon_impl(line):
    line = re.sub(r" stage=\S+", "", line)
    line = re.sub(r" conns=\d+", "", line)
    return line.strip()


def canon_model(line):
    return "refused" if line.startswith("refused") else line.strip()


def check(pid, tier, seed):
    R = C.Result(pid, tier, seed)
    R.assumptions = [
        "crypto/tls enforces MinVersion, RequireAnyClientCert and the peer's possession of the certificate key; gorilla/websocket negotiates the sub-protocol; crypto/x509 parses the extension and the SubjectPublicKeyInfo",
        "SHA-1 is a parameter H of the model; the harness supplies H(key) computed with crypto/sha1 over the subject public key bit string",
        "the proof covers the decision logic after TLS; that a copied identifier cannot be matched by another key rests on SHA-1 second-preimage resistance",
    ]
    changed, err = C.regen_facts()
    p = C.lake_build(["ShipVerif.Props.C02", "shipdrv"])
    lean_ok = p.returncode == 0 and not err
    aud = C.audit(pid, THEOREMS, ["ShipVerif.Props.C02"]) if lean_ok else []
    forb = C.grep_forbidden()
    discharged = sum(1 for a in aud if a["ok"]) if lean_ok and not forb else 0
    hb = C.build_harness()
    if hb.returncode != 0:
        R.violation({"broken": "harness does not build against /repo", "detail": (hb.stdout or "")[-3000:]}, "build", no_input=True)
        R.coverage = {"obligations": len(THEOREMS), "discharged": discharged, "checker_cmd": "lake build ShipVerif.Props.C02", "trusted_base": C.TRUSTED_BASE}
        return R.finish()
    d = C.workdir(pid)
    runs = [(seed, 150, 24)] if tier == "quick" else [(seed + k, 600, 80) for k in range(3)]
    total, bad, diffs, shapes, samples = 0, [], [], set(), []
    for s, ni, no in runs:
        fin, fimpl, fmodel = [os.path.join(d, x) for x in ("tls_in.txt", "tls_impl.txt", "tls_model.txt")]
        q = C.run([C.HARNESS, "tlspeer", "-seed", str(s), "-inbound", str(ni), "-outbound", str(no), "-in", fin, "-impl", fimpl], cwd=d, timeout=C.engine_timeout())
        if q.returncode != 0:
            R.violation({"property": pid, "kind": "harness tlspeer crashed", "detail": (q.stdout or "")[-2000:]}, "crash")
            continue
        with open(fin) as f, open(fmodel, "w") as g:
            C.run([C.SHIPDRV, "accept"], stdin=f, stdout=g, check=lean_ok)
        ins = open(fin).read().splitlines()
        impl = open(fimpl).read().splitlines()
        model = open(fmodel).read().splitlines() if os.path.exists(fmodel) else []
        for i, a in enumerate(impl):
            total += 1
            m = model[i] if i < len(model) else "?"
            kv = dict(t.split("=", 1) for t in ins[i].split() if "=" in t)
            shapes.add((ins[i].split()[0], kv.get("kind"), kv.get("tls"), kv.get("sub"), len(kv.get("cert", "").split(":")[0])))
            rec = {"seed": s, "attempt": ins[i], "hub": a, "model": m}
            if a.startswith("gen"):
                if "ok=1" not in a:
                    bad.append(dict(rec, why="a certificate of the library's generator does not yield a 40-digit lower-case hex SKI"))
                continue
            if a == "skip":
                continue
            ca, cm = canon_impl(a), canon_model(m)
            if ca != cm:
                # which side is more permissive decides whether the property itself is broken
                if ca.startswith("ship") and (cm == "refused" or cm == "closed"):
                    bad.append(dict(rec, why="the hub processed / sent SHIP messages for a peer the decision model refuses"))
                elif ca.startswith("ship ski=") and cm.startswith("ship ski="):
                    bad.append(dict(rec, why="the hub attributed the connection to a different SKI than the certificate yields"))
                else:
                    diffs.append(rec)
            if len(samples) < 4 and i % 17 == 6:
                samples.append(rec)
    if bad:
        R.violation({"property": pid, "kind": "peer identity violated on the real hub", "replay": "harness tlspeer -seed <seed>: attempt line gives certificate kind, TLS version, sub-protocol offer",
                     "count": len(bad), "first": bad[:4]}, "identity")
    elif diffs:
        R.violation({"property": pid, "broken": "correspondence acceptInbound/acceptOutbound (Lean) vs hub: the hub refused a peer the model accepts (stricter than the model)",
                     "count": len(diffs), "first": diffs[:4]}, "corr", no_input=True)
    elif not lean_ok:
        R.violation({"property": pid, "broken": "lake build ShipVerif.Props.C02: proof obligation no longer checks", "detail": ((p.stdout or "") + (err or ""))[-3000:]}, "proof", no_input=True)
    if forb:
        R.violation({"broken": "forbidden construct in Lean sources", "hits": forb}, "audit", no_input=True)
    bad_ax = [a for a in aud if not a["ok"]]
    if lean_ok and bad_ax:
        R.violation({"broken": "axiom audit", "theorems": bad_ax}, "axioms", no_input=True)
    R.coverage = {
        "obligations": len(THEOREMS), "discharged": discharged,
        "checker_cmd": "cd /verif/lean && lake build ShipVerif.Props.C02; lake env lean Audit.lean (#print axioms)",
        "trusted_base": C.TRUSTED_BASE + ["crypto/tls, crypto/x509, crypto/sha1, gorilla/websocket (see assumptions)"],
        "theorems": aud,
        "evaluations": total,
        "distinct_nontrivial": len(shapes),
        "rule": "one evaluation = one real TLS/websocket attempt against a running hub (inbound: certificate kind x identifier length 0..40 x TLS 1.1/1.2/1.3 x sub-protocol offers; outbound: server certificate kinds vs dialled SKI) or one generator certificate; distinct = distinct (direction, kind, TLS version, sub-protocol, identifier length) tuples",
        "samples": samples,
    }
    return R.finish()
