"""C14: handshake timer. Lean: Props/C14 (all schedules, parameterised by the design facts the extractor
reads from setHandshakeTimer/stopHandshakeTimer). Implementation side: stress engine timerstress."""
import os

from . import common as C

THEOREMS = ["ShipVerif.Timer.C14_timer_safe", "ShipVerif.Timer.timerCfg_is_fixed", "ShipVerif.Timer.inv_run",
            "ShipVerif.Timer.C14_pinned_design_unsafe"]


def check(pid, tier, seed):
    R = C.Result(pid, tier, seed)
    R.assumptions = [
        "Go memory model primitives as stated in Model/Timer.lean (mutex sections atomic, non-blocking send needs a waiting receiver, select picks any ready case, goroutines start at an arbitrary later moment)",
        "the three design facts are read syntactically from ship/handshake.go (make(chan) in setHandshakeTimer, close without send in stopHandshakeTimer, guarded re-check before handleState in the time.After case)",
        "stress trials stop or replace a timer well before its expiry (duration 40 ms or more, gaps below 2 ms)",
    ]
    changed, err = C.regen_facts()
    p = C.lake_build(["ShipVerif.Props.C14"])
    lean_ok = p.returncode == 0 and not err
    aud = C.audit(pid, THEOREMS, ["ShipVerif.Props.C14"]) if lean_ok else []
    forb = C.grep_forbidden()
    discharged = sum(1 for a in aud if a["ok"]) if lean_ok and not forb else 0
    hb = C.build_harness()
    if hb.returncode != 0:
        R.violation({"broken": "harness does not build against /repo", "detail": (hb.stdout or "")[-3000:]}, "build", no_input=True)
        R.coverage = {"obligations": len(THEOREMS), "discharged": discharged, "checker_cmd": "lake build ShipVerif.Props.C14", "trusted_base": C.TRUSTED_BASE}
        return R.finish()
    d = C.workdir(pid)
    runs = [(seed, 4000, 40)] if tier == "quick" else [(seed, 20000, 40), (seed + 1, 20000, 25), (seed + 2, 10000, 80), (seed + 3, 10000, 150)]
    total, bad, shapes, samples = 0, [], set(), []
    for s, n, dur in runs:
        out = os.path.join(d, "timer_out.txt")
        q = C.run([C.HARNESS, "timerstress", "-seed", str(s), "-n", str(n), "-dur", str(dur), "-out", out], cwd=d, timeout=3600)
        if q.returncode != 0:
            raise RuntimeError("timerstress failed: " + (q.stdout or "")[-2000:])
        for line in open(out):
            total += 1
            parts = line.split()
            ops = parts[2][4:]
            shape = ";".join(o.split("(")[0] for o in ops.split(";"))
            shapes.add(shape)
            if line.startswith("BAD"):
                bad.append({"seed": s, "dur_ms": dur, "line": line.strip()})
            elif len(samples) < 3 and ";" in ops:
                samples.append(line.strip())
    if bad:
        R.violation({"property": pid, "kind": "a stopped or replaced timer delivered a timeout (or the timer flag stayed set)",
                     "replay": "harness timerstress: perform `ops` on a fresh client connection in CLIENT_WAIT through VerifArmTimer/VerifStopTimer, wait 2*dur+30ms",
                     "count": len(bad), "first": bad[:5]}, "stress")
    elif not lean_ok:
        R.violation({"property": pid, "broken": "proof obligation: Generated.timerCfg = Cfg.fixed (timerCfg_is_fixed) / C14_timer_safe no longer checks",
                     "facts_changed": changed, "detail": ((p.stdout or "") + (err or ""))[-3000:]}, "proof", no_input=True)
    if forb:
        R.violation({"broken": "forbidden construct in Lean sources", "hits": forb}, "audit", no_input=True)
    bad_ax = [a for a in aud if not a["ok"]]
    if lean_ok and bad_ax:
        R.violation({"broken": "axiom audit", "theorems": bad_ax}, "axioms", no_input=True)
    R.coverage = {
        "obligations": len(THEOREMS), "discharged": discharged,
        "checker_cmd": "cd /verif/lean && lake build ShipVerif.Props.C14; lake env lean Audit.lean (#print axioms)",
        "trusted_base": C.TRUSTED_BASE + ["syntactic extraction of the timer design facts (extract/main.go timerCfg)"],
        "theorems": aud,
        "evaluations": total,
        "distinct_nontrivial": len([s for s in shapes if ";" in s]),
        "rule": "one evaluation = one arm/stop/sleep sequence (1-5 ops) on a real ShipConnection, 256 connections concurrently; distinct = distinct operation shapes with at least two operations",
        "samples": samples,
        "facts_changed": changed,
    }
    return R.finish()
