"""C14: handshake timer. Lean: Props/C14 (all schedules, parameterised by the design facts the extractor
reads from setHandshakeTimer/stopHandshakeTimer). Implementation side: stress engine timerstress."""
import os

from . import common as C

THEOREMS = ["ShipVerif.Timer.C14_timer_safe", "ShipVerif.Timer.timerCfg_is_fixed", "ShipVerif.Timer.inv_run",
            "ShipVerif.Timer.C14_pinned_design_unsafe", "ShipVerif.Timer.C14_late_capture_unsafe"]


def phase(st):
    st = int(st)
    return 0 if st <= 5 else 1 if st <= 17 else 2 if st <= 25 else 3 if st <= 35 else 4 if st <= 37 else 5 if st == 38 else 6


PHASES = ["init", "hello", "protocol", "pin", "access", "complete", "error"]


def phase_part(d, seed, n):
    """connstep traces: a timeout (fired by the harness only while a timer is armed) must belong to the phase the
    connection is in - the timer that fires was armed (generation changed) while the connection was in this phase"""
    import re
    fin, fimpl, faux = [os.path.join(d, x) for x in ("conn_in.txt", "conn_impl.txt", "conn_aux.txt")]
    q = C.run([C.HARNESS, "connstep", "-seed", str(seed), "-n", str(n), "-events", "30", "-in", fin, "-impl", fimpl, "-aux", faux], cwd=d, timeout=C.engine_timeout())
    if q.returncode != 0:
        raise RuntimeError("connstep failed: " + (q.stdout or "")[-2000:])
    ins, impl, aux = [open(x).read().splitlines() for x in (fin, fimpl, faux)]
    bad, timeouts, by_phase = [], 0, {}
    hist, st, gen, armed_in, header = [], 0, None, None, ""
    for i, ev in enumerate(ins):
        if ev.startswith("new"):
            hist, st, gen, armed_in, header = [], 0, None, None, ev
            continue
        hist.append(ev[:200])
        m = re.search(r"st=(\d+) t=(\d)", impl[i])
        g = aux[i].split("=")[1] if i < len(aux) and "=" in aux[i] else None
        if ev.startswith("timeout"):
            timeouts += 1
            by_phase[PHASES[phase(st)]] = by_phase.get(PHASES[phase(st)], 0) + 1
            if armed_in is not None and phase(armed_in) != phase(st):
                bad.append({"scenario": header, "history": list(hist), "impl": impl[i][:300],
                            "why": "the timer that fired in state %d (%s phase) was armed in state %d (%s phase) and never stopped or replaced since" % (st, PHASES[phase(st)], armed_in, PHASES[phase(armed_in)])})
        if m:
            nst, t = int(m.group(1)), m.group(2) == "1"
            if g != gen and t:
                armed_in = nst      # armed during this event: the connection now waits in nst
            elif not t:
                armed_in = None
            gen = g
            st = nst
    return bad, timeouts, by_phase


def check(pid, tier, seed):
    R = C.Result(pid, tier, seed)
    R.assumptions = [
        "Go memory model primitives as stated in Model/Timer.lean (mutex sections atomic, non-blocking send needs a waiting receiver, select picks any ready case, goroutines start at an arbitrary later moment)",
        "the four design facts are read syntactically from ship/handshake.go (make(chan) in setHandshakeTimer, close without send in stopHandshakeTimer, guarded re-check before handleState in the time.After case)",
        "stress trials stop or replace a timer well before its expiry (duration 40 ms or more, gaps below 2 ms)",
    ]
    changed, err = C.regen_facts()
    p = C.lake_build(["ShipVerif.Props.C14"])
    lean_ok = p.returncode == 0 and not err
    aud = C.audit(pid, THEOREMS, ["ShipVerif.Props.C14"]) if lean_ok else []
    forb = C.grep_forbidden()
    discharged = sum(1 for a in aud if a["ok"]) if lean_ok and not forb else 0
    hb = C.build_harness()
    if hb.returncode != 0:
        R.violation({"broken": "harness does not build against /repo", "detail": (hb.stdout or "")[-3000:]}, "build", no_input=True)
        R.coverage = {"obligations": len(THEOREMS), "discharged": discharged, "checker_cmd": "lake build ShipVerif.Props.C14", "trusted_base": C.TRUSTED_BASE}
        return R.finish()
    d = C.workdir(pid)
    runs = [(seed, 4000, 40)] if tier == "quick" else [(seed, 20000, 40), (seed + 1, 20000, 25), (seed + 2, 10000, 80), (seed + 3, 10000, 150)]
    total, bad, shapes, samples, skipped = 0, [], set(), [], 0
    for s, n, dur in runs:
        out = os.path.join(d, "timer_out.txt")
        q = C.run([C.HARNESS, "timerstress", "-seed", str(s), "-n", str(n), "-dur", str(dur), "-out", out], cwd=d, timeout=C.engine_timeout())
        if q.returncode != 0:
            raise RuntimeError("timerstress failed: " + (q.stdout or "")[-2000:])
        for line in open(out):
            if line.startswith("SKIP"):
                skipped += 1
                continue
            total += 1
            parts = line.split()
            ops = parts[2][4:]
            shape = ";".join(o.split("(")[0] for o in ops.split(";"))
            shapes.add(shape)
            if line.startswith("BAD"):
                bad.append({"seed": s, "dur_ms": dur, "line": line.strip()})
            elif len(samples) < 3 and ";" in ops:
                samples.append(line.strip())
    pbad, ptimeouts, pby = phase_part(d, seed, 1500 if tier == "quick" else 12000)
    if pbad and not bad:
        v = min(pbad, key=lambda x: len(x["history"]))
        R.violation({"property": pid, "kind": "a connection that progressed in time is hit by the timeout of an earlier phase",
                     "replay": "harness connstep: apply `history` to a ShipConnection (role / stored id in `scenario`); the last event fires the armed timer",
                     "count": len(pbad), "shortest": v}, "phase")
    if bad:
        R.violation({"property": pid, "kind": "a stopped or replaced timer delivered a timeout (or the timer flag stayed set)",
                     "replay": "harness timerstress: perform `ops` on a fresh client connection in CLIENT_WAIT through VerifArmTimer/VerifStopTimer, wait 2*dur+30ms",
                     "count": len(bad), "first": bad[:5]}, "stress")
    elif not lean_ok:
        R.violation({"property": pid, "broken": "proof obligation: Generated.timerCfg = Cfg.fixed (timerCfg_is_fixed) / C14_timer_safe no longer checks",
                     "facts_changed": changed, "detail": ((p.stdout or "") + (err or ""))[-3000:]}, "proof", no_input=True)
    if forb:
        R.violation({"broken": "forbidden construct in Lean sources", "hits": forb}, "audit", no_input=True)
    bad_ax = [a for a in aud if not a["ok"]]
    if lean_ok and bad_ax:
        R.violation({"broken": "axiom audit", "theorems": bad_ax}, "axioms", no_input=True)
    R.coverage = {
        "obligations": len(THEOREMS), "discharged": discharged,
        "checker_cmd": "cd /verif/lean && lake build ShipVerif.Props.C14; lake env lean Audit.lean (#print axioms)",
        "trusted_base": C.TRUSTED_BASE + ["syntactic extraction of the timer design facts (extract/main.go timerCfg)"],
        "theorems": aud,
        "evaluations": total,
        "distinct_nontrivial": len([s for s in shapes if ";" in s]),
        "rule": "one evaluation = one arm/stop/sleep sequence (1-5 ops) on a real ShipConnection, 256 connections concurrently; distinct = distinct operation shapes with at least two operations",
        "samples": samples,
        "trials_discarded_because_a_timer_was_not_ended_well_before_expiry": skipped,
        "facts_changed": changed,
        "timeouts_fired_in_handshake_traces": ptimeouts,
        "timeouts_by_phase": pby,
    }
    return R.finish()
