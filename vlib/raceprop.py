"""C20: no data race on library state. Lean: Props/C20 - the lock facts regenerated from /repo (every access to a
field written outside constructors, with the mutexes held, by a go/types walk with call-site propagation) satisfy
the lockset discipline (one mutex common to all accesses of a field) except for listed waivers, and under that
discipline no schedule has two threads inside accesses to the field at once. Search for a schedule: the stress
engines (racestress on one connection, twohubs, hubstep, wsstress) compiled with the Go race detector."""
import os
import re

from . import common as C

THEOREMS = ["ShipVerif.Lockset.C20_lock_discipline", "ShipVerif.Lockset.C20_no_simultaneous_access", "ShipVerif.Lockset.C20_fields_protected",
            "ShipVerif.Lockset.common_mem"]


def summarise(txt):
    """race detector reports -> {signature: example}; signature = innermost library frame of each access"""
    res = {}
    for r in txt.split("WARNING: DATA RACE")[1:]:
        r = r.split("==================")[0]
        tops = []
        for m in re.finditer(r"(?:Write|Read|Previous write|Previous read) at [^\n]*\n((?:  \S.*\n\s+\S.*\n)+)", r):
            fr = re.findall(r"  (\S+)\(\)\n\s+(/\S+):(\d+)", m.group(1))
            lib = [(f.split("/")[-1], "/".join(p.split("/")[-2:]), int(n)) for f, p, n in fr if "enbility/ship-go" in f and "verif_hooks" not in p]
            # the memory belongs to whoever is innermost: a harness object (package main) is the harness's own business
            harness_owned = bool(fr) and fr[0][0].startswith("main.")
            tops.append(lib[0] if lib and not harness_owned else None)
        if not tops or any(t is None for t in tops):
            continue        # an access without a library frame (outside the hook files): the harness's own business
        k = tuple(sorted(set("%s %s:%d" % t for t in tops)))
        res.setdefault(k, r[:3000])
    return res


def unprotected():
    src = os.path.join(C.workdir("C20"), "unprot.lean")
    with open(src, "w") as f:
        f.write("import ShipVerif.Generated.LockFacts\nopen ShipVerif.Lockset\n"
                "#eval ((fields ShipVerif.Generated.accesses).filter (fun f => !fieldOk ShipVerif.Generated.accesses f)).map (fun f => (f, (accessesOf ShipVerif.Generated.accesses f).map (fun a => (a.fn, a.write, a.locks))))\n")
    C.lake_build(["ShipVerif.Generated.LockFacts"])
    return (C.run(["lake", "env", "lean", src], cwd=C.LEAN).stdout or "")[-4000:]


def check(pid, tier, seed):
    R = C.Result(pid, tier, seed)
    R.assumptions = [
        "the lock facts are the extractor's analysis: held sets follow Lock/Unlock/defer Unlock through the statements of a function; a function only called inside its package starts with the intersection of the sets held at its call sites; goroutine bodies, function literals and exported functions start with nothing held; accesses inside constructors (New*) are not shared yet; fields of sync / atomic / channel type synchronise themselves",
        "waived fields (Model/Lockset.lean) rest on goroutine confinement or on the ordering a go statement gives, not on a mutex",
        "a mutex has at most one holder and unlock-to-lock orders the critical sections (Go memory model)",
        "logical races between the handlers of one connection (message handler versus timer handler interleaving their steps) are not data races and not covered here",
    ]
    changed, err = C.regen_facts(locks=True)
    p = C.lake_build(["ShipVerif.Props.C20"])
    lean_ok = p.returncode == 0 and not err
    aud = C.audit(pid, THEOREMS, ["ShipVerif.Props.C20"]) if lean_ok else []
    forb = C.grep_forbidden()
    discharged = sum(1 for a in aud if a["ok"]) if lean_ok and not forb else 0
    hb = C.build_harness_race()
    if hb.returncode != 0:
        R.violation({"broken": "harness does not build (with -race) against /repo", "detail": (hb.stdout or "")[-3000:]}, "build", no_input=True)
        R.coverage = {"obligations": len(THEOREMS), "discharged": discharged, "checker_cmd": "lake build ShipVerif.Props.C20", "trusted_base": C.TRUSTED_BASE}
        return R.finish()
    d = C.workdir(pid)
    q = tier == "quick"
    runs = [
        ("racestress", ["racestress", "-seed", str(seed), "-n", "240" if q else "3000"]),
        ("twohubs", ["twohubs", "-seed", str(seed), "-n", "24" if q else "150", "-ops", "10", "-workers", "12", "-out", os.path.join(d, "th.txt")]),
        ("hubstep", ["hubstep", "-seed", str(seed), "-n", "40" if q else "300", "-events", "14", "-in", os.path.join(d, "hi.txt"), "-impl", os.path.join(d, "ho.txt")]),
        ("wsstress", ["wsstress", "-seed", str(seed), "-n", "150" if q else "1500", "-out", os.path.join(d, "ws.txt")]),
    ]
    if not q:
        runs.append(("mdnsview", ["mdnsview", "-seed", str(seed), "-n", "500", "-bursts", "300", "-in", os.path.join(d, "vi.txt"), "-impl", os.path.join(d, "vo.txt"), "-ord", os.path.join(d, "vord.txt")]))
        runs.append(("avahistep", ["avahistep", "-seed", str(seed), "-n", "300", "-events", "14", "-workers", "100", "-in", os.path.join(d, "ai.txt"), "-impl", os.path.join(d, "ao.txt")]))
    races, ran, hangs = {}, {}, []
    env = dict(C.GOENV, GORACE="halt_on_error=0 history_size=3")
    for name, args in runs:
        r = C.run([C.HARNESS_RACE] + args, cwd=d, env=env, timeout=C.engine_timeout())
        out = r.stdout or ""
        ran[name] = out.count("WARNING: DATA RACE")
        for k, ex in summarise(out).items():
            races.setdefault(k, {"engine": name, "args": " ".join(args), "report": ex})
        hangs += [l for l in out.splitlines() if l.startswith("HANG") or l.startswith("PANIC")][:3]
        if r.returncode != 0 and "WARNING: DATA RACE" not in out and "panic:" in out:
            hangs.append("%s: process died: %s" % (name, out[-1500:]))
    if races:
        first = sorted(races.items(), key=lambda x: x[0])[0]
        R.violation({"property": pid, "kind": "the Go race detector reports a data race on library state",
                     "replay": "cd /verif/harness && go build -race -tags verif -o h . && ./h " + first[1]["args"],
                     "distinct_races": [list(k) for k in sorted(races)], "first": first[1]}, "race")
    elif not lean_ok:
        R.violation({"property": pid, "broken": "lake build ShipVerif.Props.C20: the lock facts regenerated from /repo no longer satisfy the lockset discipline (or the extractor failed); the race detector found no race in the stress runs",
                     "unprotected_fields": unprotected() if not err else "", "facts_changed": changed, "detail": ((p.stdout or "") + (err or ""))[-2500:]}, "proof", no_input=True)
    if forb:
        R.violation({"broken": "forbidden construct in Lean sources", "hits": forb}, "audit", no_input=True)
    bad_ax = [a for a in aud if not a["ok"]]
    if lean_ok and bad_ax:
        R.violation({"broken": "axiom audit", "theorems": bad_ax}, "axioms", no_input=True)
    nfacts = 0
    try:
        nfacts = open(os.path.join(C.LEAN, "ShipVerif", "Generated", "LockFacts.lean")).read().count("field :=")
    except OSError:
        pass
    R.coverage = {
        "obligations": len(THEOREMS), "discharged": discharged,
        "checker_cmd": "cd /verif/lean && lake build ShipVerif.Props.C20 (facts regenerated by /verif/extract -locks); lake env lean Audit.lean (#print axioms)",
        "trusted_base": C.TRUSTED_BASE + ["the lock-fact extractor /verif/extract/locks.go (go/types; which accesses it lists and which mutexes it considers held)", "the waiver table in Model/Lockset.lean", "the Go race detector (search only)"],
        "theorems": aud,
        "evaluations": nfacts,
        "distinct_nontrivial": len(runs),
        "rule": "one evaluation = one access fact (field, function, read/write, mutexes held) checked against the lockset discipline by the kernel; distinct = stress engines run under the Go race detector as search for a racing schedule",
        "race_reports_per_engine": ran,
        "hangs_or_panics": hangs,
        "facts_changed": changed,
    }
    return R.finish()
