"""Shared machinery of /verif/check: builds, audit, evidence, known findings, violation reporting."""
import fcntl
import json
import os
import re
import subprocess
import sys
import time

VERIF = os.path.dirname(os.path.dirname(os.path.abspath(__file__)))
REPO = "/repo"
LEAN = os.path.join(VERIF, "lean")
WORK = os.path.join(VERIF, "work")
BIN = os.path.join(VERIF, "bin")
REPLAYS = os.path.join(VERIF, "replays")
EVIDENCE = os.path.join(VERIF, "evidence")
SHIPDRV = os.path.join(LEAN, ".lake", "build", "bin", "shipdrv")
HARNESS = os.path.join(BIN, "harness")
EXTRACT = os.path.join(BIN, "extract")

GOENV = dict(os.environ, GOFLAGS="-mod=mod", GOPROXY="off", GOSUMDB="off", GOTOOLCHAIN="local",
             CGO_ENABLED=os.environ.get("CGO_ENABLED", "0"))

# statement coverage of /repo under the engines (developer aid, tools/coverage.sh): VERIF_COVER=<dir>
COVERDIR = os.environ.get("VERIF_COVER", "")
if COVERDIR:
    os.makedirs(COVERDIR, exist_ok=True)
    os.environ["GOCOVERDIR"] = COVERDIR
    HARNESS = os.path.join(BIN, "harness_cov")

ALLOWED_AXIOMS = {"propext", "Classical.choice", "Quot.sound"}
LEANCHECK = {}   # module -> accepted by leanchecker (thorough tier)

TRUSTED_BASE = [
    "Lean 4.33.0 kernel; axioms admitted in obligations: propext, Classical.choice, Quot.sound (audited by #print axioms on every run); finite certificates by `decide +kernel` (kernel evaluation, no native_decide)",
    "Lean compiler for the driver executable shipdrv (runs model definitions during correspondence only)",
    "Go harness /verif/harness (mocks, canonicaliser, generators) and facts extractor /verif/extract",
    "modelled, not verified: encoding/json, gorilla/websocket, crypto/tls, crypto/x509, net/http, Go scheduler/timers/memory model, go-avahi, zeroconf, OS network stack",
]


def log(*a):
    print(*a, file=sys.stderr, flush=True)


TIER = "quick"


def engine_timeout():
    """an engine that does not finish is a finding (the implementation blocks), not a reason to wait for ever"""
    return 900 if TIER == "quick" else 3 * 3600


class EngineHang(Exception):
    pass


def run(cmd, cwd=None, env=None, timeout=None, check=False, stdin=None, stdout=subprocess.PIPE):
    t0 = time.time()
    if timeout is not None and stdout == subprocess.PIPE and stdin is None and not isinstance(cmd, str):
        # engines: on timeout ask the Go runtime for a goroutine dump (SIGQUIT), then kill
        import signal
        import tempfile
        with tempfile.TemporaryFile(mode="w+") as tf:
            pr = subprocess.Popen(cmd, cwd=cwd, env=env, stdout=tf, stderr=subprocess.STDOUT, text=True)
            try:
                pr.wait(timeout=timeout)
            except subprocess.TimeoutExpired:
                pr.send_signal(signal.SIGQUIT)
                try:
                    pr.wait(timeout=20)
                except subprocess.TimeoutExpired:
                    pr.kill()
                    pr.wait()
                tf.seek(0)
                out = tf.read()
                raise EngineHang("%s did not finish within %d s; goroutine dump (tail):\n%s" % (" ".join(cmd[:3]), timeout, out[-6000:]))
            tf.seek(0)
            out = tf.read()
        p = subprocess.CompletedProcess(cmd, pr.returncode, out, None)
        if check and p.returncode != 0:
            raise RuntimeError("command failed (%s): %s\n%s" % (p.returncode, cmd, (p.stdout or "")[-4000:]))
        p.wall = time.time() - t0
        return p
    p = subprocess.run(cmd, cwd=cwd, env=env, timeout=timeout, stdin=stdin, stdout=stdout,
                       stderr=subprocess.STDOUT, text=True, shell=isinstance(cmd, str))
    if check and p.returncode != 0:
        raise RuntimeError("command failed (%s): %s\n%s" % (p.returncode, cmd, (p.stdout or "")[-4000:]))
    p.wall = time.time() - t0
    return p


class Lock:
    """serialise builds between concurrently running checks"""

    def __init__(self, name):
        os.makedirs(WORK, exist_ok=True)
        self.path = os.path.join(WORK, name + ".lock")

    def __enter__(self):
        self.f = open(self.path, "w")
        fcntl.flock(self.f, fcntl.LOCK_EX)
        return self

    def __exit__(self, *a):
        fcntl.flock(self.f, fcntl.LOCK_UN)
        self.f.close()


def workdir(pid):
    d = os.path.join(WORK, pid)
    os.makedirs(d, exist_ok=True)
    return d


# ----------------------------------------------------------------------------- builds

def build_tools():
    """extractor binary (reads /repo sources at run time, does not link them)"""
    with Lock("gobuild"):
        if not os.path.exists(EXTRACT) or os.path.getmtime(EXTRACT) < newest(os.path.join(VERIF, "extract")):
            os.makedirs(BIN, exist_ok=True)
            run(["go", "build", "-o", EXTRACT, "."], cwd=os.path.join(VERIF, "extract"), env=GOENV, check=True)


def newest(d):
    m = 0
    for root, _, files in os.walk(d):
        for f in files:
            m = max(m, os.path.getmtime(os.path.join(root, f)))
    return m


def build_harness():
    """the harness links /repo's current working tree (replace directive), hooks on"""
    with Lock("gobuild"):
        os.makedirs(BIN, exist_ok=True)
        hdir = os.path.join(VERIF, "harness")
        # keep go.sum in step with the repository
        try:
            with open(os.path.join(REPO, "go.sum")) as f:
                want = f.read()
            have = open(os.path.join(hdir, "go.sum")).read() if os.path.exists(os.path.join(hdir, "go.sum")) else ""
            if want != have:
                open(os.path.join(hdir, "go.sum"), "w").write(want)
        except OSError:
            pass
        cover = ["-cover", "-coverpkg=.," + ",".join("github.com/enbility/ship-go/" + x for x in ("ship", "hub", "ws", "mdns", "cert", "api", "util", "model"))] if COVERDIR else []
        p = run(["go", "build"] + cover + ["-tags", "verif", "-o", HARNESS, "."], cwd=hdir, env=GOENV)
        return p


HARNESS_RACE = os.path.join(BIN, "harness_race")


def build_harness_race():
    """the same harness compiled with the Go race detector"""
    build_harness()
    with Lock("gobuild"):
        return run(["go", "build", "-race", "-tags", "verif", "-o", HARNESS_RACE, "."], cwd=os.path.join(VERIF, "harness"), env=dict(GOENV, CGO_ENABLED="1"))


def regen_facts(sites=False, locks=False):
    """rewrite lean/ShipVerif/Generated/*.lean from /repo; returns (changed files, error)"""
    build_tools()
    p = run([EXTRACT, "-repo", REPO, "-out", os.path.join(LEAN, "ShipVerif", "Generated")] + (["-sites"] if sites else []) + (["-locks"] if locks else []), cwd=VERIF)
    if p.returncode != 0:
        return [], p.stdout
    changed = [l.split()[1] for l in (p.stdout or "").splitlines() if l.startswith("changed ")]
    return changed, None


def lake_build(targets):
    with Lock("lake"):
        p = run(["lake", "build"] + targets, cwd=LEAN)
    return p


def regen_conn_reach():
    """recompute the reachable product set with the (untrusted) driver; the kernel re-checks it"""
    with Lock("lake"):
        p = run(["lake", "build", "shipdrv"], cwd=LEAN)
        if p.returncode != 0:
            return p
        target = os.path.join(LEAN, "ShipVerif", "Generated", "ConnReach.lean")
        tmp = target + ".new"
        p = run([SHIPDRV, "reach", tmp], cwd=LEAN)
        new = open(tmp).read() if os.path.exists(tmp) else ""
        old = open(target).read() if os.path.exists(target) else ""
        if new and new != old:
            os.replace(tmp, target)
        elif os.path.exists(tmp):
            os.remove(tmp)
    return p


# ----------------------------------------------------------------------------- audit

FORBIDDEN = re.compile(r"\b(sorry|admit|native_decide|bv_decide|implemented_by|unsafe)\b|^axiom |maxHeartbeats 0", re.M)


def grep_forbidden():
    hits = []
    for root, _, files in os.walk(os.path.join(LEAN, "ShipVerif")):
        for f in files:
            if not f.endswith(".lean"):
                continue
            path = os.path.join(root, f)
            text = open(path).read()
            # strip comments
            text = re.sub(r"/-.*?-/", "", text, flags=re.S)
            text = re.sub(r"--.*", "", text)
            for m in FORBIDDEN.finditer(text):
                hits.append("%s: %s" % (os.path.relpath(path, LEAN), m.group(0).strip()))
    return hits


def leancheck(modules):
    """thorough tier: the toolchain's independent re-checker replays the compiled declarations of the modules through
    the kernel; returns {module: ok}"""
    res = {}
    for m in modules:
        with Lock("lake"):
            p = run(["lake", "env", "leanchecker", m], cwd=LEAN)
        res[m] = p.returncode == 0
    return res


def audit(pid, theorems, imports=("ShipVerif",)):
    """#print axioms for every obligation; returns list of dicts {name, axioms, ok}"""
    d = workdir(pid)
    src = os.path.join(d, "Audit.lean")
    with open(src, "w") as f:
        for m in imports:
            f.write("import %s\n" % m)
        for t in theorems:
            f.write("#print axioms %s\n" % t)
    with Lock("lake"):
        p = run(["lake", "env", "lean", src], cwd=LEAN)
    out = p.stdout or ""
    res = []
    if TIER == "thorough":
        lc = leancheck([i for i in imports if i != "ShipVerif"])
        LEANCHECK.update(lc)
        if not all(lc.values()):
            return [{"name": t, "axioms": None, "ok": False, "error": "leanchecker rejected " + ", ".join(k for k, v in lc.items() if not v)} for t in theorems]
    for t in theorems:
        m = re.search(r"'%s' depends on axioms: \[([^\]]*)\]" % re.escape(t), out.replace("\n", " "))
        if m:
            ax = [a.strip() for a in m.group(1).split(",") if a.strip()]
            res.append({"name": t, "axioms": ax, "ok": set(ax) <= ALLOWED_AXIOMS})
        elif re.search(r"'%s' does not depend on any axioms" % re.escape(t), out):
            res.append({"name": t, "axioms": [], "ok": True})
        else:
            res.append({"name": t, "axioms": None, "ok": False, "error": out[-600:]})
    return res


# ----------------------------------------------------------------------------- known findings

def known_findings():
    path = os.path.join(VERIF, "known_findings.json")
    if not os.path.exists(path):
        return []
    return json.load(open(path)).get("findings", [])


def open_findings(pid):
    return [f for f in known_findings() if f.get("property") == pid and f.get("status") == "open"]


# ----------------------------------------------------------------------------- reporting

class Result:
    def __init__(self, pid, tier, seed):
        self.pid, self.tier, self.seed = pid, tier, seed
        self.t0 = time.time()
        self.violations = []   # (replay_path, suffix)
        self.known = []        # text
        self.coverage = {}
        self.assumptions = []
        self.level = "proof"

    def violation(self, replay_obj, name, no_input=False):
        os.makedirs(REPLAYS, exist_ok=True)
        path = os.path.join(REPLAYS, "%s_%s_%d.json" % (self.pid, name, self.seed))
        with open(path, "w") as f:
            json.dump(replay_obj, f, indent=1)
        self.violations.append((path, " no-failing-input-found" if no_input else ""))

    def known_finding(self, text):
        self.known.append(text)

    def finish(self):
        os.makedirs(EVIDENCE, exist_ok=True)
        ev = {
            "property_id": self.pid,
            "tier": self.tier,
            "seed": self.seed,
            "level": self.level,
            "coverage": self.coverage,
            "assumptions": self.assumptions,
            "wall_s": round(time.time() - self.t0, 2),
            "violations": len(self.violations),
            "known_findings_reproduced": self.known,
        }
        if LEANCHECK:
            ev["coverage"]["leanchecker"] = dict(LEANCHECK)
        with open(os.path.join(EVIDENCE, self.pid + ".json"), "w") as f:
            json.dump(ev, f, indent=1)
        for k in self.known:
            print("KNOWN-FINDING: property=%s %s" % (self.pid, k))
        for path, suffix in self.violations:
            print("VIOLATION property=%s replay=%s%s" % (self.pid, path, suffix))
        sys.stdout.flush()
        return 1 if self.violations else 0
