"""C03: two endpoints agree. Lean: Props/C03 over a kernel-checked certificate of the two-endpoint model
(Proofs/PairCert: every trust and SHIP-id configuration, all event lists, timely mode); thorough tier adds the
certificate with one premature timer expiry (Proofs/PairCertArb, Props/C03Arb). Tie: engine pairstep - two real
ShipConnections joined by harness FIFOs, same events replayed on the model (shipdrv pair); the C03 predicates are
evaluated directly on the implementation's traces; the open known finding is replayed on the implementation."""
import os
import re

from . import common as C

THEOREMS = ["ShipVerif.Pair.C03_agreement", "ShipVerif.Pair.C03_trusted_completes", "ShipVerif.Pair.C03_approved_completes_partial",
            "ShipVerif.Pair.C03_untrusted_never_completes", "ShipVerif.Pair.C03_pending_kept", "ShipVerif.Pair.C03_cancel_final", "ShipVerif.Pair.C03_setup_once_and_ids", "ShipVerif.Pair.C03_streams_bounded",
            "ShipVerif.Pair.C03_approve_with_hello_under_way", "ShipVerif.Pair.PairCert.closed_ok", "ShipVerif.Pair.PX.dec_enc"]
THEOREMS_ARB = ["ShipVerif.Pair.C03_agreement_one_premature_expiry", "ShipVerif.Pair.PairCertArb.closed_ok"]

APPROVE_EARLY = "startC,delS,startS,delC,delC,approve,delC,delS,propC"
FINDING = "C03/approve-with-hello-under-way"


def canon(l):
    l = re.sub(r"(W:acc\.methods|ID|W:close\.announce):[0-9a-f]*", r"\1", l)
    l = re.sub(r"WSC:\d+:", "WSC:", l)
    l = l.replace(" FLUSH", "").replace(" end=quiescent", "")
    return re.sub(r"\s+", " ", l).strip()


def regen_reach(arb=False):
    C.lake_build(["shipdrv"])
    if arb:
        C.run(["python3", os.path.join(C.VERIF, "tools", "gen_paircert.py"), "PairCertArb", "8", "0,1"], cwd=C.VERIF)
        return C.run([C.SHIPDRV, "pairgen", os.path.join(C.LEAN, "ShipVerif", "Generated", "PairReachArb.lean"), "8", "0,1", "PairReachArb"], cwd=C.LEAN)
    return C.run([C.SHIPDRV, "pairgen", os.path.join(C.LEAN, "ShipVerif", "Generated", "PairReach.lean"), "6", "0", "PairReach"], cwd=C.LEAN)


def sides(line):
    """'C: obs | snap || S: obs | snap || q=a,b' -> {C: (obs, {st, t, ws}), S: ...}, (qcs, qsc)"""
    res = {}
    parts = line.split(" || ")
    for p in parts[:2]:
        name, _, rest = p.strip().partition(":")
        name = name.strip().split()[-1]
        obs, _, snap = rest.partition(" | ")
        kv = dict(t.split("=") for t in snap.split() if "=" in t)
        res[name] = (obs.split(), kv)
    q = (0, 0)
    m = re.search(r"q=(\d+),(\d+)", line)
    if m:
        q = (int(m.group(1)), int(m.group(2)))
    return res, q


def predicates(ins, impl, premature):
    bad, evals, shapes = [], 0, set()
    hist, cfg = [], {}
    for i, ev in enumerate(ins):
        if ev.startswith("new"):
            hist = [ev]
            cfg = dict(t.split("=") for t in ev.split()[1:])
            st = {"setupC": 0, "setupS": 0, "approved": False, "early": False, "cancelled": False, "helloSeen": False, "qcs": [], "qsc": [], "done": False}
            continue
        if st["done"] or i >= len(impl):
            continue
        out = impl[i]
        hist.append(ev)
        if out.startswith("PANIC") or out.startswith("HANG"):
            bad.append({"history": list(hist), "impl": out[:300], "why": "an endpoint panicked or did not return: " + out[:80]})
            st["done"] = True
            continue
        evals += 1
        shapes.add(" ".join(hist[-3:]))
        sd, q = sides(out)

        def fail(why):
            bad.append({"history": list(hist), "impl": out[:400], "why": why})
            st["done"] = True

        any_hello = lambda l: any(f.startswith("hello") for f in l)
        if ev == "approve":
            st["approved"] = True
            if not (st["helloSeen"] and not any_hello(st["qcs"]) and not any_hello(st["qsc"])):
                st["early"] = True
        if ev == "cancel":
            st["cancelled"] = True
            # effective: the server side was waiting in the hello phase (pending or ready) when the user cancelled
            if st.get("prevS") in ("8", "11"):
                st["cancelEff"] = True
        if ev == "delS" and st["qcs"]:
            if st["qcs"][0].startswith("hello"):
                st["helloSeen"] = True
            st["qcs"].pop(0)
        if ev == "delC" and st["qsc"]:
            st["qsc"].pop(0)
        for name, qn in (("C", "qcs"), ("S", "qsc")):
            for o in sd.get(name, ([], {}))[0]:
                if o.startswith("W:"):
                    st[qn].append(o[2:])
                if o == "SETUP":
                    st["setup" + name] += 1
        if sd["C"][1].get("ws") == "1":
            st["qsc"] = []
        if sd["S"][1].get("ws") == "1":
            st["qcs"] = []
        st["prevS"] = sd["S"][1].get("st")
        paired, auto = cfg["envS"][0] == "1", cfg["envS"][1] == "1"
        if st["setupC"] > 1 or st["setupS"] > 1:
            fail("SetupRemoteDevice was called more than once on one side")
        elif not paired and not auto and not st["approved"] and (st["setupC"] or st["setupS"] or sd["C"][1].get("st") == "38" or sd["S"][1].get("st") == "38"):
            fail("the server neither trusts the client nor auto-accepts and the user did not approve, yet a side completed / set up the remote device")
        elif st.get("cancelEff") and (sd["C"][1].get("st") == "38" or sd["S"][1].get("st") == "38" or st["setupC"] or st["setupS"]):
            fail("the user cancelled while the server side was waiting in the hello phase, yet a side completed / set up the remote device afterwards")
        elif (cfg["relC"] == "m" and sd["C"][1].get("st") == "38") or (cfg["relS"] == "m" and sd["S"][1].get("st") == "38"):
            fail("a side that has another SHIP id stored for its peer completed")
        elif (premature == 0 and cfg["envS"][2] == "1" and not st["cancelled"] and sd["S"][1].get("st") in ("14", "15")
              and sd["C"][1].get("ws") == "0" and sd["C"][1].get("st") not in ("14", "15", "16", "17", "39")):
            # C03_pending_kept: the request is not dropped by the server on its own while the client still waits
            fail("waiting is allowed, nobody cancelled, messages arrived in time and the client is still waiting (state %s), yet the server aborted the pending request (state %s): an approval has nothing left to act on"
                 % (sd["C"][1].get("st"), sd["S"][1].get("st")))
        elif "end=quiescent" in out:
            comp = {n: sd[n][1].get("st") == "38" and sd[n][1].get("ws") == "0" for n in ("C", "S")}
            ended = {n: sd[n][1].get("ws") == "1" for n in ("C", "S")}
            if not ((comp["C"] and comp["S"]) or (ended["C"] and ended["S"])):
                fail("nothing more can happen and the two sides disagree: client %s, server %s" % (sd["C"][1], sd["S"][1]))
            elif premature == 0 and not st["cancelled"] and cfg["relC"] != "m" and cfg["relS"] != "m" and not (comp["C"] and comp["S"]):
                if paired or auto:
                    fail("the server trusts the client (paired / auto-accept), messages arrived in time, nobody cancelled - and the handshake did not complete on both sides")
                elif st["approved"] and not st["early"]:
                    fail("the user approved while the request was pending and no hello message was under way, messages arrived in time, nobody cancelled - and the handshake did not complete on both sides")
    return bad, evals, shapes


def run_engine(d, seed, n, premature):
    fin, fimpl, fmodel = [os.path.join(d, x) for x in ("pair_in.txt", "pair_impl.txt", "pair_model.txt")]
    q = C.run([C.HARNESS, "pairstep", "-seed", str(seed), "-n", str(n), "-events", "60", "-premature", str(premature), "-in", fin, "-impl", fimpl], cwd=d, timeout=C.engine_timeout())
    if q.returncode != 0:
        return None, None, None, (q.stdout or "")[-2000:]
    with open(fin) as f, open(fmodel, "w") as g:
        C.run([C.SHIPDRV, "pair"], stdin=f, stdout=g, check=False)
    return [open(x).read().splitlines() for x in (fin, fimpl, fmodel)] + [None]


def check(pid, tier, seed):
    R = C.Result(pid, tier, seed)
    R.assumptions = [
        "each endpoint is the verified single-connection model (its handlers run one at a time); the FIFO streams, close propagation and the scheduler are the harness's, mirrored by Model/Pair.lean",
        "timely mode: a timer runs out only when nothing else can happen, and a prolongation-request timer (peer's waiting time minus 30 s) before the peer's own wait timer; thorough tier: additionally one premature expiry per run; unboundedly many premature expiries are not covered (the streams would grow without bound)",
        "no transport faults between the endpoints other than a close; SHIP ids enter through their relation to the stored id (unknown / same / different)",
        "'approval at any moment' is proved for approvals given while no hello message is under way; the complementary case is the open known finding " + FINDING,
    ]
    changed, err = C.regen_facts()
    if "Facts.lean" in changed:
        regen_reach()
    targets = ["ShipVerif.Props.C03", "shipdrv"] + (["ShipVerif.Props.C03Arb"] if tier == "thorough" else [])
    if tier == "thorough" and not os.path.exists(os.path.join(C.LEAN, "ShipVerif", "Generated", "PairReachArb.lean")):
        regen_reach(arb=True)
    p = C.lake_build(targets)
    if p.returncode != 0:
        # the generated reachable sets may be stale (the model changed): recompute once
        regen_reach()
        if tier == "thorough":
            regen_reach(arb=True)
        p = C.lake_build(targets)
    lean_ok = p.returncode == 0 and not err
    obligations = THEOREMS + (THEOREMS_ARB if tier == "thorough" else [])
    aud = C.audit(pid, obligations, ["ShipVerif.Props.C03"] + (["ShipVerif.Props.C03Arb"] if tier == "thorough" else [])) if lean_ok else []
    forb = C.grep_forbidden()
    discharged = sum(1 for a in aud if a["ok"]) if lean_ok and not forb else 0
    hb = C.build_harness()
    if hb.returncode != 0:
        R.violation({"broken": "harness does not build against /repo", "detail": (hb.stdout or "")[-3000:]}, "build", no_input=True)
        R.coverage = {"obligations": len(obligations), "discharged": discharged, "checker_cmd": "lake build ShipVerif.Props.C03", "trusted_base": C.TRUSTED_BASE}
        return R.finish()
    d = C.workdir(pid)
    runs = [(seed, 1500, 0)] if tier == "quick" else [(seed, 6000, 0), (seed + 1, 6000, 1), (seed + 2, 4000, 2)]
    bad, diffs, total, shapes, scen, kinds = [], [], 0, set(), 0, {}
    for s, n, prem in runs:
        ins, impl, model, e = run_engine(d, s, n, prem)
        if ins is None:
            R.violation({"property": pid, "kind": "harness pairstep crashed", "detail": e}, "crash")
            continue
        b, evs, sh = predicates(ins, impl, prem)
        bad += [dict(x, seed=s, premature=prem) for x in b]
        total += evs
        shapes |= sh
        hist = []
        for i, a in enumerate(impl):
            if ins[i].startswith("new"):
                hist = [ins[i]]
                scen += 1
                continue
            hist.append(ins[i])
            kinds[ins[i]] = kinds.get(ins[i], 0) + 1
            m = model[i] if i < len(model) else "?"
            if canon(a) != canon(m) and len(diffs) < 50:
                diffs.append({"seed": s, "history": list(hist), "impl": canon(a)[:400], "model": canon(m)[:400]})
    # the open known finding, replayed on the implementation
    known = C.open_findings(pid)
    fin, fimpl = os.path.join(d, "kf_in.txt"), os.path.join(d, "kf_impl.txt")
    C.run([C.HARNESS, "pairstep", "-fixed", APPROVE_EARLY, "-cfg", "001:f:f", "-in", fin, "-impl", fimpl], cwd=d)
    reproduced = False
    try:
        last = open(fimpl).read().splitlines()[-1]
        sd, _ = sides(last)
        reproduced = sd["C"][1].get("ws") == "1" and sd["S"][1].get("ws") == "1" and "approve" in open(fin).read()
    except (OSError, IndexError, KeyError):
        pass
    if reproduced:
        if any(k.get("id") == FINDING for k in known):
            R.known_finding("approving a pending request while a hello message is still under way (events %s, waiting allowed, ids unknown) ends both sides in error instead of completing" % APPROVE_EARLY)
        else:
            bad.append({"history": APPROVE_EARLY.split(","), "why": "the user approved while the request was pending, nobody cancelled, and both sides ended in error", "impl": last[:300], "seed": 0, "premature": 0})
    if bad:
        v = min(bad, key=lambda x: len(x["history"]))
        R.violation({"property": pid, "kind": "C03 violated by two real endpoints", "replay": "harness pairstep -cfg <envS:relC:relS from the `new` line> -fixed <events after it, comma separated>",
                     "count": len(bad), "shortest": v}, "pair")
    elif not lean_ok:
        R.violation({"property": pid, "broken": "lake build ShipVerif.Props.C03: the certificate of the two-endpoint model no longer checks for the current model / facts; the C03 predicates held on every implementation trace explored",
                     "facts_changed": changed, "detail": ((p.stdout or "") + (err or ""))[-3000:]}, "proof", no_input=True)
    elif diffs:
        v = min(diffs, key=lambda x: len(x["history"]))
        R.violation({"property": pid, "broken": "correspondence Pair.stepP (Lean) vs two ship.ShipConnection objects; the C03 predicates held on every implementation trace explored",
                     "count": len(diffs), "shortest": v}, "corr", no_input=True)
    if forb:
        R.violation({"broken": "forbidden construct in Lean sources", "hits": forb}, "audit", no_input=True)
    bad_ax = [a for a in aud if not a["ok"]]
    if lean_ok and bad_ax:
        R.violation({"broken": "axiom audit", "theorems": bad_ax}, "axioms", no_input=True)
    R.coverage = {
        "obligations": len(obligations), "discharged": discharged,
        "checker_cmd": "cd /verif/lean && lake build ShipVerif.Props.C03 (64 certificate shards by decide +kernel; thorough: ShipVerif.Props.C03Arb, 256 shards); lake env lean Audit.lean (#print axioms)",
        "trusted_base": C.TRUSTED_BASE + ["the harness's FIFO streams, close propagation and scheduler (pairstep.go), mirrored by Model/Pair.lean"],
        "theorems": aud,
        "evaluations": total,
        "distinct_nontrivial": len(shapes),
        "rule": "one evaluation = one event (Run, delivery, timer expiry, approve, cancel, close propagation, sleeping closer) applied to two real ShipConnections and to the Lean pair model, observations of both sides compared and the C03 predicates evaluated on the implementation trace; distinct = distinct windows of three consecutive events",
        "traces_validated_against_impl": scen,
        "event_kinds": kinds,
        "known_finding_reproduced": reproduced,
        "facts_changed": changed,
    }
    return R.finish()
