"""C07: EEBUS JSON transform. Lean: Props/C07 (round trip for all guarded documents by structural
induction; shape; counter-examples for what the guard excludes). Tie: byte-for-byte correspondence of the
model's intoEEBUS / fromEEBUS with ship.JsonIntoEEBUSJson / ship.JsonFromEEBUSJson (engine jsonrt) and the
regenerated pass list."""
import os
import re

from . import common as C

THEOREMS = ["ShipVerif.Json.C07_roundtrip_partial", "ShipVerif.Json.C07_shape", "ShipVerif.Json.passes_eq",
            "ShipVerif.Json.C07_empty_array_lost", "ShipVerif.Json.C07_bracket_in_string_rewritten",
            "ShipVerif.Json.C07_empty_top_object_lost"]

BRACKETS = re.compile(r"(5b|5d|7b|7d)")


def features(prefix_line):
    toks = prefix_line.split()
    f = set()
    if toks == ["O", "."]:
        f.add("C07/empty-top-object")
    for i, t in enumerate(toks):
        if t == "A" and i + 1 < len(toks) and toks[i + 1] == ".":
            f.add("C07/empty-array")
        if t[0] in "TK":
            h = t[1:]
            if any(h[j:j + 2] in ("5b", "5d", "7b", "7d") for j in range(0, len(h), 2)):
                f.add("C07/bracket-in-string")
    return f


def unhex(x):
    return b"" if x == "-" else bytes.fromhex(x)


def check(pid, tier, seed):
    R = C.Result(pid, tier, seed)
    R.assumptions = [
        "encoding/json and go-ordered-json turn the document text into the ordered tree and back (atoms are the text Go's encoder emits; duplicate keys are outside the domain)",
        "bytes.ReplaceAll is leftmost, non-overlapping replacement (modelled by Json.rep; compared byte-for-byte on every document)",
        "guard of the round-trip theorem: top level a non-empty object, no empty array, no `[ ] { }` inside strings, keys or other atoms",
    ]
    changed, err = C.regen_facts()
    p = C.lake_build(["ShipVerif.Props.C07", "shipdrv"])
    lean_ok = p.returncode == 0 and not err
    aud = C.audit(pid, THEOREMS, ["ShipVerif.Props.C07"]) if lean_ok else []
    forb = C.grep_forbidden()
    discharged = sum(1 for a in aud if a["ok"]) if lean_ok and not forb else 0
    hb = C.build_harness()
    if hb.returncode != 0:
        R.violation({"broken": "harness does not build against /repo", "detail": (hb.stdout or "")[-3000:]}, "build", no_input=True)
        R.coverage = {"obligations": len(THEOREMS), "discharged": discharged, "checker_cmd": "lake build ShipVerif.Props.C07", "trusted_base": C.TRUSTED_BASE}
        return R.finish()
    d = C.workdir(pid)
    runs = [(seed, 20000)] if tier == "quick" else [(seed + k, 200000) for k in range(4)]
    total = good = 0
    diffs, goodfail, unexplained = [], [], []
    known_hit = {}
    shapes = set()
    samples = []
    openf = {f["id"]: f for f in C.open_findings(pid)}
    for s, n in runs:
        fin, fimpl, fmodel = [os.path.join(d, x) for x in ("json_in.txt", "json_impl.txt", "json_model.txt")]
        q = C.run([C.HARNESS, "jsonrt", "-seed", str(s), "-n", str(n), "-in", fin, "-impl", fimpl], cwd=d, timeout=C.engine_timeout())
        if q.returncode != 0:
            R.violation({"property": pid, "kind": "harness jsonrt crashed (panic in the transform?)", "detail": (q.stdout or "")[-2000:]}, "crash")
            continue
        with open(fin) as f, open(fmodel, "w") as g:
            C.run([C.SHIPDRV, "json"], stdin=f, stdout=g, check=lean_ok)
        ins = open(fin).read().splitlines()
        impl = open(fimpl).read().splitlines()
        model = open(fmodel).read().splitlines() if os.path.exists(fmodel) else []
        for i, a in enumerate(impl):
            total += 1
            ia = a.split()
            mb = model[i].split() if i < len(model) else ["?"]
            m = re.search(r"depth=(\d+) nodes=(\d+)", a)
            if m:
                shapes.add((m.group(1), min(int(m.group(2)), 40)))
            if ia[0] == "error" or len(mb) < 4:
                diffs.append({"seed": s, "index": i, "doc": ins[i][:400], "impl": a[:200], "model": " ".join(mb)[:200]})
                continue
            rt_ok = ia[1] == ia[2]
            if ia[0] != mb[1] or ia[1] != mb[2] or ia[2] != mb[3]:
                diffs.append({"seed": s, "index": i, "input": unhex(ia[2]).decode("utf-8", "replace")[:400],
                              "impl_wire": unhex(ia[0]).decode("utf-8", "replace")[:400], "model_wire": unhex(mb[1]).decode("utf-8", "replace")[:400],
                              "impl_back": unhex(ia[1]).decode("utf-8", "replace")[:400], "model_back": unhex(mb[2]).decode("utf-8", "replace")[:400]})
            if mb[0] == "1":
                good += 1
                if not rt_ok:
                    goodfail.append({"seed": s, "index": i, "input": unhex(ia[2]).decode("utf-8", "replace")[:600],
                                     "wire": unhex(ia[0]).decode("utf-8", "replace")[:600], "back": unhex(ia[1]).decode("utf-8", "replace")[:600]})
            elif not rt_ok:
                fs = features(ins[i])
                hit = [x for x in fs if x in openf]
                if hit:
                    for x in hit:
                        known_hit.setdefault(x, unhex(ia[2]).decode("utf-8", "replace")[:120])
                else:
                    unexplained.append({"seed": s, "index": i, "input": unhex(ia[2]).decode("utf-8", "replace")[:600],
                                        "back": unhex(ia[1]).decode("utf-8", "replace")[:600], "features": sorted(fs)})
            if len(samples) < 3 and i >= 6:
                samples.append({"input": unhex(ia[2]).decode("utf-8", "replace")[:200], "wire": unhex(ia[0]).decode("utf-8", "replace")[:200]})
    for fid, ex in sorted(known_hit.items()):
        R.known_finding("%s: %s (e.g. %s)" % (fid, openf[fid]["what"], ex))
    if goodfail:
        R.violation({"property": pid, "kind": "a document satisfying the guard of C07_roundtrip_partial does not survive JsonIntoEEBUSJson;JsonFromEEBUSJson",
                     "replay": "call ship.JsonIntoEEBUSJson(input) then ship.JsonFromEEBUSJson(wire) and compare with input", "count": len(goodfail), "first": goodfail[:3]}, "roundtrip")
    elif unexplained:
        R.violation({"property": pid, "kind": "a document outside the guard fails the round trip for a reason not covered by a listed finding",
                     "count": len(unexplained), "first": unexplained[:3]}, "roundtrip")
    elif diffs:
        R.violation({"property": pid, "broken": "correspondence Json.intoEEBUS / Json.fromEEBUS (Lean) vs ship.JsonIntoEEBUSJson / ship.JsonFromEEBUSJson",
                     "note": "every guarded document explored still round-trips on the implementation", "count": len(diffs), "first": diffs[:3]}, "corr", no_input=True)
    elif not lean_ok:
        R.violation({"property": pid, "broken": "lake build ShipVerif.Props.C07: proof obligation no longer checks (passes_eq is re-proved against the regenerated pass list)",
                     "facts_changed": changed, "detail": ((p.stdout or "") + (err or ""))[-3000:]}, "proof", no_input=True)
    if forb:
        R.violation({"broken": "forbidden construct in Lean sources", "hits": forb}, "audit", no_input=True)
    bad_ax = [a for a in aud if not a["ok"]]
    if lean_ok and bad_ax:
        R.violation({"broken": "axiom audit", "theorems": bad_ax}, "axioms", no_input=True)
    R.coverage = {
        "obligations": len(THEOREMS), "discharged": discharged,
        "checker_cmd": "cd /verif/lean && lake build ShipVerif.Props.C07; lake env lean Audit.lean (#print axioms)",
        "trusted_base": C.TRUSTED_BASE,
        "theorems": aud,
        "evaluations": total,
        "distinct_nontrivial": len(shapes),
        "rule": "one evaluation = one generated document (depth 1-6, strings rich in quotes/escapes/multi-byte runes, long number literals; 1/6 with empty arrays, 1/6 with bracket-rich strings) pushed through the real transform both ways and through the Lean model, outputs compared byte for byte; distinct = distinct (depth, node count) shapes",
        "samples": samples,
        "guarded_documents": good,
        "guarded_documents_failing": len(goodfail),
        "unguarded_documents_failing_known_reasons": {k: v for k, v in known_hit.items()},
        "correspondence_differences": len(diffs),
        "facts_changed": changed,
    }
    return R.finish()
