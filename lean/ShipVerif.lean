import ShipVerif.Generated.Facts
import ShipVerif.Model.Conn
import ShipVerif.Model.ConnMon
import ShipVerif.Model.ConnEnum
import ShipVerif.Proofs.ConnCert
