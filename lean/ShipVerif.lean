import ShipVerif.Generated.Facts
import ShipVerif.Model.Conn
import ShipVerif.Model.ConnMon
import ShipVerif.Model.ConnEnum
import ShipVerif.Proofs.ConnCert
import ShipVerif.Model.ConnData
import ShipVerif.Proofs.ConnTrace
import ShipVerif.Props.ConnProps
