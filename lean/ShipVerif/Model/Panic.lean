/-
  Panic — the vocabulary of the regenerated inventory of partial operations (`Generated.panicSites`):
  every slice / string index, slice expression, explicit pointer dereference, unchecked type assertion,
  integer division, channel send / close, field-map write and explicit panic in packages ship, ws, mdns, util,
  each with the conditions that dominate it.  `Site.justified` decides whether the dominating conditions
  make the operation safe; `Props/C08.lean` proves that decision sound against an arbitrary environment
  (lengths, integer variables, nil-ness) and that every site of the current source is justified.
-/
namespace ShipVerif.Panic

inductive Idx
  | lit (k : Nat)
  | var (v : String)
  deriving DecidableEq, Repr

inductive Cmp | gt | ge | eq | ne | lt | le
  deriving DecidableEq, Repr

/-- a dominating condition -/
inductive G
  | len (x : String) (c : Cmp) (k : Idx) (neg : Bool)   -- [¬] (len(x) c k)
  | cmp (a : Idx) (c : Cmp) (b : Idx) (neg : Bool)      -- [¬] (a c b)
  | nil (p : String) (isNil : Bool)                      -- p == nil / p != nil
  | range (i : String) (x : String)                      -- inside `for i := range x`
  | typeIs (t : String)                                  -- inside `case t:` of a type switch on the asserted value
  | sel                                                  -- a case of a select statement
  | other (text : String)
  deriving DecidableEq, Repr

inductive Op
  | index (x : String) (i : Idx)
  | slice (x : String) (lo hi : Option Idx)
  | deref (p : String)
  | fieldptr (p : String)
  | assert (x t : String)
  | div (d : String)
  | send (ch : String)
  | close (ch : String)
  | mapwrite (m : String)
  | panic
  deriving DecidableEq, Repr

structure Site where
  pkg : String
  fn : String
  text : String
  op : Op
  guards : List G
  deriving DecidableEq, Repr

/-- a `sync.Once` body: the package-local functions it reaches by static calls and the functions that run the same once -/
structure OnceBody where
  pkg : String
  fn : String
  once : String
  callees : List String
  doers : List String
  deriving DecidableEq, Repr

/-- a once body that (transitively) runs the same once again never returns: `sync.Once.Do` is not re-entrant -/
def OnceBody.reentryFree (b : OnceBody) : Bool := b.callees.all fun c => !b.doers.contains c

/-- values the conditions talk about -/
structure Env where
  len : String → Nat
  val : String → Nat
  isNil : String → Bool

def Idx.eval (e : Env) : Idx → Nat
  | .lit k => k
  | .var v => e.val v

def Cmp.holds : Cmp → Nat → Nat → Prop
  | .gt, a, b => a > b
  | .ge, a, b => a ≥ b
  | .eq, a, b => a = b
  | .ne, a, b => a ≠ b
  | .lt, a, b => a < b
  | .le, a, b => a ≤ b

/-- meaning of a condition (conditions this vocabulary cannot read hold vacuously: they justify nothing) -/
def G.holds (e : Env) : G → Prop
  | .len x c k neg => if neg then ¬ c.holds (e.len x) (k.eval e) else c.holds (e.len x) (k.eval e)
  | .cmp a c b neg => if neg then ¬ c.holds (a.eval e) (b.eval e) else c.holds (a.eval e) (b.eval e)
  | .nil p isNil => e.isNil p = isNil
  | _ => True

/-- does the condition force `i < len x`? -/
def G.below (g : G) (x : String) (i : Idx) : Bool :=
  match g, i with
  | .len y c (.lit n) neg, .lit k =>
    y == x && (match c, neg with
      | .gt, false => k ≤ n          -- len > n ≥ k
      | .ge, false => k < n          -- len ≥ n > k
      | .eq, false => k < n          -- len = n > k
      | .ne, true => k < n           -- ¬ len ≠ n
      | .lt, true => k < n           -- ¬ len < n
      | .le, true => k ≤ n           -- ¬ len ≤ n
      | .eq, true => k == 0          -- ¬ len = 0 (only n = 0 helps)
          && n == 0
      | _, _ => false)
  | .len y c (.var v) neg, .var w =>
    y == x && v == w && (match c, neg with
      | .gt, false => true           -- len > v
      | .le, true => true            -- ¬ len ≤ v
      | _, _ => false)
  | _, _ => false

/-- does the condition force `i ≤ len x`? (bounds of a slice expression) -/
def G.atMost (g : G) (x : String) (i : Idx) : Bool :=
  g.below x i ||
  (match g, i with
   | .len y c (.lit n) neg, .lit k =>
     y == x && (match c, neg with
       | .gt, false => k ≤ n + 1
       | .ge, false => k ≤ n
       | .eq, false => k ≤ n
       | .ne, true => k ≤ n
       | .lt, true => k ≤ n
       | .le, true => k ≤ n + 1
       | .eq, true => n == 0 && k ≤ 1
       | _, _ => false)
   | .len y c (.var v) neg, .var w =>
     y == x && v == w && (match c, neg with
       | .ge, false => true
       | .lt, true => true
       | _, _ => false)
   | _, _ => false)

def boundOk (gs : List G) (x : String) : Option Idx → Bool
  | none => true
  | some (.lit 0) => true
  | some i => gs.any (·.atMost x i)

/-- sites whose safety rests on an argument this vocabulary does not express: (function, operation text, reason).
    Each names the theorem or the source fact it relies on. -/
def waivers : List (String × String × String) :=
  [ ("MdnsManager.interfaces", "ifaces[i]", "ifaces is made with len(m.ifaces) two lines above, i ranges over m.ifaces (local configuration, not peer input)"),
    ("MdnsManager.interfaces", "ifaceIndexes[i]", "as ifaces[i]"),
    ("MdnsManager.interfaces", "*iface", "net.InterfaceByName returns a non-nil interface when err is nil (local configuration, not peer input)"),
    ("MdnsManager.setMdnsEntry", "m.entries[ski]", "entries is made in NewMDNS and never set to nil"),
    ("AvahiProvider.processAddedService", "a.serviceElements[getServiceUniqueKey(service)]", "serviceElements is made in NewAvahiProvider and never set to nil"),
    ("AvahiProvider.Shutdown", "a.shutdownChan <- struct{}{}", "C19: Avahi.C19_shutdown_final (Shutdown never waits for a listener that does not exist)"),
    ("AvahiProvider.Shutdown", "close(a.shutdownChan)", "C19: channels are closed once per successful setup (Avahi model, inv_run)"),
    ("AvahiProvider.Shutdown", "close(a.addServiceChan)", "as close(a.shutdownChan)"),
    ("AvahiProvider.Shutdown", "close(a.removeServiceChan)", "as close(a.shutdownChan)"),
    ("ShipConnection.stopHandshakeTimer", "close(c.handshakeTimerStopChan)", "C14: Timer model - one stop channel per arm, closed under the mutex while the running flag is set"),
    ("WebsocketConnection.WriteMessageToWebsocketConnection", "w.shipWriteChannel <- message", "C12: Ws.C12_write_vs_close (the queue is never closed; the send is a select case next to the close channel)"),
    ("WebsocketConnection.shutdown", "close(w.closeChannel)", "C13: inside shutdownOnce (Ws model, once body runs once)"),
    ("Hub.ReportMdnsEntries", "mdnsEntries[i]", "indices handed out by sort.Slice for the slice being sorted"),
    ("Hub.ReportMdnsEntries", "mdnsEntries[j]", "as mdnsEntries[i]"),
    ("Hub.ServiceForSKI", "h.remoteServices[ski]", "remoteServices is made in NewHub and never set to nil"),
    ("Hub.increaseConnectionAttemptCounter", "h.connectionAttemptCounter[ski]", "made in NewHub and never set to nil"),
    ("Hub.registerConnection", "h.connections[connection.RemoteSKI()]", "made in NewHub and never set to nil"),
    ("Hub.setConnectionAttemptRunning", "h.connectionAttemptRunning[ski]", "made in NewHub and never set to nil"),
    ("Hub.getConnectionInitiationDelayTime", "connectionInitiationDelayTimeRanges[counter]", "increaseConnectionAttemptCounter caps the counter at len-1 (Hub.nextCounter, compared with the real hub by the hubstep engine)"),
    ("Hub.connectFoundService", "conn.UnderlyingConn().(*tls.Conn)", "the dialer is used with wss:// URLs only: the underlying connection of a successful dial is a *tls.Conn"),
    ("Hub.connectFoundService", "remoteCerts[0].SubjectKeyId", "crypto/tls hands out parsed (non-nil) certificates; index 0 is guarded by the length check in the same condition") ]

/-- waivers that additionally need a dominating condition to be present: (function, operation text, condition) -/
def waiverNeeds : List (String × String × G) :=
  [ ("WebsocketConnection.WriteMessageToWebsocketConnection", "w.shipWriteChannel <- message", .sel) ]   -- the send is a select case (next to the close channel)

def Site.waived (s : Site) : Bool :=
  (waivers.any fun w => w.1 == s.fn && w.2.1 == s.text) &&
  (waiverNeeds.all fun n => !(n.1 == s.fn && n.2.1 == s.text) || s.guards.contains n.2.2)

def Site.justified (s : Site) : Bool :=
  (match s.op with
   | .index x i => s.guards.any (·.below x i) || (match i with | .var v => s.guards.any (· == .range v x) | _ => false)
   | .slice x lo hi => boundOk s.guards x lo && boundOk s.guards x hi
   | .deref p => s.guards.any (· == .nil p false)
   | .fieldptr p => s.guards.any (· == .nil p false)
   | .assert _ t => s.guards.any (· == .typeIs t)
   | _ => false) || s.waived

end ShipVerif.Panic
