/-
  Model/Race.lean — a user call that runs while a message handler of the same connection is inside a transport write.

  ship.ShipConnection runs the handler of a peer message on the reading goroutine and the application's calls
  (AbortPendingHandshake, ApprovePendingHandshake) on the application's. A handler that sends a message keeps no lock
  during the write; several handlers assign the next state after the write without reading the state again
  (`handshakeHello_Init`: send hello, then `setState(ReadyListen)`). What a user call does depends on the state it finds.

  The model is the schedule class engine userrace executes on the implementation: the handler is inside the write of a
  window `(pre, post)` — `pre` is the state in force, `post` the state it assigns when the write returns —, the user
  call runs to completion, the write returns. `Cfg` is regenerated from /repo (extract/race.go): the windows of all
  handlers and the states the two user calls act in.

  Not modelled: a user call that is itself preempted (between reading the state and acting on it), two handlers at once
  (a timer expiry during a message), a close during the write. Engine userrace's serial scheduler shows that the pinned
  code has no such guarantee there (DESIGN.md section 5, observations outside the stated quantifier).
-/
namespace ShipVerif.Race

structure Cfg where
  /-- (state in force during a transport write, state assigned afterwards without reading it again) -/
  windows : List (Nat × Nat)
  /-- states AbortPendingHandshake acts in -/
  abortStates : List Nat
  /-- states ApprovePendingHandshake acts in -/
  approveStates : List Nat
deriving Repr, DecidableEq

inductive UserCall | abort | approve
deriving Repr, DecidableEq

/-- abort sent, abort done, remote abort, rejected, error -/
def isOutcome (s : Nat) : Bool := s == 14 || s == 15 || s == 16 || s == 17 || s == 39

def accepts (c : Cfg) : UserCall → Nat → Bool
  | .abort, s => c.abortStates.contains s
  | .approve, s => c.approveStates.contains s

/-- the states a user call reports when it runs to completion finding state `s` (ship/connection.go):
    abort: Abort, AbortDone; approve: ReadyInit, ReadyListen, HelloOk -/
def userEffect (c : Cfg) (u : UserCall) (s : Nat) : List Nat :=
  if accepts c u s then (match u with | .abort => [14, 15] | .approve => [7, 8, 13]) else []

/-- the states reported from the moment the handler is inside its write: the user call's, then the handler's assignment -/
def episode (c : Cfg) (w : Nat × Nat) (u : UserCall) : List Nat := userEffect c u w.1 ++ [w.2]

/-- the design obligation: no user call acts in a state that is in force during a write followed by the assignment of a
    progress state -/
def stable (c : Cfg) : Bool :=
  c.windows.all fun w => isOutcome w.2 || (!c.abortStates.contains w.1 && !c.approveStates.contains w.1)

/-- an outcome is final in a list of reported states: nothing but outcomes after one -/
def outcomeFinal : List Nat → Bool
  | [] => true
  | s :: rest => (if isOutcome s then rest.all isOutcome else true) && outcomeFinal rest

end ShipVerif.Race
