/-
  Accept — peer identity decisions of the hub (hub/hub_connections.go, cert/cert.go).
  A certificate is reduced to what the code inspects: the Subject Key Identifier extension (if any) and
  the subject public key bit string; `H` stands for SHA-1 (only `H` itself is assumed, nothing about it).
  TLS (proof of possession of the certificate's key, version negotiation) and the websocket upgrade are
  outside the model; their outcomes are inputs.
-/
import ShipVerif.Model.Ski

namespace ShipVerif.Accept
open ShipVerif.Ski (Str)

structure Cert where
  ext : Option Str     -- SubjectKeyId extension
  pub : Str            -- subjectPublicKey bit string
  deriving DecidableEq, Repr

def hexDigit (n : Nat) : Nat := if n < 10 then 48 + n else 87 + n
/-- fmt.Sprintf("%0x", bytes) -/
def hex : Str → Str
  | [] => []
  | b :: bs => hexDigit (b / 16 % 16) :: hexDigit (b % 16) :: hex bs

/-- cert.SkiFromCertificate -/
def skiFromCert (H : Str → Str) (c : Cert) : Option Str :=
  match c.ext with
  | none => none
  | some id => if id.length = 20 ∧ id = H c.pub then some (hex id) else none

/-- verifyPeerCertificate: some presented certificate yields a SKI -/
def verifyPeer (H : Str → Str) (certs : List Cert) : Bool := certs.any fun c => (skiFromCert H c).isSome

inductive Refusal | noClientCert | tlsVersion | peerCertCheck | subProtocol | firstCertSki
  deriving DecidableEq, Repr

inductive Decision
  | refuse (r : Refusal)
  | accept (ski : Str)
  deriving DecidableEq, Repr

structure Inbound where
  tlsMinor : Nat          -- negotiated TLS 1.x
  certs : List Cert       -- client certificate chain as presented
  subProtocol : Str       -- negotiated websocket sub-protocol ("" if none)
  deriving Repr

def shipProto : Str := ShipVerif.Ski.strBytes "ship"

/-- startWebsocketServer's TLS config + ServeHTTP, in the order the checks happen -/
def acceptInbound (H : Str → Str) (x : Inbound) : Decision :=
  if x.tlsMinor < 2 then .refuse .tlsVersion
  else if x.certs = [] then .refuse .noClientCert
  else if !verifyPeer H x.certs then .refuse .peerCertCheck
  else if x.subProtocol ≠ shipProto then .refuse .subProtocol
  else match x.certs with
    | [] => .refuse .noClientCert
    | c :: _ => match skiFromCert H c with
      | some ski => .accept ski
      | none => .refuse .firstCertSki

inductive OutDecision | closeNoShip | proceed
  deriving DecidableEq, Repr

/-- connectFoundService after the dial: the presented SKI must be the dialled one -/
def acceptOutbound (H : Str → Str) (dialled : Str) (certs : List Cert) : OutDecision :=
  match certs with
  | [] => .closeNoShip
  | c :: _ => match skiFromCert H c with
    | some ski => if ski = dialled then .proceed else .closeNoShip
    | none => .closeNoShip

/-- cert.CreateCertificate: the identifier is the hash of the key -/
def genCert (H : Str → Str) (key : Str) : Cert := { ext := some (H key), pub := key }

end ShipVerif.Accept
