/-
  ConnEnum — complete enumeration of the input alphabet `Inp` (as Bool-valued "for all" combinators with
  their specification lemmas), the environment normalisation, and an injective-by-checking Nat coding of
  product states used to store the reachable set.
-/
import ShipVerif.Model.ConnMon

namespace ShipVerif.Conn

/-! ### for-all combinators over finite types -/

def allBool (f : Bool → Bool) : Bool := f false && f true
theorem allBool_spec {f : Bool → Bool} (h : allBool f = true) : ∀ b, f b = true := by
  simp only [allBool, Bool.and_eq_true] at h
  intro b; cases b <;> simp [h.1, h.2]

def allWCls (f : WCls → Bool) : Bool := f .none && f .lt1 && f .mid && f .ge30
theorem allWCls_spec {f : WCls → Bool} (h : allWCls f = true) : ∀ b, f b = true := by
  simp only [allWCls, Bool.and_eq_true] at h
  intro b; cases b <;> simp [h.1.1.1, h.1.1.2, h.1.2, h.2]

def allPCls (f : PCls → Bool) : Bool := f .none && f .t && f .f
theorem allPCls_spec {f : PCls → Bool} (h : allPCls f = true) : ∀ b, f b = true := by
  simp only [allPCls, Bool.and_eq_true] at h
  intro b; cases b <;> simp [h.1.1, h.1.2, h.2]

def allHelloV (f : HelloV → Bool) : Bool :=
  f .err && allWCls (fun w => f (.ready w)) && allWCls (fun w => allPCls fun p => f (.pending w p))
    && f .aborted && f .other
theorem allHelloV_spec {f : HelloV → Bool} (h : allHelloV f = true) : ∀ b, f b = true := by
  simp only [allHelloV, Bool.and_eq_true] at h
  obtain ⟨⟨⟨⟨h1, h2⟩, h3⟩, h4⟩, h5⟩ := h
  intro b
  cases b with
  | err => exact h1
  | ready w => exact allWCls_spec h2 w
  | pending w p => exact allPCls_spec (allWCls_spec h3 w) p
  | aborted => exact h4
  | other => exact h5

def allHType (f : HType → Bool) : Bool := f .announceMax && f .select && f .other
theorem allHType_spec {f : HType → Bool} (h : allHType f = true) : ∀ b, f b = true := by
  simp only [allHType, Bool.and_eq_true] at h
  intro b; cases b <;> simp [h.1.1, h.1.2, h.2]

def allProtV (f : ProtV → Bool) : Bool :=
  f .err && allHType (fun t => allBool fun v => allBool fun m => f (.ok t v m))
theorem allProtV_spec {f : ProtV → Bool} (h : allProtV f = true) : ∀ b, f b = true := by
  simp only [allProtV, Bool.and_eq_true] at h
  intro b
  cases b with
  | err => exact h.1
  | ok t v m => exact allBool_spec (allBool_spec (allHType_spec h.2 t) v) m

def allPinV (f : PinV → Bool) : Bool := f .err && f .none && f .other
theorem allPinV_spec {f : PinV → Bool} (h : allPinV f = true) : ∀ b, f b = true := by
  simp only [allPinV, Bool.and_eq_true] at h
  intro b; cases b <;> simp [h.1.1, h.1.2, h.2]

def allIdRel (f : IdRel → Bool) : Bool := f .fresh && f .same && f .mismatch
theorem allIdRel_spec {f : IdRel → Bool} (h : allIdRel f = true) : ∀ b, f b = true := by
  simp only [allIdRel, Bool.and_eq_true] at h
  intro b; cases b <;> simp [h.1.1, h.1.2, h.2]

def allAccV (f : AccV → Bool) : Bool :=
  f .request && f .methodsErr && f .methodsNoId && allIdRel (fun r => f (.methodsId r)) && f .neither
theorem allAccV_spec {f : AccV → Bool} (h : allAccV f = true) : ∀ b, f b = true := by
  simp only [allAccV, Bool.and_eq_true] at h
  obtain ⟨⟨⟨⟨h1, h2⟩, h3⟩, h4⟩, h5⟩ := h
  intro b
  cases b with
  | request => exact h1
  | methodsErr => exact h2
  | methodsNoId => exact h3
  | methodsId r => exact allIdRel_spec h4 r
  | neither => exact h5

def allView (f : View → Bool) : Bool :=
  f .nil && allBool (fun b => f (.init b)) && allHelloV (fun h => f (.hello h))
    && allProtV (fun p => f (.prot p)) && allPinV (fun p => f (.pin p)) && allAccV (fun a => f (.acc a))
    && f .ignored
theorem allView_spec {f : View → Bool} (h : allView f = true) : ∀ b, f b = true := by
  simp only [allView, Bool.and_eq_true] at h
  obtain ⟨⟨⟨⟨⟨⟨h1, h2⟩, h3⟩, h4⟩, h5⟩, h6⟩, h7⟩ := h
  intro b
  cases b with
  | nil => exact h1
  | init ok => exact allBool_spec h2 ok
  | hello x => exact allHelloV_spec h3 x
  | prot x => exact allProtV_spec h4 x
  | pin x => exact allPinV_spec h5 x
  | acc x => exact allAccV_spec h6 x
  | ignored => exact h7

def allCloseK (f : CloseK → Bool) : Bool := f .announce && f .confirm && f .other
theorem allCloseK_spec {f : CloseK → Bool} (h : allCloseK f = true) : ∀ b, f b = true := by
  simp only [allCloseK, Bool.and_eq_true] at h
  intro b; cases b <;> simp [h.1.1, h.1.2, h.2]

def allIn (f : In → Bool) : Bool :=
  f .run && allBool (fun b => f (.msgData b)) && allCloseK (fun k => f (.msgClose k))
    && allView (fun v => f (.msgPlain v)) && f .timeout && f .approve && f .abort
    && allBool (fun b => f (.close b)) && f .connErr && allBool (fun b => f (.appWrite b))
    && f .fireRej && f .fireGrace
theorem allIn_spec {f : In → Bool} (h : allIn f = true) : ∀ b, f b = true := by
  simp only [allIn, Bool.and_eq_true] at h
  obtain ⟨⟨⟨⟨⟨⟨⟨⟨⟨⟨⟨h1, h2⟩, h3⟩, h4⟩, h5⟩, h6⟩, h7⟩, h8⟩, h9⟩, h10⟩, h11⟩, h12⟩ := h
  intro b
  cases b with
  | run => exact h1
  | msgData ok => exact allBool_spec h2 ok
  | msgClose k => exact allCloseK_spec h3 k
  | msgPlain v => exact allView_spec h4 v
  | timeout => exact h5
  | approve => exact h6
  | abort => exact h7
  | close s => exact allBool_spec h8 s
  | connErr => exact h9
  | appWrite v => exact allBool_spec h10 v
  | fireRej => exact h11
  | fireGrace => exact h12

def allFail (f : Option (Fin 3) → Bool) : Bool := f none && f (some 0) && f (some 1) && f (some 2)
theorem allFail_spec {f : Option (Fin 3) → Bool} (h : allFail f = true) : ∀ b, f b = true := by
  simp only [allFail, Bool.and_eq_true] at h
  obtain ⟨⟨⟨h1, h2⟩, h3⟩, h4⟩ := h
  intro b
  match b with
  | none => exact h1
  | some ⟨0, _⟩ => exact h2
  | some ⟨1, _⟩ => exact h3
  | some ⟨2, _⟩ => exact h4

/-! ### enumeration of the provider answers an input can depend on -/

def allEnvFor (i : In) (f : Env → Bool) : Bool :=
  match envNeed i with
  | .none => f noEnv
  | .allow => allBool fun a => f { paired := false, auto := false, allow := a }
  | .all => allBool fun p => allBool fun a => allBool fun w => f { paired := p, auto := a, allow := w }

theorem allEnvFor_spec {i : In} {f : Env → Bool} (h : allEnvFor i f = true) :
    ∀ e, f (normEnv i e) = true := by
  intro e
  unfold allEnvFor at h
  unfold normEnv
  cases hn : envNeed i <;> simp only [hn] at h ⊢
  · exact h
  · exact allBool_spec h e.allow
  · exact allBool_spec (allBool_spec (allBool_spec h e.paired) e.auto) e.allow

/-- all normalised inputs -/
def allInp (f : Inp → Bool) : Bool :=
  allIn fun i => allEnvFor i fun e => allFail fun fl => f { i := i, env := e, fail := fl }

theorem allInp_spec {f : Inp → Bool} (h : allInp f = true) : ∀ x : Inp, f x.norm = true := by
  intro x
  exact allFail_spec (allEnvFor_spec (allIn_spec h x.i) x.env) x.fail

/-! ### Nat coding of product states (no inverse law is needed: membership re-checks equality) -/

def Role.toNat : Role → Nat | .client => 0 | .server => 1
def Cnt.toNat : Cnt → Nat | .zero => 0 | .one => 1 | .many => 2
def b2n (b : Bool) : Nat := if b then 1 else 0

/-- append a digit `d` (radix `k`) to a code -/
def push (n k d : Nat) : Nat := n * k + d
/-- split off the last digit -/
def pop (n k : Nat) : Nat × Nat := (n / k, n % k)

theorem pop_push {n k d : Nat} (h : d < k) : pop (push n k d) k = (n, d) := by
  have hk : 0 < k := by omega
  simp only [pop, push]
  rw [Nat.add_comm, Nat.add_mul_div_right _ _ hk, Nat.add_mul_mod_self_right, Nat.div_eq_of_lt h,
    Nat.mod_eq_of_lt h, Nat.zero_add]

def PS.enc (s : PS) : Nat :=
  let c := s.c; let m := s.m
  push (push (push (push (push (push (push (push (push (push (push (push (push (push (push
    c.role.toNat 40 c.st.toNat) 2 (b2n c.trun)) 3 c.ttype.toNat) 2 (b2n c.once)) 2 (b2n c.wsClosed))
    2 (b2n c.reader)) 2 (b2n c.pendRej)) 2 (b2n c.pendGrace)) 2 (b2n m.granted)) 2 (b2n m.term))
    40 m.last.toNat) 3 m.cb.toNat) 2 (b2n m.wsc)) 3 m.setups.toNat) 3 m.ids.toNat

def n2b (n : Nat) : Bool := n != 0
def Cnt.fromNat : Nat → Cnt | 0 => .zero | 1 => .one | _ => .many
def TT.fromNat : Nat → TT | 0 => .waitForReady | 1 => .sendProlong | _ => .prolongReply
def Role.fromNat : Nat → Role | 0 => .client | _ => .server
def St.ofNatD (n : Nat) : St := (St.ofNat? n).getD .error

def PS.dec (n : Nat) : PS :=
  match pop n 3 with
  | (n, ids) => match pop n 3 with
  | (n, setups) => match pop n 2 with
  | (n, wsc) => match pop n 3 with
  | (n, cb) => match pop n 40 with
  | (n, last) => match pop n 2 with
  | (n, term) => match pop n 2 with
  | (n, granted) => match pop n 2 with
  | (n, pendGrace) => match pop n 2 with
  | (n, pendRej) => match pop n 2 with
  | (n, reader) => match pop n 2 with
  | (n, wsClosed) => match pop n 2 with
  | (n, once) => match pop n 3 with
  | (n, ttype) => match pop n 2 with
  | (n, trun) => match pop n 40 with
  | (n, st) =>
  { c := { role := Role.fromNat n, st := St.ofNatD st, trun := n2b trun, ttype := TT.fromNat ttype,
           once := n2b once, wsClosed := n2b wsClosed, reader := n2b reader, pendRej := n2b pendRej,
           pendGrace := n2b pendGrace },
    m := { granted := n2b granted, term := n2b term, last := St.ofNatD last, cb := Cnt.fromNat cb,
           wsc := n2b wsc, setups := Cnt.fromNat setups, ids := Cnt.fromNat ids } }

@[simp] theorem b2n_lt (b : Bool) : b2n b < 2 := by cases b <;> decide
@[simp] theorem St.toNat_lt (s : St) : s.toNat < 40 := by cases s <;> decide
@[simp] theorem TT.toNat_lt (s : TT) : s.toNat < 3 := by cases s <;> decide
@[simp] theorem Cnt.toNat_lt (s : Cnt) : s.toNat < 3 := by cases s <;> decide
@[simp] theorem n2b_b2n (b : Bool) : n2b (b2n b) = b := by cases b <;> rfl
@[simp] theorem St.ofNatD_toNat (s : St) : St.ofNatD s.toNat = s := by cases s <;> rfl
@[simp] theorem TT.fromNat_toNat (s : TT) : TT.fromNat s.toNat = s := by cases s <;> rfl
@[simp] theorem Cnt.fromNat_toNat (s : Cnt) : Cnt.fromNat s.toNat = s := by cases s <;> rfl
@[simp] theorem Role.fromNat_toNat (s : Role) : Role.fromNat s.toNat = s := by cases s <;> rfl

theorem PS.dec_enc (s : PS) : PS.dec s.enc = s := by
  obtain ⟨c, m⟩ := s
  obtain ⟨role, st, trun, ttype, once, wsClosed, reader, pendRej, pendGrace⟩ := c
  obtain ⟨granted, term, last, cb, wsc, setups, ids⟩ := m
  simp [PS.enc, PS.dec, pop_push]

/-! ### search tree of codes -/

inductive CodeTree
  | leaf
  | node (l : CodeTree) (k : Nat) (r : CodeTree)
  deriving Inhabited

namespace CodeTree

def keys : CodeTree → List Nat
  | leaf => []
  | node l k r => l.keys ++ k :: r.keys

def find (k : Nat) : CodeTree → Bool
  | leaf => false
  | node l k' r => if k < k' then l.find k else if k' < k then r.find k else true

def all (p : Nat → Bool) : CodeTree → Bool
  | leaf => true
  | node l k r => l.all p && p k && r.all p

theorem find_mem {k : Nat} : ∀ {t : CodeTree}, t.find k = true → k ∈ t.keys
  | leaf, h => by simp [find] at h
  | node l k' r, h => by
    simp only [find] at h
    simp only [keys, List.mem_append, List.mem_cons]
    split at h
    · exact Or.inl (find_mem h)
    · split at h
      · exact Or.inr (Or.inr (find_mem h))
      · next h1 h2 => exact Or.inr (Or.inl (by omega))

theorem all_mem {p : Nat → Bool} : ∀ {t : CodeTree}, t.all p = true → ∀ k ∈ t.keys, p k = true
  | leaf, _, k, hk => by simp [keys] at hk
  | node l k' r, h, k, hk => by
    simp only [all, Bool.and_eq_true] at h
    simp only [keys, List.mem_append, List.mem_cons] at hk
    rcases hk with hk | hk | hk
    · exact all_mem h.1.1 k hk
    · subst hk; exact h.1.2
    · exact all_mem h.2 k hk

/-- balanced tree from a sorted list (used by the untrusted generator; nothing is proved about it) -/
partial def ofSorted (a : Array Nat) (lo hi : Nat) : CodeTree :=
  if lo ≥ hi then leaf else
    let mid := (lo + hi) / 2
    node (ofSorted a lo mid) a[mid]! (ofSorted a (mid + 1) hi)

end CodeTree

end ShipVerif.Conn
