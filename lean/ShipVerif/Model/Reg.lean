/-
  Reg — the hub's connection registry for one SKI under arbitrary scheduling of its two writers:
  `registerConnection` (a new connection was established; ServeHTTP / connectFoundService) and
  `HandleConnectionClosed` (a connection reports its end).  The end of a connection removes the registry entry
  only if that entry is the closing connection.  Whether the comparison and the removal are one critical section
  is a design fact read from the source (`Generated.regCfg`).

  Primitives taken as given: sections under the connection mutex are atomic; every connection reports its end at
  most once (C11_closed_once) and only after it was created.
-/
namespace ShipVerif.Reg

structure Cfg where
  closeAtomic : Bool   -- comparison with the registered connection and removal happen under one acquisition of the mutex
  deriving DecidableEq, Repr

def Cfg.fixed : Cfg := { closeAtomic := true }
def Cfg.pinned : Cfg := { closeAtomic := false }

abbrev Id := Nat

structure S where
  registry : Option Id := none
  next : Id := 0                     -- connections are created with fresh identities
  regs : List Id := []               -- registrations so far, oldest first
  started : List Id := []            -- connections whose end has begun to be handled
  pend : List (Id × Bool) := []      -- closers between comparison and removal, with what the comparison said
  deriving Repr

inductive Act
  | register                 -- a new connection is established and registered
  | closeCheck (c : Id)      -- HandleConnectionClosed(c): the comparison (and, if atomic, the removal)
  | closeDelete (c : Id)     -- the removal, when it is a separate critical section
  deriving DecidableEq, Repr

def lookup (c : Id) : List (Id × Bool) → Option Bool
  | [] => none
  | (x, b) :: rest => if x = c then some b else lookup c rest

def step (cfg : Cfg) (s : S) : Act → S
  | .register => { s with registry := some s.next, regs := s.regs ++ [s.next], next := s.next + 1 }
  | .closeCheck c =>
    if c < s.next ∧ c ∉ s.started then
      let s := { s with started := c :: s.started }
      if cfg.closeAtomic then
        (if s.registry = some c then { s with registry := none } else s)
      else { s with pend := (c, decide (s.registry = some c)) :: s.pend }
    else s
  | .closeDelete c =>
    match lookup c s.pend with
    | some true => { s with registry := none, pend := s.pend.filter (·.1 ≠ c) }   -- delete(h.connections, ski)
    | some false => { s with pend := s.pend.filter (·.1 ≠ c) }
    | none => s

def run (cfg : Cfg) (acts : List Act) : S := acts.foldl (step cfg) {}

/-- the connection registered last, if its own end has not begun, is the registered one -/
def newestKept (s : S) : Prop :=
  ∀ n, s.regs.getLast? = some n → n ∉ s.started → s.registry = some n

end ShipVerif.Reg
