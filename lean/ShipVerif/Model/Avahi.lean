/-
  Avahi — life cycle of the Avahi mDNS provider (mdns/avahi.go) against a daemon that can go away and come
  back: start, announce / unannounce, disconnect callback, the reconnect loop (one attempt per second),
  manual shutdown.  The daemon is part of the state (is it reachable, does it hold a browser and a
  published entry group for this provider).  Two design facts come from the source: does a reconnect
  attempt respect a shutdown that happened while it slept, and does it announce what is wanted *now*.
-/
namespace ShipVerif.Avahi

structure Cfg where
  reconnectRespectsShutdown : Bool
  reannounceCurrent : Bool
  deriving DecidableEq, Repr

def Cfg.fixed : Cfg := { reconnectRespectsShutdown := true, reannounceCurrent := true }
def Cfg.pinned : Cfg := { reconnectRespectsShutdown := false, reannounceCurrent := false }

abbrev Txt := Nat

structure S where
  -- daemon
  up : Bool := true
  session : Bool := false          -- the provider's server object is set up against the running daemon
  browsing : Bool := false
  published : Option Txt := none
  -- provider
  wanted : Option Txt := none      -- mdnsServiceData
  groupRef : Bool := false         -- avEntryGroup != nil
  manual : Bool := false           -- manualShutdown
  autoRe : Bool := false           -- autoReconnect
  started : Bool := false          -- setupSuccessful
  listener : Bool := false         -- listenerRunning
  listenerAlive : Bool := false    -- the listener goroutine exists
  browserRef : Bool := false       -- avBrowser != nil
  loops : List (Option Txt)        := []   -- reconnect goroutines: what each captured when the daemon went away
  afterShutdown : Nat := 0         -- daemon calls issued by a reconnect loop after a manual shutdown
  shutdownBlocked : Bool := false  -- Shutdown had to signal a listener that does not exist
  reports : Nat := 0               -- browse results the listener resolved and handed to the manager
  undelivered : Nat := 0           -- browse results the daemon emitted and nobody took
  deriving Repr

inductive Ev
  | start
  | daemonDown
  | daemonUp
  | tick                  -- the oldest reconnect loop wakes up from its one-second sleep
  | announce (t : Txt)
  | unannounce
  | shutdown
  | service               -- the daemon emits a browse result (a daemon that holds a browser for this provider does)
  | tickFlaky             -- a reconnect attempt whose Setup succeeds and whose next daemon call fails
  deriving DecidableEq, Repr

/-- Start: set up, start, create the browser, make sure the listener runs -/
def doStart (s : S) : S × Bool :=
  let s := { s with manual := false }
  if !s.up then (s, false)
  else
    -- Setup opens a fresh session with the daemon: whatever an older session had published is gone
    ({ s with session := true, browsing := true, published := none, started := true, autoRe := true, browserRef := true,
              listener := true, listenerAlive := s.listenerAlive || !s.listener }, true)

/-- Announce -/
def doAnnounce (s : S) (t : Txt) : S :=
  let s := { s with wanted := some t }
  if s.session && s.up then { s with published := some t, groupRef := true } else s

def step (c : Cfg) (s : S) : Ev → S
  | .start => if s.autoRe then s else (doStart s).1    -- the manager starts a provider that is not running
  | .daemonUp => { s with up := true }
  | .daemonDown =>
    if !s.up then s else
    let hadSession := s.session
    let s := { s with up := false, session := false, browsing := false, published := none }
    -- the Disconnected callback
    if !hadSession || s.manual || !s.autoRe then s
    else { s with loops := s.loops ++ [s.wanted] }
  | .tick =>
    match s.loops with
    | [] => s
    | captured :: rest =>
      if c.reconnectRespectsShutdown && s.manual then { s with loops := rest }
      else
        let wasManual := s.manual
        let r := doStart s
        if !r.2 then r.1      -- daemon still away: keep trying
        else
          let s := { r.1 with loops := rest, afterShutdown := if wasManual then s.afterShutdown + 1 else s.afterShutdown }
          match (if c.reannounceCurrent then s.wanted else captured) with
          | some t => doAnnounce s t
          | none => s
  | .announce t => if !s.autoRe then s else doAnnounce s t     -- the manager announces only through a running provider
  | .unannounce =>
    if !s.autoRe then s else
    let s := { s with wanted := none }
    if s.groupRef then { s with groupRef := false, published := none } else s
  | .shutdown =>
    let s := { s with manual := true }
    if !s.started then s else
    -- the running listener is signalled over an unbuffered channel: that blocks if it does not exist
    let blocked := s.browserRef && s.listener && !s.listenerAlive
    let s := { s with autoRe := false, shutdownBlocked := s.shutdownBlocked || blocked, listener := false,
                      listenerAlive := false, browserRef := false }
    -- Unannounce, then the server is shut down
    { s with wanted := none, groupRef := false, published := none, session := false, browsing := false }

  | .tickFlaky =>
    match s.loops with
    | [] => s
    | _ :: rest =>
      if c.reconnectRespectsShutdown && s.manual then { s with loops := rest }
      else if !s.up then (doStart s).1
      else { s with manual := false, started := true }   -- the server object is shut down again, the loop keeps trying
  | .service =>
    if !s.browsing then s
    else if s.listenerAlive then { s with reports := s.reports + 1 }
    else { s with undelivered := s.undelivered + 1 }

def run (c : Cfg) (evs : List Ev) : S := evs.foldl (step c) {}

end ShipVerif.Avahi
