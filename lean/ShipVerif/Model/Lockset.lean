/-
  Lockset — the vocabulary of the regenerated lock facts (`Generated.accesses`): every access, outside constructors,
  to a field of the library's shared structures that is written somewhere outside constructors, with the set of
  mutexes held at that point.  A field is disciplined when one mutex is held at every one of its accesses
  (the Eraser discipline); `Props/C20.lean` proves that two threads can then never be inside accesses to the
  field at the same moment, and that every field of the current source is disciplined or is a listed waiver.
-/
namespace ShipVerif.Lockset

structure Access where
  field : String
  fn : String
  write : Bool
  locks : List String
  deriving DecidableEq, Repr

/-- mutexes held at every one of the accesses -/
def commonLocks : List Access → List String
  | [] => []
  | a :: rest => a.locks.filter fun l => rest.all (·.locks.contains l)

def accessesOf (all : List Access) (f : String) : List Access := all.filter (·.field == f)

/-- fields whose safety rests on goroutine confinement or on a happens-before edge the lock analysis does not see:
    (field, reason) -/
def waivers : List (String × String) :=
  [ ("ShipConnection.dataReader", "written by approveHandshake and read by HandleIncomingWebsocketMessage / processBufferedSpineMessages, all of which run on the websocket read goroutine (approveHandshake is only reached from the access-methods message handler)"),
    ("ShipConnection.remoteShipID", "after construction read and written only by handshakeAccessMethods_Request, a message handler on the websocket read goroutine"),
    ("WebsocketConnection.dataProcessing", "written by InitDataProcessing before it starts the two pump goroutines that read it (go statement = happens-before)"),
    ("ZeroconfProvider.ctx", "written once by the listener goroutine before it starts the browse goroutine; read only by these two") ]

def waived (f : String) : Bool := waivers.any (·.1 == f)

def fieldOk (all : List Access) (f : String) : Bool := !(commonLocks (accessesOf all f)).isEmpty || waived f

def fields (all : List Access) : List String := (all.map (·.field)).eraseDups

def disciplined (all : List Access) : Bool := (fields all).all (fieldOk all)

/-- run-time view: which thread holds each mutex (a mutex has at most one holder) -/
structure Rt where
  holder : String → Option Nat

/-- thread `t` is inside access `a`: it holds every mutex the analysis found held there -/
def inside (rt : Rt) (t : Nat) (a : Access) : Prop := ∀ l ∈ a.locks, rt.holder l = some t

end ShipVerif.Lockset
