/-
  Dial — one SKI: the user's registration and removal (UnregisterRemoteSKI / CancelPairingWithSKI) against connection
  establishments that take time (TCP, TLS, websocket upgrade) and finish at an arbitrary later moment.  A removal marks
  the service unwanted (untrusted, pairing state none, attempt counter dropped), looks up the registered connection and
  closes it; an establishment, when its dial has succeeded, registers the new connection.  Two design facts are read
  from the source: whether the establishment re-checks that the service is still wanted, and whether the removal's
  "mark + look up" and the establishment's "check + register" exclude each other (connect mutex).

  User operations on one SKI are applied one at a time (`rm` holds the one removal under way); establishments run
  concurrently with them and with each other.
-/
namespace ShipVerif.Dial

structure Cfg where
  recheck : Bool      -- connectFoundService drops the new connection if the service is neither trusted nor queued any more
  exclusive : Bool    -- the removal marks the service and looks the connection up while it holds the connect mutex
  deriving DecidableEq, Repr

def Cfg.fixed : Cfg := { recheck := true, exclusive := true }
def Cfg.pinned : Cfg := { recheck := false, exclusive := false }

/-- a removal under way: has it marked the service unwanted; what did its lookup find (if it has looked) -/
structure Rm where
  marked : Bool
  looked : Option (Option Nat)
  deriving DecidableEq, Repr

structure S where
  wanted : Bool := false            -- trusted or queued for pairing
  reg : Option Nat := none          -- the registered connection of the SKI
  next : Nat := 0
  inflight : List Nat := []         -- dials that have started and not yet finished
  rm : Option Rm := none
  removed : Bool := false           -- the last user operation that finished is a removal
  deriving Repr

inductive Act
  | register
  | dialStart
  | dialDone (d : Nat)
  | rmStart
  | rmMark            -- SetTrusted(false), pairing state none, attempt counter dropped
  | rmLookup          -- connectionForSKI
  | rmBoth            -- both under the connect mutex
  | rmFinish          -- close what the lookup found (the registry forgets exactly that connection)
  | connClosed        -- the registered connection ends for another reason
  deriving DecidableEq, Repr

def step (c : Cfg) (s : S) : Act → S
  | .register => match s.rm with
    | none => { s with wanted := true, removed := false }
    | some _ => s
  | .dialStart => if s.wanted && s.reg.isNone then { s with inflight := s.next :: s.inflight, next := s.next + 1 } else s
  | .dialDone d =>
    if s.inflight.contains d then
      let s := { s with inflight := s.inflight.filter (· != d) }
      if c.recheck && !s.wanted then s else { s with reg := some d }
    else s
  | .rmStart => match s.rm with
    | none => { s with rm := some { marked := false, looked := none } }
    | some _ => s
  | .rmMark => match s.rm with
    | some r => if c.exclusive then s else { s with wanted := false, rm := some { r with marked := true } }
    | none => s
  | .rmLookup => match s.rm with
    | some r => if c.exclusive then s else (match r.looked with
        | none => { s with rm := some { r with looked := some s.reg } }
        | some _ => s)
    | none => s
  | .rmBoth => match s.rm with
    | some r => if c.exclusive && !r.marked && r.looked.isNone then
        { s with wanted := false, rm := some { marked := true, looked := some s.reg } } else s
    | none => s
  | .rmFinish => match s.rm with
    | some { marked := true, looked := some found } =>
      { s with rm := none, removed := true, reg := if s.reg == found then none else s.reg }
    | _ => s
  | .connClosed => { s with reg := none }

def run (c : Cfg) (acts : List Act) : S := acts.foldl (step c) {}

end ShipVerif.Dial
