/-
  ConnData — the data layer of the single-connection model: concrete events (what the harness feeds to
  the real `ShipConnection`), their classification into the finite alphabet of `Conn.stepCtl`, and the
  interpretation of the emitted actions on payloads, SHIP ids, close codes.  `stepC` is the executable
  model compared line by line with the implementation.

  Byte strings are carried as lower-case hex `String`s (equality of hex = equality of bytes).
-/
import ShipVerif.Model.ConnMon

namespace ShipVerif.Conn

/-- what `encoding/json` + the repository's own structs make of one incoming message (computed by the
    harness with the repository's code; the model is the handlers' logic from there on) -/
structure MsgViews where
  dg : Bool                       -- bytes.Contains(msg, "datagram")
  data : Option (Option String)   -- none: not looked at; some none: no valid payload; some (some p)
  len3 : Bool                     -- len(msg) > 2
  close : Option CloseK           -- parsed as connectionClose with non-empty phase
  initOk : Bool
  helloErr : Bool
  helloPhase : String             -- "ready" | "pending" | "aborted" | anything else
  helloWaiting : Option Nat       -- milliseconds
  helloProlong : Option Bool
  protErr : Bool
  protType : String
  protVerOk : Bool
  protFmtOk : Bool
  pinErr : Bool
  pinState : String
  accKind : String                -- "req" | "meth" | "neither"
  accErr : Bool
  accId : Option String
  deriving Repr, Inhabited, DecidableEq

inductive CEv
  | run
  | msg (m : MsgViews)
  | timeout
  | approve
  | abort
  | close (safe : Bool) (code : Nat) (reason : String)
  | connErr
  | appWrite (valid : Bool) (payload : String)
  | fireRej
  | fireGrace
  deriving Repr, Inhabited, DecidableEq

structure CEvX where
  ev : CEv
  env : Env
  fail : Option (Fin 3)
  deriving Repr, Inhabited, DecidableEq

structure Data where
  stored : String          -- remote SHIP id known so far ("" = none)
  localId : String
  buffer : List String     -- payloads received before completion, oldest first
  deriving Repr, Inhabited, DecidableEq

structure CS where
  c : Ctl
  d : Data
  deriving Repr, Inhabited, DecidableEq

/-- one observation of the implementation: the action class plus its data -/
structure Obs where
  act : Act
  data : String := ""
  num : Nat := 0
  deriving Repr, Inhabited, DecidableEq

def wcls (w : Option Nat) : WCls :=
  match w with
  | none => .none
  | some ms =>
    if ms ≥ Generated.tHelloProlongThrIncMs then .ge30
    else if ms < Generated.tHelloProlongMinMs then .lt1 else .mid

def helloView (m : MsgViews) : HelloV :=
  if m.helloErr then .err
  else if m.helloPhase == "ready" then .ready (wcls m.helloWaiting)
  else if m.helloPhase == "pending" then
    .pending (wcls m.helloWaiting) (match m.helloProlong with | none => .none | some true => .t | some false => .f)
  else if m.helloPhase == "aborted" then .aborted
  else .other

def protView (m : MsgViews) : ProtV :=
  if m.protErr then .err
  else .ok (if m.protType == "announceMax" then .announceMax else if m.protType == "select" then .select else .other)
    m.protVerOk m.protFmtOk

def pinView (m : MsgViews) : PinV :=
  if m.pinErr then .err else if m.pinState == "none" then .none else .other

def idRel (stored presented : String) : IdRel :=
  if stored.isEmpty then .fresh else if stored == presented then .same else .mismatch

def accView (d : Data) (m : MsgViews) : AccV :=
  if m.accKind == "req" then .request
  else if m.accKind == "meth" then
    if m.accErr then .methodsErr else
    match m.accId with
    | none => .methodsNoId
    | some x => .methodsId (idRel d.stored x)
  else .neither

/-- the view the handler of state `s` takes of the message -/
def viewFor (s : St) (d : Data) (m : MsgViews) : View :=
  match s with
  | .cWait | .sWait => .init m.initOk
  | .hReadyListen | .hPendListen => .hello (helloView m)
  | .pSListenProp | .pSListenConf | .pCListenChoice => .prot (protView m)
  | .pinListen => .pin (pinView m)
  | .accReq => .acc (accView d m)
  | _ => .ignored

/-- classification of a concrete event -/
def cls (s : CS) : CEv → In
  | .run => .run
  | .msg m =>
    if m.dg then .msgData (match m.data with | some (some _) => true | _ => false)
    else match m.len3, m.close with
      | true, some k => .msgClose k
      | _, _ => .msgPlain (viewFor s.c.st s.d m)
  | .timeout => .timeout
  | .approve => .approve
  | .abort => .abort
  | .close safe _ _ => .close safe
  | .connErr => .connErr
  | .appWrite valid _ => .appWrite valid
  | .fireRej => .fireRej
  | .fireGrace => .fireGrace

def evPayload : CEv → String
  | .msg m => match m.data with | some (some p) => p | _ => ""
  | .appWrite _ p => p
  | _ => ""

def evId : CEv → String
  | .msg m => m.accId.getD ""
  | _ => ""

def closeCode (k : WK) (ev : CEv) : Nat :=
  match k with
  | .dflt => 4001
  | .rejected => 4452
  | .user => match ev with
    | .close _ code _ => if code = 0 then 4001 else code
    | _ => 4001

/-- interpretation of one action on the data state -/
def interp1 (ev : CEv) (d : Data) : Act → Data × List Obs
  | .shipId => ({ d with stored := evId ev }, [{ act := .shipId, data := evId ev }])
  | .deliver => (d, [{ act := .deliver, data := evPayload ev }])
  | .buffer => ({ d with buffer := d.buffer ++ [evPayload ev] }, [])
  | .dropData => (d, [])
  | .deliverBuffered => ({ d with buffer := [] }, d.buffer.map fun p => { act := .deliver, data := p })
  | .sent .data => (d, [{ act := .sent .data, data := evPayload ev }])
  | .sent .accMethods => (d, [{ act := .sent .accMethods, data := d.localId }])
  | .sent .closeAnnounce =>
    (d, [{ act := .sent .closeAnnounce, data := match ev with | .close _ _ r => r | _ => "" }])
  | .wsClose k r => (d, [{ act := .wsClose k r, num := closeCode k ev }])
  | a => (d, [{ act := a }])

def interp (ev : CEv) : Data → List Act → Data × List Obs
  | d, [] => (d, [])
  | d, a :: as =>
    let r := interp1 ev d a
    let r2 := interp ev r.1 as
    (r2.1, r.2 ++ r2.2)

/-- end-of-event snapshot (what the `verif` hook reads from the implementation) -/
structure Snap where
  st : St
  trun : Bool
  ttype : TT
  buf : Nat
  wsClosed : Bool
  deriving Repr, Inhabited, DecidableEq

def CS.snap (s : CS) : Snap :=
  { st := s.c.st, trun := s.c.trun, ttype := s.c.ttype, buf := s.d.buffer.length, wsClosed := s.c.wsClosed }

def CS.init (r : Role) (stored localId : String) : CS :=
  { c := Ctl.init r, d := { stored := stored, localId := localId, buffer := [] } }

/-- one step of the executable model -/
def stepC (s : CS) (x : CEvX) : CS × List Obs :=
  let r := stepCtl s.c { i := cls s x.ev, env := x.env, fail := x.fail }
  let r2 := interp x.ev s.d r.2
  ({ c := r.1, d := r2.1 }, r2.2)

end ShipVerif.Conn
