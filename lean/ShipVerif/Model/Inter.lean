/-
  Model/Inter.lean — any number of goroutines acting on one connection's handshake state, any interleaving.

  The Conn theorems apply the events of one connection one at a time. The code does not serialise them: the reading
  goroutine, the timer's goroutine and the application's calls all end in `handleState`, which reads the state
  (`getState`), picks a handler and assigns the following states (`setState`) without holding a lock in between.

  What survives every interleaving is what depends only on the links each goroutine takes by itself: a goroutine reads
  the shared state, or assigns a state that follows - by an edge of the state graph (`Conn.fwdEdge`, or to `error`) -
  from the value it last read or assigned itself. The links that enter the part of the graph behind the trust decision
  carry that decision: `hello → hReadyInit` is taken by the goroutine that just got a positive answer (paired,
  auto-accept, own initiative), `hPendListen → hReadyInit` by `ApprovePendingHandshake`.
-/
import ShipVerif.Model.ConnMon

namespace ShipVerif.Inter
open ShipVerif.Conn

/-- the states behind the trust decision: the ready branch of hello and everything after hello -/
def gated (s : St) : Bool := s == .hReadyInit || s == .hReadyListen || postHello s

/-- a link a goroutine may take from its local value: an edge of the graph, or the error state -/
def link (a b : St) : Bool := b == .error || fwdEdge a b

inductive Act
  /-- goroutine `t` reads the shared state (dispatch in `handleState`, a re-check) -/
  | read (t : Nat)
  /-- goroutine `t` assigns `x`; `grant`: it does so on a positive trust answer or as the user's approval -/
  | set (t : Nat) (x : St) (grant : Bool)
  /-- goroutine `t` calls SetupRemoteDevice (`approveHandshake`, after it assigned `approved`) -/
  | setup (t : Nat)

structure G where
  st : St
  /-- per goroutine: the value its next assignment continues from (none: it has not read the state yet) -/
  loc : Nat → Option St
  granted : Bool
  setupDone : Bool

def G.init (trusted : Bool) : G := { st := .initStart, loc := fun _ => none, granted := trusted, setupDone := false }

/-- an action is one the code can take: assignments are links from the goroutine's local value, links that enter the
    gated part carry the grant, the device is set up by the goroutine that assigned `approved` -/
def valid (g : G) : Act → Prop
  | .read _ => True
  | .set t x grant => ∃ a, g.loc t = some a ∧ link a x = true ∧ (gated a = false → gated x = true → grant = true)
  | .setup t => g.loc t = some .approved

def step (g : G) : Act → G
  | .read t => { g with loc := fun u => if u = t then some g.st else g.loc u }
  | .set t x grant => { g with st := x, loc := (fun u => if u = t then some x else g.loc u), granted := g.granted || grant }
  | .setup _ => { g with setupDone := true }

/-- a run: every action valid in the state it is taken in -/
inductive Run : G → List Act → G → Prop
  | nil (g : G) : Run g [] g
  | cons {g : G} {a : Act} {as : List Act} {g' : G} : valid g a → Run (step g a) as g' → Run g (a :: as) g'

end ShipVerif.Inter
