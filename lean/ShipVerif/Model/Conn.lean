/-
  Conn — control skeleton of one `ShipConnection` (ship/connection.go, ship/handshake.go, ship/hs_*.go).

  `stepCtl : Ctl → Inp → Ctl × List Act` is a total function over a *finite* control state and a finite
  alphabet of input classes.  Everything that is data (payload bytes, SHIP ids, waiting durations, close
  codes and reasons) lives in `ConnData.lean`, which classifies a concrete event into an `In` and
  interprets the emitted `Act`s.  The handlers mirror the Go handlers one to one (names in comments).
-/
import ShipVerif.Generated.Facts

namespace ShipVerif.Conn

inductive Role | client | server
  deriving DecidableEq, Repr, Inhabited

/-- model/types.go: ShipMessageExchangeState (numbering checked against `Generated.stateNumbers`). -/
inductive St
  | initStart | cSend | cWait | cEval | sWait | sEval
  | hello | hReadyInit | hReadyListen | hReadyTimeout | hPendInit | hPendListen | hPendTimeout
  | hOk | hAbort | hAbortDone | hRemoteAbortDone | hRejected
  | pSInit | pCInit | pSListenProp | pSListenConf | pCListenChoice | pTimeout | pCOk | pSOk
  | pinInit | pinListen | pinError | pinBusyInit | pinBusyWait | pinOk
  | pinAskInit | pinAskProcess | pinAskRestricted | pinAskOk
  | accReq | approved | complete | error
  deriving DecidableEq, Repr, Inhabited

def St.toNat : St → Nat
  | .initStart => 0 | .cSend => 1 | .cWait => 2 | .cEval => 3 | .sWait => 4 | .sEval => 5
  | .hello => 6 | .hReadyInit => 7 | .hReadyListen => 8 | .hReadyTimeout => 9 | .hPendInit => 10
  | .hPendListen => 11 | .hPendTimeout => 12 | .hOk => 13 | .hAbort => 14 | .hAbortDone => 15
  | .hRemoteAbortDone => 16 | .hRejected => 17 | .pSInit => 18 | .pCInit => 19 | .pSListenProp => 20
  | .pSListenConf => 21 | .pCListenChoice => 22 | .pTimeout => 23 | .pCOk => 24 | .pSOk => 25
  | .pinInit => 26 | .pinListen => 27 | .pinError => 28 | .pinBusyInit => 29 | .pinBusyWait => 30
  | .pinOk => 31 | .pinAskInit => 32 | .pinAskProcess => 33 | .pinAskRestricted => 34 | .pinAskOk => 35
  | .accReq => 36 | .approved => 37 | .complete => 38 | .error => 39

def St.all : List St :=
  [.initStart, .cSend, .cWait, .cEval, .sWait, .sEval, .hello, .hReadyInit, .hReadyListen, .hReadyTimeout,
   .hPendInit, .hPendListen, .hPendTimeout, .hOk, .hAbort, .hAbortDone, .hRemoteAbortDone, .hRejected,
   .pSInit, .pCInit, .pSListenProp, .pSListenConf, .pCListenChoice, .pTimeout, .pCOk, .pSOk,
   .pinInit, .pinListen, .pinError, .pinBusyInit, .pinBusyWait, .pinOk, .pinAskInit, .pinAskProcess,
   .pinAskRestricted, .pinAskOk, .accReq, .approved, .complete, .error]

def St.ofNat? (n : Nat) : Option St := St.all.find? (fun s => s.toNat == n)

/-- ship/types.go: timeoutTimerType -/
inductive TT | waitForReady | sendProlong | prolongReply
  deriving DecidableEq, Repr, Inhabited

def TT.toNat : TT → Nat | .waitForReady => 0 | .sendProlong => 1 | .prolongReply => 2

/-- Classes of the `waiting` member of a hello message, relative to tHelloProlongThrInc / tHelloProlongMin. -/
inductive WCls | none | lt1 | mid | ge30
  deriving DecidableEq, Repr, Inhabited
/-- `prolongationRequest` member: absent / true / false -/
inductive PCls | none | t | f
  deriving DecidableEq, Repr, Inhabited

inductive HelloV
  | err | ready (w : WCls) | pending (w : WCls) (p : PCls) | aborted | other
  deriving DecidableEq, Repr, Inhabited

inductive HType | announceMax | select | other
  deriving DecidableEq, Repr, Inhabited
/-- `verOk` = major 1 ∧ minor 0; `fmtOk` = exactly one format and it is JSON-UTF8 -/
inductive ProtV | err | ok (t : HType) (verOk : Bool) (fmtOk : Bool)
  deriving DecidableEq, Repr, Inhabited

inductive PinV | err | none | other
  deriving DecidableEq, Repr, Inhabited

/-- relation of the presented SHIP id to the stored one -/
inductive IdRel | fresh | same | mismatch
  deriving DecidableEq, Repr, Inhabited
inductive AccV | request | methodsErr | methodsNoId | methodsId (r : IdRel) | neither
  deriving DecidableEq, Repr, Inhabited

/-- what the handler of the current state sees in a message -/
inductive View
  | nil                       -- no message (internal re-dispatch, timeout)
  | init (ok : Bool)
  | hello (h : HelloV)
  | prot (p : ProtV)
  | pin (p : PinV)
  | acc (a : AccV)
  | ignored                   -- state has no handler that looks at the message
  deriving DecidableEq, Repr, Inhabited

inductive CloseK | announce | confirm | other
  deriving DecidableEq, Repr, Inhabited

/-- answers of the info provider during this event -/
structure Env where
  paired : Bool
  auto : Bool
  allow : Bool
  deriving DecidableEq, Repr, Inhabited

inductive In
  | run
  | msgData (ok : Bool)
  | msgClose (k : CloseK)
  | msgPlain (v : View)
  | timeout
  | approve
  | abort
  | close (safe : Bool)
  | connErr
  | appWrite (valid : Bool)
  | fireRej
  | fireGrace
  deriving DecidableEq, Repr, Inhabited

/-- one input: the event class, the provider's answers and which write of this event fails (if any) -/
structure Inp where
  i : In
  env : Env
  fail : Option (Fin 3)
  deriving DecidableEq, Repr, Inhabited

inductive Ph | ready | pending | aborted
  deriving DecidableEq, Repr, Inhabited

inductive Frame
  | init
  | hello (ph : Ph) (waiting : Bool) (prolong : Bool)
  | protAnnounce | protSelect | protErr (code : Fin 4)
  | pinNone | accReq | accMethods
  | closeAnnounce | closeConfirm
  | data
  deriving DecidableEq, Repr, Inhabited

inductive QK | paired | auto | allow
  deriving DecidableEq, Repr, Inhabited

/-- close code class / reason class of a `CloseDataConnection` call -/
inductive WK | dflt | user | rejected
  deriving DecidableEq, Repr, Inhabited
inductive RC | none | closeTxt | rejectedTxt | errTxt | user
  deriving DecidableEq, Repr, Inhabited

/-- observable actions (finite alphabet) -/
inductive Act
  | report (s : St) (err : Bool)        -- HandleShipHandshakeStateUpdate
  | sent (f : Frame)                    -- WriteMessageToWebsocketConnection accepted the frame
  | q (k : QK) (ans : Bool)             -- info provider query and its answer
  | setup                               -- SetupRemoteDevice
  | shipId                              -- ReportServiceShipID
  | deliver                             -- HandleShipPayloadMessage (direct)
  | buffer                              -- payload stored in the pre-completion buffer
  | dropData                            -- data frame without valid payload
  | deliverBuffered                     -- flush of the buffer (k ≥ 0 payload deliveries)
  | wsClose (k : WK) (r : RC)           -- CloseDataConnection
  | closedCb (hsEnd : Bool)             -- HandleConnectionClosed
  deriving DecidableEq, Repr, Inhabited

structure Ctl where
  role : Role
  st : St
  trun : Bool          -- handshakeTimerRunning
  ttype : TT           -- handshakeTimerType (persists after stop)
  once : Bool          -- shutdownOnce consumed
  wsClosed : Bool      -- data writer reports closed
  reader : Bool        -- dataReader installed
  pendRej : Bool       -- ≥ 1 sleeping goroutine that will call CloseConnection(false, 4452, …)
  pendGrace : Bool     -- the goroutine finishing a graceful close is sleeping
  deriving DecidableEq, Repr, Inhabited

def Ctl.init (r : Role) : Ctl :=
  { role := r, st := .initStart, trun := false, ttype := .waitForReady, once := false,
    wsClosed := false, reader := false, pendRej := false, pendGrace := false }

/-- working state while one event is processed -/
structure W where
  c : Ctl
  out : List Act        -- reversed
  nw : Nat              -- transport writes attempted so far in this event
  fail : Option (Fin 3)
  env : Env

namespace W

@[inline] def emit (w : W) (a : Act) : W := { w with out := a :: w.out }
@[inline] def arm (w : W) (t : TT) : W := { w with c := { w.c with trun := true, ttype := t } }
@[inline] def stop (w : W) : W := { w with c := { w.c with trun := false } }

/-- the raw transport write: fails when the writer is closed or the fault is injected here -/
def write (w : W) (f : Frame) : W × Bool :=
  let failNow := match w.fail with | some k => k.val == w.nw | none => false
  let w := { w with nw := w.nw + 1 }
  if w.c.wsClosed || failNow then (w, false) else (w.emit (.sent f), true)

/-- handshake.go setState: timer side effect by table, then report iff the state changed -/
def setState (w : W) (s : St) (err : Bool := false) : W :=
  let w := match Generated.setStateTimer s.toNat with
    | 1 => w.arm .waitForReady
    | 2 => w.stop
    | _ => w
  let old := w.c.st
  let w := { w with c := { w.c with st := s } }
  if old ≠ s then w.emit (.report s err) else w

def hsEnd (s : St) : Bool :=
  s == .complete || s == .hAbortDone || s == .hRemoteAbortDone || s == .hRejected

/-- connection.go CloseConnection -/
def closeConn (w : W) (safe : Bool) (k : WK) (r : RC) : W :=
  if w.c.once then w else
  let w := { w with c := { w.c with once := true } }
  let w := w.stop
  let e := hsEnd w.c.st
  if safe && w.c.st == .complete then
    -- announce is written without the closed-check of sendShipModel (no re-entry into the once)
    let (w, _) := w.write .closeAnnounce
    { w with c := { w.c with pendGrace := true } }
  else
    let w := w.emit (.wsClose k r)
    let w := { w with c := { w.c with wsClosed := true } }
    w.emit (.closedCb e)

/-- sendShipModel: closed-check (closing the connection if so), then the transport write -/
def send (w : W) (f : Frame) : W × Bool :=
  if w.c.wsClosed then (w.closeConn false .dflt .none, false) else w.write f

/-- endHandshakeWithError -/
def failH (w : W) : W :=
  let w := w.stop
  let w := w.setState .error true
  let w := w.closeConn true .dflt .errTxt
  w.emit (.report .error true)

/-- abortProtocolHandshake -/
def abortProt (w : W) (code : Fin 4) : W :=
  let w := w.stop
  let (w, _) := w.send (.protErr code)
  let w := w.setState .error true
  w.closeConn false .dflt .none

/-- states 15 / 16: a goroutine that closes with 4452 after one second -/
def hAbortDone (w : W) : W := { w with c := { w.c with pendRej := true } }

/-- handshakeHello_Abort (state 14) -/
def hAbort (w : W) : W :=
  let w := w.stop
  let (w, ok) := w.send (.hello .aborted false false)
  if !ok then w.failH else
  let w := w.setState .hAbortDone
  w.hAbortDone

def setAndHandleAbort (w : W) : W := (w.setState .hAbort).hAbort
def setAndHandleRemoteAbort (w : W) : W := (w.setState .hRemoteAbortDone).hAbortDone

/-- handshakeHello_Init (state 7) -/
def hReadyInit (w : W) : W :=
  let (w, ok) := w.send (.hello .ready true false)
  if !ok then w.setAndHandleAbort else w.setState .hReadyListen

def qAllow (w : W) : W × Bool := (w.emit (.q .allow w.env.allow), w.env.allow)

/-- handshakeHello_PendingInit (state 10) -/
def hPendInit (w : W) : W :=
  let (w, ok) := w.send (.hello .pending true false)
  if !ok then w.failH else
  let w := w.setState .hPendListen
  let (w, allow) := w.qAllow
  if !allow then w.setAndHandleAbort else w

/-- handleState case SmeHelloState (state 6) -/
def hHello (w : W) : W :=
  let w := w.emit (.q .paired w.env.paired)
  let (w, trusted) :=
    if w.env.paired then (w, true) else
      let w := w.emit (.q .auto w.env.auto)
      (w, w.env.auto)
  if trusted || w.c.role == .client then (w.setState .hReadyInit).hReadyInit
  else (w.setState .hPendInit).hPendInit

def setAndHandleHello (w : W) : W := (w.setState .hello).hHello

/-- handshakeProtocol_Init (state 13) -/
def hProtInit (w : W) : W :=
  match w.c.role with
  | .server =>
    let w := w.setState .pSInit
    let w := w.arm .waitForReady
    w.setState .pSListenProp
  | .client =>
    let w := w.setState .pCInit
    let (w, ok) := w.send .protAnnounce
    if !ok then w.failH else w.setState .pCListenChoice

/-- handshakePin_Init (state 26) -/
def hPinInit (w : W) : W :=
  let w := w.setState .pinInit
  let (w, ok) := w.send .pinNone
  if !ok then w.failH else w.setState .pinListen

/-- states 24 / 25: setAndHandleState(SmePinStateCheckInit) -/
def hProtOk (w : W) : W := (w.setState .pinInit).hPinInit

/-- handshakeAccessMethods_Init (state 31) -/
def hAccInit (w : W) : W :=
  let (w, ok) := w.send .accReq
  if !ok then w.failH else
  let w := w.arm .waitForReady
  w.setState .accReq

/-- `c.handleState(false, nil)` issued at the end of a hello-listen handler -/
def reHandleNil (w : W) : W :=
  match w.c.st with
  | .hPendListen => w.setAndHandleAbort        -- nil message does not parse
  | .hReadyListen => w.setAndHandleAbort
  | .hAbortDone | .hRemoteAbortDone => w.hAbortDone
  | .hOk => w.hProtInit
  | _ => w

def asHello : View → HelloV | .hello h => h | _ => .err
def asProt : View → ProtV | .prot p => p | _ => .err
def asPin : View → PinV | .pin p => p | _ => .err
def asAcc : View → AccV | .acc a => a | _ => .neither
def initOk : View → Bool | .init ok => ok | .nil => true | _ => false

/-- handshakeHello_ReadyListen (state 8) -/
def hReadyListen (w : W) (t : Bool) (v : View) : W :=
  if t then w.setAndHandleAbort else
  match asHello v with
  | .err => w.setAndHandleAbort
  | .ready _ => (w.setState .hOk).reHandleNil
  | .pending _ p =>
    match p with
    | .none => w
    | .f => w
    | .t =>
      let (w, allow) := w.qAllow
      let w := if allow then w.arm .waitForReady else w
      let (w, ok) := w.send (.hello .ready true false)
      if !ok then w.failH else w
  | .aborted => w.setAndHandleRemoteAbort
  | .other => w.setAndHandleAbort

/-- the prolongation request of PendingProlongationRequest / PendingTimeout -/
def sendProlongReq (w : W) : W :=
  let (w, ok) := w.send (.hello .pending false true)
  if !ok then w.failH else w.arm .prolongReply

/-- handshakeHello_PendingListen (state 11) -/
def hPendListen (w : W) (t : Bool) (v : View) : W :=
  if t then
    let (w, allow) := w.qAllow
    if !allow then
      if w.c.ttype ≠ .sendProlong then w.setAndHandleAbort else w.sendProlongReq
    else w.sendProlongReq
  else
  match asHello v with
  | .err => w.setAndHandleAbort
  | .ready wc =>
    match wc with
    | .none => w.setAndHandleAbort
    | .ge30 => (w.stop).arm .sendProlong
    | .lt1 => ((w.stop).setAndHandleAbort).reHandleNil
    | .mid => (w.stop).reHandleNil
  | .pending wc p =>
    match wc, p with
    | .ge30, .none => (w.stop).arm .sendProlong
    | .lt1, .none => (w.stop).setAndHandleAbort
    | .mid, .none => w.stop
    | .none, .t =>
      let (w, ok) := w.send (.hello .pending true false)
      if !ok then w.failH else w
    | _, _ => (w.setAndHandleAbort).reHandleNil
  | .aborted => w.setAndHandleRemoteAbort
  | .other => w.setAndHandleAbort

/-- handshakeProtocol_smeProtHStateServerListenProposal (state 20) -/
def hServerListenProp (w : W) (v : View) : W :=
  match asProt v with
  | .err => w.failH
  | .ok t _ _ =>
    if t ≠ .announceMax then w.failH else
    let w := w.stop
    let (w, ok) := w.send .protSelect
    if !ok then w.failH else
    let w := w.arm .waitForReady
    w.setState .pSListenConf

/-- handshakeProtocol_smeProtHStateServerListenConfirm (state 21) -/
def hServerListenConf (w : W) (v : View) : W :=
  match asProt v with
  | .err => w.abortProt 2
  | .ok t _ _ =>
    if t ≠ .select then w.abortProt 3 else
    let w := w.stop
    (w.setState .pSOk).hProtOk

/-- handshakeProtocol_smeProtHStateClientListenChoice (state 22), incl. the stop in handleState -/
def hClientListenChoice (w : W) (v : View) : W :=
  let w := w.stop
  match asProt v with
  | .err => w.abortProt 2
  | .ok t verOk fmtOk =>
    if t ≠ .select || !verOk || !fmtOk then w.abortProt 3 else
    let w := w.stop
    let (w, ok) := w.send .protSelect
    if !ok then w.failH else
    (w.setState .pCOk).hProtOk

/-- handshakePin_smePinStateCheckListen (state 27) -/
def hPinListen (w : W) (v : View) : W :=
  match asPin v with
  | .err => w.failH
  | .none => (w.setState .pinOk).hAccInit
  | .other => w.failH

/-- approveHandshake -/
def approveHs (w : W) : W :=
  let w := w.emit .setup
  let w := { w with c := { w.c with reader := true } }
  let w := w.stop
  let w := w.setState .complete
  w.emit .deliverBuffered

/-- handshakeAccessMethods_Request (state 36) -/
def hAccReq (w : W) (v : View) : W :=
  match asAcc v with
  | .request =>
    let (w, ok) := w.send .accMethods
    if !ok then w.failH else w
  | .methodsErr => w.failH
  | .methodsNoId => w.failH
  | .methodsId r =>
    match r with
    | .mismatch => w.failH
    | .same => (w.setState .approved).approveHs
    | .fresh => ((w.emit .shipId).setState .approved).approveHs
  | .neither => w.failH

/-- handshakeInit_cmiStateInitStart (state 0) -/
def hInitStart (w : W) : W :=
  match w.c.role with
  | .client =>
    let w := w.setState .cSend
    let (w, ok) := w.write .init
    if !ok then w.failH else
    let w := w.setState .cWait
    w.arm .waitForReady
  | .server =>
    let w := w.setState .sWait
    w.arm .waitForReady

/-- handleState -/
def handle (w : W) (t : Bool) (v : View) : W :=
  match w.c.st with
  | .error => w
  | .initStart => w.hInitStart
  | .cWait =>
    if t then w.failH else
    let w := w.setState .cEval
    if !initOk v then w.failH else w.setAndHandleHello
  | .sWait =>
    if t then w.failH else
    let w := w.setState .sEval
    if !initOk v then w.failH else
    let (w, ok) := w.write .init
    if !ok then w.failH else w.setAndHandleHello
  | .hello => w.hHello
  | .hReadyInit => w.hReadyInit
  | .hReadyListen => w.hReadyListen t v
  | .hPendInit => w.hPendInit
  | .hPendListen => w.hPendListen t v
  | .hOk => w.hProtInit
  | .hAbort => w.hAbort
  | .hAbortDone | .hRemoteAbortDone => w.hAbortDone
  | .pSListenProp => w.hServerListenProp v
  | .pSListenConf => w.hServerListenConf v
  | .pCListenChoice => w.hClientListenChoice v
  | .pCOk | .pSOk => w.hProtOk
  | .pinInit => w.hPinInit
  | .pinListen => w.hPinListen v
  | .pinOk => w.hAccInit
  | .accReq => w.hAccReq v
  | _ => w

/-- handleShipMessage for a message that parsed as a connectionClose with a non-empty phase -/
def handleClose (w : W) (k : CloseK) : W :=
  match k with
  | .announce =>
    let (w, _) := w.send .closeConfirm
    w.closeConn false .dflt .closeTxt
  | .confirm => w.closeConn false .dflt .closeTxt
  | .other => w

/-- ReportConnectionError (the websocket layer has marked the connection closed before calling) -/
def connErr (w : W) : W :=
  let w := { w with c := { w.c with wsClosed := true } }
  match w.c.st with
  | .hReadyListen => (w.setState .hRejected).closeConn false .dflt .none
  | .hRemoteAbortDone => w.closeConn false .dflt .none
  | .hAbort | .hAbortDone => w.closeConn false .rejected .rejectedTxt
  | _ =>
    let w := w.setState .error true
    let w := w.closeConn false .dflt .none
    w.emit (.report .error true)

/-- ApprovePendingHandshake -/
def approve (w : W) : W :=
  if w.c.st ≠ .hPendListen then w else
  let w := w.stop
  let w := (w.setState .hReadyInit).hReadyInit
  if w.c.st ≠ .hReadyListen then w else
  (w.setState .hOk).hProtInit

/-- AbortPendingHandshake -/
def abort (w : W) : W :=
  if w.c.st ≠ .hPendListen && w.c.st ≠ .hReadyListen then w else
  (w.stop).setAndHandleAbort

/-- sendSpineData after a successful transform -/
def appWrite (w : W) : W :=
  if w.c.wsClosed then w.closeConn false .dflt .none else (w.write .data).1

def fireGrace (w : W) : W :=
  let w := { w with c := { w.c with pendGrace := false } }
  let w := w.emit (.wsClose .dflt .closeTxt)
  let w := { w with c := { w.c with wsClosed := true } }
  w.emit (.closedCb true)

def fireRej (w : W) : W :=
  let w := { w with c := { w.c with pendRej := false } }
  w.closeConn false .rejected .rejectedTxt

end W

/-- is the event possible at all in this control state (timer armed, goroutine pending) -/
def enabled (c : Ctl) : In → Bool
  | .timeout => c.trun
  | .fireRej => c.pendRej
  | .fireGrace => c.pendGrace
  | _ => true

def stepW (w : W) : In → W
  | .run => if w.c.wsClosed then w else w.handle false .nil   -- Run() does nothing on a connection the peer already closed
  -- a message the data connection still hands over after it was closed (C13 allows one whose read had completed
  -- before) is not processed
  | .msgData ok =>
    if w.c.wsClosed then w
    else if !ok then w.emit .dropData
    else if w.c.reader then w.emit .deliver else w.emit .buffer
  | .msgClose k => if w.c.wsClosed then w else w.handleClose k
  | .msgPlain v => if w.c.wsClosed then w else w.handle false v
  | .timeout => (w.stop).handle true .nil
  | .approve => w.approve
  | .abort => w.abort
  | .close safe => w.closeConn safe .user .user
  | .connErr => w.connErr
  | .appWrite valid => if valid then w.appWrite else w
  | .fireRej => w.fireRej
  | .fireGrace => w.fireGrace

/-! environment normalisation: which provider answers an input can depend on -/

def noEnv : Env := { paired := false, auto := false, allow := false }

inductive Need | none | allow | all
  deriving DecidableEq, Repr

/-- which provider queries can happen while the input is processed -/
def envNeed : In → Need
  | .run => .all                        -- Run() after the read pump already delivered the peer's init continues into the hello phase
  | .msgPlain (.init true) => .all
  | .msgPlain (.hello (.pending _ .t)) => .allow
  | .timeout => .allow
  | _ => .none

def normEnv (i : In) (e : Env) : Env :=
  match envNeed i with
  | .none => noEnv
  | .allow => { paired := false, auto := false, allow := e.allow }
  | .all => e

theorem normEnv_idem (i : In) (e : Env) : normEnv i (normEnv i e) = normEnv i e := by
  unfold normEnv; cases envNeed i <;> rfl

def Inp.norm (x : Inp) : Inp := { x with env := normEnv x.i x.env }

/-- one step of the control skeleton.  Provider answers are looked at only for the inputs whose
    handlers can query the provider (`envNeed`); for every other input they are ignored by definition
    (the lock-step correspondence shows the queries the code really makes). -/
def stepCtl (c : Ctl) (x : Inp) : Ctl × List Act :=
  if !enabled c x.i then (c, []) else
  let w := stepW { c := c, out := [], nw := 0, fail := x.fail, env := normEnv x.i x.env } x.i
  (w.c, w.out.reverse)

theorem stepCtl_norm (c : Ctl) (x : Inp) : stepCtl c x.norm = stepCtl c x := by
  simp [stepCtl, Inp.norm, normEnv_idem]

end ShipVerif.Conn
