/-
  Pipe — SPINE datagrams end to end: the sending endpoint's websocket adapter (`Ws.S`, its write path), a reliable
  ordered transport, the receiving endpoint's websocket adapter (`Ws.S`, its read path) and the receiving SHIP layer
  (buffer until the data reader is installed, flush on approval).  Every component takes its steps in any order: the
  theorems quantify over all schedules, all numbers of messages, any placement of closes and failures on either side.

  The SHIP layer's handling of a message runs inside the read pump's goroutine (`rDeliver`); whether the buffered
  datagrams are handed over by `approveHandshake` itself or by a goroutine of their own is a design fact read from
  the source (`Generated.pipeCfg`).
-/
import ShipVerif.Model.Ws

namespace ShipVerif.Pipe
open ShipVerif.Ws

structure Cfg where
  flushSync : Bool      -- approveHandshake hands the buffered datagrams to the new reader itself, before it returns
  deliverSync : Bool    -- the read pump calls the SHIP layer, and the SHIP layer the data reader, by plain calls
  deriving DecidableEq, Repr

def Cfg.fixed : Cfg := { flushSync := true, deliverSync := true }

/-- which messages are valid SPINE datagrams, and which message completes the receiver's handshake -/
structure Cls where
  d : Msg → Bool
  fin : Msg → Bool

structure P where
  a : Ws.S := {}                 -- sender
  b : Ws.S := {}                 -- receiver
  wired : Nat := 0               -- how many of the messages the sender wrote to the transport have arrived at the receiver's socket
  installed : Bool := false      -- the receiver's data reader is set (SetupRemoteDevice was called)
  buffer : List Msg := []        -- spineBuffer
  appGot : List Msg := []        -- what the application's data reader was handed, in order
  flushPending : List Msg := []  -- asynchronous design only: buffered datagrams a goroutine of its own will hand over

inductive PAct
  | a (x : Ws.Act)
  | b (x : Ws.Act)
  | wire             -- the transport carries the next message over
  | flush            -- asynchronous design only: the flushing goroutine hands over one datagram
  deriving DecidableEq, Repr

/-- HandleIncomingWebsocketMessage on the receiver, for a message the read pump delivers -/
def shipRecv (cfg : Cfg) (k : Cls) (p : P) (m : Msg) : P :=
  if k.d m then
    (if p.installed then { p with appGot := p.appGot ++ [m] } else { p with buffer := p.buffer ++ [m] })
  else if k.fin m && !p.installed then
    (if cfg.flushSync then { p with installed := true, appGot := p.appGot ++ p.buffer, buffer := [] }
     else { p with installed := true, flushPending := p.buffer, buffer := [] })
  else p

def stepB (wc : Ws.Cfg) (cfg : Cfg) (k : Cls) (p : P) (x : Ws.Act) : P :=
  if x = .peerSend then p      -- what the receiver's socket gets comes from the sender only (`wire`)
  else
    let p' := { p with b := Ws.step wc p.b x }
    if x = .rDeliver then
      (match p.b.reader with
       | .checked m => shipRecv cfg k p' m
       | _ => p')
    else p'

def step (wc : Ws.Cfg) (cfg : Cfg) (k : Cls) (p : P) : PAct → P
  | .a x => { p with a := Ws.step wc p.a x }
  | .b x => stepB wc cfg k p x
  | .wire =>
    match p.a.peerGot[p.wired]? with
    | some m => { p with b := { p.b with inbound := p.b.inbound ++ [.msg m] }, wired := p.wired + 1 }
    | none => p
  | .flush =>
    match p.flushPending with
    | m :: r => { p with appGot := p.appGot ++ [m], flushPending := r }
    | [] => p

def run (wc : Ws.Cfg) (cfg : Cfg) (k : Cls) (acts : List PAct) : P := acts.foldl (step wc cfg k) {}

/-- what the receiver's read pump holds -/
def held : Reader → List Msg
  | .got (.msg m) => [m]
  | .checked m => [m]
  | _ => []

def msgs : List Item → List Msg
  | [] => []
  | .msg m :: r => m :: msgs r
  | .fail :: r => msgs r

/-- messages that arrived at the receiver's socket and were not yet delivered to its SHIP layer -/
def flight (s : Ws.S) : List Msg := held s.reader ++ msgs s.inbound

end ShipVerif.Pipe
