/-
  Model/Notify.lean — the hub's pairing-notification queue (hub/hub.go notifyPairingDetail, deliverPairingNotifications).

  `notifyPairingDetail` appends an update under `muxNotify` and, if no delivery is active, marks one active and starts
  the delivery goroutine. The delivery goroutine repeats: under the mutex, if the queue is empty it ends, otherwise it
  takes the head; outside the mutex it waits for the update's due time and calls the application. Where the "active"
  mark is cleared is the design fact (`Cfg.clearInSection`, regenerated from /repo): in the same critical section that
  finds the queue empty, or later.

  Actions are the atomic steps of the goroutines: a notify (one critical section), and a step of a delivery goroutine
  (its critical section, the end of a callback, or - when the mark is cleared late - the separate clearing section).
  Theorems quantify over all action lists, i.e. all schedules and all numbers of updates.
-/
namespace ShipVerif.Notify

structure Cfg where
  /-- the "delivery active" mark is cleared in the critical section that finds the queue empty -/
  clearInSection : Bool
deriving Repr, DecidableEq

inductive Pc
  | check     -- about to enter the critical section that looks at the queue
  | deliver   -- holds an update, outside the mutex (waiting for its due time, calling the application)
  | leave     -- found the queue empty, has released the mutex, has not cleared the mark yet (late clearing only)
deriving Repr, DecidableEq

structure S where
  queue : Nat          -- updates queued and not yet taken
  active : Bool        -- the "delivery active" mark
  ds : List Pc         -- the delivery goroutines alive
  notified : Nat       -- updates queued so far
  delivered : Nat      -- callbacks completed so far
deriving Repr, DecidableEq

def S.init : S := { queue := 0, active := false, ds := [], notified := 0, delivered := 0 }

inductive Act
  | notify
  | stepD (i : Nat)    -- the i-th delivery goroutine takes its next atomic step
deriving Repr, DecidableEq

def step (c : Cfg) (s : S) : Act → S
  | .notify =>
    if s.active then { s with queue := s.queue + 1, notified := s.notified + 1 }
    else { s with queue := s.queue + 1, notified := s.notified + 1, active := true, ds := s.ds ++ [.check] }
  | .stepD i =>
    match s.ds[i]? with
    | none => s
    | some .check =>
      if s.queue = 0 then
        (if c.clearInSection then { s with active := false, ds := s.ds.eraseIdx i } else { s with ds := s.ds.set i .leave })
      else { s with queue := s.queue - 1, ds := s.ds.set i .deliver }
    | some .deliver => { s with delivered := s.delivered + 1, ds := s.ds.set i .check }
    | some .leave => { s with active := false, ds := s.ds.eraseIdx i }

def run (c : Cfg) (as : List Act) : S := as.foldl (step c) S.init

end ShipVerif.Notify
