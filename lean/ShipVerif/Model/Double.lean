/-
  Double — double-connection resolution between two hubs (hub/hub_connections.go keepThisConnection,
  registerConnection; hub/hub_shipconnection.go HandleConnectionClosed).

  Hub A and hub B each may have dialled the other: connection X is the one A initiated, Y the one B initiated.
  Each side processes the establishment of each connection once (`establish`): with nothing registered it
  registers the connection; otherwise it applies the SKI rule, closing either the registered or the new one.
  A close on one side reaches the other side later (`propagate`), where HandleConnectionClosed forgets the
  connection only if it is the registered one.  SKIs are compared as numbers: canonical SKIs are lower-case hex
  strings of equal length, whose lexicographic order is the numeric one.
-/
namespace ShipVerif.Double

/-- keepThisConnection when another connection to the same SKI is registered: keep the new one? -/
def keepNew (localSki remoteSki : Nat) (incoming : Bool) : Bool :=
  if incoming then decide (remoteSki > localSki) else decide (localSki > remoteSki)

inductive Conn | X | Y
  deriving DecidableEq, Repr
inductive Side | A | B
  deriving DecidableEq, Repr

def Conn.initiator : Conn → Side | .X => .A | .Y => .B
def Side.other : Side → Side | .A => .B | .B => .A

/-- per side and connection: has the side processed the establishment, is its end open -/
structure End where
  arrived : Bool := false
  open_ : Bool := false
  deriving DecidableEq, Repr

structure S where
  aHigher : Bool                 -- A's SKI is the higher one
  dialX : Bool                   -- A dialled (X exists)
  dialY : Bool                   -- B dialled (Y exists)
  regA : Option Conn := none
  regB : Option Conn := none
  xa : End := {}
  xb : End := {}
  ya : End := {}
  yb : End := {}
  deriving DecidableEq, Repr

def S.reg (s : S) : Side → Option Conn | .A => s.regA | .B => s.regB
def S.setReg (s : S) (sd : Side) (r : Option Conn) : S := match sd with | .A => { s with regA := r } | .B => { s with regB := r }
def S.end_ (s : S) : Conn → Side → End
  | .X, .A => s.xa | .X, .B => s.xb | .Y, .A => s.ya | .Y, .B => s.yb
def S.setEnd (s : S) (c : Conn) (sd : Side) (e : End) : S :=
  match c, sd with
  | .X, .A => { s with xa := e } | .X, .B => { s with xb := e } | .Y, .A => { s with ya := e } | .Y, .B => { s with yb := e }
def S.exists_ (s : S) : Conn → Bool | .X => s.dialX | .Y => s.dialY

def skiOf (s : S) : Side → Nat
  | .A => if s.aHigher then 2 else 1
  | .B => if s.aHigher then 1 else 2

/-- close the end of `c` at side `sd`; HandleConnectionClosed there forgets it only if it is the registered one -/
def closeAt (s : S) (c : Conn) (sd : Side) : S :=
  let s := s.setEnd c sd { (s.end_ c sd) with open_ := false }
  if s.reg sd = some c then s.setReg sd none else s

inductive Ev
  | establish (c : Conn) (sd : Side)
  | propagate (c : Conn) (sd : Side)    -- the close of the other end reaches side `sd`
  deriving DecidableEq, Repr

def step (s : S) : Ev → S
  | .establish c sd =>
    if !s.exists_ c || (s.end_ c sd).arrived then s else
    -- the responder cannot see a connection before its initiator has set it up, but either side may finish first
    let s := s.setEnd c sd { arrived := true, open_ := true }
    -- the other end may already be closed (rejected there): the establishment still runs, the close arrives later
    match s.reg sd with
    | none => s.setReg sd (some c)
    | some e =>
      if e = c then s else
      let incoming := c.initiator ≠ sd
      if keepNew (skiOf s sd) (skiOf s sd.other) incoming then
        -- close the registered one, register the new one
        (closeAt s e sd).setReg sd (some c)
      else closeAt s c sd
  | .propagate c sd =>
    let mine := s.end_ c sd
    let theirs := s.end_ c sd.other
    if mine.arrived && mine.open_ && theirs.arrived && !theirs.open_ then closeAt s c sd else s

def allEvs : List Ev :=
  [.establish .X .A, .establish .X .B, .establish .Y .A, .establish .Y .B,
   .propagate .X .A, .propagate .X .B, .propagate .Y .A, .propagate .Y .B]

/-- nothing can happen any more -/
def quiescent (s : S) : Bool := allEvs.all fun e => step s e == s

def init (aHigher dialX dialY : Bool) : S := { aHigher := aHigher, dialX := dialX, dialY := dialY }

/-- the connection the SKI rule favours when both exist -/
def favoured (s : S) : Conn := if s.aHigher then .X else .Y

/-- what C05 asks of a quiescent state: both hubs hold the same connection, open at both ends; with both dialled
    it is the one the higher SKI initiated; with at least one dial there is one -/
def good (s : S) : Bool :=
  s.regA == s.regB &&
  (match s.regA with
   | some c => (s.end_ c .A).open_ && (s.end_ c .B).open_ && (if s.dialX && s.dialY then c == favoured s else true)
   | none => !s.dialX && !s.dialY)

end ShipVerif.Double
