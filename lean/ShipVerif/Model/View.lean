/-
  View — the mDNS manager's map of visible services (mdns/mdns.go processMdnsEntry after TXT validation),
  and Async — delivery of snapshots on one goroutine each, guarded by sequence numbers.
  SKIs and addresses are identified by natural numbers (an address by its textual form).
-/
namespace ShipVerif.View

abbrev Addr := Nat

/-- one resolver event as far as the entry map is concerned -/
structure Ev where
  valid : Bool          -- mandatory TXT elements present and well-formed (C16's `entryOf` is `some`)
  isLocal : Bool        -- the announced SKI is the manager's own
  ski : Nat
  addrs : List Addr
  remove : Bool
  deriving DecidableEq, Repr

abbrev Map := List (Nat × List Addr)

def lookup (m : Map) (k : Nat) : Option (List Addr) := (m.find? (·.1 == k)).map (·.2)

/-- drop unusable addresses (IPv6 link-local) and repetitions -/
def clean (ll : Addr → Bool) : List Addr → List Addr
  | [] => []
  | a :: as => if ll a then clean ll as else a :: (clean ll as).filter (· ≠ a)

/-- the usable addresses of an event that the entry does not list yet -/
def extraOf (ll : Addr → Bool) (old : List Addr) (e : Ev) : List Addr :=
  (clean ll e.addrs).filter (fun a => !old.contains a)

/-- processMdnsEntry: returns the new map and whether something changed (a report is issued) -/
def step (ll : Addr → Bool) (m : Map) (e : Ev) : Map × Bool :=
  if !e.valid || e.isLocal then (m, false) else
  match lookup m e.ski with
  | some old =>
    if e.remove then (m.filter (·.1 != e.ski), true)
    else
      if (extraOf ll old e).isEmpty then (m, false)
      else (m.map (fun p => if p.1 == e.ski then (p.1, old ++ extraOf ll old e) else p), true)
  | none =>
    if e.remove then (m, false) else (m ++ [(e.ski, clean ll e.addrs)], true)

def run (ll : Addr → Bool) (evs : List Ev) : Map := evs.foldl (fun m e => (step ll m e).1) []

/-! ### the specification: plain sets -/

abbrev Spec := Nat → Option (Addr → Prop)

def specStep (ll : Addr → Bool) (s : Spec) (e : Ev) : Spec :=
  if !e.valid || e.isLocal then s else
  fun k =>
    if k ≠ e.ski then s k
    else if e.remove then none
    else some fun a => (match s k with | some p => p a | none => False) ∨ (a ∈ e.addrs ∧ ll a = false)

def specRun (ll : Addr → Bool) (evs : List Ev) : Spec := evs.foldl (specStep ll) (fun _ => none)

/-- abstraction of the map: which services are known, with which address set -/
def abs (m : Map) : Spec := fun k => (lookup m k).map fun as a => a ∈ as

end ShipVerif.View

namespace ShipVerif.Async

/-- design fact: a report goroutine delivers only if no newer snapshot was delivered, under a mutex -/
structure Cfg where
  guarded : Bool
  deriving DecidableEq, Repr

structure S where
  seq : Nat := 0               -- snapshots taken so far
  pending : List Nat := []     -- goroutines not yet run (their sequence numbers)
  reported : Nat := 0          -- newest delivered sequence number
  delivered : List Nat := []   -- newest first

inductive Act
  | snap          -- a change: take a snapshot, start its goroutine
  | go (i : Nat)  -- goroutine of snapshot `i` runs
  deriving DecidableEq, Repr

def step (c : Cfg) (s : S) : Act → S
  | .snap => { s with seq := s.seq + 1, pending := (s.seq + 1) :: s.pending }
  | .go i =>
    if !s.pending.contains i then s else
    let s := { s with pending := s.pending.filter (· ≠ i) }
    if c.guarded && i < s.reported then s
    else { s with reported := i, delivered := i :: s.delivered }

def run (c : Cfg) (acts : List Act) : S := acts.foldl (step c) {}

end ShipVerif.Async
