/-
  Ski — util.NormalizeSKI and SKI spelling variants.  Strings are lists of byte values (`Nat`).
  The operations and their order are regenerated from the source (`Generated.normalizeOps`):
  removing a one-byte string is `filter`, `strings.ToLower` is modelled on ASCII (SKIs are hex digits;
  the property's variants are case changes, spaces and dashes).
-/
import ShipVerif.Generated.MiscFacts

namespace ShipVerif.Ski

abbrev Str := List Nat

def lower (n : Nat) : Nat := if 65 ≤ n ∧ n ≤ 90 then n + 32 else n
def upper (n : Nat) : Nat := if 97 ≤ n ∧ n ≤ 122 then n - 32 else n

def strBytes (s : String) : Str := s.toList.map Char.toNat

/-- one operation of NormalizeSKI as found in the source -/
def applyOp (op : String × String × String) (s : Str) : Str :=
  if op.1 = "replace" then
    match strBytes op.2.1, strBytes op.2.2 with
    | [c], [] => s.filter (· ≠ c)
    | _, _ => s          -- any other replacement is outside this model (obligation ops_eq fails)
  else if op.1 = "tolower" then s.map lower
  else s

def normalize (s : Str) : Str := Generated.normalizeOps.foldl (fun acc op => applyOp op acc) s

/-- spellings of the same SKI: case changes of ASCII letters, inserted spaces and dashes -/
inductive Variant : Str → Str → Prop
  | refl (s : Str) : Variant s s
  | symm {s t : Str} : Variant s t → Variant t s
  | trans {s t u : Str} : Variant s t → Variant t u → Variant s u
  | space (a b : Str) : Variant (a ++ b) (a ++ 32 :: b)
  | dash (a b : Str) : Variant (a ++ b) (a ++ 45 :: b)
  | caseUp (a b : Str) (c : Nat) : Variant (a ++ c :: b) (a ++ upper c :: b)
  | caseDown (a b : Str) (c : Nat) : Variant (a ++ c :: b) (a ++ lower c :: b)

end ShipVerif.Ski
