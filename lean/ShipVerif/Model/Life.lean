/-
  Life — what the application is told about one SKI (device set up / disconnected) against the hub's registry, over
  the lives of successive and doubled connections.  A connection is registered, may complete (the application is told
  "set up"), and ends (the registry forgets it if it is the registered one; the application is told "disconnected").
  When a second connection to the SKI is kept, it takes the registry entry and the older one is closed: at once
  (`closeOldNow`, its end is reported before anything else happens to the SKI - it only takes a goroutine to get its
  turn, while the new connection still has a handshake of several round trips ahead) or after a delay (a graceful close
  waits half a second), in which case its end is reported at an arbitrary later moment.
-/
namespace ShipVerif.Life

structure Cfg where
  closeOldNow : Bool     -- keepThisConnection ends the older connection without a delay (CloseConnection(false, ...))
  deriving DecidableEq, Repr

def Cfg.fixed : Cfg := { closeOldNow := true }

inductive Note | setup | disconnected
  deriving DecidableEq, Repr

structure S where
  reg : Option Nat := none          -- the registered connection
  next : Nat := 0
  completed : List Nat := []        -- connections whose handshake completed (and that have not ended)
  alive : List Nat := []            -- connections that exist and have not reported their end
  last : Option Note := none        -- the application's last notification for the SKI
  deriving Repr

inductive Act
  | connect                  -- a connection is established while none is registered
  | replace                  -- a second connection is established and kept; the older one is closed
  | complete (c : Nat)       -- the handshake of c completes: SetupRemoteDevice
  | ending (c : Nat)         -- c reports its end: HandleConnectionClosed
  deriving DecidableEq, Repr

def endConn (s : S) (c : Nat) : S :=
  if s.alive.contains c then
    { s with alive := s.alive.filter (· != c), completed := s.completed.filter (· != c),
             reg := if s.reg == some c then none else s.reg, last := some .disconnected }
  else s

def step (cfg : Cfg) (s : S) : Act → S
  | .connect =>
    match s.reg with
    | none => { s with reg := some s.next, alive := s.next :: s.alive, next := s.next + 1 }
    | some _ => s
  | .replace =>
    match s.reg with
    | some old =>
      if cfg.closeOldNow then
        -- the older connection ends right here: it leaves the books and the application hears "disconnected"
        { s with reg := some s.next, alive := s.next :: s.alive.filter (· != old), completed := s.completed.filter (· != old),
                 next := s.next + 1, last := some .disconnected }
      else { s with reg := some s.next, alive := s.next :: s.alive, next := s.next + 1 }
    | none => s
  | .complete c =>
    if s.alive.contains c && !s.completed.contains c then { s with completed := c :: s.completed, last := some .setup } else s
  | .ending c => endConn s c

def run (cfg : Cfg) (acts : List Act) : S := acts.foldl (step cfg) {}

/-- the last notification is "set up" exactly when a completed connection is registered -/
def consistent (s : S) : Prop :=
  (s.last = some .setup ↔ ∃ c, s.reg = some c ∧ c ∈ s.completed)

end ShipVerif.Life
