/-
  Json — model of ship/helper.go: the order-preserving tree rewrite `JsonIntoEEBUSJson` and the textual
  `JsonFromEEBUSJson` (a list of `bytes.ReplaceAll` passes followed by trimming NUL bytes).

  A document is a tree whose scalars, strings and keys are *atoms*: the exact text Go's encoder emits for
  them (`"abc"`, `12.50`, `true`, `null`).  The decoder/encoder pair (encoding/json, go-ordered-json)
  that turns bytes into this tree and back is outside the model; the transform works on the tree and on
  the compact serialisation.
-/
import ShipVerif.Generated.MiscFacts

namespace ShipVerif.Json

mutual
inductive J
  | atom (a : List Char)
  | arr (xs : Js)
  | obj (ms : Ms)
inductive Js
  | nil
  | cons (x : J) (xs : Js)
inductive Ms
  | nil
  | cons (k : List Char) (v : J) (ms : Ms)
end

/-- how objects are written: wire form and the intermediate forms after each replacement pass -/
structure Style where
  open_ : List Char     -- before the first member
  sep : List Char       -- between members
  close : List Char     -- after the last member
  empty : List Char     -- an object without members
  deriving DecidableEq, Repr

def wire : Style := { open_ := ['[', '{'], sep := ['}', ',', '{'], close := ['}', ']'], empty := ['[', ']'] }
def st1 : Style := { wire with open_ := ['{'] }
def st2 : Style := { st1 with sep := [','] }
def st3 : Style := { st2 with close := ['}'] }
def plain : Style := { st3 with empty := ['{', '}'] }

mutual
/-- compact rendering of a value in a style -/
def ren (st : Style) : J → List Char
  | .atom a => a
  | .arr .nil => ['[', ']']
  | .arr (.cons x xs) => '[' :: (ren st x ++ (renTail st xs ++ [']']))
  | .obj .nil => st.empty
  | .obj (.cons k v ms) => st.open_ ++ (k ++ (':' :: (ren st v ++ (renMems st ms ++ st.close))))
/-- remaining array elements, each preceded by a comma -/
def renTail (st : Style) : Js → List Char
  | .nil => []
  | .cons x xs => ',' :: (ren st x ++ renTail st xs)
/-- remaining members, each preceded by the separator -/
def renMems (st : Style) : Ms → List Char
  | .nil => []
  | .cons k v ms => st.sep ++ (k ++ (':' :: (ren st v ++ renMems st ms)))
end

/-- plain compact JSON -/
def serialize (j : J) : List Char := ren plain j

mutual
/-- process_eebus_json_hierarchie_level: every object becomes an array of single-member objects -/
def toEEBUS : J → J
  | .atom a => .atom a
  | .arr xs => .arr (toEEBUSs xs)
  | .obj ms => .arr (toEEBUSm ms)
def toEEBUSs : Js → Js
  | .nil => .nil
  | .cons x xs => .cons (toEEBUS x) (toEEBUSs xs)
def toEEBUSm : Ms → Js
  | .nil => .nil
  | .cons k v ms => .cons (.obj (.cons k (toEEBUS v) .nil)) (toEEBUSm ms)
end

/-- strings.TrimPrefix(s, "[") then strings.TrimSuffix(s, "]") -/
def trimBrackets (s : List Char) : List Char :=
  let s := match s with | '[' :: r => r | _ => s
  match s.reverse with | ']' :: r => r.reverse | _ => s

/-- JsonIntoEEBUSJson on a decoded document -/
def intoEEBUS (j : J) : List Char := trimBrackets (serialize (toEEBUS j))

/-- `bytes.ReplaceAll` for a non-empty pattern: leftmost, non-overlapping.  `n` counts the characters
    of a match that are still to be skipped. -/
def rep (pat out : List Char) : Nat → List Char → List Char
  | _, [] => []
  | n + 1, _ :: cs => rep pat out n cs
  | 0, c :: cs =>
    if pat.isPrefixOf (c :: cs) then out ++ rep pat out (pat.length - 1) cs else c :: rep pat out 0 cs

def replaceAll (pat out s : List Char) : List Char := rep pat out 0 s

/-- bytes.Trim(s, "\x00") -/
def trimNul (s : List Char) : List Char :=
  ((s.dropWhile (· == '\x00')).reverse.dropWhile (· == '\x00')).reverse

/-- JsonFromEEBUSJson: the passes found in the source, in order, then the NUL trim -/
def fromEEBUS (s : List Char) : List Char :=
  trimNul (Generated.fromEEBUSPasses.foldl (fun acc p => replaceAll p.1.toList p.2.toList acc) s)

end ShipVerif.Json
