/-
  Shut — Hub.Shutdown against connection establishments that are under way.  Shutdown marks the hub (flag), collects
  the registered connections and closes them.  An establishment whose dial (or accept) has succeeded checks the flag and
  registers its connection.  Design facts read from the source: does the establishment check the flag (`recheck`), and
  do "check + register" and "mark" exclude each other through the connect mutex (`exclusive`) - if not, the check and
  the registration are two steps that a Shutdown can come between.
-/
namespace ShipVerif.Shut

structure Cfg where
  recheck : Bool
  exclusive : Bool
  guardAtStart : Bool   -- every connection attempt (each address) begins with a look at the flag
  deriving DecidableEq, Repr

def Cfg.fixed : Cfg := { recheck := true, exclusive := true, guardAtStart := true }
def Cfg.pinned : Cfg := { recheck := false, exclusive := false, guardAtStart := true }

structure S where
  flag : Bool := false                -- hasShutdown
  regs : List Nat := []               -- registered connections (different SKIs)
  next : Nat := 0
  inflight : List Nat := []           -- dials / accepts under way
  passed : List Nat := []             -- establishments that have checked the flag and not yet registered (non-exclusive design)
  collected : Option (List Nat) := none
  done : Bool := false                -- Shutdown has returned
  lateStarts : Nat := 0               -- connection attempts begun although the hub was marked as shut down
  deriving Repr

inductive Act
  | dialStart
  | dialDone (d : Nat)        -- check + register under the connect mutex (exclusive design)
  | dialCheck (d : Nat)       -- the two halves, when nothing keeps a Shutdown from coming between them
  | dialRegister (d : Nat)
  | mark | collect | close
  | connClosed (d : Nat)
  deriving DecidableEq, Repr

def step (c : Cfg) (s : S) : Act → S
  | .dialStart =>
    if s.flag && c.guardAtStart then s
    else { s with inflight := s.next :: s.inflight, next := s.next + 1, lateStarts := if s.flag then s.lateStarts + 1 else s.lateStarts }
  | .dialDone d =>
    if c.exclusive && s.inflight.contains d then
      let s := { s with inflight := s.inflight.filter (· != d) }
      if c.recheck && s.flag then s else { s with regs := d :: s.regs }
    else s
  | .dialCheck d =>
    if !c.exclusive && s.inflight.contains d then
      let s := { s with inflight := s.inflight.filter (· != d) }
      if c.recheck && s.flag then s else { s with passed := d :: s.passed }
    else s
  | .dialRegister d =>
    if s.passed.contains d then { s with passed := s.passed.filter (· != d), regs := d :: s.regs } else s
  | .mark => { s with flag := true }
  | .collect => if s.flag && s.collected.isNone then { s with collected := some s.regs } else s
  | .close => match s.collected with
    | some l => if s.done then s else { s with regs := s.regs.filter (fun d => !l.contains d), done := true }
    | none => s
  | .connClosed d => { s with regs := s.regs.filter (· != d) }

def run (c : Cfg) (acts : List Act) : S := acts.foldl (step c) {}

end ShipVerif.Shut
