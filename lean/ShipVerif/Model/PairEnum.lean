/-
  PairEnum — Nat coding of pair states (for the certified reachable set) and the Bool-valued facts the
  certificate checks on every state.  No inverse law is proved: membership re-checks `dec (enc x) == x`.
-/
import ShipVerif.Model.Pair
import ShipVerif.Model.ConnEnum

namespace ShipVerif.Pair
open ShipVerif.Conn

def Ph.toNat : Ph → Nat | .ready => 0 | .pending => 1 | .aborted => 2
def Ph.fromNat : Nat → Ph | 0 => .ready | 1 => .pending | _ => .aborted

def frameCode : Frame → Nat
  | .init => 0
  | .hello ph w p => 1 + (Ph.toNat ph * 4 + b2n w * 2 + b2n p)
  | .protAnnounce => 13
  | .protSelect => 14
  | .protErr c => 15 + c.val
  | .pinNone => 19
  | .accReq => 20
  | .accMethods => 21
  | .closeAnnounce => 22
  | .closeConfirm => 23
  | .data => 24

def frameOf (n : Nat) : Frame :=
  if n = 0 then .init
  else if n ≤ 12 then .hello (Ph.fromNat ((n - 1) / 4)) (n2b (((n - 1) / 2) % 2)) (n2b ((n - 1) % 2))
  else if n = 13 then .protAnnounce
  else if n = 14 then .protSelect
  else if n ≤ 18 then .protErr ⟨(n - 15) % 4, Nat.mod_lt _ (by decide)⟩
  else if n = 19 then .pinNone
  else if n = 20 then .accReq
  else if n = 21 then .accMethods
  else if n = 22 then .closeAnnounce
  else if n = 23 then .closeConfirm
  else .data

def relCode : IdRel → Nat | .fresh => 0 | .same => 1 | .mismatch => 2
def relOf : Nat → IdRel | 0 => .fresh | 1 => .same | _ => .mismatch
def Cnt3.toNat : Cnt3 → Nat | .zero => 0 | .one => 1 | .many => 2
def Cnt3.fromNat : Nat → Cnt3 | 0 => .zero | 1 => .one | _ => .many

/-- the frames, the head outermost -/
def encList (n : Nat) : List Frame → Nat
  | [] => n
  | f :: rest => push (encList n rest) 32 (frameCode f)

/-- the frames, then their number -/
def encQueue (n : Nat) (q : List Frame) : Nat := push (encList n q) 8 q.length

def decFrames : Nat → Nat → Nat × List Frame
  | 0, n => (n, [])
  | k + 1, n => match pop n 32 with
    | (n, c) => match decFrames k n with
      | (n, rest) => (n, frameOf c :: rest)

def decQueue (n : Nat) : Nat × List Frame :=
  match pop n 8 with | (n, len) => decFrames len n

def encCtl (n : Nat) (c : Ctl) : Nat :=
  push (push (push (push (push (push (push (push n 40 c.st.toNat) 2 (b2n c.trun)) 3 c.ttype.toNat) 2 (b2n c.once))
    2 (b2n c.wsClosed)) 2 (b2n c.reader)) 2 (b2n c.pendRej)) 2 (b2n c.pendGrace)

def decCtl (r : Role) (n : Nat) : Nat × Ctl :=
  match pop n 2 with
  | (n, pendGrace) => match pop n 2 with
  | (n, pendRej) => match pop n 2 with
  | (n, reader) => match pop n 2 with
  | (n, wsClosed) => match pop n 2 with
  | (n, once) => match pop n 3 with
  | (n, ttype) => match pop n 2 with
  | (n, trun) => match pop n 40 with
  | (n, st) =>
    (n, { role := r, st := St.ofNatD st, trun := n2b trun, ttype := TT.fromNat ttype, once := n2b once,
          wsClosed := n2b wsClosed, reader := n2b reader, pendRej := n2b pendRej, pendGrace := n2b pendGrace })

def PX.enc (x : PX) : Nat :=
  let p := x.p
  let n := push (push (push (push (push (push (push 0 4 x.budget) 2 (b2n x.helloSeen)) 2 (b2n x.approved)) 2 (b2n x.approvedEarly))
    2 (b2n x.cancelled)) 3 x.setC.toNat) 3 x.setS.toNat
  let n := push (push (push (push (push (push (push (push n 3 (relCode p.relC)) 3 (relCode p.relS)) 2 (b2n p.envS.paired)) 2 (b2n p.envS.auto))
    2 (b2n p.envS.allow)) 4 p.early) 2 (b2n p.startedC)) 2 (b2n p.startedS)
  let n := encCtl n p.c
  let n := encCtl n p.s
  let n := encQueue n p.qcs
  encQueue n p.qsc

def PX.dec (n : Nat) : PX :=
  match decQueue n with
  | (n, qsc) => match decQueue n with
  | (n, qcs) => match decCtl .server n with
  | (n, s) => match decCtl .client n with
  | (n, c) => match pop n 2 with
  | (n, startedS) => match pop n 2 with
  | (n, startedC) => match pop n 4 with
  | (n, early) => match pop n 2 with
  | (n, allow) => match pop n 2 with
  | (n, auto) => match pop n 2 with
  | (n, paired) => match pop n 3 with
  | (n, relS) => match pop n 3 with
  | (n, relC) => match pop n 3 with
  | (n, setS) => match pop n 3 with
  | (n, setC) => match pop n 2 with
  | (n, cancelled) => match pop n 2 with
  | (n, approvedEarly) => match pop n 2 with
  | (n, approved) => match pop n 2 with
  | (n, helloSeen) => match pop n 4 with
  | (_, budget) =>
    { p := { c := c, s := s, relC := relOf relC, relS := relOf relS, qcs := qcs, qsc := qsc,
             envS := { paired := n2b paired, auto := n2b auto, allow := n2b allow },
             envC := { paired := false, auto := false, allow := false },
             early := early, startedC := n2b startedC, startedS := n2b startedS },
      budget := budget, helloSeen := n2b helloSeen, approved := n2b approved, approvedEarly := n2b approvedEarly,
      cancelled := n2b cancelled, setC := Cnt3.fromNat setC, setS := Cnt3.fromNat setS }

/-! ### the coding is invertible on states whose counters are in range -/

theorem frameOf_code (f : Frame) : frameOf (frameCode f) = f := by
  cases f with
  | hello ph w p => cases ph <;> cases w <;> cases p <;> rfl
  | protErr c =>
    match c with
    | ⟨0, _⟩ => rfl | ⟨1, _⟩ => rfl | ⟨2, _⟩ => rfl | ⟨3, _⟩ => rfl
  | _ => rfl

theorem frameCode_lt (f : Frame) : frameCode f < 32 := by
  cases f with
  | hello ph w p => cases ph <;> cases w <;> cases p <;> decide
  | protErr c => have := c.isLt; simp only [frameCode]; omega
  | _ => decide

theorem decFrames_encList (n : Nat) : ∀ q : List Frame, decFrames q.length (encList n q) = (n, q)
  | [] => rfl
  | f :: rest => by
    simp only [List.length_cons, encList, decFrames, pop_push (frameCode_lt f), decFrames_encList n rest, frameOf_code]

theorem decQueue_encQueue (n : Nat) (q : List Frame) (h : q.length < 8) : decQueue (encQueue n q) = (n, q) := by
  simp only [decQueue, encQueue, pop_push h, decFrames_encList]

@[simp] theorem relOf_code (r : IdRel) : relOf (relCode r) = r := by cases r <;> rfl
@[simp] theorem relCode_lt (r : IdRel) : relCode r < 3 := by cases r <;> decide
@[simp] theorem cnt3_of (c : Cnt3) : Cnt3.fromNat c.toNat = c := by cases c <;> rfl
@[simp] theorem cnt3_lt (c : Cnt3) : c.toNat < 3 := by cases c <;> decide

theorem decCtl_encCtl (n : Nat) (c : Ctl) : decCtl c.role (encCtl n c) = (n, c) := by
  obtain ⟨role, st, trun, ttype, once, wsClosed, reader, pendRej, pendGrace⟩ := c
  simp [encCtl, decCtl, pop_push]

/-- counters and lengths in range, roles and the client's (unused) provider answers as in every pair state -/
def bounded (x : PX) : Bool :=
  decide (x.budget < 4) && decide (x.p.early < 4) && decide (x.p.qcs.length < 8) && decide (x.p.qsc.length < 8) &&
  (match x.p.c.role with | .client => true | .server => false) && (match x.p.s.role with | .server => true | .client => false) &&
  !x.p.envC.paired && !x.p.envC.auto && !x.p.envC.allow

theorem PX.dec_enc (x : PX) (h : bounded x = true) : PX.dec x.enc = x := by
  obtain ⟨p, budget, helloSeen, approved, approvedEarly, cancelled, setC, setS⟩ := x
  obtain ⟨c, s, relC, relS, qcs, qsc, envS, envC, early, startedC, startedS⟩ := p
  obtain ⟨paired, auto, allow⟩ := envS
  obtain ⟨cp, ca, cw⟩ := envC
  simp only [bounded, Bool.and_eq_true, decide_eq_true_eq, Bool.not_eq_true'] at h
  obtain ⟨⟨⟨⟨⟨⟨⟨⟨hb, he⟩, hq1⟩, hq2⟩, hrc⟩, hrs⟩, h1⟩, h2⟩, h3⟩ := h
  have hrc' : c.role = .client := by cases hr : c.role <;> simp_all
  have hrs' : s.role = .server := by cases hr : s.role <;> simp_all
  subst h1; subst h2; subst h3
  simp only [PX.enc, PX.dec, decQueue_encQueue _ _ hq2, decQueue_encQueue _ _ hq1]
  rw [← hrs', decCtl_encCtl, ← hrc', decCtl_encCtl]
  simp [pop_push, hb, he]

/-! ### what the certificate checks on every state -/

def bothCompleted (x : PX) : Bool := completed x.p.c && completed x.p.s
def bothEnded (x : PX) : Bool := ended x.p.c && ended x.p.s
def _root_.ShipVerif.Conn.IdRel.isMismatch : IdRel → Bool | .mismatch => true | _ => false
def _root_.ShipVerif.Conn.IdRel.isSame : IdRel → Bool | .same => true | _ => false
def Cnt3.isZero : Cnt3 → Bool | .zero => true | _ => false
def Cnt3.isOne : Cnt3 → Bool | .one => true | _ => false
def Cnt3.isMany : Cnt3 → Bool | .many => true | _ => false
def idsOk (x : PX) : Bool := !x.p.relC.isMismatch && !x.p.relS.isMismatch
def timely (x : PX) : Bool := x.budget == 0
def trustedBefore (x : PX) : Bool := x.p.envS.paired || x.p.envS.auto

/-- the facts that concern settled states -/
def settledOk (x : PX) : Bool :=
  -- agreement: both completed on an open connection or both ended
  (bothCompleted x || bothEnded x) &&
  -- timely, trusted beforehand or by auto-accept, ids acceptable, not cancelled: both completed
  (!(timely x && trustedBefore x && idsOk x && !x.cancelled) || bothCompleted x) &&
  -- timely, approved by the user at a moment when no hello message was under way: both completed
  (!(timely x && x.approved && !x.approvedEarly && idsOk x && !x.cancelled) || bothCompleted x)

def _root_.ShipVerif.Conn.St.isLocalAbort : St → Bool | .hAbort | .hAbortDone => true | _ => false
def _root_.ShipVerif.Conn.St.gaveUp : St → Bool
  | .hAbort | .hAbortDone | .hRemoteAbortDone | .hRejected | .error => true
  | _ => false
/-- the client side is no longer waiting for the server's decision -/
def clientGone (x : PX) : Bool := x.p.c.wsClosed || x.p.c.once || x.p.c.st.gaveUp

/-- a pending request is kept: with waiting allowed and no cancellation the server does not abort by itself while
    the client is still waiting (timely mode) -/
def pendingKept (x : PX) : Bool :=
  !(timely x && x.p.envS.allow && !x.cancelled && x.p.s.st.isLocalAbort) || clientGone x

/-- the facts that concern every state -/
def alwaysOkCore (x : PX) : Bool :=
  -- no trust (not paired, no auto-accept, no approval): nobody completes, nobody is set up
  (!(!trustedBefore x && !x.approved) || (!x.p.c.st.isComplete && !x.p.s.st.isComplete && x.setC.isZero && x.setS.isZero)) &&
  -- an id that does not match what is stored: that side never completes
  (!x.p.relC.isMismatch || !x.p.c.st.isComplete) && (!x.p.relS.isMismatch || !x.p.s.st.isComplete) &&
  -- set up at most once per side; completed ⇒ exactly once and the peer's id is the stored one
  (!x.setC.isMany && !x.setS.isMany) &&
  (!x.p.c.st.isComplete || (x.setC.isOne && x.p.relC.isSame)) &&
  (!x.p.s.st.isComplete || (x.setS.isOne && x.p.relS.isSame)) &&
  -- the streams stay short
  (decide (x.p.qcs.length ≤ 5) && decide (x.p.qsc.length ≤ 5))

/-- a cancellation that took effect (the server was waiting in the hello phase) is final: neither side completes -/
def cancelFinal (x : PX) : Bool :=
  !x.cancelled || (!x.p.c.st.isComplete && !x.p.s.st.isComplete && x.setC.isZero && x.setS.isZero)

def alwaysOk (x : PX) : Bool := alwaysOkCore x && pendingKept x && cancelFinal x

/-- the facts of C03, as a decidable predicate on one state -/
def propsOk (x : PX) : Bool :=
  alwaysOk x && (match quiescentX x with | true => settledOk x | false => true)

end ShipVerif.Pair
