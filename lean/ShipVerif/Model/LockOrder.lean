/-
  LockOrder — waiting for locks (and for other goroutines' signals) in rank order cannot deadlock.

  A configuration says which thread holds which resource and which resource each blocked thread waits for.  A
  resource is a mutex, a `sync.Once` (held while its body runs), the closing of a channel (`sig:`, "held" by the
  goroutine that is going to close it) or the receiving end of a channel (`recv:`, "held" by the goroutine that
  receives from it).  The extractor lists every pair (held, wanted) that can occur in packages ws, ship, hub, mdns
  (`Generated.lockEdges`) and proposes a ranking; Lean checks that the ranking respects every pair and proves that
  then no set of threads can wait for each other.
-/
namespace ShipVerif.LockOrder

def rankOf (r : List (String × Nat)) (n : String) : Nat :=
  match r with
  | [] => 0
  | (k, v) :: rest => if k == n then v else rankOf rest n

/-- every (held, wanted) pair goes up in rank -/
def ranked (edges : List (String × String × String)) (r : List (String × Nat)) : Bool :=
  edges.all fun e => decide (rankOf r e.1 < rankOf r e.2.1)

structure Config (T : Type) where
  holds : T → String → Prop
  waits : T → Option String

/-- a thread that waits holds only resources of lower rank -/
def Ordered {T : Type} (rank : String → Nat) (c : Config T) : Prop :=
  ∀ t l l', c.waits t = some l → c.holds t l' → rank l' < rank l

/-- a non-empty set of threads each of which waits for something a member of the set holds -/
def Deadlocked {T : Type} (c : Config T) (D : List T) : Prop :=
  D ≠ [] ∧ ∀ t ∈ D, ∃ l, c.waits t = some l ∧ ∃ t' ∈ D, c.holds t' l

end ShipVerif.LockOrder
