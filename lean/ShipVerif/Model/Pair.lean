/-
  Pair — a client-role and a server-role endpoint (`Conn.stepCtl` each) joined by two FIFO streams.

  What one endpoint writes (`Act.sent f`) is appended to the stream towards the other; a delivery pops the head
  and hands it to the receiver the way the repository's parsers would see that frame in the receiver's state
  (`clsFrame`, checked against the real bytes by the pair engine).  A side that closed its data connection
  receives nothing more; once the stream from a closed side is drained the other side learns of the transport
  loss (`propagate`).  User decisions (approve, cancel) act on the server side; timers expire on either side.
  SHIP ids enter only through their relation to the stored one (`IdRel`).
-/
import ShipVerif.Model.Conn

namespace ShipVerif.Pair
open ShipVerif.Conn

inductive Side | C | S
  deriving DecidableEq, Repr, Inhabited

structure PS2 where
  c : Ctl
  s : Ctl
  relC : IdRel            -- the id the server presents, relative to what the client has stored
  relS : IdRel
  qcs : List Frame        -- client → server, oldest first
  qsc : List Frame
  envS : Env              -- the server side's provider answers (trust configuration)
  envC : Env
  early : Nat := 0        -- timer expiries so far that came while something else could still happen
  startedC : Bool := false   -- Run() was called (once per endpoint, possibly after the read pump delivered something)
  startedS : Bool := false
  deriving DecidableEq, Repr, Inhabited

def helloOfFrame : Frame → HelloV
  | .init => .err
  | .hello .ready w _ => .ready (if w then .ge30 else .none)
  | .hello .pending w p => .pending (if w then .ge30 else .none) (if p then .t else .none)
  | .hello .aborted _ _ => .aborted
  | _ => .other

def protOfFrame : Frame → ProtV
  | .init => .err
  | .protAnnounce => .ok .announceMax true true
  | .protSelect => .ok .select true true
  | _ => .ok .other false false

def pinOfFrame : Frame → PinV
  | .init => .err
  | .pinNone => .none
  | _ => .other

def accOfFrame (rel : IdRel) : Frame → AccV
  | .accReq => .request
  | .accMethods => .methodsId rel
  | _ => .neither

/-- what the handler of state `st` sees in frame `f` (ConnData.viewFor on the views of the frame's bytes) -/
def viewOfFrame (st : St) (rel : IdRel) (f : Frame) : View :=
  match st with
  | .cWait | .sWait => .init (f == .init)
  | .hReadyListen | .hPendListen => .hello (helloOfFrame f)
  | .pSListenProp | .pSListenConf | .pCListenChoice => .prot (protOfFrame f)
  | .pinListen => .pin (pinOfFrame f)
  | .accReq => .acc (accOfFrame rel f)
  | _ => .ignored

def clsFrame (st : St) (rel : IdRel) : Frame → In
  | .data => .msgData true
  | .closeAnnounce => .msgClose .announce
  | .closeConfirm => .msgClose .confirm
  | f => .msgPlain (viewOfFrame st rel f)

inductive PEv
  | start (sd : Side)                -- Run()
  | deliver (to : Side)              -- head of the stream towards `to`
  | timeout (sd : Side)
  | approve                          -- the user approves on the server side
  | cancel                           -- the user cancels (AbortPendingHandshake) on the server side
  | propagate (to : Side)            -- the other side's close reaches `to` (ReportConnectionError)
  | fireRej (sd : Side)              -- the sleeping 4452 closer of `sd` runs
  | fireGrace (sd : Side)
  deriving DecidableEq, Repr, Inhabited

def PS2.ctl (p : PS2) : Side → Ctl | .C => p.c | .S => p.s
def PS2.env (p : PS2) : Side → Env | .C => p.envC | .S => p.envS
def PS2.rel (p : PS2) : Side → IdRel | .C => p.relC | .S => p.relS
/-- the stream towards `sd` -/
def PS2.inq (p : PS2) : Side → List Frame | .C => p.qsc | .S => p.qcs
def Side.other : Side → Side | .C => .S | .S => .C

def sentFrames : List Act → List Frame
  | [] => []
  | .sent f :: rest => f :: sentFrames rest
  | _ :: rest => sentFrames rest

def hasShipId : List Act → Bool
  | [] => false
  | .shipId :: _ => true
  | _ :: rest => hasShipId rest

def hasSetup : List Act → Bool
  | [] => false
  | .setup :: _ => true
  | _ :: rest => hasSetup rest

def _root_.ShipVerif.Conn.St.isPendListen : St → Bool | .hPendListen => true | _ => false
def _root_.ShipVerif.Conn.St.isReadyListen : St → Bool | .hReadyListen => true | _ => false
def _root_.ShipVerif.Conn.St.isComplete : St → Bool | .complete => true | _ => false
def _root_.ShipVerif.Conn.TT.isSendProlong : TT → Bool | .sendProlong => true | _ => false
def isNil {α : Type} : List α → Bool | [] => true | _ => false

/-- an id that was not known before is stored when the connection reports it -/
def learn (learned : Bool) : IdRel → IdRel
  | .fresh => if learned then .same else .fresh
  | r => r

/-- store the new control state of `sd`, append what it wrote to the stream towards the other side -/
def setSide (p : PS2) (sd : Side) (c : Ctl) (out : List Frame) (learned : Bool) : PS2 :=
  match sd with
  | .C => { p with c := c, qcs := p.qcs ++ out, relC := learn learned p.relC }
  | .S => { p with s := c, qsc := p.qsc ++ out, relS := learn learned p.relS }

/-- what is on its way to a side that has closed its data connection is never read -/
def clearClosed (p : PS2) : PS2 :=
  let p := if p.c.wsClosed then { p with qsc := [] } else p
  if p.s.wsClosed then { p with qcs := [] } else p

/-- run input `i` on side `sd` and route what it writes -/
def apply (p : PS2) (sd : Side) (i : In) : PS2 × List Act :=
  let r := stepCtl (p.ctl sd) { i := i, env := p.env sd, fail := none }
  (clearClosed (setSide p sd r.1 (sentFrames r.2) (hasShipId r.2)), r.2)

/-- is the event possible in this state -/
def enabledP (p : PS2) : PEv → Bool
  | .start sd => !(match sd with | .C => p.startedC | .S => p.startedS)
  | .deliver to => !isNil (p.inq to) && !(p.ctl to).wsClosed
  | .timeout sd => (p.ctl sd).trun
  | .approve => p.s.st.isPendListen
  | .cancel => p.s.st.isPendListen || p.s.st.isReadyListen
  | .propagate to => (p.ctl to.other).wsClosed && !(p.ctl to).wsClosed && isNil (p.inq to)
  | .fireRej sd => (p.ctl sd).pendRej
  | .fireGrace sd => (p.ctl sd).pendGrace

def stepP (p : PS2) (e : PEv) : PS2 × List Act :=
  if !enabledP p e then (p, []) else
  match e with
  | .start sd =>
    let p := match sd with | .C => { p with startedC := true } | .S => { p with startedS := true }
    apply p sd .run
  | .deliver to =>
    match p.inq to with
    | [] => (p, [])
    | f :: rest =>
      let p := match to with | .C => { p with qsc := rest } | .S => { p with qcs := rest }
      apply p to (clsFrame (p.ctl to).st (p.rel to) f)
  | .timeout sd => apply p sd .timeout
  | .approve => apply p .S .approve
  | .cancel => apply p .S .abort
  | .propagate to => apply p to .connErr
  | .fireRej sd => apply p sd .fireRej
  | .fireGrace sd => apply p sd .fireGrace

def PS2.init (envS envC : Env) (relC relS : IdRel) : PS2 :=
  { c := Ctl.init .client, s := Ctl.init .server, relC := relC, relS := relS, qcs := [], qsc := [], envS := envS, envC := envC }

def runP (p : PS2) (evs : List PEv) : PS2 := evs.foldl (fun q e => (stepP q e).1) p

def allPEv : List PEv :=
  [.start .C, .start .S, .deliver .C, .deliver .S, .timeout .C, .timeout .S, .approve, .cancel,
   .propagate .C, .propagate .S, .fireRej .C, .fireRej .S, .fireGrace .C, .fireGrace .S]

/-- events other than timer expiries and user decisions -/
def internalEvs : List PEv :=
  [.start .C, .start .S, .deliver .C, .deliver .S, .propagate .C, .propagate .S, .fireRej .C, .fireRej .S, .fireGrace .C, .fireGrace .S]

/-- may the timer of `sd` be the one that runs out next, when nothing else can happen?  A prolongation-request
    timer is set to the peer's announced waiting time minus 30 s, when that announcement arrives; the peer restarted
    its own wait timer with the full time when it sent it: with messages arriving in time the prolongation-request
    timer is the earlier one. -/
def firesFirst (p : PS2) (sd : Side) : Bool :=
  !((p.ctl sd.other).trun && (p.ctl sd.other).ttype.isSendProlong && !(p.ctl sd).ttype.isSendProlong)

/-- no event other than timer expiries and user decisions is possible -/
def idle (p : PS2) : Bool :=
  !enabledP p (.start .C) && !enabledP p (.start .S) && !enabledP p (.deliver .C) && !enabledP p (.deliver .S) &&
  !enabledP p (.propagate .C) && !enabledP p (.propagate .S) && !enabledP p (.fireRej .C) && !enabledP p (.fireRej .S) &&
  !enabledP p (.fireGrace .C) && !enabledP p (.fireGrace .S)

/-- 'timely' mode (k = 0): a timer runs out only when nothing else can happen, and then the earliest one.
    With k > 0 a timer may also run out while other things can still happen, at most k times in a run. -/
def enabledBudget (k : Nat) (p : PS2) (e : PEv) : Bool :=
  match e with
  | .timeout sd => enabledP p e && (decide (p.early < k) || (idle p && firesFirst p sd))
  | _ => enabledP p e

/-- saturating counter -/
inductive Cnt3 | zero | one | many
  deriving DecidableEq, Repr, Inhabited
def Cnt3.inc : Cnt3 → Cnt3 | .zero => .one | _ => .many

/-- the pair with the history facts the theorems talk about -/
structure PX where
  p : PS2
  budget : Nat              -- premature timer expiries allowed in this run (0 = timely)
  helloSeen : Bool := false -- the client's hello has been handed to the server
  approved : Bool := false  -- the user approved while the request was pending
  approvedEarly : Bool := false  -- ... before the client's hello had been handed to the server, or while a hello message was in flight
  cancelled : Bool := false
  setC : Cnt3 := .zero      -- SetupRemoteDevice calls on the client / server side
  setS : Cnt3 := .zero
  deriving DecidableEq, Repr, Inhabited

def modeX (x : PX) (e : PEv) : Bool := enabledBudget x.budget x.p e

def isHello : Frame → Bool | .hello _ _ _ => true | _ => false

def isDeliverS : PEv → Bool | .deliver .S => true | _ => false
def isApprove : PEv → Bool | .approve => true | _ => false
def isCancel : PEv → Bool | .cancel => true | _ => false
def headIsHello : List Frame → Bool | f :: _ => isHello f | [] => false
def anyHello : List Frame → Bool | [] => false | f :: rest => isHello f || anyHello rest
def sideOf : PEv → Side
  | .start sd | .deliver sd | .timeout sd | .propagate sd | .fireRej sd | .fireGrace sd => sd
  | .approve | .cancel => .S
def Side.isC : Side → Bool | .C => true | .S => false

def stepX (x : PX) (e : PEv) : PX :=
  if !modeX x e then x else
  let r := stepP x.p e
  let premature := match e with
    | .timeout sd => !(idle x.p && firesFirst x.p sd)
    | _ => false
  let q := if premature then { r.1 with early := r.1.early + 1 } else r.1
  let setup := hasSetup r.2
  let onC := (sideOf e).isC
  { x with
    p := q
    helloSeen := x.helloSeen || (isDeliverS e && headIsHello x.p.qcs)
    approved := x.approved || isApprove e
    approvedEarly := x.approvedEarly || (isApprove e && !(x.helloSeen && !anyHello x.p.qcs && !anyHello x.p.qsc))
    cancelled := x.cancelled || isCancel e
    setC := if setup && onC then x.setC.inc else x.setC
    setS := if setup && !onC then x.setS.inc else x.setS }

def PX.init (budget : Nat) (envS : Env) (relC relS : IdRel) : PX :=
  { p := PS2.init envS { paired := false, auto := false, allow := false } relC relS, budget := budget }

def runX (x : PX) (evs : List PEv) : PX := evs.foldl stepX x

/-- nothing can happen any more, apart from a decision of the user -/
def quiescentX (x : PX) : Bool :=
  idle x.p && !modeX x (.timeout .C) && !modeX x (.timeout .S)

def completed (c : Ctl) : Bool := c.st.isComplete && !c.wsClosed && !c.once
def ended (c : Ctl) : Bool := c.wsClosed

end ShipVerif.Pair
