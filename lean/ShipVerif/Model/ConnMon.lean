/-
  ConnMon — the SHIP state graph (Spec), the observation alphabet seen by property monitors, and the
  monitors themselves.  A monitor reads only what an outside observer of the *implementation* can see:
  event kinds, provider answers, reported states, sent frame classes, callbacks and the end-of-event
  snapshot.  The same monitors are (a) composed with `stepCtl` and checked over the whole reachable
  control space by the kernel (Proofs/ConnCert) and (b) run by the driver over implementation traces.
-/
import ShipVerif.Model.Conn

namespace ShipVerif.Conn

/-! ### Spec: SHIP 1.0.1 handshake state graph (13.4.3 – 13.4.6) with the library's terminal states -/

def St.isTerminal : St → Bool
  | .hAbort | .hAbortDone | .hRemoteAbortDone | .hRejected | .error => true
  | _ => false

/-- phase of a state: 0 init, 1 hello, 2 protocol, 3 pin, 4 access, 5 approved, 6 completed, 7 error -/
def St.phase (s : St) : Nat :=
  let n := s.toNat
  if n ≤ 5 then 0 else if n ≤ 17 then 1 else if n ≤ 25 then 2 else if n ≤ 35 then 3
  else if n = 36 then 4 else if n = 37 then 5 else if n = 38 then 6 else 7

/-- states a role may be in at all -/
def roleState : Role → St → Bool
  | .client, .sWait | .client, .sEval | .client, .pSInit | .client, .pSListenProp
  | .client, .pSListenConf | .client, .pSOk => false
  | .server, .cSend | .server, .cWait | .server, .cEval | .server, .pCInit
  | .server, .pCListenChoice | .server, .pCOk => false
  | _, _ => true

/-- forward edges of the diagram -/
def fwdEdge : St → St → Bool
  | .initStart, .cSend | .cSend, .cWait | .cWait, .cEval | .cEval, .hello => true
  | .initStart, .sWait | .sWait, .sEval | .sEval, .hello => true
  | .hello, .hReadyInit | .hello, .hPendInit => true
  | .hReadyInit, .hReadyListen | .hReadyInit, .hAbort => true
  | .hReadyListen, .hOk | .hReadyListen, .hAbort | .hReadyListen, .hRemoteAbortDone
  | .hReadyListen, .hRejected => true
  | .hPendInit, .hPendListen => true
  | .hPendListen, .hReadyInit | .hPendListen, .hAbort | .hPendListen, .hRemoteAbortDone => true
  | .hAbort, .hAbortDone => true
  | .hOk, .pSInit | .hOk, .pCInit => true
  | .pSInit, .pSListenProp | .pSListenProp, .pSListenConf | .pSListenConf, .pSOk => true
  | .pCInit, .pCListenChoice | .pCListenChoice, .pCOk => true
  | .pCOk, .pinInit | .pSOk, .pinInit => true
  | .pinInit, .pinListen | .pinListen, .pinOk | .pinOk, .accReq => true
  | .accReq, .approved | .approved, .complete => true
  | _, _ => false

/-- allowed reported transition `a → b` for a role: a diagram edge, or any state to `error` -/
def edgeOK (r : Role) (a b : St) : Bool :=
  roleState r b && (b == .error || (!a.isTerminal || a == .hAbort) && fwdEdge a b)

/-! ### Observation alphabet -/

inductive EvK
  | run | msg | timeout | approve | abort | close (safe : Bool) | connErr | appWrite | fireRej | fireGrace
  deriving DecidableEq, Repr, Inhabited

def In.kind : In → EvK
  | .run => .run
  | .msgData _ | .msgClose _ | .msgPlain _ => .msg
  | .timeout => .timeout
  | .approve => .approve
  | .abort => .abort
  | .close s => .close s
  | .connErr => .connErr
  | .appWrite _ => .appWrite
  | .fireRej => .fireRej
  | .fireGrace => .fireGrace

inductive Tag
  | ev (k : EvK)
  | act (a : Act)
  | snap (trun wsClosed final : Bool)
  deriving DecidableEq, Repr, Inhabited

/-! ### Monitor -/

/-- saturating counter 0, 1, ≥2 -/
inductive Cnt | zero | one | many
  deriving DecidableEq, Repr, Inhabited
def Cnt.succ : Cnt → Cnt | .zero => .one | _ => .many

structure Mon where
  granted : Bool     -- local trust has been granted (paired / auto-accept answer, own initiative, approval)
  term : Bool        -- a terminal state was reported or the connection was closed locally
  last : St          -- last reported state
  cb : Cnt           -- HandleConnectionClosed calls
  wsc : Bool         -- CloseDataConnection called
  setups : Cnt       -- SetupRemoteDevice calls
  ids : Cnt          -- ReportServiceShipID calls
  deriving DecidableEq, Repr, Inhabited

def Mon.init (r : Role) : Mon :=
  { granted := r == .client, term := false, last := .initStart, cb := .zero, wsc := false,
    setups := .zero, ids := .zero }

def postHello (s : St) : Bool := s.toNat == 13 || (18 ≤ s.toNat && s.toNat ≤ 38)

def closingFrame : Frame → Bool
  | .hello .aborted _ _ | .closeAnnounce | .closeConfirm => true
  | _ => false

def monNext (m : Mon) : Tag → Mon
  | .ev .approve => { m with granted := true }
  | .ev _ => m
  | .act (.q .paired true) | .act (.q .auto true) => { m with granted := true }
  | .act (.report s _) => { m with last := s, term := m.term || s.isTerminal }
  | .act (.wsClose _ _) => { m with wsc := true, term := true }
  | .act (.closedCb _) => { m with cb := m.cb.succ, term := true }
  | .act .setup => { m with setups := m.setups.succ }
  | .act .shipId => { m with ids := m.ids.succ }
  | .act _ => m
  | .snap _ _ _ => m

/-- C01: nothing past the hello phase, no setup, no payload without granted trust -/
def okC01 (m : Mon) : Tag → Bool
  | .act (.report s _) => !postHello s || m.granted
  | .act .setup | .act .deliver | .act .deliverBuffered => m.granted
  | _ => true

/-- an outcome that has been reported and is not `error`: aborted (locally / remotely), rejected -/
def St.isOutcome : St → Bool
  | .hAbortDone | .hRemoteAbortDone | .hRejected => true
  | _ => false

/-- C04: reported transitions are spec edges; terminal outcomes are final (an outcome once reported is not replaced
    by another one, `error` included; `error` may be reported again) -/
def okC04 (r : Role) (m : Mon) : Tag → Bool
  | .act (.report s _) => edgeOK r m.last s && (!m.term || (s == .error && !m.last.isOutcome) || (m.last == .hAbort && s == .hAbortDone))
  | .act (.sent f) => !m.term || closingFrame f
  | .snap trun wsClosed final => (!m.term || !trun) && (!final || !m.term || wsClosed)
  | _ => true

/-- C06 (control part): payloads reach the application only after the setup callback and only once the handshake
    has been reported complete -/
def okC06 (m : Mon) : Tag → Bool
  | .act .deliver | .act .deliverBuffered => m.setups == .one && m.last == .complete
  | _ => true

/-- C09 (control part): one id report at most, before setup; one setup at most, right after `approved` -/
def okC09 (m : Mon) : Tag → Bool
  | .act .shipId => m.ids == .zero && m.setups == .zero
  | .act .setup => m.setups == .zero && m.last == .approved
  | _ => true

/-- C11 (connection part): the end is reported at most once, and exactly once when the transport was closed -/
def okC11 (m : Mon) : Tag → Bool
  | .act (.closedCb _) => m.cb == .zero
  | .snap _ wsClosed final => !final || !wsClosed || m.cb == .one
  | _ => true

def okAll (r : Role) (m : Mon) (t : Tag) : Bool :=
  okC01 m t && okC04 r m t && okC06 m t && okC09 m t && okC11 m t

/-- run a monitor over a tag list, accumulating the conjunction of a check -/
def monRun (ok : Mon → Tag → Bool) : Mon → List Tag → Mon × Bool
  | m, [] => (m, true)
  | m, t :: ts =>
    let r := monRun ok (monNext m t) ts
    (r.1, ok m t && r.2)

/-! ### Product of control skeleton and monitor -/

structure PS where
  c : Ctl
  m : Mon
  deriving DecidableEq, Repr, Inhabited

def PS.init (r : Role) : PS := { c := Ctl.init r, m := Mon.init r }

/-- the tags one step of the model shows to an observer -/
def stepTags (c : Ctl) (x : Inp) : Ctl × List Tag :=
  let r := stepCtl c x
  let c' := r.1
  (c', .ev x.i.kind :: (r.2.map .act ++ [.snap c'.trun c'.wsClosed (!c'.pendRej && !c'.pendGrace)]))

/-- events a well-behaved environment can produce in this state: the websocket layer reports no error once it is
    closed (C13) - it may still hand over a message whose read had completed before the close -, the hub routes user calls only to a
    connection that is still registered, the application writes only after it was given the writer -/
def envEnabled (c : Ctl) : In → Bool
  | .msgData _ | .msgClose _ | .msgPlain _ => true     -- also after the close: the message that was already read (C13)
  | .connErr => !c.wsClosed
  | .approve | .abort | .close _ => !c.once || c.pendGrace
  | .appWrite _ => c.reader
  | .run => c.st == .initStart && !c.once
  | i => enabled c i

def stepPS (ok : Role → Mon → Tag → Bool) (s : PS) (x : Inp) : PS × Bool :=
  if !envEnabled s.c x.i then (s, true) else
  let r := stepTags s.c x
  let mr := monRun (ok s.c.role) s.m r.2
  ({ c := r.1, m := mr.1 }, mr.2)

end ShipVerif.Conn
