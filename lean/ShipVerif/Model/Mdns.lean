/-
  Mdns — TXT record assembly and parsing, 32-byte shortening, QR-code text (mdns/mdns.go,
  mdns/helper.go).  Strings are lists of byte values.
-/
import ShipVerif.Model.Ski

namespace ShipVerif.Mdns
open ShipVerif.Ski (Str strBytes)

/-! ### UTF-8 (Go's utf8.ValidString) -/

def isCont (b : Nat) : Bool := 128 ≤ b && b < 192
/-- utf8.RuneStart: not a continuation byte -/
def isStart (b : Nat) : Bool := !(isCont b)

/-- valid UTF-8: shortest form, no surrogates, at most U+10FFFF -/
def valid : Str → Bool
  | [] => true
  | b :: rest =>
    if b < 128 then valid rest
    else if 194 ≤ b && b ≤ 223 then
      match rest with
      | c1 :: r => isCont c1 && valid r
      | _ => false
    else if 224 ≤ b && b ≤ 239 then
      match rest with
      | c1 :: c2 :: r =>
        isCont c1 && isCont c2 && (b != 224 || 160 ≤ c1) && (b != 237 || c1 < 160) && valid r
      | _ => false
    else if 240 ≤ b && b ≤ 244 then
      match rest with
      | c1 :: c2 :: c3 :: r =>
        isCont c1 && isCont c2 && isCont c3 && (b != 240 || 144 ≤ c1) && (b != 244 || c1 < 144) && valid r
      | _ => false
    else false

/-- shortenString: cut at the last rune start at or before `k` -/
def cutAt (s : Str) : Nat → Str
  | 0 => []
  | k + 1 => if isStart (s.getD (k + 1) 0) then s.take (k + 1) else cutAt s k

def shorten (s : Str) (n : Nat) : Str := if s.length ≤ n then s else cutAt s n

/-! ### splitting -/

/-- strings.Split for a one-byte separator -/
def splitOn (sep : Nat) : Str → List Str
  | [] => [[]]
  | c :: cs =>
    if c = sep then [] :: splitOn sep cs
    else match splitOn sep cs with
      | [] => [[c]]
      | h :: t => (c :: h) :: t

/-- strings.SplitN(item, sep, 2): key and value at the first separator -/
def cut1 (sep : Nat) : Str → Option (Str × Str)
  | [] => none
  | c :: cs => if c = sep then some ([], cs) else (cut1 sep cs).map fun kv => (c :: kv.1, kv.2)

def join (sep : Nat) : List Str → Str
  | [] => []
  | [x] => x
  | x :: y :: rest => x ++ sep :: join sep (y :: rest)

/-! ### TXT -/

structure Cfg where
  ski : Str
  id : Str
  brand : Str
  model : Str
  typ : Str
  serial : Str
  cats : List Str        -- decimal texts of the categories (fmt %d / strconv.ParseUint are outside the model)
  auto : Bool
  deriving DecidableEq, Repr

def EQ : Nat := 61       -- '='
def SEMI : Nat := 59     -- ';'
def COMMA : Nat := 44    -- ','
def COLON : Nat := 58    -- ':'

def kv (k : String) (v : Str) : Str := strBytes k ++ EQ :: v

/-- AnnounceMdnsEntry: the TXT strings (brand/model/type/serial were shortened in NewMDNS) -/
def txtOf (c : Cfg) : List Str :=
  [kv "txtvers" (strBytes "1"), kv "path" (strBytes "/ship/"), kv "id" c.id, kv "ski" c.ski,
   kv "brand" (shorten c.brand 32), kv "model" (shorten c.model 32), kv "type" (shorten c.typ 32),
   kv "register" (strBytes (if c.auto then "true" else "false"))]
  ++ (if (shorten c.serial 32).isEmpty then [] else [kv "serial" (shorten c.serial 32)])
  ++ (if c.cats.isEmpty then [] else [kv "cat" (join COMMA c.cats)])

/-- parseTxt followed by a map lookup: the last item with that key wins (Go map assignment);
    items without `=` are skipped -/
def lookup (txt : List Str) (k : String) : Option Str :=
  (((txt.filterMap (cut1 EQ)).reverse).find? (fun p => p.1 = strBytes k)).map (·.2)

structure Entry where
  ski : Str
  id : Str
  path : Str
  register : Bool
  brand : Str
  typ : Str
  model : Str
  serial : Str
  cats : List Str
  deriving DecidableEq, Repr

def isDigits (s : Str) : Bool := !s.isEmpty && s.all (fun c => 48 ≤ c && c ≤ 57)

/-- processMdnsEntry up to the construction of the entry (address handling is in Mdns.View) -/
def entryOf (localSki : Str) (m : List Str) : Option Entry :=
  match lookup m "txtvers", lookup m "id", lookup m "path", lookup m "ski", lookup m "register" with
  | some vers, some id, some path, some ski, some reg =>
    if vers ≠ strBytes "1" then none
    else if ski = localSki then none
    else if reg ≠ strBytes "true" ∧ reg ≠ strBytes "false" then none
    else some {
      ski := ski, id := id, path := path, register := reg = strBytes "true",
      brand := (lookup m "brand").getD [], typ := (lookup m "type").getD [],
      model := (lookup m "model").getD [], serial := (lookup m "serial").getD [],
      cats := match lookup m "cat" with
        | some v => (splitOn COMMA v).filter isDigits
        | none => [] }
  | _, _, _, _, _ => none

/-! ### QR code text -/

def strip (s : Str) : Str := s.filter (· ≠ SEMI)

/-- an optional field is present iff its value is non-empty (safeQRCodeKeyValue) -/
def qrOpt (key : String) (v : Str) : List (Str × Str) :=
  if v.isEmpty then [] else [(strBytes key, strip v)]

/-- the fields of the QR text in order -/
def qrPairs (c : Cfg) : List (Str × Str) :=
  [(strBytes "SKI", strip c.ski), (strBytes "ID", strip c.id)] ++ qrOpt "BRAND" (shorten c.brand 32)
    ++ qrOpt "TYPE" (shorten c.typ 32) ++ qrOpt "MODEL" (shorten c.model 32)
    ++ qrOpt "SERIAL" (shorten c.serial 32) ++ qrOpt "CAT" (join COMMA c.cats)

def qrRender (ps : List (Str × Str)) : Str :=
  strBytes "SHIP;" ++ (ps.flatMap (fun p => p.1 ++ COLON :: (p.2 ++ [SEMI])) ++ strBytes "ENDSHIP;")

/-- QRCodeText -/
def qrText (c : Cfg) : Str := qrRender (qrPairs c)

/-- reference parser used to state unambiguity: fields between `SHIP` and `ENDSHIP`, split at `;`,
    key and value at the first `:` -/
def qrParse (s : Str) : Option (List (Str × Str)) :=
  match splitOn SEMI s with
  | first :: rest =>
    if first ≠ strBytes "SHIP" then none else
    let fields := rest.takeWhile (· ≠ strBytes "ENDSHIP")
    if fields.length = rest.length then none else
    fields.mapM (cut1 COLON)
  | [] => none

end ShipVerif.Mdns
