/-
  Timer — small-step model of the handshake timer (ship/handshake.go setHandshakeTimer /
  stopHandshakeTimer) under arbitrary scheduling.

  The model is parameterised by four design facts that the extractor reads off the source
  (`Generated.timerCfg`): does every armed timer get its own stop channel, does stopping close that
  channel (instead of a non-blocking send), and does the timer goroutine re-check under the mutex that
  it is still the current, unstopped timer before it delivers the timeout.  Primitives taken as given
  (Go memory model): a mutex-protected section is atomic; a non-blocking send on an unbuffered channel
  succeeds only if a receiver is already waiting; a `select` with several ready cases picks any;
  a goroutine started with `go` begins to run at an arbitrary later moment.
-/
namespace ShipVerif.Timer

structure Cfg where
  perArmChannel : Bool
  stopCloses : Bool
  recheck : Bool
  captureAtArm : Bool     -- the goroutine selects on the channel made when it was armed (not on whatever is stored when it starts)
  deriving DecidableEq, Repr

def Cfg.fixed : Cfg := { perArmChannel := true, stopCloses := true, recheck := true, captureAtArm := true }
def Cfg.pinned : Cfg := { perArmChannel := false, stopCloses := false, recheck := false, captureAtArm := true }

inductive Phase | spawned | waiting | done
  deriving DecidableEq, Repr

/-- one timer goroutine: its timer id and the channel it selects on -/
structure G where
  id : Nat
  chan : Nat
  phase : Phase
  deriving DecidableEq, Repr

inductive Ev
  | armed (n : Nat)
  | stopped
  | delivered (n : Nat)
  deriving DecidableEq, Repr

structure S where
  running : Bool
  cur : Nat               -- channel stored in the connection
  closed : List Nat       -- channels that were closed
  gs : List G
  next : Nat              -- next timer id
  log : List Ev           -- newest first
  deriving Repr

def S.init : S := { running := false, cur := 0, closed := [], gs := [], next := 1, log := [] }

inductive Act
  | arm
  | stop (recv : Nat)     -- `recv`: which waiting goroutine gets a non-blocking send (if any is waiting)
  | start (g : Nat)       -- goroutine reaches its select
  | wake (g : Nat)        -- goroutine takes the stop case (channel closed)
  | expire (g : Nat)      -- goroutine takes the time.After case
  deriving DecidableEq, Repr

def setPhase (gs : List G) (id : Nat) (p : Phase) : List G :=
  gs.map fun g => if g.id = id then { g with phase := p } else g

def stopStep (c : Cfg) (s : S) (recv : Nat) : S :=
  if !s.running then s else
  let s := { s with log := .stopped :: s.log, running := false }
  if c.stopCloses then { s with closed := s.cur :: s.closed }
  else
    -- non-blocking send: delivered only to a goroutine already waiting on that channel
    match s.gs.find? (fun g => g.id = recv && g.chan = s.cur && g.phase = .waiting) with
    | some g => { s with gs := setPhase s.gs g.id .done }
    | none => s

def step (c : Cfg) (s : S) : Act → S
  | .arm =>
    let s := stopStep c s 0
    let n := s.next
    let ch := if c.perArmChannel then n else 0
    { s with running := true, cur := ch, next := n + 1, log := .armed n :: s.log,
             gs := { id := n, chan := ch, phase := .spawned } :: s.gs }
  | .stop recv => stopStep c s recv
  | .start g => match s.gs.find? (fun x => x.id = g && x.phase = .spawned) with
    | some _ =>
      if c.captureAtArm then { s with gs := setPhase s.gs g .waiting }
      else { s with gs := s.gs.map fun x => if x.id = g then { x with phase := .waiting, chan := s.cur } else x }
    | none => s
  | .wake g => match s.gs.find? (fun x => x.id = g && x.phase ≠ .done && s.closed.contains x.chan) with
    | some _ => { s with gs := setPhase s.gs g .done }
    | none => s
  | .expire g => match s.gs.find? (fun x => x.id = g && x.phase ≠ .done) with
    | some x =>
      let s := { s with gs := setPhase s.gs g .done }
      if c.recheck then
        if s.running && s.cur = x.chan then { s with running := false, log := .delivered x.id :: s.log } else s
      else { s with running := false, log := .delivered x.id :: s.log }
    | none => s

def run (c : Cfg) (acts : List Act) : S := acts.foldl (step c) S.init

/-- the timer that is armed and neither stopped nor expired (the log is newest first) -/
def live : List Ev → Option Nat
  | [] => none
  | .armed n :: _ => some n
  | .stopped :: _ => none
  | .delivered _ :: _ => none

/-- every delivery comes from the live timer (log newest first): the most recently armed one, not
    stopped and not yet delivered -/
def Safe : List Ev → Bool
  | [] => true
  | .delivered n :: rest => (live rest == some n) && Safe rest
  | _ :: rest => Safe rest

end ShipVerif.Timer
