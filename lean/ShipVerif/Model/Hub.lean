/-
  Hub — the pairing hub (hub/*.go) as a sequential state machine over user operations, mDNS reports,
  delayed dial tasks, the notification queue and the callbacks of its connections.  Connections are
  abstract: the hub calls approve / abort / close / state-query on them and they call back with state
  updates and their end; what a connection may report is constrained by the theorems about `Conn`.

  SKIs given by the user are raw strings; every entry point normalises (`Ski.normalize`).
-/
import ShipVerif.Model.Ski
import ShipVerif.Generated.MiscFacts

namespace ShipVerif.Hub
open ShipVerif.Ski (Str normalize)

abbrev Key := Str

/-- api.ConnectionState indices (checked against `Generated.connStateNames`) -/
def csNone : Nat := 0
def csQueued : Nat := 1
def csReceivedPairingRequest : Nat := 3
def csError : Nat := 9

structure Conn where
  id : Nat
  st : Nat              -- what ShipHandshakeState returns (set by the connection itself)
  deriving DecidableEq, Repr

structure Per where
  trusted : Bool := false
  obj : Nat := 0                 -- identity of the current ConnectionStateDetail object (0: the initial one)
  cur : Nat × Bool := (0, false) -- its value: (state, error)
  old : List (Nat × Nat × Bool) := []    -- superseded detail objects (immutable from then on): id ↦ value
  nextObj : Nat := 1
  conn : Option Conn := none     -- registered connection
  counter : Option Nat := none   -- connection attempt counter
  running : Bool := false        -- connection attempt running
  tasks : List Nat := []         -- sleeping dial tasks (captured counter)
  lastNote : Option (Nat × Bool) := none   -- last pairing detail delivered to the application
  deriving DecidableEq, Repr

/-- a queued pairing notification: the detail object it refers to; `delayed` = due in 500 ms -/
structure Note where
  key : Key
  obj : Nat
  delayed : Bool
  deriving DecidableEq, Repr

inductive Obs
  | approve (id : Nat) | abort (id : Nat) | close (id : Nat) (safe : Bool) (code : Nat)
  | query (id : Nat)
  | pairing (k : Key) (st : Nat) (err : Bool)      -- ServicePairingDetailUpdate delivered
  | disconnected (k : Key)                          -- RemoteSKIDisconnected
  | dial (k : Key)
  | mdnsRequest | mdnsAnnounce | mdnsSetAuto (b : Bool) | mdnsShutdown
  | visible (n : Nat)
  | detail (st : Nat) (err : Bool)                  -- return value of PairingDetailForSki
  | service (k : Key) (trusted : Bool)              -- what ServiceForSKI returned: the record of this SKI, its trust flag
  deriving DecidableEq, Repr

structure H where
  started : Bool := false
  shut : Bool := false
  auto : Bool := false
  per : List (Key × Per) := []          -- insertion order = creation order of the service records
  queue : List Note := []
  deriving Repr

def H.get (h : H) (k : Key) : Per := ((h.per.find? (·.1 = k)).map (·.2)).getD {}

def H.set (h : H) (k : Key) (p : Per) : H :=
  if h.per.any (·.1 = k) then { h with per := h.per.map fun q => if q.1 = k then (k, p) else q }
  else { h with per := h.per ++ [(k, p)] }

/-- ServiceForSKI: make sure a record exists -/
def H.touch (h : H) (k : Key) : H := if h.per.any (·.1 = k) then h else h.set k {}

def Per.objVal (p : Per) (o : Nat) : Nat × Bool :=
  if o = p.obj then p.cur else ((p.old.find? (·.1 = o)).map (·.2)).getD (csNone, false)

/-- the ConnectionStateDetail of a record -/
def Per.detail (p : Per) : Nat × Bool := p.cur

def H.detail (h : H) (k : Key) : Nat × Bool := (h.get k).detail

/-- SetState on the current detail object (the initial object gets an identity on first use) -/
def Per.setDetailState (p : Per) (st : Nat) : Per :=
  if p.obj = 0 then { p with obj := p.nextObj, nextObj := p.nextObj + 1, cur := (st, p.cur.2) }
  else { p with cur := (st, p.cur.2) }

def H.setDetailState (h : H) (k : Key) (st : Nat) : H := h.set k ((h.get k).setDetailState st)

/-- SetConnectionStateDetail with a new object -/
def Per.newDetail (p : Per) (st : Nat) (err : Bool) : Per :=
  { p with obj := p.nextObj, nextObj := p.nextObj + 1, cur := (st, err), old := (p.obj, p.cur) :: p.old }

def H.notify (h : H) (k : Key) (delayed : Bool) : H :=
  let h := if (h.get k).obj = 0 then h.setDetailState k (h.detail k).1 else h
  { h with queue := h.queue ++ [{ key := k, obj := (h.get k).obj, delayed := delayed }] }

def H.trustedCount (h : H) : Nat := (h.per.filter (·.2.trusted)).length
def H.connCount (h : H) : Nat := (h.per.filter (·.2.conn.isSome)).length

/-- checkAutoReannounce -/
def reannounce (h : H) : List Obs :=
  if h.shut then [] else if h.trustedCount > h.connCount then [.mdnsAnnounce, .mdnsRequest] else []

/-- hub_pairing.go mapShipMessageExchangeState -/
def mapState (st : Nat) : Nat := Generated.pairingStateMap st

def handshakeFailed (st : Nat) : Bool := st = 14 || st = 15 || st = 16 || st = 17 || st = 39

def nextCounter (c : Option Nat) : Nat :=
  match c with
  | none => 0
  | some n => if n + 1 ≥ Generated.delayRanges.length - 1 then Generated.delayRanges.length - 1 else n + 1

/-- prepareConnectionInitation + initateConnection for a task that captured `c`; every dial fails
    in this model (the outcome of a successful dial is a `connected` event of its own) -/
def taskFire (h : H) (k : Key) (c : Nat) : H × List Obs :=
  let p := h.get k
  let h := h.set k { p with running := false }
  if p.counter ≠ some c then (h, [])
  else if !(p.trusted || (h.detail k).1 = csQueued) then (h, [])
  else if p.conn.isSome || h.shut then (h, [])
  else (h, [Obs.dial k] ++ reannounce h)

inductive Ev
  | start
  | register (s : Str) | unregister (s : Str) | cancel (s : Str) | disconnect (s : Str) | pairingDetail (s : Str)
  | lookup (s : Str)                  -- ServiceForSKI
  | setAuto (b : Bool) | shutdown
  | report (ks : List Key)           -- ReportMdnsEntries with these (canonical) SKIs visible
  | settle                            -- immediate goroutines run: notifications that are due now
  | tick                              -- all sleeping dial tasks and delayed notifications run
  | connected (k : Key) (id : Nat) (st : Nat)   -- a connection was created, started and registered
  | connUpdate (k : Key) (st : Nat) (err : Bool) -- HandleShipHandshakeStateUpdate
  | connSetState (k : Key) (st : Nat)            -- the registered connection's own state changed silently (abort / close effects)
  | connClosed (k : Key) (id : Nat) (hsEnd : Bool) -- HandleConnectionClosed
  deriving DecidableEq, Repr

/-- deliver queued notifications from the head; `all = false` stops at the first delayed one -/
def deliver (all : Bool) : Nat → H → List Obs → H × List Obs
  | 0, h, acc => (h, acc)
  | fuel + 1, h, acc =>
    match h.queue with
    | [] => (h, acc)
    | n :: rest =>
      if n.delayed && !all then (h, acc)
      else
        let v := (h.get n.key).objVal n.obj
        let h := { h with queue := rest }
        let h := h.set n.key { h.get n.key with lastNote := some v }
        deliver all fuel h (acc ++ [.pairing n.key v.1 v.2])

def taskFold (k : Key) (r : H × List Obs) (c : Nat) : H × List Obs :=
  ((taskFire r.1 k c).1, r.2 ++ (taskFire r.1 k c).2)

def fireTasks : List (Key × Per) → H → List Obs → H × List Obs
  | [], h, acc => (h, acc)
  | (k, _) :: rest, h, acc =>
    fireTasks rest ((h.get k).tasks.foldl (taskFold k) (h.set k { h.get k with tasks := [] }, acc)).1
      ((h.get k).tasks.foldl (taskFold k) (h.set k { h.get k with tasks := [] }, acc)).2

/-- ReportMdnsEntries for one visible SKI -/
def reportOne (r : H × List Obs) (k : Key) : H × List Obs :=
  if ((r.1.touch k).get k).conn.isSome then (r.1.touch k, r.2)
  else if !(((r.1.touch k).get k).trusted || ((r.1.touch k).detail k).1 = csQueued) then (r.1.touch k, r.2)
  else if ((r.1.touch k).get k).running || (r.1.touch k).shut then (r.1.touch k, r.2)
  else
    let c := nextCounter ((r.1.touch k).get k).counter
    let h := (r.1.touch k).set k { (r.1.touch k).get k with running := true, counter := some c }
    if (h.detail k).1 = csQueued then
      ((taskFire h k c).1, r.2 ++ (taskFire h k c).2)       -- `go prepareConnectionInitation` at once
    else (h.set k { h.get k with tasks := (h.get k).tasks ++ [c] }, r.2)

/-- trusted := false, pairing state none, notify the application (tail of unregister and cancel) -/
def untrust (h : H) (k : Key) : H :=
  ((h.set k { h.get k with trusted := false }).setDetailState k csNone).notify k false

/-- CancelPairingWithSKI's dealing with the registered connection: AbortPendingHandshake takes a
    connection in a hello-listen state to the abort-done state (Conn.abort); any other connection whose
    handshake has not failed - a running handshake as well as a completed connection - is closed -/
def cancelConn (h : H) (k : Key) : H × List Obs :=
  match (h.get k).conn with
  | some c =>
    (h.set k { h.get k with conn := some { c with st := if c.st = 8 || c.st = 11 then 15 else c.st } },
     [Obs.abort c.id, .query c.id] ++
       (if handshakeFailed (if c.st = 8 || c.st = 11 then 15 else c.st) then [] else [Obs.close c.id false 4452]))
  | none => (h, [])

/-- the registered connection's own state -/
def setConnSt (h : H) (k : Key) (st : Nat) : H :=
  match (h.get k).conn with
  | some c => h.set k { h.get k with conn := some { c with st := st } }
  | none => h

/-- `service.SetTrusted(true)` on SME_HELLO_OK -/
def trustOnHelloOk (h : H) (k : Key) (st : Nat) : H :=
  if st = 13 then h.set k { h.get k with trusted := true } else h

/-- store a new detail object and queue its (delayed) notification if state or error changed -/
def updateDetail (h : H) (k : Key) (ps : Nat) (err : Bool) : H :=
  if (h.detail k).1 ≠ ps || (h.detail k).2 ≠ err then
    { (h.set k ((h.get k).newDetail ps err)) with
      queue := h.queue ++ [{ key := k, obj := (h.get k).nextObj, delayed := true }] }
  else h

/-- HandleShipHandshakeStateUpdate (the connection's own state is updated with it) -/
def connUpdateH (h : H) (k : Key) (st : Nat) (err : Bool) : H :=
  updateDetail (trustOnHelloOk (setConnSt (h.touch k) k st) k st) k (if err then csError else mapState st) err

/-- HandleConnectionClosed: forget the connection only if it is the registered one -/
def connClosedH (h : H) (k : Key) (id : Nat) (hsEnd : Bool) : H :=
  match ((h.touch k).get k).conn with
  | some c =>
    let h1 := if c.id = id then (h.touch k).set k { (h.touch k).get k with conn := none } else h.touch k
    if hsEnd then h1.set k { h1.get k with counter := none } else h1
  | none => h.touch k

def step (h : H) : Ev → H × List Obs
  | .start => ({ h with started := true }, [])
  | .register s =>
    let k := normalize s
    let h := h.touch k
    if !h.started then
      let h := h.set k { h.get k with trusted := true }
      (h, reannounce h)
    else
      let p := h.get k
      let h := h.set k { p with trusted := true }
      match p.conn with
      | some c => (h, [.approve c.id])
      | none =>
        let h := h.setDetailState k csQueued
        (h.notify k false, [.mdnsRequest])
  | .unregister s =>
    (untrust ((h.touch (normalize s)).set (normalize s) { (h.touch (normalize s)).get (normalize s) with counter := none }) (normalize s),
     match (h.get (normalize s)).conn with | some c => [.close c.id true 4500] | none => [])
  | .disconnect s =>
    let k := normalize s
    (h, match (h.get k).conn with | some c => [.close c.id true 0] | none => [])
  | .cancel s =>
    (untrust (cancelConn ((h.touch (normalize s)).set (normalize s) { (h.touch (normalize s)).get (normalize s) with counter := none }) (normalize s)).1 (normalize s),
     (cancelConn ((h.touch (normalize s)).set (normalize s) { (h.touch (normalize s)).get (normalize s) with counter := none }) (normalize s)).2)
  | .pairingDetail s =>
    let k := normalize s
    let h := h.touch k
    match (h.get k).conn with
    | some c => (h, [.query c.id, .detail (mapState c.st) false])
    | none => (h, [.detail (h.detail k).1 (h.detail k).2])
  | .lookup s => (h.touch (normalize s), [.service (normalize s) ((h.touch (normalize s)).get (normalize s)).trusted])
  | .setAuto b => ({ h with auto := b }, [.mdnsSetAuto b])
  | .shutdown =>
    let h := { h with shut := true }
    (h, [.mdnsShutdown] ++ (h.per.filterMap fun q => q.2.conn.map fun c => Obs.close c.id false 0))
  | .report ks => ((ks.foldl reportOne (h, [])).1, (ks.foldl reportOne (h, [])).2 ++ [.visible ks.length])
  | .settle => deliver false (h.queue.length + 1) h []
  | .tick =>
    let r := fireTasks h.per h []
    deliver true (r.1.queue.length + 1) r.1 r.2
  | .connected k id st =>
    let h := h.touch k
    (h.set k { h.get k with conn := some { id := id, st := st } }, [])
  | .connSetState k st =>
    match (h.get k).conn with
    | some c => (h.set k { h.get k with conn := some { c with st := st } }, [])
    | none => (h, [])
  | .connUpdate k st err => (connUpdateH h k st err, [])
  | .connClosed k id hsEnd =>
    (connClosedH h k id hsEnd, [Obs.disconnected k] ++
      (if !hsEnd && !((connClosedH h k id hsEnd).get k).trusted then [] else reannounce (connClosedH h k id hsEnd)))

def run (evs : List Ev) : H × List (List Obs) :=
  evs.foldl (fun r e => let x := step r.1 e; (x.1, r.2 ++ [x.2])) ({}, [])

end ShipVerif.Hub
