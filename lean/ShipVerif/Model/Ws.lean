/-
  Ws — small-step model of the websocket adapter (ws/websocket.go) under arbitrary scheduling:
  any number of writer goroutines (serialised by the write mutex, so at most one is inside
  `WriteMessageToWebsocketConnection` at a time), the write pump, the read pump, local closers, the
  peer and a transport that can fail at any read or write.

  The model is parameterised by design facts read from the source (`Generated.wsCfg`).  Primitives
  taken as given: a send on a closed channel panics; a buffered channel of capacity 1 accepts a send
  iff it is empty; a closed channel is always ready in a `select`; `sync.Once` runs its body once;
  mutex sections are atomic.  The body of the once (mark closed, close the close channel, close the
  socket) is one atomic step here.
-/
namespace ShipVerif.Ws

structure Cfg where
  pumpClosesQueue : Bool      -- writeShipPump closes shipWriteChannel when it exits
  writeSelectsClose : Bool    -- Write selects between the queue and the close channel
  shutdownAlways : Bool       -- every close path runs the whole once body (no early return on the flag)
  reportIfFirst : Bool        -- an error is reported only by the path that won the once
  farewellInsideOnce : Bool   -- CloseDataConnection writes its close frame after marking the connection closed
  readerRechecks : Bool       -- the read pump tests the closed flag again after a read returned, before it looks at the result
  writeWaits : Bool           -- Write leaves its select only through the queue or the close channel (no default, no timeout)
  deriving DecidableEq, Repr

def Cfg.fixed : Cfg := { pumpClosesQueue := false, writeSelectsClose := true, shutdownAlways := true, reportIfFirst := true, farewellInsideOnce := true, readerRechecks := true, writeWaits := true }
def Cfg.pinned : Cfg := { pumpClosesQueue := true, writeSelectsClose := false, shutdownAlways := false, reportIfFirst := false, farewellInsideOnce := false, readerRechecks := true, writeWaits := true }

abbrev Msg := Nat

inductive WPc | atCheck | atSelect
  deriving DecidableEq, Repr
inductive Pump
  | idle | holding (m : Msg) | exited
  deriving DecidableEq, Repr
/-- what a transport read returned -/
inductive Item | msg (m : Msg) | fail
  deriving DecidableEq, Repr
inductive Reader
  | idle | reading | got (i : Item) | checked (m : Msg) | exited
  deriving DecidableEq, Repr

structure S where
  closed : Bool := false            -- connectionClosed flag
  errSet : Bool := false            -- connectionClosedError recorded
  once : Bool := false              -- shutdownOnce consumed
  closeCh : Bool := false           -- closeChannel closed
  sock : Bool := false              -- conn.Close() called
  queueClosed : Bool := false       -- shipWriteChannel closed (pinned design only)
  queue : Option Msg := none        -- capacity 1
  inside : Option (Msg × WPc × Bool) := none  -- the writer inside Write: message, pc, was the flag set at entry
  pump : Pump := .idle
  reader : Reader := .idle
  inbound : List Item := []         -- what the peer has sent and the transport has not yet returned
  next : Msg := 0                   -- next message id
  accepted : List Msg := []         -- messages whose Write returned nil, in order
  peerGot : List Msg := []          -- messages written to the transport, in order
  delivered : List Msg := []        -- messages handed to the SHIP layer, in order
  deliveredAfterClose : Nat := 0
  gotLate : Bool := false           -- the item the reader holds was returned by a read that ended after the close
  lateDelivered : Nat := 0          -- messages delivered although their read ended after the close
  reports : Nat := 0                -- ReportConnectionError calls
  localFirst : Bool := false        -- the once was won by a local close
  localClosing : Bool := false      -- a deliberate local close has begun (its close frame is on the wire)
  reportsAfterLocal : Nat := 0      -- error reports issued although a local close had begun
  rets : List (Bool × Bool) := []   -- (flag set at entry, returned nil) per finished Write
  refusedOpen : Nat := 0            -- Writes that returned an error although the connection was not closed
  panicked : Bool := false
  deriving Repr

inductive Act
  | enter                   -- some writer takes the write mutex with a fresh message
  | wCheck                  -- closed check
  | wSend                   -- the queue case of the select (or the plain send)
  | wClosed                 -- the close-channel case of the select
  | wGiveUp                 -- any other way out of the select (a default or timeout case), if the design has one
  | pumpTake | pumpCheck | pumpWrite (ok : Bool) | pumpExit
  | rStart | rReturn | rCheck | rDeliver
  | rReturnBuf              -- the read returns data the library had already taken from the socket, closed or not
  | peerSend | peerFail     -- peer sends a message / closes, fails, sends a bad frame
  | localCloseBegin         -- CloseDataConnection with a reason: the close frame is written
  | localClose
  deriving DecidableEq, Repr

/-- the body of the once, or the pinned design's partial variants -/
def shutdown (c : Cfg) (s : S) (err : Bool) (byError : Bool) : S × Bool :=
  if c.shutdownAlways then
    if s.once then (s, false)
    else ({ s with once := true, closed := true, errSet := s.errSet || err, closeCh := true, sock := true,
                   localFirst := !byError }, true)
  else
    -- pinned: the error paths set the flag first; close() then returns early inside the once
    if byError then
      ({ s with closed := true, errSet := s.errSet || err }, true)
    else if s.once then (s, false)
    else if s.closed then ({ s with once := true }, false)
    else ({ s with once := true, closed := true, closeCh := true, sock := true, localFirst := true }, true)

def report (s : S) : S :=
  { s with reports := s.reports + 1,
           reportsAfterLocal := if s.localClosing then s.reportsAfterLocal + 1 else s.reportsAfterLocal }

def errorPath (c : Cfg) (s : S) : S :=
  let r := shutdown c s true true
  if c.reportIfFirst then (if r.2 then report r.1 else r.1)
  else report r.1

/-- pinned read-error path: close() first (once body), then flag + error, then report -/
def readErrorPath (c : Cfg) (s : S) : S :=
  if c.shutdownAlways then errorPath c s
  else
    let r := shutdown c s false false
    let s := { r.1 with closed := true, errSet := true }
    report s

def step (c : Cfg) (s : S) : Act → S
  | .enter =>
    match s.inside with
    | some _ => s
    | none => { s with inside := some (s.next, .atCheck, s.closed), next := s.next + 1 }
  | .wCheck =>
    match s.inside with
    | some (m, .atCheck, f) =>
      if s.closed then { s with inside := none, rets := (f, false) :: s.rets }
      else { s with inside := some (m, .atSelect, f) }
    | _ => s
  | .wSend =>
    match s.inside with
    | some (m, .atSelect, f) =>
      if s.queueClosed then { s with panicked := true, inside := none }
      else match s.queue with
        | some _ => s            -- full: blocked
        | none => { s with queue := some m, inside := none, accepted := s.accepted ++ [m], rets := (f, true) :: s.rets }
    | _ => s
  | .wClosed =>
    match s.inside with
    | some (_, .atSelect, f) =>
      if c.writeSelectsClose && s.closeCh then { s with inside := none, rets := (f, false) :: s.rets } else s
    | _ => s
  | .wGiveUp =>
    match s.inside with
    | some (_, .atSelect, f) =>
      if c.writeWaits then s
      else { s with inside := none, rets := (f, false) :: s.rets,
                    refusedOpen := if s.closed then s.refusedOpen else s.refusedOpen + 1 }
    | _ => s
  | .pumpTake =>
    match s.pump, s.queue with
    | .idle, some m => { s with pump := .holding m, queue := none }
    | _, _ => s
  | .pumpCheck =>
    match s.pump with
    | .holding _ => if s.closed then { s with pump := .exited, queueClosed := c.pumpClosesQueue } else s
    | _ => s
  | .pumpWrite ok =>
    match s.pump with
    | .holding m =>
      if s.closed then s       -- must take the check first
      else if ok && !s.sock then { s with pump := .idle, peerGot := s.peerGot ++ [m] }
      else
        let s := errorPath c s
        { s with pump := .exited, queueClosed := c.pumpClosesQueue }
    | _ => s
  | .pumpExit =>
    match s.pump with
    | .idle => if s.closeCh then { s with pump := .exited, queueClosed := c.pumpClosesQueue } else s
    | _ => s
  | .rStart =>
    match s.reader with
    | .idle => if s.closeCh || s.closed then { s with reader := .exited } else { s with reader := .reading }
    | _ => s
  | .rReturn =>
    match s.reader with
    | .reading =>
      if s.sock then { s with reader := .got .fail, gotLate := s.closed }
      else match s.inbound with
        | [] => s
        | i :: rest => { s with reader := .got i, inbound := rest, gotLate := s.closed }
    | _ => s
  | .rReturnBuf =>
    match s.reader with
    | .reading =>
      match s.inbound with
      | [] => s
      | i :: rest => { s with reader := .got i, inbound := rest, gotLate := s.closed }
    | _ => s
  | .rCheck =>
    match s.reader with
    | .got i =>
      if c.readerRechecks && s.closed then { s with reader := .exited }
      else match i with
        | .fail => { (readErrorPath c s) with reader := .exited }
        | .msg m => { s with reader := .checked m }
    | _ => s
  | .rDeliver =>
    match s.reader with
    | .checked m =>
      { s with reader := .idle, delivered := s.delivered ++ [m],
               deliveredAfterClose := if s.closed then s.deliveredAfterClose + 1 else s.deliveredAfterClose,
               lateDelivered := if s.gotLate then s.lateDelivered + 1 else s.lateDelivered }
    | _ => s
  | .peerSend => { s with inbound := s.inbound ++ [.msg s.next], next := s.next + 1 }
  | .peerFail => { s with inbound := s.inbound ++ [.fail] }
  | .localCloseBegin =>
    -- with the frame written inside the once the whole close is one step (`localClose`);
    -- otherwise the peer's reply to the frame can arrive, as a read error, before the close
    if c.farewellInsideOnce then (shutdown c s false false).1
    else { s with localClosing := true, inbound := s.inbound ++ [.fail] }
  | .localClose => (shutdown c s false false).1

def run (c : Cfg) (acts : List Act) : S := acts.foldl (step c) {}

end ShipVerif.Ws
