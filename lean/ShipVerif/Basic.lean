def hello := "world"
