/-
  PairCertDefs — the Bool-valued closure check for the two-endpoint system over a given set of state codes (a
  `CodeTree`), and its lifting to all event lists.  The shard modules (generated) establish the check for the
  sets written by the untrusted search `shipdrv pairgen` through kernel evaluation (`decide +kernel`).
-/
import ShipVerif.Model.PairEnum

namespace ShipVerif.Pair
open ShipVerif.Conn

/-- membership in the set; on bounded states the coding is invertible (`PX.dec_enc`) -/
def inRX (t : CodeTree) (x : PX) : Bool := t.find x.enc && bounded x

/-- the state with code `k` satisfies the facts and every event leads into the set again -/
def certBodyX (t : CodeTree) (k : Nat) : Bool :=
  let x := PX.dec k
  propsOk x && allPEv.all fun e => inRX t (stepX x e)

def closedOnX (t chunk : CodeTree) : Bool := chunk.all (certBodyX t)

def initsOk (t : CodeTree) (budgets : List Nat) : Bool :=
  budgets.all fun b => [true, false].all fun p => [true, false].all fun a => [true, false].all fun w =>
    [IdRel.fresh, .same, .mismatch].all fun rc => [IdRel.fresh, .same, .mismatch].all fun rs =>
      inRX t (PX.init b { paired := p, auto := a, allow := w } rc rs)

theorem mem_allPEv (e : PEv) : e ∈ allPEv := by
  cases e with
  | start sd => cases sd <;> simp [allPEv]
  | deliver sd => cases sd <;> simp [allPEv]
  | timeout sd => cases sd <;> simp [allPEv]
  | approve => simp [allPEv]
  | cancel => simp [allPEv]
  | propagate sd => cases sd <;> simp [allPEv]
  | fireRej sd => cases sd <;> simp [allPEv]
  | fireGrace sd => cases sd <;> simp [allPEv]

theorem inRX_facts (t : CodeTree) (hc : closedOnX t t = true) {x : PX} (hx : inRX t x = true) :
    propsOk x = true ∧ ∀ e, inRX t (stepX x e) = true := by
  simp only [inRX, Bool.and_eq_true] at hx
  have hm := CodeTree.find_mem hx.1
  have h := CodeTree.all_mem hc _ hm
  simp only [certBodyX, PX.dec_enc x hx.2, Bool.and_eq_true, List.all_eq_true] at h
  exact ⟨h.1, fun e => h.2 e (mem_allPEv e)⟩

theorem inRX_run (t : CodeTree) (hc : closedOnX t t = true) {x : PX} (hx : inRX t x = true) (evs : List PEv) :
    inRX t (runX x evs) = true := by
  induction evs generalizing x with
  | nil => exact hx
  | cons e evs ih => exact ih ((inRX_facts t hc hx).2 e)

theorem inRX_init (t : CodeTree) (budgets : List Nat) (hi : initsOk t budgets = true) (b : Nat) (hb : b ∈ budgets)
    (e : Env) (rc rs : IdRel) : inRX t (PX.init b e rc rs) = true := by
  simp only [initsOk, List.all_eq_true] at hi
  have h := hi b hb
  obtain ⟨p, a, w⟩ := e
  have hp := h p (by cases p <;> simp)
  have ha := hp a (by cases a <;> simp)
  have hw := ha w (by cases w <;> simp)
  have hrc := hw rc (by cases rc <;> simp)
  exact hrc rs (by cases rs <;> simp)

theorem facts_of_cert (t : CodeTree) (hc : closedOnX t t = true) (budgets : List Nat) (hi : initsOk t budgets = true)
    (b : Nat) (hb : b ∈ budgets) (e : Env) (rc rs : IdRel) (evs : List PEv) :
    propsOk (runX (PX.init b e rc rs) evs) = true :=
  (inRX_facts t hc (inRX_run t hc (inRX_init t budgets hi b hb e rc rs) evs)).1

end ShipVerif.Pair
