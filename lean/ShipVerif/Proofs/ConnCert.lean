/-
  ConnCert — the generated set of product states is an inductive invariant of (control skeleton ×
  monitor) on which every monitor check passes; lifting to all event sequences.
-/
import ShipVerif.Proofs.ConnCert.S0
import ShipVerif.Proofs.ConnCert.S1
import ShipVerif.Proofs.ConnCert.S2
import ShipVerif.Proofs.ConnCert.S3
import ShipVerif.Proofs.ConnCert.S4
import ShipVerif.Proofs.ConnCert.S5
import ShipVerif.Proofs.ConnCert.S6
import ShipVerif.Proofs.ConnCert.S7
import ShipVerif.Proofs.ConnCert.Top

namespace ShipVerif.Conn
open ShipVerif.Generated

theorem closedCheck_ok : closedOn ConnReach.tree = true := by
  have ht := cert_top
  simp only [Bool.and_eq_true] at ht
  obtain ⟨⟨⟨⟨⟨⟨h0, h1⟩, h2⟩, h3⟩, h4⟩, h5⟩, h6⟩ := ht
  have e0 := cert_c0; have e1 := cert_c1; have e2 := cert_c2; have e3 := cert_c3
  have e4 := cert_c4; have e5 := cert_c5; have e6 := cert_c6; have e7 := cert_c7
  simp only [closedOn] at e0 e1 e2 e3 e4 e5 e6 e7
  simp only [closedOn, ConnReach.tree, CodeTree.all, Bool.and_eq_true]
  exact ⟨⟨⟨⟨⟨⟨e0, h0⟩, e1⟩, h1⟩, ⟨⟨e2, h2⟩, e3⟩⟩, h3⟩, ⟨⟨⟨⟨e4, h4⟩, e5⟩, h5⟩, ⟨⟨e6, h6⟩, e7⟩⟩⟩

theorem stepPS_norm (ok : Role → Mon → Tag → Bool) (s : PS) (x : Inp) :
    stepPS ok s x.norm = stepPS ok s x := by
  simp only [stepPS, stepTags, stepCtl_norm]
  rfl

theorem inR_init (r : Role) : inR (PS.init r) = true := by
  have h := initCheck_ok
  simp only [initCheck, Bool.and_eq_true] at h
  cases r
  · exact h.1
  · exact h.2

/-- one step from a certified state: certified again, all monitor checks hold on its tags, same role -/
theorem inR_step {s : PS} (hs : inR s = true) (x : Inp) :
    inR (stepPS okAll s x).1 = true ∧ (stepPS okAll s x).2 = true ∧ (stepPS okAll s x).1.c.role = s.c.role := by
  have hk := CodeTree.find_mem hs
  have h := CodeTree.all_mem closedCheck_ok _ hk
  simp only [certBody, PS.dec_enc] at h
  have h2 := allInp_spec h x
  simp only [stepPS_norm, Bool.and_eq_true, beq_iff_eq] at h2
  obtain ⟨⟨a, b⟩, c⟩ := h2
  exact ⟨a, b, c⟩

/-! ### lifting to event sequences -/

def runPS (ok : Role → Mon → Tag → Bool) : PS → List Inp → PS × Bool
  | s, [] => (s, true)
  | s, x :: xs =>
    let r := stepPS ok s x
    let r2 := runPS ok r.1 xs
    (r2.1, r.2 && r2.2)

theorem runPS_all {s : PS} (hs : inR s = true) (xs : List Inp) :
    inR (runPS okAll s xs).1 = true ∧ (runPS okAll s xs).2 = true := by
  induction xs generalizing s with
  | nil => exact ⟨hs, rfl⟩
  | cons x xs ih =>
    have h := inR_step hs x
    have h2 := ih h.1
    simp only [runPS, Bool.and_eq_true]
    exact ⟨h2.1, h.2.1, h2.2⟩

end ShipVerif.Conn
