import ShipVerif.Proofs.PairCertArb.Defs
namespace ShipVerif.Pair.PairCertArb
open ShipVerif.Pair ShipVerif.Generated
theorem c51 : closedOnX tree PairReachArb.c51 = true := by decide +kernel
end ShipVerif.Pair.PairCertArb
