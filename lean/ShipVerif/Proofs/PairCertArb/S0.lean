import ShipVerif.Proofs.PairCertArb.Defs
namespace ShipVerif.Pair.PairCertArb
open ShipVerif.Pair ShipVerif.Generated
theorem c0 : closedOnX tree PairReachArb.c0 = true := by decide +kernel
end ShipVerif.Pair.PairCertArb
