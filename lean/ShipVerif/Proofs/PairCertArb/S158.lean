import ShipVerif.Proofs.PairCertArb.Defs
namespace ShipVerif.Pair.PairCertArb
open ShipVerif.Pair ShipVerif.Generated
theorem c158 : closedOnX tree PairReachArb.c158 = true := by decide +kernel
end ShipVerif.Pair.PairCertArb
