import ShipVerif.Proofs.PairCertArb.Defs
namespace ShipVerif.Pair.PairCertArb
open ShipVerif.Pair ShipVerif.Generated
theorem c196 : closedOnX tree PairReachArb.c196 = true := by decide +kernel
end ShipVerif.Pair.PairCertArb
