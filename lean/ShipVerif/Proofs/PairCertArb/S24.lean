import ShipVerif.Proofs.PairCertArb.Defs
namespace ShipVerif.Pair.PairCertArb
open ShipVerif.Pair ShipVerif.Generated
theorem c24 : closedOnX tree PairReachArb.c24 = true := by decide +kernel
end ShipVerif.Pair.PairCertArb
