import ShipVerif.Proofs.PairCertArb.Defs
namespace ShipVerif.Pair.PairCertArb
open ShipVerif.Pair ShipVerif.Generated
theorem c11 : closedOnX tree PairReachArb.c11 = true := by decide +kernel
end ShipVerif.Pair.PairCertArb
