import ShipVerif.Proofs.PairCertArb.Defs
namespace ShipVerif.Pair.PairCertArb
open ShipVerif.Pair ShipVerif.Generated
theorem c145 : closedOnX tree PairReachArb.c145 = true := by decide +kernel
end ShipVerif.Pair.PairCertArb
