import ShipVerif.Proofs.PairCertArb.Defs
namespace ShipVerif.Pair.PairCertArb
open ShipVerif.Pair ShipVerif.Generated
theorem c139 : closedOnX tree PairReachArb.c139 = true := by decide +kernel
end ShipVerif.Pair.PairCertArb
