import ShipVerif.Proofs.PairCertArb.Defs
namespace ShipVerif.Pair.PairCertArb
open ShipVerif.Pair ShipVerif.Generated
theorem c29 : closedOnX tree PairReachArb.c29 = true := by decide +kernel
end ShipVerif.Pair.PairCertArb
