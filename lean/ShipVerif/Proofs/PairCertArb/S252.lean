import ShipVerif.Proofs.PairCertArb.Defs
namespace ShipVerif.Pair.PairCertArb
open ShipVerif.Pair ShipVerif.Generated
theorem c252 : closedOnX tree PairReachArb.c252 = true := by decide +kernel
end ShipVerif.Pair.PairCertArb
