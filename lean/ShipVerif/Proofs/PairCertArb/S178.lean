import ShipVerif.Proofs.PairCertArb.Defs
namespace ShipVerif.Pair.PairCertArb
open ShipVerif.Pair ShipVerif.Generated
theorem c178 : closedOnX tree PairReachArb.c178 = true := by decide +kernel
end ShipVerif.Pair.PairCertArb
