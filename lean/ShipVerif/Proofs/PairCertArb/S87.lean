import ShipVerif.Proofs.PairCertArb.Defs
namespace ShipVerif.Pair.PairCertArb
open ShipVerif.Pair ShipVerif.Generated
theorem c87 : closedOnX tree PairReachArb.c87 = true := by decide +kernel
end ShipVerif.Pair.PairCertArb
