import ShipVerif.Proofs.PairCertArb.Defs
namespace ShipVerif.Pair.PairCertArb
open ShipVerif.Pair ShipVerif.Generated
theorem c110 : closedOnX tree PairReachArb.c110 = true := by decide +kernel
end ShipVerif.Pair.PairCertArb
