import ShipVerif.Proofs.PairCertArb.Defs
namespace ShipVerif.Pair.PairCertArb
open ShipVerif.Pair ShipVerif.Generated
theorem c215 : closedOnX tree PairReachArb.c215 = true := by decide +kernel
end ShipVerif.Pair.PairCertArb
