import ShipVerif.Proofs.PairCertArb.Defs
namespace ShipVerif.Pair.PairCertArb
open ShipVerif.Pair ShipVerif.Generated
theorem c107 : closedOnX tree PairReachArb.c107 = true := by decide +kernel
end ShipVerif.Pair.PairCertArb
