import ShipVerif.Proofs.PairCertArb.Defs
namespace ShipVerif.Pair.PairCertArb
open ShipVerif.Pair ShipVerif.Generated
theorem c250 : closedOnX tree PairReachArb.c250 = true := by decide +kernel
end ShipVerif.Pair.PairCertArb
