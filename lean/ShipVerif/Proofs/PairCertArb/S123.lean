import ShipVerif.Proofs.PairCertArb.Defs
namespace ShipVerif.Pair.PairCertArb
open ShipVerif.Pair ShipVerif.Generated
theorem c123 : closedOnX tree PairReachArb.c123 = true := by decide +kernel
end ShipVerif.Pair.PairCertArb
