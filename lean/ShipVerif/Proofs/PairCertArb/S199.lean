import ShipVerif.Proofs.PairCertArb.Defs
namespace ShipVerif.Pair.PairCertArb
open ShipVerif.Pair ShipVerif.Generated
theorem c199 : closedOnX tree PairReachArb.c199 = true := by decide +kernel
end ShipVerif.Pair.PairCertArb
