import ShipVerif.Proofs.PairCertArb.Defs
namespace ShipVerif.Pair.PairCertArb
open ShipVerif.Pair ShipVerif.Generated
theorem c25 : closedOnX tree PairReachArb.c25 = true := by decide +kernel
end ShipVerif.Pair.PairCertArb
