import ShipVerif.Proofs.PairCertArb.Defs
namespace ShipVerif.Pair.PairCertArb
open ShipVerif.Pair ShipVerif.Generated
theorem c255 : closedOnX tree PairReachArb.c255 = true := by decide +kernel
end ShipVerif.Pair.PairCertArb
