import ShipVerif.Proofs.PairCertArb.Defs
namespace ShipVerif.Pair.PairCertArb
open ShipVerif.Pair ShipVerif.Generated
theorem c12 : closedOnX tree PairReachArb.c12 = true := by decide +kernel
end ShipVerif.Pair.PairCertArb
