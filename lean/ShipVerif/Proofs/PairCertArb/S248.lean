import ShipVerif.Proofs.PairCertArb.Defs
namespace ShipVerif.Pair.PairCertArb
open ShipVerif.Pair ShipVerif.Generated
theorem c248 : closedOnX tree PairReachArb.c248 = true := by decide +kernel
end ShipVerif.Pair.PairCertArb
