import ShipVerif.Proofs.PairCertArb.Defs
namespace ShipVerif.Pair.PairCertArb
open ShipVerif.Pair ShipVerif.Generated
theorem c203 : closedOnX tree PairReachArb.c203 = true := by decide +kernel
end ShipVerif.Pair.PairCertArb
