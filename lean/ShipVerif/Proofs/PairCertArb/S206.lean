import ShipVerif.Proofs.PairCertArb.Defs
namespace ShipVerif.Pair.PairCertArb
open ShipVerif.Pair ShipVerif.Generated
theorem c206 : closedOnX tree PairReachArb.c206 = true := by decide +kernel
end ShipVerif.Pair.PairCertArb
