import ShipVerif.Proofs.PairCertArb.Defs
namespace ShipVerif.Pair.PairCertArb
open ShipVerif.Pair ShipVerif.Generated
theorem c5 : closedOnX tree PairReachArb.c5 = true := by decide +kernel
end ShipVerif.Pair.PairCertArb
