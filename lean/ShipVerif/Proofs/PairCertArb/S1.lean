import ShipVerif.Proofs.PairCertArb.Defs
namespace ShipVerif.Pair.PairCertArb
open ShipVerif.Pair ShipVerif.Generated
theorem c1 : closedOnX tree PairReachArb.c1 = true := by decide +kernel
end ShipVerif.Pair.PairCertArb
