import ShipVerif.Proofs.PairCertArb.Defs
namespace ShipVerif.Pair.PairCertArb
open ShipVerif.Pair ShipVerif.Generated
theorem c58 : closedOnX tree PairReachArb.c58 = true := by decide +kernel
end ShipVerif.Pair.PairCertArb
