import ShipVerif.Proofs.PairCertArb.Defs
namespace ShipVerif.Pair.PairCertArb
open ShipVerif.Pair ShipVerif.Generated
theorem c38 : closedOnX tree PairReachArb.c38 = true := by decide +kernel
end ShipVerif.Pair.PairCertArb
