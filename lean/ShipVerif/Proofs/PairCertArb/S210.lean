import ShipVerif.Proofs.PairCertArb.Defs
namespace ShipVerif.Pair.PairCertArb
open ShipVerif.Pair ShipVerif.Generated
theorem c210 : closedOnX tree PairReachArb.c210 = true := by decide +kernel
end ShipVerif.Pair.PairCertArb
