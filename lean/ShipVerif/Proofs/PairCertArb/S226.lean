import ShipVerif.Proofs.PairCertArb.Defs
namespace ShipVerif.Pair.PairCertArb
open ShipVerif.Pair ShipVerif.Generated
theorem c226 : closedOnX tree PairReachArb.c226 = true := by decide +kernel
end ShipVerif.Pair.PairCertArb
