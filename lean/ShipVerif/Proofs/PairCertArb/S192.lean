import ShipVerif.Proofs.PairCertArb.Defs
namespace ShipVerif.Pair.PairCertArb
open ShipVerif.Pair ShipVerif.Generated
theorem c192 : closedOnX tree PairReachArb.c192 = true := by decide +kernel
end ShipVerif.Pair.PairCertArb
