import ShipVerif.Proofs.PairCertArb.Defs
namespace ShipVerif.Pair.PairCertArb
open ShipVerif.Pair ShipVerif.Generated
theorem c239 : closedOnX tree PairReachArb.c239 = true := by decide +kernel
end ShipVerif.Pair.PairCertArb
