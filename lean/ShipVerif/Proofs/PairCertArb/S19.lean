import ShipVerif.Proofs.PairCertArb.Defs
namespace ShipVerif.Pair.PairCertArb
open ShipVerif.Pair ShipVerif.Generated
theorem c19 : closedOnX tree PairReachArb.c19 = true := by decide +kernel
end ShipVerif.Pair.PairCertArb
