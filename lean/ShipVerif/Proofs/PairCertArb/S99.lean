import ShipVerif.Proofs.PairCertArb.Defs
namespace ShipVerif.Pair.PairCertArb
open ShipVerif.Pair ShipVerif.Generated
theorem c99 : closedOnX tree PairReachArb.c99 = true := by decide +kernel
end ShipVerif.Pair.PairCertArb
