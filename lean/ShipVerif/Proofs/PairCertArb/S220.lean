import ShipVerif.Proofs.PairCertArb.Defs
namespace ShipVerif.Pair.PairCertArb
open ShipVerif.Pair ShipVerif.Generated
theorem c220 : closedOnX tree PairReachArb.c220 = true := by decide +kernel
end ShipVerif.Pair.PairCertArb
