import ShipVerif.Proofs.PairCertArb.Defs
namespace ShipVerif.Pair.PairCertArb
open ShipVerif.Pair ShipVerif.Generated
theorem c235 : closedOnX tree PairReachArb.c235 = true := by decide +kernel
end ShipVerif.Pair.PairCertArb
