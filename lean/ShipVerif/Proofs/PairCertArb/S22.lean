import ShipVerif.Proofs.PairCertArb.Defs
namespace ShipVerif.Pair.PairCertArb
open ShipVerif.Pair ShipVerif.Generated
theorem c22 : closedOnX tree PairReachArb.c22 = true := by decide +kernel
end ShipVerif.Pair.PairCertArb
