import ShipVerif.Proofs.PairCertArb.Defs
namespace ShipVerif.Pair.PairCertArb
open ShipVerif.Pair ShipVerif.Generated
theorem c13 : closedOnX tree PairReachArb.c13 = true := by decide +kernel
end ShipVerif.Pair.PairCertArb
