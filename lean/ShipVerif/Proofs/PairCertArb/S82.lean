import ShipVerif.Proofs.PairCertArb.Defs
namespace ShipVerif.Pair.PairCertArb
open ShipVerif.Pair ShipVerif.Generated
theorem c82 : closedOnX tree PairReachArb.c82 = true := by decide +kernel
end ShipVerif.Pair.PairCertArb
