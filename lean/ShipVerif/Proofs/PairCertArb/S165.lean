import ShipVerif.Proofs.PairCertArb.Defs
namespace ShipVerif.Pair.PairCertArb
open ShipVerif.Pair ShipVerif.Generated
theorem c165 : closedOnX tree PairReachArb.c165 = true := by decide +kernel
end ShipVerif.Pair.PairCertArb
