import ShipVerif.Proofs.PairCertArb.Defs
namespace ShipVerif.Pair.PairCertArb
open ShipVerif.Pair ShipVerif.Generated
theorem c142 : closedOnX tree PairReachArb.c142 = true := by decide +kernel
end ShipVerif.Pair.PairCertArb
