import ShipVerif.Proofs.PairCertArb.Defs
namespace ShipVerif.Pair.PairCertArb
open ShipVerif.Pair ShipVerif.Generated
theorem c208 : closedOnX tree PairReachArb.c208 = true := by decide +kernel
end ShipVerif.Pair.PairCertArb
