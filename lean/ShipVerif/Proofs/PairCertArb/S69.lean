import ShipVerif.Proofs.PairCertArb.Defs
namespace ShipVerif.Pair.PairCertArb
open ShipVerif.Pair ShipVerif.Generated
theorem c69 : closedOnX tree PairReachArb.c69 = true := by decide +kernel
end ShipVerif.Pair.PairCertArb
