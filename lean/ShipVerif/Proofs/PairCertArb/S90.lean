import ShipVerif.Proofs.PairCertArb.Defs
namespace ShipVerif.Pair.PairCertArb
open ShipVerif.Pair ShipVerif.Generated
theorem c90 : closedOnX tree PairReachArb.c90 = true := by decide +kernel
end ShipVerif.Pair.PairCertArb
