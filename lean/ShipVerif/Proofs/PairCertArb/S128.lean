import ShipVerif.Proofs.PairCertArb.Defs
namespace ShipVerif.Pair.PairCertArb
open ShipVerif.Pair ShipVerif.Generated
theorem c128 : closedOnX tree PairReachArb.c128 = true := by decide +kernel
end ShipVerif.Pair.PairCertArb
