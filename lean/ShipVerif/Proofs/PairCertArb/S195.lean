import ShipVerif.Proofs.PairCertArb.Defs
namespace ShipVerif.Pair.PairCertArb
open ShipVerif.Pair ShipVerif.Generated
theorem c195 : closedOnX tree PairReachArb.c195 = true := by decide +kernel
end ShipVerif.Pair.PairCertArb
