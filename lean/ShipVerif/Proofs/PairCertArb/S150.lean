import ShipVerif.Proofs.PairCertArb.Defs
namespace ShipVerif.Pair.PairCertArb
open ShipVerif.Pair ShipVerif.Generated
theorem c150 : closedOnX tree PairReachArb.c150 = true := by decide +kernel
end ShipVerif.Pair.PairCertArb
