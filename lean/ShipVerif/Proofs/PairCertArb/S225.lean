import ShipVerif.Proofs.PairCertArb.Defs
namespace ShipVerif.Pair.PairCertArb
open ShipVerif.Pair ShipVerif.Generated
theorem c225 : closedOnX tree PairReachArb.c225 = true := by decide +kernel
end ShipVerif.Pair.PairCertArb
