import ShipVerif.Proofs.PairCertArb.Defs
namespace ShipVerif.Pair.PairCertArb
open ShipVerif.Pair ShipVerif.Generated
theorem c119 : closedOnX tree PairReachArb.c119 = true := by decide +kernel
end ShipVerif.Pair.PairCertArb
