import ShipVerif.Proofs.PairCertArb.Defs
namespace ShipVerif.Pair.PairCertArb
open ShipVerif.Pair ShipVerif.Generated
theorem c209 : closedOnX tree PairReachArb.c209 = true := by decide +kernel
end ShipVerif.Pair.PairCertArb
