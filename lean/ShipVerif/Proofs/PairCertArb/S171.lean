import ShipVerif.Proofs.PairCertArb.Defs
namespace ShipVerif.Pair.PairCertArb
open ShipVerif.Pair ShipVerif.Generated
theorem c171 : closedOnX tree PairReachArb.c171 = true := by decide +kernel
end ShipVerif.Pair.PairCertArb
