import ShipVerif.Proofs.PairCertArb.Defs
namespace ShipVerif.Pair.PairCertArb
open ShipVerif.Pair ShipVerif.Generated
theorem c54 : closedOnX tree PairReachArb.c54 = true := by decide +kernel
end ShipVerif.Pair.PairCertArb
