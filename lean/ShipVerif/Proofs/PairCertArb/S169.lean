import ShipVerif.Proofs.PairCertArb.Defs
namespace ShipVerif.Pair.PairCertArb
open ShipVerif.Pair ShipVerif.Generated
theorem c169 : closedOnX tree PairReachArb.c169 = true := by decide +kernel
end ShipVerif.Pair.PairCertArb
