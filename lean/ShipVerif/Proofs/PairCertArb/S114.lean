import ShipVerif.Proofs.PairCertArb.Defs
namespace ShipVerif.Pair.PairCertArb
open ShipVerif.Pair ShipVerif.Generated
theorem c114 : closedOnX tree PairReachArb.c114 = true := by decide +kernel
end ShipVerif.Pair.PairCertArb
