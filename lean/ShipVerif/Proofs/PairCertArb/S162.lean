import ShipVerif.Proofs.PairCertArb.Defs
namespace ShipVerif.Pair.PairCertArb
open ShipVerif.Pair ShipVerif.Generated
theorem c162 : closedOnX tree PairReachArb.c162 = true := by decide +kernel
end ShipVerif.Pair.PairCertArb
