import ShipVerif.Proofs.PairCertArb.Defs
namespace ShipVerif.Pair.PairCertArb
open ShipVerif.Pair ShipVerif.Generated
theorem c138 : closedOnX tree PairReachArb.c138 = true := by decide +kernel
end ShipVerif.Pair.PairCertArb
