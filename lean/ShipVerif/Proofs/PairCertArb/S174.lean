import ShipVerif.Proofs.PairCertArb.Defs
namespace ShipVerif.Pair.PairCertArb
open ShipVerif.Pair ShipVerif.Generated
theorem c174 : closedOnX tree PairReachArb.c174 = true := by decide +kernel
end ShipVerif.Pair.PairCertArb
