import ShipVerif.Proofs.PairCertArb.Defs
namespace ShipVerif.Pair.PairCertArb
open ShipVerif.Pair ShipVerif.Generated
theorem c97 : closedOnX tree PairReachArb.c97 = true := by decide +kernel
end ShipVerif.Pair.PairCertArb
