import ShipVerif.Proofs.PairCertArb.Defs
namespace ShipVerif.Pair.PairCertArb
open ShipVerif.Pair ShipVerif.Generated
theorem c245 : closedOnX tree PairReachArb.c245 = true := by decide +kernel
end ShipVerif.Pair.PairCertArb
