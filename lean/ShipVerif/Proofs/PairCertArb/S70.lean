import ShipVerif.Proofs.PairCertArb.Defs
namespace ShipVerif.Pair.PairCertArb
open ShipVerif.Pair ShipVerif.Generated
theorem c70 : closedOnX tree PairReachArb.c70 = true := by decide +kernel
end ShipVerif.Pair.PairCertArb
