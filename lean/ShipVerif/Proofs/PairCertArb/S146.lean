import ShipVerif.Proofs.PairCertArb.Defs
namespace ShipVerif.Pair.PairCertArb
open ShipVerif.Pair ShipVerif.Generated
theorem c146 : closedOnX tree PairReachArb.c146 = true := by decide +kernel
end ShipVerif.Pair.PairCertArb
