import ShipVerif.Proofs.PairCertArb.Defs
namespace ShipVerif.Pair.PairCertArb
open ShipVerif.Pair ShipVerif.Generated
theorem c129 : closedOnX tree PairReachArb.c129 = true := by decide +kernel
end ShipVerif.Pair.PairCertArb
