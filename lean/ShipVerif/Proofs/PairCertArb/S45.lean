import ShipVerif.Proofs.PairCertArb.Defs
namespace ShipVerif.Pair.PairCertArb
open ShipVerif.Pair ShipVerif.Generated
theorem c45 : closedOnX tree PairReachArb.c45 = true := by decide +kernel
end ShipVerif.Pair.PairCertArb
