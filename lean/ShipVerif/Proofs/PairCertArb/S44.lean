import ShipVerif.Proofs.PairCertArb.Defs
namespace ShipVerif.Pair.PairCertArb
open ShipVerif.Pair ShipVerif.Generated
theorem c44 : closedOnX tree PairReachArb.c44 = true := by decide +kernel
end ShipVerif.Pair.PairCertArb
