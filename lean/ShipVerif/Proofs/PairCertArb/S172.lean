import ShipVerif.Proofs.PairCertArb.Defs
namespace ShipVerif.Pair.PairCertArb
open ShipVerif.Pair ShipVerif.Generated
theorem c172 : closedOnX tree PairReachArb.c172 = true := by decide +kernel
end ShipVerif.Pair.PairCertArb
