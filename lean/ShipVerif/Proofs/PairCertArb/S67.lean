import ShipVerif.Proofs.PairCertArb.Defs
namespace ShipVerif.Pair.PairCertArb
open ShipVerif.Pair ShipVerif.Generated
theorem c67 : closedOnX tree PairReachArb.c67 = true := by decide +kernel
end ShipVerif.Pair.PairCertArb
