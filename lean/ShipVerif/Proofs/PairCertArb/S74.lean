import ShipVerif.Proofs.PairCertArb.Defs
namespace ShipVerif.Pair.PairCertArb
open ShipVerif.Pair ShipVerif.Generated
theorem c74 : closedOnX tree PairReachArb.c74 = true := by decide +kernel
end ShipVerif.Pair.PairCertArb
