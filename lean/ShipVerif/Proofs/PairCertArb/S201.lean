import ShipVerif.Proofs.PairCertArb.Defs
namespace ShipVerif.Pair.PairCertArb
open ShipVerif.Pair ShipVerif.Generated
theorem c201 : closedOnX tree PairReachArb.c201 = true := by decide +kernel
end ShipVerif.Pair.PairCertArb
