import ShipVerif.Proofs.PairCertArb.Defs
namespace ShipVerif.Pair.PairCertArb
open ShipVerif.Pair ShipVerif.Generated
theorem c124 : closedOnX tree PairReachArb.c124 = true := by decide +kernel
end ShipVerif.Pair.PairCertArb
