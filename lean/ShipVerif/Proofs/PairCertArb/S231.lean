import ShipVerif.Proofs.PairCertArb.Defs
namespace ShipVerif.Pair.PairCertArb
open ShipVerif.Pair ShipVerif.Generated
theorem c231 : closedOnX tree PairReachArb.c231 = true := by decide +kernel
end ShipVerif.Pair.PairCertArb
