import ShipVerif.Proofs.PairCertArb.Defs
namespace ShipVerif.Pair.PairCertArb
open ShipVerif.Pair ShipVerif.Generated
theorem c94 : closedOnX tree PairReachArb.c94 = true := by decide +kernel
end ShipVerif.Pair.PairCertArb
