import ShipVerif.Proofs.PairCertArb.Defs
namespace ShipVerif.Pair.PairCertArb
open ShipVerif.Pair ShipVerif.Generated
theorem c102 : closedOnX tree PairReachArb.c102 = true := by decide +kernel
end ShipVerif.Pair.PairCertArb
