import ShipVerif.Proofs.PairCertArb.Defs
namespace ShipVerif.Pair.PairCertArb
open ShipVerif.Pair ShipVerif.Generated
theorem c148 : closedOnX tree PairReachArb.c148 = true := by decide +kernel
end ShipVerif.Pair.PairCertArb
