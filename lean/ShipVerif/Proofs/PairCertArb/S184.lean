import ShipVerif.Proofs.PairCertArb.Defs
namespace ShipVerif.Pair.PairCertArb
open ShipVerif.Pair ShipVerif.Generated
theorem c184 : closedOnX tree PairReachArb.c184 = true := by decide +kernel
end ShipVerif.Pair.PairCertArb
