import ShipVerif.Proofs.PairCertArb.Defs
namespace ShipVerif.Pair.PairCertArb
open ShipVerif.Pair ShipVerif.Generated
theorem c20 : closedOnX tree PairReachArb.c20 = true := by decide +kernel
end ShipVerif.Pair.PairCertArb
