import ShipVerif.Proofs.PairCertArb.Defs
namespace ShipVerif.Pair.PairCertArb
open ShipVerif.Pair ShipVerif.Generated
theorem c167 : closedOnX tree PairReachArb.c167 = true := by decide +kernel
end ShipVerif.Pair.PairCertArb
