import ShipVerif.Proofs.PairCertArb.Defs
namespace ShipVerif.Pair.PairCertArb
open ShipVerif.Pair ShipVerif.Generated
theorem c175 : closedOnX tree PairReachArb.c175 = true := by decide +kernel
end ShipVerif.Pair.PairCertArb
