import ShipVerif.Proofs.PairCertArb.Defs
namespace ShipVerif.Pair.PairCertArb
open ShipVerif.Pair ShipVerif.Generated
theorem c103 : closedOnX tree PairReachArb.c103 = true := by decide +kernel
end ShipVerif.Pair.PairCertArb
