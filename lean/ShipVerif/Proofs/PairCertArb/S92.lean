import ShipVerif.Proofs.PairCertArb.Defs
namespace ShipVerif.Pair.PairCertArb
open ShipVerif.Pair ShipVerif.Generated
theorem c92 : closedOnX tree PairReachArb.c92 = true := by decide +kernel
end ShipVerif.Pair.PairCertArb
