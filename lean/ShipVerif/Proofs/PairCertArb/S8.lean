import ShipVerif.Proofs.PairCertArb.Defs
namespace ShipVerif.Pair.PairCertArb
open ShipVerif.Pair ShipVerif.Generated
theorem c8 : closedOnX tree PairReachArb.c8 = true := by decide +kernel
end ShipVerif.Pair.PairCertArb
