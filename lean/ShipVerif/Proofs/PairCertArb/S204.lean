import ShipVerif.Proofs.PairCertArb.Defs
namespace ShipVerif.Pair.PairCertArb
open ShipVerif.Pair ShipVerif.Generated
theorem c204 : closedOnX tree PairReachArb.c204 = true := by decide +kernel
end ShipVerif.Pair.PairCertArb
