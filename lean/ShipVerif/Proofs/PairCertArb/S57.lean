import ShipVerif.Proofs.PairCertArb.Defs
namespace ShipVerif.Pair.PairCertArb
open ShipVerif.Pair ShipVerif.Generated
theorem c57 : closedOnX tree PairReachArb.c57 = true := by decide +kernel
end ShipVerif.Pair.PairCertArb
