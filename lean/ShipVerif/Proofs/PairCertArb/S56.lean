import ShipVerif.Proofs.PairCertArb.Defs
namespace ShipVerif.Pair.PairCertArb
open ShipVerif.Pair ShipVerif.Generated
theorem c56 : closedOnX tree PairReachArb.c56 = true := by decide +kernel
end ShipVerif.Pair.PairCertArb
