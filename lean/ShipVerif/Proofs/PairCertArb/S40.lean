import ShipVerif.Proofs.PairCertArb.Defs
namespace ShipVerif.Pair.PairCertArb
open ShipVerif.Pair ShipVerif.Generated
theorem c40 : closedOnX tree PairReachArb.c40 = true := by decide +kernel
end ShipVerif.Pair.PairCertArb
