import ShipVerif.Proofs.PairCertArb.Defs
namespace ShipVerif.Pair.PairCertArb
open ShipVerif.Pair ShipVerif.Generated
theorem c224 : closedOnX tree PairReachArb.c224 = true := by decide +kernel
end ShipVerif.Pair.PairCertArb
