import ShipVerif.Proofs.PairCertArb.Defs
namespace ShipVerif.Pair.PairCertArb
open ShipVerif.Pair ShipVerif.Generated
theorem c246 : closedOnX tree PairReachArb.c246 = true := by decide +kernel
end ShipVerif.Pair.PairCertArb
