import ShipVerif.Proofs.PairCertArb.Defs
namespace ShipVerif.Pair.PairCertArb
open ShipVerif.Pair ShipVerif.Generated
theorem c133 : closedOnX tree PairReachArb.c133 = true := by decide +kernel
end ShipVerif.Pair.PairCertArb
