import ShipVerif.Proofs.PairCertArb.Defs
namespace ShipVerif.Pair.PairCertArb
open ShipVerif.Pair ShipVerif.Generated
theorem c218 : closedOnX tree PairReachArb.c218 = true := by decide +kernel
end ShipVerif.Pair.PairCertArb
