import ShipVerif.Proofs.PairCertArb.Defs
namespace ShipVerif.Pair.PairCertArb
open ShipVerif.Pair ShipVerif.Generated
theorem c76 : closedOnX tree PairReachArb.c76 = true := by decide +kernel
end ShipVerif.Pair.PairCertArb
