import ShipVerif.Proofs.PairCertArb.Defs
namespace ShipVerif.Pair.PairCertArb
open ShipVerif.Pair ShipVerif.Generated
theorem c247 : closedOnX tree PairReachArb.c247 = true := by decide +kernel
end ShipVerif.Pair.PairCertArb
