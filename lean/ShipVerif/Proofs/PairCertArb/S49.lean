import ShipVerif.Proofs.PairCertArb.Defs
namespace ShipVerif.Pair.PairCertArb
open ShipVerif.Pair ShipVerif.Generated
theorem c49 : closedOnX tree PairReachArb.c49 = true := by decide +kernel
end ShipVerif.Pair.PairCertArb
