import ShipVerif.Proofs.PairCertArb.Defs
namespace ShipVerif.Pair.PairCertArb
open ShipVerif.Pair ShipVerif.Generated
theorem c155 : closedOnX tree PairReachArb.c155 = true := by decide +kernel
end ShipVerif.Pair.PairCertArb
