import ShipVerif.Proofs.PairCertArb.Defs
namespace ShipVerif.Pair.PairCertArb
open ShipVerif.Pair ShipVerif.Generated
theorem c50 : closedOnX tree PairReachArb.c50 = true := by decide +kernel
end ShipVerif.Pair.PairCertArb
