import ShipVerif.Proofs.PairCertArb.Defs
namespace ShipVerif.Pair.PairCertArb
open ShipVerif.Pair ShipVerif.Generated
theorem c244 : closedOnX tree PairReachArb.c244 = true := by decide +kernel
end ShipVerif.Pair.PairCertArb
