import ShipVerif.Proofs.PairCertArb.Defs
namespace ShipVerif.Pair.PairCertArb
open ShipVerif.Pair ShipVerif.Generated
theorem c65 : closedOnX tree PairReachArb.c65 = true := by decide +kernel
end ShipVerif.Pair.PairCertArb
