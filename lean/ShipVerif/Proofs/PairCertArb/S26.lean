import ShipVerif.Proofs.PairCertArb.Defs
namespace ShipVerif.Pair.PairCertArb
open ShipVerif.Pair ShipVerif.Generated
theorem c26 : closedOnX tree PairReachArb.c26 = true := by decide +kernel
end ShipVerif.Pair.PairCertArb
