import ShipVerif.Proofs.PairCertArb.Defs
namespace ShipVerif.Pair.PairCertArb
open ShipVerif.Pair ShipVerif.Generated
theorem c73 : closedOnX tree PairReachArb.c73 = true := by decide +kernel
end ShipVerif.Pair.PairCertArb
