import ShipVerif.Proofs.PairCertArb.Defs
namespace ShipVerif.Pair.PairCertArb
open ShipVerif.Pair ShipVerif.Generated
theorem c213 : closedOnX tree PairReachArb.c213 = true := by decide +kernel
end ShipVerif.Pair.PairCertArb
