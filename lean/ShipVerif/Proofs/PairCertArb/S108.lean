import ShipVerif.Proofs.PairCertArb.Defs
namespace ShipVerif.Pair.PairCertArb
open ShipVerif.Pair ShipVerif.Generated
theorem c108 : closedOnX tree PairReachArb.c108 = true := by decide +kernel
end ShipVerif.Pair.PairCertArb
