import ShipVerif.Proofs.PairCertArb.Defs
namespace ShipVerif.Pair.PairCertArb
open ShipVerif.Pair ShipVerif.Generated
theorem c136 : closedOnX tree PairReachArb.c136 = true := by decide +kernel
end ShipVerif.Pair.PairCertArb
