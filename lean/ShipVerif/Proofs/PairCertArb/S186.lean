import ShipVerif.Proofs.PairCertArb.Defs
namespace ShipVerif.Pair.PairCertArb
open ShipVerif.Pair ShipVerif.Generated
theorem c186 : closedOnX tree PairReachArb.c186 = true := by decide +kernel
end ShipVerif.Pair.PairCertArb
