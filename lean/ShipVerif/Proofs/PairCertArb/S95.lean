import ShipVerif.Proofs.PairCertArb.Defs
namespace ShipVerif.Pair.PairCertArb
open ShipVerif.Pair ShipVerif.Generated
theorem c95 : closedOnX tree PairReachArb.c95 = true := by decide +kernel
end ShipVerif.Pair.PairCertArb
