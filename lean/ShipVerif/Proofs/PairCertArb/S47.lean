import ShipVerif.Proofs.PairCertArb.Defs
namespace ShipVerif.Pair.PairCertArb
open ShipVerif.Pair ShipVerif.Generated
theorem c47 : closedOnX tree PairReachArb.c47 = true := by decide +kernel
end ShipVerif.Pair.PairCertArb
