import ShipVerif.Proofs.PairCertArb.Defs
namespace ShipVerif.Pair.PairCertArb
open ShipVerif.Pair ShipVerif.Generated
theorem c81 : closedOnX tree PairReachArb.c81 = true := by decide +kernel
end ShipVerif.Pair.PairCertArb
