import ShipVerif.Proofs.PairCertArb.Defs
namespace ShipVerif.Pair.PairCertArb
open ShipVerif.Pair ShipVerif.Generated
theorem c109 : closedOnX tree PairReachArb.c109 = true := by decide +kernel
end ShipVerif.Pair.PairCertArb
