import ShipVerif.Proofs.PairCertArb.Defs
namespace ShipVerif.Pair.PairCertArb
open ShipVerif.Pair ShipVerif.Generated
theorem c46 : closedOnX tree PairReachArb.c46 = true := by decide +kernel
end ShipVerif.Pair.PairCertArb
