import ShipVerif.Proofs.PairCertArb.Defs
namespace ShipVerif.Pair.PairCertArb
open ShipVerif.Pair ShipVerif.Generated
theorem c52 : closedOnX tree PairReachArb.c52 = true := by decide +kernel
end ShipVerif.Pair.PairCertArb
