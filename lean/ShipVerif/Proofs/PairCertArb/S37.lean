import ShipVerif.Proofs.PairCertArb.Defs
namespace ShipVerif.Pair.PairCertArb
open ShipVerif.Pair ShipVerif.Generated
theorem c37 : closedOnX tree PairReachArb.c37 = true := by decide +kernel
end ShipVerif.Pair.PairCertArb
