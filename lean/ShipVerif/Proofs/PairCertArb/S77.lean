import ShipVerif.Proofs.PairCertArb.Defs
namespace ShipVerif.Pair.PairCertArb
open ShipVerif.Pair ShipVerif.Generated
theorem c77 : closedOnX tree PairReachArb.c77 = true := by decide +kernel
end ShipVerif.Pair.PairCertArb
