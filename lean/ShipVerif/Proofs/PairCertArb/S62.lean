import ShipVerif.Proofs.PairCertArb.Defs
namespace ShipVerif.Pair.PairCertArb
open ShipVerif.Pair ShipVerif.Generated
theorem c62 : closedOnX tree PairReachArb.c62 = true := by decide +kernel
end ShipVerif.Pair.PairCertArb
