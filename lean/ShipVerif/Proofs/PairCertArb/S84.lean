import ShipVerif.Proofs.PairCertArb.Defs
namespace ShipVerif.Pair.PairCertArb
open ShipVerif.Pair ShipVerif.Generated
theorem c84 : closedOnX tree PairReachArb.c84 = true := by decide +kernel
end ShipVerif.Pair.PairCertArb
