import ShipVerif.Proofs.PairCertArb.Defs
namespace ShipVerif.Pair.PairCertArb
open ShipVerif.Pair ShipVerif.Generated
theorem c39 : closedOnX tree PairReachArb.c39 = true := by decide +kernel
end ShipVerif.Pair.PairCertArb
