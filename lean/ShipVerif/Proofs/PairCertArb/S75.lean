import ShipVerif.Proofs.PairCertArb.Defs
namespace ShipVerif.Pair.PairCertArb
open ShipVerif.Pair ShipVerif.Generated
theorem c75 : closedOnX tree PairReachArb.c75 = true := by decide +kernel
end ShipVerif.Pair.PairCertArb
