import ShipVerif.Proofs.PairCertArb.Defs
namespace ShipVerif.Pair.PairCertArb
open ShipVerif.Pair ShipVerif.Generated
theorem c117 : closedOnX tree PairReachArb.c117 = true := by decide +kernel
end ShipVerif.Pair.PairCertArb
