import ShipVerif.Proofs.PairCertArb.Defs
namespace ShipVerif.Pair.PairCertArb
open ShipVerif.Pair ShipVerif.Generated
theorem c43 : closedOnX tree PairReachArb.c43 = true := by decide +kernel
end ShipVerif.Pair.PairCertArb
