import ShipVerif.Proofs.PairCertArb.Defs
namespace ShipVerif.Pair.PairCertArb
open ShipVerif.Pair ShipVerif.Generated
theorem c212 : closedOnX tree PairReachArb.c212 = true := by decide +kernel
end ShipVerif.Pair.PairCertArb
