import ShipVerif.Proofs.PairCertArb.Defs
namespace ShipVerif.Pair.PairCertArb
open ShipVerif.Pair ShipVerif.Generated
theorem c156 : closedOnX tree PairReachArb.c156 = true := by decide +kernel
end ShipVerif.Pair.PairCertArb
