import ShipVerif.Proofs.PairCertArb.Defs
namespace ShipVerif.Pair.PairCertArb
open ShipVerif.Pair ShipVerif.Generated
theorem c163 : closedOnX tree PairReachArb.c163 = true := by decide +kernel
end ShipVerif.Pair.PairCertArb
