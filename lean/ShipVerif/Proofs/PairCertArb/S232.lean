import ShipVerif.Proofs.PairCertArb.Defs
namespace ShipVerif.Pair.PairCertArb
open ShipVerif.Pair ShipVerif.Generated
theorem c232 : closedOnX tree PairReachArb.c232 = true := by decide +kernel
end ShipVerif.Pair.PairCertArb
