import ShipVerif.Proofs.PairCertArb.Defs
namespace ShipVerif.Pair.PairCertArb
open ShipVerif.Pair ShipVerif.Generated
theorem c64 : closedOnX tree PairReachArb.c64 = true := by decide +kernel
end ShipVerif.Pair.PairCertArb
