import ShipVerif.Proofs.PairCertArb.Defs
namespace ShipVerif.Pair.PairCertArb
open ShipVerif.Pair ShipVerif.Generated
theorem c61 : closedOnX tree PairReachArb.c61 = true := by decide +kernel
end ShipVerif.Pair.PairCertArb
