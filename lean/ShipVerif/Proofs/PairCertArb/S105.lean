import ShipVerif.Proofs.PairCertArb.Defs
namespace ShipVerif.Pair.PairCertArb
open ShipVerif.Pair ShipVerif.Generated
theorem c105 : closedOnX tree PairReachArb.c105 = true := by decide +kernel
end ShipVerif.Pair.PairCertArb
