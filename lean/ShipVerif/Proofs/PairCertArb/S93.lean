import ShipVerif.Proofs.PairCertArb.Defs
namespace ShipVerif.Pair.PairCertArb
open ShipVerif.Pair ShipVerif.Generated
theorem c93 : closedOnX tree PairReachArb.c93 = true := by decide +kernel
end ShipVerif.Pair.PairCertArb
