import ShipVerif.Proofs.PairCertArb.Defs
namespace ShipVerif.Pair.PairCertArb
open ShipVerif.Pair ShipVerif.Generated
theorem c229 : closedOnX tree PairReachArb.c229 = true := by decide +kernel
end ShipVerif.Pair.PairCertArb
