import ShipVerif.Proofs.PairCertArb.Defs
namespace ShipVerif.Pair.PairCertArb
open ShipVerif.Pair ShipVerif.Generated
theorem c216 : closedOnX tree PairReachArb.c216 = true := by decide +kernel
end ShipVerif.Pair.PairCertArb
