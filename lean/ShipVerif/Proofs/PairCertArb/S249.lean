import ShipVerif.Proofs.PairCertArb.Defs
namespace ShipVerif.Pair.PairCertArb
open ShipVerif.Pair ShipVerif.Generated
theorem c249 : closedOnX tree PairReachArb.c249 = true := by decide +kernel
end ShipVerif.Pair.PairCertArb
