import ShipVerif.Proofs.PairCertArb.Defs
namespace ShipVerif.Pair.PairCertArb
open ShipVerif.Pair ShipVerif.Generated
theorem c134 : closedOnX tree PairReachArb.c134 = true := by decide +kernel
end ShipVerif.Pair.PairCertArb
