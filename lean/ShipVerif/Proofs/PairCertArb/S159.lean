import ShipVerif.Proofs.PairCertArb.Defs
namespace ShipVerif.Pair.PairCertArb
open ShipVerif.Pair ShipVerif.Generated
theorem c159 : closedOnX tree PairReachArb.c159 = true := by decide +kernel
end ShipVerif.Pair.PairCertArb
