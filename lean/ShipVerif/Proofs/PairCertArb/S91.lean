import ShipVerif.Proofs.PairCertArb.Defs
namespace ShipVerif.Pair.PairCertArb
open ShipVerif.Pair ShipVerif.Generated
theorem c91 : closedOnX tree PairReachArb.c91 = true := by decide +kernel
end ShipVerif.Pair.PairCertArb
