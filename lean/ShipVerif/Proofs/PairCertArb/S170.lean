import ShipVerif.Proofs.PairCertArb.Defs
namespace ShipVerif.Pair.PairCertArb
open ShipVerif.Pair ShipVerif.Generated
theorem c170 : closedOnX tree PairReachArb.c170 = true := by decide +kernel
end ShipVerif.Pair.PairCertArb
