import ShipVerif.Proofs.PairCertArb.Defs
namespace ShipVerif.Pair.PairCertArb
open ShipVerif.Pair ShipVerif.Generated
theorem c126 : closedOnX tree PairReachArb.c126 = true := by decide +kernel
end ShipVerif.Pair.PairCertArb
