import ShipVerif.Proofs.PairCertArb.Defs
namespace ShipVerif.Pair.PairCertArb
open ShipVerif.Pair ShipVerif.Generated
theorem c113 : closedOnX tree PairReachArb.c113 = true := by decide +kernel
end ShipVerif.Pair.PairCertArb
