import ShipVerif.Proofs.PairCertArb.Defs
namespace ShipVerif.Pair.PairCertArb
open ShipVerif.Pair ShipVerif.Generated
theorem c53 : closedOnX tree PairReachArb.c53 = true := by decide +kernel
end ShipVerif.Pair.PairCertArb
