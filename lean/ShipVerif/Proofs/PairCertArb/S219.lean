import ShipVerif.Proofs.PairCertArb.Defs
namespace ShipVerif.Pair.PairCertArb
open ShipVerif.Pair ShipVerif.Generated
theorem c219 : closedOnX tree PairReachArb.c219 = true := by decide +kernel
end ShipVerif.Pair.PairCertArb
