import ShipVerif.Proofs.PairCertArb.Defs
namespace ShipVerif.Pair.PairCertArb
open ShipVerif.Pair ShipVerif.Generated
theorem c116 : closedOnX tree PairReachArb.c116 = true := by decide +kernel
end ShipVerif.Pair.PairCertArb
