import ShipVerif.Proofs.PairCertArb.Defs
namespace ShipVerif.Pair.PairCertArb
open ShipVerif.Pair ShipVerif.Generated
theorem c230 : closedOnX tree PairReachArb.c230 = true := by decide +kernel
end ShipVerif.Pair.PairCertArb
