import ShipVerif.Proofs.PairCertArb.Defs
namespace ShipVerif.Pair.PairCertArb
open ShipVerif.Pair ShipVerif.Generated
theorem keys_ok : PairReachArb.innerKeys.all (certBodyX tree) = true := by decide +kernel
theorem inits_ok : initsOk tree budgets = true := by decide +kernel
end ShipVerif.Pair.PairCertArb
