import ShipVerif.Proofs.PairCertArb.Defs
namespace ShipVerif.Pair.PairCertArb
open ShipVerif.Pair ShipVerif.Generated
theorem c183 : closedOnX tree PairReachArb.c183 = true := by decide +kernel
end ShipVerif.Pair.PairCertArb
