import ShipVerif.Proofs.PairCertArb.Defs
namespace ShipVerif.Pair.PairCertArb
open ShipVerif.Pair ShipVerif.Generated
theorem c166 : closedOnX tree PairReachArb.c166 = true := by decide +kernel
end ShipVerif.Pair.PairCertArb
