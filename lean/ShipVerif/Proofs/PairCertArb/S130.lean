import ShipVerif.Proofs.PairCertArb.Defs
namespace ShipVerif.Pair.PairCertArb
open ShipVerif.Pair ShipVerif.Generated
theorem c130 : closedOnX tree PairReachArb.c130 = true := by decide +kernel
end ShipVerif.Pair.PairCertArb
