import ShipVerif.Proofs.PairCertArb.Defs
namespace ShipVerif.Pair.PairCertArb
open ShipVerif.Pair ShipVerif.Generated
theorem c98 : closedOnX tree PairReachArb.c98 = true := by decide +kernel
end ShipVerif.Pair.PairCertArb
