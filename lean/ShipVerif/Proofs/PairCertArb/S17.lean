import ShipVerif.Proofs.PairCertArb.Defs
namespace ShipVerif.Pair.PairCertArb
open ShipVerif.Pair ShipVerif.Generated
theorem c17 : closedOnX tree PairReachArb.c17 = true := by decide +kernel
end ShipVerif.Pair.PairCertArb
