import ShipVerif.Proofs.PairCertArb.Defs
namespace ShipVerif.Pair.PairCertArb
open ShipVerif.Pair ShipVerif.Generated
theorem c48 : closedOnX tree PairReachArb.c48 = true := by decide +kernel
end ShipVerif.Pair.PairCertArb
