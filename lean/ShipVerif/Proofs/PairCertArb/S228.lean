import ShipVerif.Proofs.PairCertArb.Defs
namespace ShipVerif.Pair.PairCertArb
open ShipVerif.Pair ShipVerif.Generated
theorem c228 : closedOnX tree PairReachArb.c228 = true := by decide +kernel
end ShipVerif.Pair.PairCertArb
