import ShipVerif.Proofs.PairCertArb.Defs
namespace ShipVerif.Pair.PairCertArb
open ShipVerif.Pair ShipVerif.Generated
theorem c177 : closedOnX tree PairReachArb.c177 = true := by decide +kernel
end ShipVerif.Pair.PairCertArb
