import ShipVerif.Proofs.PairCertArb.Defs
namespace ShipVerif.Pair.PairCertArb
open ShipVerif.Pair ShipVerif.Generated
theorem c176 : closedOnX tree PairReachArb.c176 = true := by decide +kernel
end ShipVerif.Pair.PairCertArb
