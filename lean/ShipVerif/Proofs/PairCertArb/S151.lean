import ShipVerif.Proofs.PairCertArb.Defs
namespace ShipVerif.Pair.PairCertArb
open ShipVerif.Pair ShipVerif.Generated
theorem c151 : closedOnX tree PairReachArb.c151 = true := by decide +kernel
end ShipVerif.Pair.PairCertArb
