import ShipVerif.Proofs.PairCertArb.Defs
namespace ShipVerif.Pair.PairCertArb
open ShipVerif.Pair ShipVerif.Generated
theorem c160 : closedOnX tree PairReachArb.c160 = true := by decide +kernel
end ShipVerif.Pair.PairCertArb
