import ShipVerif.Proofs.PairCertArb.Defs
namespace ShipVerif.Pair.PairCertArb
open ShipVerif.Pair ShipVerif.Generated
theorem c115 : closedOnX tree PairReachArb.c115 = true := by decide +kernel
end ShipVerif.Pair.PairCertArb
