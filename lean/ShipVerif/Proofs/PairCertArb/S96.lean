import ShipVerif.Proofs.PairCertArb.Defs
namespace ShipVerif.Pair.PairCertArb
open ShipVerif.Pair ShipVerif.Generated
theorem c96 : closedOnX tree PairReachArb.c96 = true := by decide +kernel
end ShipVerif.Pair.PairCertArb
