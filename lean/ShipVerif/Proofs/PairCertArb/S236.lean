import ShipVerif.Proofs.PairCertArb.Defs
namespace ShipVerif.Pair.PairCertArb
open ShipVerif.Pair ShipVerif.Generated
theorem c236 : closedOnX tree PairReachArb.c236 = true := by decide +kernel
end ShipVerif.Pair.PairCertArb
