import ShipVerif.Proofs.PairCertArb.Defs
namespace ShipVerif.Pair.PairCertArb
open ShipVerif.Pair ShipVerif.Generated
theorem c104 : closedOnX tree PairReachArb.c104 = true := by decide +kernel
end ShipVerif.Pair.PairCertArb
