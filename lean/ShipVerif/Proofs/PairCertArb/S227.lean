import ShipVerif.Proofs.PairCertArb.Defs
namespace ShipVerif.Pair.PairCertArb
open ShipVerif.Pair ShipVerif.Generated
theorem c227 : closedOnX tree PairReachArb.c227 = true := by decide +kernel
end ShipVerif.Pair.PairCertArb
