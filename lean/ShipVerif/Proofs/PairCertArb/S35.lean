import ShipVerif.Proofs.PairCertArb.Defs
namespace ShipVerif.Pair.PairCertArb
open ShipVerif.Pair ShipVerif.Generated
theorem c35 : closedOnX tree PairReachArb.c35 = true := by decide +kernel
end ShipVerif.Pair.PairCertArb
