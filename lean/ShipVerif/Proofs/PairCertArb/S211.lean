import ShipVerif.Proofs.PairCertArb.Defs
namespace ShipVerif.Pair.PairCertArb
open ShipVerif.Pair ShipVerif.Generated
theorem c211 : closedOnX tree PairReachArb.c211 = true := by decide +kernel
end ShipVerif.Pair.PairCertArb
