import ShipVerif.Proofs.PairCertArb.Defs
namespace ShipVerif.Pair.PairCertArb
open ShipVerif.Pair ShipVerif.Generated
theorem c68 : closedOnX tree PairReachArb.c68 = true := by decide +kernel
end ShipVerif.Pair.PairCertArb
