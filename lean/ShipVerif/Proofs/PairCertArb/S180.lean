import ShipVerif.Proofs.PairCertArb.Defs
namespace ShipVerif.Pair.PairCertArb
open ShipVerif.Pair ShipVerif.Generated
theorem c180 : closedOnX tree PairReachArb.c180 = true := by decide +kernel
end ShipVerif.Pair.PairCertArb
