import ShipVerif.Proofs.PairCertArb.Defs
namespace ShipVerif.Pair.PairCertArb
open ShipVerif.Pair ShipVerif.Generated
theorem c137 : closedOnX tree PairReachArb.c137 = true := by decide +kernel
end ShipVerif.Pair.PairCertArb
