import ShipVerif.Proofs.PairCertArb.Defs
namespace ShipVerif.Pair.PairCertArb
open ShipVerif.Pair ShipVerif.Generated
theorem c125 : closedOnX tree PairReachArb.c125 = true := by decide +kernel
end ShipVerif.Pair.PairCertArb
