import ShipVerif.Proofs.PairCertArb.Defs
namespace ShipVerif.Pair.PairCertArb
open ShipVerif.Pair ShipVerif.Generated
theorem c154 : closedOnX tree PairReachArb.c154 = true := by decide +kernel
end ShipVerif.Pair.PairCertArb
