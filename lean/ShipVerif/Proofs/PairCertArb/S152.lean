import ShipVerif.Proofs.PairCertArb.Defs
namespace ShipVerif.Pair.PairCertArb
open ShipVerif.Pair ShipVerif.Generated
theorem c152 : closedOnX tree PairReachArb.c152 = true := by decide +kernel
end ShipVerif.Pair.PairCertArb
