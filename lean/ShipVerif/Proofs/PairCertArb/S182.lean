import ShipVerif.Proofs.PairCertArb.Defs
namespace ShipVerif.Pair.PairCertArb
open ShipVerif.Pair ShipVerif.Generated
theorem c182 : closedOnX tree PairReachArb.c182 = true := by decide +kernel
end ShipVerif.Pair.PairCertArb
