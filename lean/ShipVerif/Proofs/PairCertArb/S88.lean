import ShipVerif.Proofs.PairCertArb.Defs
namespace ShipVerif.Pair.PairCertArb
open ShipVerif.Pair ShipVerif.Generated
theorem c88 : closedOnX tree PairReachArb.c88 = true := by decide +kernel
end ShipVerif.Pair.PairCertArb
