import ShipVerif.Proofs.PairCertArb.Defs
namespace ShipVerif.Pair.PairCertArb
open ShipVerif.Pair ShipVerif.Generated
theorem c80 : closedOnX tree PairReachArb.c80 = true := by decide +kernel
end ShipVerif.Pair.PairCertArb
