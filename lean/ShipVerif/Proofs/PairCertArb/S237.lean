import ShipVerif.Proofs.PairCertArb.Defs
namespace ShipVerif.Pair.PairCertArb
open ShipVerif.Pair ShipVerif.Generated
theorem c237 : closedOnX tree PairReachArb.c237 = true := by decide +kernel
end ShipVerif.Pair.PairCertArb
