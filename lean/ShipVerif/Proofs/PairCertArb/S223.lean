import ShipVerif.Proofs.PairCertArb.Defs
namespace ShipVerif.Pair.PairCertArb
open ShipVerif.Pair ShipVerif.Generated
theorem c223 : closedOnX tree PairReachArb.c223 = true := by decide +kernel
end ShipVerif.Pair.PairCertArb
