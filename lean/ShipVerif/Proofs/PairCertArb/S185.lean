import ShipVerif.Proofs.PairCertArb.Defs
namespace ShipVerif.Pair.PairCertArb
open ShipVerif.Pair ShipVerif.Generated
theorem c185 : closedOnX tree PairReachArb.c185 = true := by decide +kernel
end ShipVerif.Pair.PairCertArb
