import ShipVerif.Proofs.PairCertArb.Defs
namespace ShipVerif.Pair.PairCertArb
open ShipVerif.Pair ShipVerif.Generated
theorem c15 : closedOnX tree PairReachArb.c15 = true := by decide +kernel
end ShipVerif.Pair.PairCertArb
