import ShipVerif.Proofs.PairCertArb.Defs
namespace ShipVerif.Pair.PairCertArb
open ShipVerif.Pair ShipVerif.Generated
theorem c189 : closedOnX tree PairReachArb.c189 = true := by decide +kernel
end ShipVerif.Pair.PairCertArb
