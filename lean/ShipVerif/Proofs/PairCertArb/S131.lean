import ShipVerif.Proofs.PairCertArb.Defs
namespace ShipVerif.Pair.PairCertArb
open ShipVerif.Pair ShipVerif.Generated
theorem c131 : closedOnX tree PairReachArb.c131 = true := by decide +kernel
end ShipVerif.Pair.PairCertArb
