import ShipVerif.Proofs.PairCertArb.Defs
namespace ShipVerif.Pair.PairCertArb
open ShipVerif.Pair ShipVerif.Generated
theorem c254 : closedOnX tree PairReachArb.c254 = true := by decide +kernel
end ShipVerif.Pair.PairCertArb
