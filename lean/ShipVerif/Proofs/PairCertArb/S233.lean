import ShipVerif.Proofs.PairCertArb.Defs
namespace ShipVerif.Pair.PairCertArb
open ShipVerif.Pair ShipVerif.Generated
theorem c233 : closedOnX tree PairReachArb.c233 = true := by decide +kernel
end ShipVerif.Pair.PairCertArb
