import ShipVerif.Proofs.PairCertArb.Defs
namespace ShipVerif.Pair.PairCertArb
open ShipVerif.Pair ShipVerif.Generated
theorem c190 : closedOnX tree PairReachArb.c190 = true := by decide +kernel
end ShipVerif.Pair.PairCertArb
