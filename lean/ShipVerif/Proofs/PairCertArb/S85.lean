import ShipVerif.Proofs.PairCertArb.Defs
namespace ShipVerif.Pair.PairCertArb
open ShipVerif.Pair ShipVerif.Generated
theorem c85 : closedOnX tree PairReachArb.c85 = true := by decide +kernel
end ShipVerif.Pair.PairCertArb
