import ShipVerif.Proofs.PairCertArb.Defs
namespace ShipVerif.Pair.PairCertArb
open ShipVerif.Pair ShipVerif.Generated
theorem c132 : closedOnX tree PairReachArb.c132 = true := by decide +kernel
end ShipVerif.Pair.PairCertArb
