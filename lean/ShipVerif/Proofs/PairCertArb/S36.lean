import ShipVerif.Proofs.PairCertArb.Defs
namespace ShipVerif.Pair.PairCertArb
open ShipVerif.Pair ShipVerif.Generated
theorem c36 : closedOnX tree PairReachArb.c36 = true := by decide +kernel
end ShipVerif.Pair.PairCertArb
