import ShipVerif.Proofs.PairCertArb.Defs
namespace ShipVerif.Pair.PairCertArb
open ShipVerif.Pair ShipVerif.Generated
theorem c10 : closedOnX tree PairReachArb.c10 = true := by decide +kernel
end ShipVerif.Pair.PairCertArb
