import ShipVerif.Proofs.PairCertArb.Defs
namespace ShipVerif.Pair.PairCertArb
open ShipVerif.Pair ShipVerif.Generated
theorem c23 : closedOnX tree PairReachArb.c23 = true := by decide +kernel
end ShipVerif.Pair.PairCertArb
