import ShipVerif.Proofs.PairCertArb.Defs
namespace ShipVerif.Pair.PairCertArb
open ShipVerif.Pair ShipVerif.Generated
theorem c32 : closedOnX tree PairReachArb.c32 = true := by decide +kernel
end ShipVerif.Pair.PairCertArb
