import ShipVerif.Proofs.PairCertArb.Defs
namespace ShipVerif.Pair.PairCertArb
open ShipVerif.Pair ShipVerif.Generated
theorem c7 : closedOnX tree PairReachArb.c7 = true := by decide +kernel
end ShipVerif.Pair.PairCertArb
