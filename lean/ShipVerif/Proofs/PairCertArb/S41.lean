import ShipVerif.Proofs.PairCertArb.Defs
namespace ShipVerif.Pair.PairCertArb
open ShipVerif.Pair ShipVerif.Generated
theorem c41 : closedOnX tree PairReachArb.c41 = true := by decide +kernel
end ShipVerif.Pair.PairCertArb
