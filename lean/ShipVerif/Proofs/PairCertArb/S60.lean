import ShipVerif.Proofs.PairCertArb.Defs
namespace ShipVerif.Pair.PairCertArb
open ShipVerif.Pair ShipVerif.Generated
theorem c60 : closedOnX tree PairReachArb.c60 = true := by decide +kernel
end ShipVerif.Pair.PairCertArb
