import ShipVerif.Proofs.PairCertArb.Defs
namespace ShipVerif.Pair.PairCertArb
open ShipVerif.Pair ShipVerif.Generated
theorem c253 : closedOnX tree PairReachArb.c253 = true := by decide +kernel
end ShipVerif.Pair.PairCertArb
