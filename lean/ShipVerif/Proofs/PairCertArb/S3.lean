import ShipVerif.Proofs.PairCertArb.Defs
namespace ShipVerif.Pair.PairCertArb
open ShipVerif.Pair ShipVerif.Generated
theorem c3 : closedOnX tree PairReachArb.c3 = true := by decide +kernel
end ShipVerif.Pair.PairCertArb
