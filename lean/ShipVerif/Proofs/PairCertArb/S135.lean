import ShipVerif.Proofs.PairCertArb.Defs
namespace ShipVerif.Pair.PairCertArb
open ShipVerif.Pair ShipVerif.Generated
theorem c135 : closedOnX tree PairReachArb.c135 = true := by decide +kernel
end ShipVerif.Pair.PairCertArb
