import ShipVerif.Proofs.PairCertArb.Defs
namespace ShipVerif.Pair.PairCertArb
open ShipVerif.Pair ShipVerif.Generated
theorem c202 : closedOnX tree PairReachArb.c202 = true := by decide +kernel
end ShipVerif.Pair.PairCertArb
