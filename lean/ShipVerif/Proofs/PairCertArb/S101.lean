import ShipVerif.Proofs.PairCertArb.Defs
namespace ShipVerif.Pair.PairCertArb
open ShipVerif.Pair ShipVerif.Generated
theorem c101 : closedOnX tree PairReachArb.c101 = true := by decide +kernel
end ShipVerif.Pair.PairCertArb
