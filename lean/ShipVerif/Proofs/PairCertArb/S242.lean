import ShipVerif.Proofs.PairCertArb.Defs
namespace ShipVerif.Pair.PairCertArb
open ShipVerif.Pair ShipVerif.Generated
theorem c242 : closedOnX tree PairReachArb.c242 = true := by decide +kernel
end ShipVerif.Pair.PairCertArb
