import ShipVerif.Proofs.PairCertArb.Defs
namespace ShipVerif.Pair.PairCertArb
open ShipVerif.Pair ShipVerif.Generated
theorem c143 : closedOnX tree PairReachArb.c143 = true := by decide +kernel
end ShipVerif.Pair.PairCertArb
