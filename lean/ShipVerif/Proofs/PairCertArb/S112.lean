import ShipVerif.Proofs.PairCertArb.Defs
namespace ShipVerif.Pair.PairCertArb
open ShipVerif.Pair ShipVerif.Generated
theorem c112 : closedOnX tree PairReachArb.c112 = true := by decide +kernel
end ShipVerif.Pair.PairCertArb
