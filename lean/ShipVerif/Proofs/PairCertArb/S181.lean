import ShipVerif.Proofs.PairCertArb.Defs
namespace ShipVerif.Pair.PairCertArb
open ShipVerif.Pair ShipVerif.Generated
theorem c181 : closedOnX tree PairReachArb.c181 = true := by decide +kernel
end ShipVerif.Pair.PairCertArb
