import ShipVerif.Proofs.PairCertArb.Defs
namespace ShipVerif.Pair.PairCertArb
open ShipVerif.Pair ShipVerif.Generated
theorem c243 : closedOnX tree PairReachArb.c243 = true := by decide +kernel
end ShipVerif.Pair.PairCertArb
