import ShipVerif.Proofs.PairCertArb.Defs
namespace ShipVerif.Pair.PairCertArb
open ShipVerif.Pair ShipVerif.Generated
theorem c71 : closedOnX tree PairReachArb.c71 = true := by decide +kernel
end ShipVerif.Pair.PairCertArb
