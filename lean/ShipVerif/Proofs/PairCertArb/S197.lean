import ShipVerif.Proofs.PairCertArb.Defs
namespace ShipVerif.Pair.PairCertArb
open ShipVerif.Pair ShipVerif.Generated
theorem c197 : closedOnX tree PairReachArb.c197 = true := by decide +kernel
end ShipVerif.Pair.PairCertArb
