import ShipVerif.Proofs.PairCertArb.Defs
namespace ShipVerif.Pair.PairCertArb
open ShipVerif.Pair ShipVerif.Generated
theorem c205 : closedOnX tree PairReachArb.c205 = true := by decide +kernel
end ShipVerif.Pair.PairCertArb
