import ShipVerif.Proofs.PairCertArb.Defs
namespace ShipVerif.Pair.PairCertArb
open ShipVerif.Pair ShipVerif.Generated
theorem c34 : closedOnX tree PairReachArb.c34 = true := by decide +kernel
end ShipVerif.Pair.PairCertArb
