import ShipVerif.Proofs.PairCertArb.Defs
namespace ShipVerif.Pair.PairCertArb
open ShipVerif.Pair ShipVerif.Generated
theorem c193 : closedOnX tree PairReachArb.c193 = true := by decide +kernel
end ShipVerif.Pair.PairCertArb
