import ShipVerif.Proofs.PairCertArb.Defs
namespace ShipVerif.Pair.PairCertArb
open ShipVerif.Pair ShipVerif.Generated
theorem c214 : closedOnX tree PairReachArb.c214 = true := by decide +kernel
end ShipVerif.Pair.PairCertArb
