import ShipVerif.Proofs.PairCertArb.Defs
namespace ShipVerif.Pair.PairCertArb
open ShipVerif.Pair ShipVerif.Generated
theorem c187 : closedOnX tree PairReachArb.c187 = true := by decide +kernel
end ShipVerif.Pair.PairCertArb
