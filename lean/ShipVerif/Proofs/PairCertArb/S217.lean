import ShipVerif.Proofs.PairCertArb.Defs
namespace ShipVerif.Pair.PairCertArb
open ShipVerif.Pair ShipVerif.Generated
theorem c217 : closedOnX tree PairReachArb.c217 = true := by decide +kernel
end ShipVerif.Pair.PairCertArb
