import ShipVerif.Proofs.PairCertArb.Defs
namespace ShipVerif.Pair.PairCertArb
open ShipVerif.Pair ShipVerif.Generated
theorem c121 : closedOnX tree PairReachArb.c121 = true := by decide +kernel
end ShipVerif.Pair.PairCertArb
