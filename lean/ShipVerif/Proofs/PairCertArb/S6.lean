import ShipVerif.Proofs.PairCertArb.Defs
namespace ShipVerif.Pair.PairCertArb
open ShipVerif.Pair ShipVerif.Generated
theorem c6 : closedOnX tree PairReachArb.c6 = true := by decide +kernel
end ShipVerif.Pair.PairCertArb
