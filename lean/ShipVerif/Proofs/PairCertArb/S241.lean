import ShipVerif.Proofs.PairCertArb.Defs
namespace ShipVerif.Pair.PairCertArb
open ShipVerif.Pair ShipVerif.Generated
theorem c241 : closedOnX tree PairReachArb.c241 = true := by decide +kernel
end ShipVerif.Pair.PairCertArb
