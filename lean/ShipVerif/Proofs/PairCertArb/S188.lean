import ShipVerif.Proofs.PairCertArb.Defs
namespace ShipVerif.Pair.PairCertArb
open ShipVerif.Pair ShipVerif.Generated
theorem c188 : closedOnX tree PairReachArb.c188 = true := by decide +kernel
end ShipVerif.Pair.PairCertArb
