import ShipVerif.Proofs.PairCertArb.Defs
namespace ShipVerif.Pair.PairCertArb
open ShipVerif.Pair ShipVerif.Generated
theorem c120 : closedOnX tree PairReachArb.c120 = true := by decide +kernel
end ShipVerif.Pair.PairCertArb
