import ShipVerif.Proofs.PairCertArb.Defs
namespace ShipVerif.Pair.PairCertArb
open ShipVerif.Pair ShipVerif.Generated
theorem c27 : closedOnX tree PairReachArb.c27 = true := by decide +kernel
end ShipVerif.Pair.PairCertArb
