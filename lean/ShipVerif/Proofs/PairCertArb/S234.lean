import ShipVerif.Proofs.PairCertArb.Defs
namespace ShipVerif.Pair.PairCertArb
open ShipVerif.Pair ShipVerif.Generated
theorem c234 : closedOnX tree PairReachArb.c234 = true := by decide +kernel
end ShipVerif.Pair.PairCertArb
