import ShipVerif.Proofs.PairCertArb.Defs
namespace ShipVerif.Pair.PairCertArb
open ShipVerif.Pair ShipVerif.Generated
theorem c33 : closedOnX tree PairReachArb.c33 = true := by decide +kernel
end ShipVerif.Pair.PairCertArb
