import ShipVerif.Proofs.PairCertArb.Defs
namespace ShipVerif.Pair.PairCertArb
open ShipVerif.Pair ShipVerif.Generated
theorem c173 : closedOnX tree PairReachArb.c173 = true := by decide +kernel
end ShipVerif.Pair.PairCertArb
