import ShipVerif.Proofs.PairCertArb.Defs
namespace ShipVerif.Pair.PairCertArb
open ShipVerif.Pair ShipVerif.Generated
theorem c198 : closedOnX tree PairReachArb.c198 = true := by decide +kernel
end ShipVerif.Pair.PairCertArb
