import ShipVerif.Proofs.PairCertArb.Defs
namespace ShipVerif.Pair.PairCertArb
open ShipVerif.Pair ShipVerif.Generated
theorem c55 : closedOnX tree PairReachArb.c55 = true := by decide +kernel
end ShipVerif.Pair.PairCertArb
