import ShipVerif.Proofs.PairCertArb.Defs
namespace ShipVerif.Pair.PairCertArb
open ShipVerif.Pair ShipVerif.Generated
theorem c9 : closedOnX tree PairReachArb.c9 = true := by decide +kernel
end ShipVerif.Pair.PairCertArb
