import ShipVerif.Proofs.PairCertArb.Defs
namespace ShipVerif.Pair.PairCertArb
open ShipVerif.Pair ShipVerif.Generated
theorem c18 : closedOnX tree PairReachArb.c18 = true := by decide +kernel
end ShipVerif.Pair.PairCertArb
