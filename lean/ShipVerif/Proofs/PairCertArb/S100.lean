import ShipVerif.Proofs.PairCertArb.Defs
namespace ShipVerif.Pair.PairCertArb
open ShipVerif.Pair ShipVerif.Generated
theorem c100 : closedOnX tree PairReachArb.c100 = true := by decide +kernel
end ShipVerif.Pair.PairCertArb
