import ShipVerif.Proofs.PairCertArb.Defs
namespace ShipVerif.Pair.PairCertArb
open ShipVerif.Pair ShipVerif.Generated
theorem c240 : closedOnX tree PairReachArb.c240 = true := by decide +kernel
end ShipVerif.Pair.PairCertArb
