import ShipVerif.Proofs.PairCertArb.Defs
namespace ShipVerif.Pair.PairCertArb
open ShipVerif.Pair ShipVerif.Generated
theorem c30 : closedOnX tree PairReachArb.c30 = true := by decide +kernel
end ShipVerif.Pair.PairCertArb
