import ShipVerif.Proofs.PairCertArb.Defs
namespace ShipVerif.Pair.PairCertArb
open ShipVerif.Pair ShipVerif.Generated
theorem c79 : closedOnX tree PairReachArb.c79 = true := by decide +kernel
end ShipVerif.Pair.PairCertArb
