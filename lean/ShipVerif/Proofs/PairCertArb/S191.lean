import ShipVerif.Proofs.PairCertArb.Defs
namespace ShipVerif.Pair.PairCertArb
open ShipVerif.Pair ShipVerif.Generated
theorem c191 : closedOnX tree PairReachArb.c191 = true := by decide +kernel
end ShipVerif.Pair.PairCertArb
