import ShipVerif.Proofs.PairCertArb.Defs
namespace ShipVerif.Pair.PairCertArb
open ShipVerif.Pair ShipVerif.Generated
theorem c63 : closedOnX tree PairReachArb.c63 = true := by decide +kernel
end ShipVerif.Pair.PairCertArb
