import ShipVerif.Proofs.PairCertArb.Defs
namespace ShipVerif.Pair.PairCertArb
open ShipVerif.Pair ShipVerif.Generated
theorem c72 : closedOnX tree PairReachArb.c72 = true := by decide +kernel
end ShipVerif.Pair.PairCertArb
