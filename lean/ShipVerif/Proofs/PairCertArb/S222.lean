import ShipVerif.Proofs.PairCertArb.Defs
namespace ShipVerif.Pair.PairCertArb
open ShipVerif.Pair ShipVerif.Generated
theorem c222 : closedOnX tree PairReachArb.c222 = true := by decide +kernel
end ShipVerif.Pair.PairCertArb
