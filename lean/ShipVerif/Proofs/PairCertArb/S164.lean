import ShipVerif.Proofs.PairCertArb.Defs
namespace ShipVerif.Pair.PairCertArb
open ShipVerif.Pair ShipVerif.Generated
theorem c164 : closedOnX tree PairReachArb.c164 = true := by decide +kernel
end ShipVerif.Pair.PairCertArb
