import ShipVerif.Proofs.PairCertArb.Defs
namespace ShipVerif.Pair.PairCertArb
open ShipVerif.Pair ShipVerif.Generated
theorem c153 : closedOnX tree PairReachArb.c153 = true := by decide +kernel
end ShipVerif.Pair.PairCertArb
