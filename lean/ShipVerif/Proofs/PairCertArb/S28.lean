import ShipVerif.Proofs.PairCertArb.Defs
namespace ShipVerif.Pair.PairCertArb
open ShipVerif.Pair ShipVerif.Generated
theorem c28 : closedOnX tree PairReachArb.c28 = true := by decide +kernel
end ShipVerif.Pair.PairCertArb
