import ShipVerif.Proofs.PairCertArb.Defs
namespace ShipVerif.Pair.PairCertArb
open ShipVerif.Pair ShipVerif.Generated
theorem c21 : closedOnX tree PairReachArb.c21 = true := by decide +kernel
end ShipVerif.Pair.PairCertArb
