import ShipVerif.Proofs.PairCertArb.Defs
namespace ShipVerif.Pair.PairCertArb
open ShipVerif.Pair ShipVerif.Generated
theorem c144 : closedOnX tree PairReachArb.c144 = true := by decide +kernel
end ShipVerif.Pair.PairCertArb
