import ShipVerif.Proofs.PairCertArb.Defs
namespace ShipVerif.Pair.PairCertArb
open ShipVerif.Pair ShipVerif.Generated
theorem c179 : closedOnX tree PairReachArb.c179 = true := by decide +kernel
end ShipVerif.Pair.PairCertArb
