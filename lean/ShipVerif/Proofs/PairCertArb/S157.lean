import ShipVerif.Proofs.PairCertArb.Defs
namespace ShipVerif.Pair.PairCertArb
open ShipVerif.Pair ShipVerif.Generated
theorem c157 : closedOnX tree PairReachArb.c157 = true := by decide +kernel
end ShipVerif.Pair.PairCertArb
