import ShipVerif.Proofs.PairCertArb.Defs
namespace ShipVerif.Pair.PairCertArb
open ShipVerif.Pair ShipVerif.Generated
theorem c59 : closedOnX tree PairReachArb.c59 = true := by decide +kernel
end ShipVerif.Pair.PairCertArb
