import ShipVerif.Proofs.PairCertArb.Defs
namespace ShipVerif.Pair.PairCertArb
open ShipVerif.Pair ShipVerif.Generated
theorem c78 : closedOnX tree PairReachArb.c78 = true := by decide +kernel
end ShipVerif.Pair.PairCertArb
