import ShipVerif.Proofs.PairCertArb.Defs
namespace ShipVerif.Pair.PairCertArb
open ShipVerif.Pair ShipVerif.Generated
theorem c251 : closedOnX tree PairReachArb.c251 = true := by decide +kernel
end ShipVerif.Pair.PairCertArb
