import ShipVerif.Proofs.PairCertArb.Defs
namespace ShipVerif.Pair.PairCertArb
open ShipVerif.Pair ShipVerif.Generated
theorem c161 : closedOnX tree PairReachArb.c161 = true := by decide +kernel
end ShipVerif.Pair.PairCertArb
