import ShipVerif.Proofs.PairCertArb.Defs
namespace ShipVerif.Pair.PairCertArb
open ShipVerif.Pair ShipVerif.Generated
theorem c168 : closedOnX tree PairReachArb.c168 = true := by decide +kernel
end ShipVerif.Pair.PairCertArb
