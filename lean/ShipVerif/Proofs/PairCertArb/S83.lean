import ShipVerif.Proofs.PairCertArb.Defs
namespace ShipVerif.Pair.PairCertArb
open ShipVerif.Pair ShipVerif.Generated
theorem c83 : closedOnX tree PairReachArb.c83 = true := by decide +kernel
end ShipVerif.Pair.PairCertArb
