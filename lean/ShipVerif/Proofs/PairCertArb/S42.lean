import ShipVerif.Proofs.PairCertArb.Defs
namespace ShipVerif.Pair.PairCertArb
open ShipVerif.Pair ShipVerif.Generated
theorem c42 : closedOnX tree PairReachArb.c42 = true := by decide +kernel
end ShipVerif.Pair.PairCertArb
