import ShipVerif.Proofs.PairCertArb.Defs
namespace ShipVerif.Pair.PairCertArb
open ShipVerif.Pair ShipVerif.Generated
theorem c31 : closedOnX tree PairReachArb.c31 = true := by decide +kernel
end ShipVerif.Pair.PairCertArb
