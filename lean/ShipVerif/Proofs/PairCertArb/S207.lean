import ShipVerif.Proofs.PairCertArb.Defs
namespace ShipVerif.Pair.PairCertArb
open ShipVerif.Pair ShipVerif.Generated
theorem c207 : closedOnX tree PairReachArb.c207 = true := by decide +kernel
end ShipVerif.Pair.PairCertArb
