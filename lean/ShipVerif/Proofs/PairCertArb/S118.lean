import ShipVerif.Proofs.PairCertArb.Defs
namespace ShipVerif.Pair.PairCertArb
open ShipVerif.Pair ShipVerif.Generated
theorem c118 : closedOnX tree PairReachArb.c118 = true := by decide +kernel
end ShipVerif.Pair.PairCertArb
