import ShipVerif.Proofs.PairCertArb.Defs
namespace ShipVerif.Pair.PairCertArb
open ShipVerif.Pair ShipVerif.Generated
theorem c16 : closedOnX tree PairReachArb.c16 = true := by decide +kernel
end ShipVerif.Pair.PairCertArb
