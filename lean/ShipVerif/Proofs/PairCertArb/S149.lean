import ShipVerif.Proofs.PairCertArb.Defs
namespace ShipVerif.Pair.PairCertArb
open ShipVerif.Pair ShipVerif.Generated
theorem c149 : closedOnX tree PairReachArb.c149 = true := by decide +kernel
end ShipVerif.Pair.PairCertArb
