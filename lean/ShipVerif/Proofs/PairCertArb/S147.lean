import ShipVerif.Proofs.PairCertArb.Defs
namespace ShipVerif.Pair.PairCertArb
open ShipVerif.Pair ShipVerif.Generated
theorem c147 : closedOnX tree PairReachArb.c147 = true := by decide +kernel
end ShipVerif.Pair.PairCertArb
