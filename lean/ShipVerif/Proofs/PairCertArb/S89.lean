import ShipVerif.Proofs.PairCertArb.Defs
namespace ShipVerif.Pair.PairCertArb
open ShipVerif.Pair ShipVerif.Generated
theorem c89 : closedOnX tree PairReachArb.c89 = true := by decide +kernel
end ShipVerif.Pair.PairCertArb
