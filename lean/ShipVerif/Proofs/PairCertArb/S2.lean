import ShipVerif.Proofs.PairCertArb.Defs
namespace ShipVerif.Pair.PairCertArb
open ShipVerif.Pair ShipVerif.Generated
theorem c2 : closedOnX tree PairReachArb.c2 = true := by decide +kernel
end ShipVerif.Pair.PairCertArb
