import ShipVerif.Proofs.PairCertArb.Defs
namespace ShipVerif.Pair.PairCertArb
open ShipVerif.Pair ShipVerif.Generated
theorem c140 : closedOnX tree PairReachArb.c140 = true := by decide +kernel
end ShipVerif.Pair.PairCertArb
