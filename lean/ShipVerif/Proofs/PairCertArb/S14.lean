import ShipVerif.Proofs.PairCertArb.Defs
namespace ShipVerif.Pair.PairCertArb
open ShipVerif.Pair ShipVerif.Generated
theorem c14 : closedOnX tree PairReachArb.c14 = true := by decide +kernel
end ShipVerif.Pair.PairCertArb
