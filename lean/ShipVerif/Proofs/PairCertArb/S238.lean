import ShipVerif.Proofs.PairCertArb.Defs
namespace ShipVerif.Pair.PairCertArb
open ShipVerif.Pair ShipVerif.Generated
theorem c238 : closedOnX tree PairReachArb.c238 = true := by decide +kernel
end ShipVerif.Pair.PairCertArb
