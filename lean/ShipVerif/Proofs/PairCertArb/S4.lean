import ShipVerif.Proofs.PairCertArb.Defs
namespace ShipVerif.Pair.PairCertArb
open ShipVerif.Pair ShipVerif.Generated
theorem c4 : closedOnX tree PairReachArb.c4 = true := by decide +kernel
end ShipVerif.Pair.PairCertArb
