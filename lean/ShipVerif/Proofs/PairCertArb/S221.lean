import ShipVerif.Proofs.PairCertArb.Defs
namespace ShipVerif.Pair.PairCertArb
open ShipVerif.Pair ShipVerif.Generated
theorem c221 : closedOnX tree PairReachArb.c221 = true := by decide +kernel
end ShipVerif.Pair.PairCertArb
