import ShipVerif.Proofs.PairCertArb.Defs
namespace ShipVerif.Pair.PairCertArb
open ShipVerif.Pair ShipVerif.Generated
theorem c194 : closedOnX tree PairReachArb.c194 = true := by decide +kernel
end ShipVerif.Pair.PairCertArb
