import ShipVerif.Proofs.PairCertArb.Defs
namespace ShipVerif.Pair.PairCertArb
open ShipVerif.Pair ShipVerif.Generated
theorem c111 : closedOnX tree PairReachArb.c111 = true := by decide +kernel
end ShipVerif.Pair.PairCertArb
