import ShipVerif.Proofs.PairCertArb.Defs
namespace ShipVerif.Pair.PairCertArb
open ShipVerif.Pair ShipVerif.Generated
theorem c200 : closedOnX tree PairReachArb.c200 = true := by decide +kernel
end ShipVerif.Pair.PairCertArb
