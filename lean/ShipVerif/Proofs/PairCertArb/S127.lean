import ShipVerif.Proofs.PairCertArb.Defs
namespace ShipVerif.Pair.PairCertArb
open ShipVerif.Pair ShipVerif.Generated
theorem c127 : closedOnX tree PairReachArb.c127 = true := by decide +kernel
end ShipVerif.Pair.PairCertArb
