import ShipVerif.Proofs.PairCertArb.Defs
namespace ShipVerif.Pair.PairCertArb
open ShipVerif.Pair ShipVerif.Generated
theorem c106 : closedOnX tree PairReachArb.c106 = true := by decide +kernel
end ShipVerif.Pair.PairCertArb
