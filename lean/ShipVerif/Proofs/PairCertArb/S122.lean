import ShipVerif.Proofs.PairCertArb.Defs
namespace ShipVerif.Pair.PairCertArb
open ShipVerif.Pair ShipVerif.Generated
theorem c122 : closedOnX tree PairReachArb.c122 = true := by decide +kernel
end ShipVerif.Pair.PairCertArb
