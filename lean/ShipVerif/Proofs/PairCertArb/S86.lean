import ShipVerif.Proofs.PairCertArb.Defs
namespace ShipVerif.Pair.PairCertArb
open ShipVerif.Pair ShipVerif.Generated
theorem c86 : closedOnX tree PairReachArb.c86 = true := by decide +kernel
end ShipVerif.Pair.PairCertArb
