import ShipVerif.Proofs.PairCertArb.Defs
namespace ShipVerif.Pair.PairCertArb
open ShipVerif.Pair ShipVerif.Generated
theorem c66 : closedOnX tree PairReachArb.c66 = true := by decide +kernel
end ShipVerif.Pair.PairCertArb
