import ShipVerif.Proofs.PairCertArb.Defs
namespace ShipVerif.Pair.PairCertArb
open ShipVerif.Pair ShipVerif.Generated
theorem c141 : closedOnX tree PairReachArb.c141 = true := by decide +kernel
end ShipVerif.Pair.PairCertArb
