import ShipVerif.Proofs.PairCert.Defs
namespace ShipVerif.Pair.PairCert
open ShipVerif.Pair ShipVerif.Generated
theorem c59 : closedOnX tree PairReach.c59 = true := by decide +kernel
end ShipVerif.Pair.PairCert
