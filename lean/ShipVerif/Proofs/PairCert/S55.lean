import ShipVerif.Proofs.PairCert.Defs
namespace ShipVerif.Pair.PairCert
open ShipVerif.Pair ShipVerif.Generated
theorem c55 : closedOnX tree PairReach.c55 = true := by decide +kernel
end ShipVerif.Pair.PairCert
