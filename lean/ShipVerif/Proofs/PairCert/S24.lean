import ShipVerif.Proofs.PairCert.Defs
namespace ShipVerif.Pair.PairCert
open ShipVerif.Pair ShipVerif.Generated
theorem c24 : closedOnX tree PairReach.c24 = true := by decide +kernel
end ShipVerif.Pair.PairCert
