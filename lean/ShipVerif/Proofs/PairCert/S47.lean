import ShipVerif.Proofs.PairCert.Defs
namespace ShipVerif.Pair.PairCert
open ShipVerif.Pair ShipVerif.Generated
theorem c47 : closedOnX tree PairReach.c47 = true := by decide +kernel
end ShipVerif.Pair.PairCert
