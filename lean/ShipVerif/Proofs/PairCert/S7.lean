import ShipVerif.Proofs.PairCert.Defs
namespace ShipVerif.Pair.PairCert
open ShipVerif.Pair ShipVerif.Generated
theorem c7 : closedOnX tree PairReach.c7 = true := by decide +kernel
end ShipVerif.Pair.PairCert
