import ShipVerif.Proofs.PairCert.Defs
namespace ShipVerif.Pair.PairCert
open ShipVerif.Pair ShipVerif.Generated
theorem c37 : closedOnX tree PairReach.c37 = true := by decide +kernel
end ShipVerif.Pair.PairCert
