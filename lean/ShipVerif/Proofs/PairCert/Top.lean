import ShipVerif.Proofs.PairCert.Defs
namespace ShipVerif.Pair.PairCert
open ShipVerif.Pair ShipVerif.Generated
theorem keys_ok : PairReach.innerKeys.all (certBodyX tree) = true := by decide +kernel
theorem inits_ok : initsOk tree budgets = true := by decide +kernel
end ShipVerif.Pair.PairCert
