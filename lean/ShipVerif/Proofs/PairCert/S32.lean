import ShipVerif.Proofs.PairCert.Defs
namespace ShipVerif.Pair.PairCert
open ShipVerif.Pair ShipVerif.Generated
theorem c32 : closedOnX tree PairReach.c32 = true := by decide +kernel
end ShipVerif.Pair.PairCert
