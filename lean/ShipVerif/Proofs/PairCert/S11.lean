import ShipVerif.Proofs.PairCert.Defs
namespace ShipVerif.Pair.PairCert
open ShipVerif.Pair ShipVerif.Generated
theorem c11 : closedOnX tree PairReach.c11 = true := by decide +kernel
end ShipVerif.Pair.PairCert
