import ShipVerif.Proofs.PairCert.Defs
namespace ShipVerif.Pair.PairCert
open ShipVerif.Pair ShipVerif.Generated
theorem c20 : closedOnX tree PairReach.c20 = true := by decide +kernel
end ShipVerif.Pair.PairCert
