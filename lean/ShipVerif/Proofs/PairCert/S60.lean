import ShipVerif.Proofs.PairCert.Defs
namespace ShipVerif.Pair.PairCert
open ShipVerif.Pair ShipVerif.Generated
theorem c60 : closedOnX tree PairReach.c60 = true := by decide +kernel
end ShipVerif.Pair.PairCert
