import ShipVerif.Proofs.PairCert.Defs
namespace ShipVerif.Pair.PairCert
open ShipVerif.Pair ShipVerif.Generated
theorem c8 : closedOnX tree PairReach.c8 = true := by decide +kernel
end ShipVerif.Pair.PairCert
