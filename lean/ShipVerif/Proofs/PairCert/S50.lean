import ShipVerif.Proofs.PairCert.Defs
namespace ShipVerif.Pair.PairCert
open ShipVerif.Pair ShipVerif.Generated
theorem c50 : closedOnX tree PairReach.c50 = true := by decide +kernel
end ShipVerif.Pair.PairCert
