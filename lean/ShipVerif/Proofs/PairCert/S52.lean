import ShipVerif.Proofs.PairCert.Defs
namespace ShipVerif.Pair.PairCert
open ShipVerif.Pair ShipVerif.Generated
theorem c52 : closedOnX tree PairReach.c52 = true := by decide +kernel
end ShipVerif.Pair.PairCert
