import ShipVerif.Proofs.PairCert.Defs
namespace ShipVerif.Pair.PairCert
open ShipVerif.Pair ShipVerif.Generated
theorem c43 : closedOnX tree PairReach.c43 = true := by decide +kernel
end ShipVerif.Pair.PairCert
