import ShipVerif.Proofs.PairCert.Defs
namespace ShipVerif.Pair.PairCert
open ShipVerif.Pair ShipVerif.Generated
theorem c42 : closedOnX tree PairReach.c42 = true := by decide +kernel
end ShipVerif.Pair.PairCert
