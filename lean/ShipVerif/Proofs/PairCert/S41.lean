import ShipVerif.Proofs.PairCert.Defs
namespace ShipVerif.Pair.PairCert
open ShipVerif.Pair ShipVerif.Generated
theorem c41 : closedOnX tree PairReach.c41 = true := by decide +kernel
end ShipVerif.Pair.PairCert
