import ShipVerif.Proofs.PairCert.Defs
namespace ShipVerif.Pair.PairCert
open ShipVerif.Pair ShipVerif.Generated
theorem c35 : closedOnX tree PairReach.c35 = true := by decide +kernel
end ShipVerif.Pair.PairCert
