import ShipVerif.Proofs.PairCert.Defs
namespace ShipVerif.Pair.PairCert
open ShipVerif.Pair ShipVerif.Generated
theorem c26 : closedOnX tree PairReach.c26 = true := by decide +kernel
end ShipVerif.Pair.PairCert
