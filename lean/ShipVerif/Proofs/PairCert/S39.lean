import ShipVerif.Proofs.PairCert.Defs
namespace ShipVerif.Pair.PairCert
open ShipVerif.Pair ShipVerif.Generated
theorem c39 : closedOnX tree PairReach.c39 = true := by decide +kernel
end ShipVerif.Pair.PairCert
