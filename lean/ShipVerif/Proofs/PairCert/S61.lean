import ShipVerif.Proofs.PairCert.Defs
namespace ShipVerif.Pair.PairCert
open ShipVerif.Pair ShipVerif.Generated
theorem c61 : closedOnX tree PairReach.c61 = true := by decide +kernel
end ShipVerif.Pair.PairCert
