import ShipVerif.Proofs.PairCert.Defs
namespace ShipVerif.Pair.PairCert
open ShipVerif.Pair ShipVerif.Generated
theorem c23 : closedOnX tree PairReach.c23 = true := by decide +kernel
end ShipVerif.Pair.PairCert
