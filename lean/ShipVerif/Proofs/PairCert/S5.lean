import ShipVerif.Proofs.PairCert.Defs
namespace ShipVerif.Pair.PairCert
open ShipVerif.Pair ShipVerif.Generated
theorem c5 : closedOnX tree PairReach.c5 = true := by decide +kernel
end ShipVerif.Pair.PairCert
