import ShipVerif.Proofs.PairCert.Defs
namespace ShipVerif.Pair.PairCert
open ShipVerif.Pair ShipVerif.Generated
theorem c12 : closedOnX tree PairReach.c12 = true := by decide +kernel
end ShipVerif.Pair.PairCert
