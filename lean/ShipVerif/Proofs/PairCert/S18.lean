import ShipVerif.Proofs.PairCert.Defs
namespace ShipVerif.Pair.PairCert
open ShipVerif.Pair ShipVerif.Generated
theorem c18 : closedOnX tree PairReach.c18 = true := by decide +kernel
end ShipVerif.Pair.PairCert
