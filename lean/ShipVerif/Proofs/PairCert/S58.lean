import ShipVerif.Proofs.PairCert.Defs
namespace ShipVerif.Pair.PairCert
open ShipVerif.Pair ShipVerif.Generated
theorem c58 : closedOnX tree PairReach.c58 = true := by decide +kernel
end ShipVerif.Pair.PairCert
