import ShipVerif.Proofs.PairCert.Defs
namespace ShipVerif.Pair.PairCert
open ShipVerif.Pair ShipVerif.Generated
theorem c45 : closedOnX tree PairReach.c45 = true := by decide +kernel
end ShipVerif.Pair.PairCert
