import ShipVerif.Proofs.PairCert.Defs
namespace ShipVerif.Pair.PairCert
open ShipVerif.Pair ShipVerif.Generated
theorem c14 : closedOnX tree PairReach.c14 = true := by decide +kernel
end ShipVerif.Pair.PairCert
