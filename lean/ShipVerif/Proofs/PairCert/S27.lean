import ShipVerif.Proofs.PairCert.Defs
namespace ShipVerif.Pair.PairCert
open ShipVerif.Pair ShipVerif.Generated
theorem c27 : closedOnX tree PairReach.c27 = true := by decide +kernel
end ShipVerif.Pair.PairCert
