import ShipVerif.Proofs.PairCert.Defs
namespace ShipVerif.Pair.PairCert
open ShipVerif.Pair ShipVerif.Generated
theorem c22 : closedOnX tree PairReach.c22 = true := by decide +kernel
end ShipVerif.Pair.PairCert
