import ShipVerif.Proofs.PairCert.Defs
namespace ShipVerif.Pair.PairCert
open ShipVerif.Pair ShipVerif.Generated
theorem c19 : closedOnX tree PairReach.c19 = true := by decide +kernel
end ShipVerif.Pair.PairCert
