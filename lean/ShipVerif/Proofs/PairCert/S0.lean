import ShipVerif.Proofs.PairCert.Defs
namespace ShipVerif.Pair.PairCert
open ShipVerif.Pair ShipVerif.Generated
theorem c0 : closedOnX tree PairReach.c0 = true := by decide +kernel
end ShipVerif.Pair.PairCert
