import ShipVerif.Proofs.PairCert.Defs
namespace ShipVerif.Pair.PairCert
open ShipVerif.Pair ShipVerif.Generated
theorem c31 : closedOnX tree PairReach.c31 = true := by decide +kernel
end ShipVerif.Pair.PairCert
