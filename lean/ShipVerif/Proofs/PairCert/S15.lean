import ShipVerif.Proofs.PairCert.Defs
namespace ShipVerif.Pair.PairCert
open ShipVerif.Pair ShipVerif.Generated
theorem c15 : closedOnX tree PairReach.c15 = true := by decide +kernel
end ShipVerif.Pair.PairCert
