import ShipVerif.Proofs.PairCert.Defs
namespace ShipVerif.Pair.PairCert
open ShipVerif.Pair ShipVerif.Generated
theorem c44 : closedOnX tree PairReach.c44 = true := by decide +kernel
end ShipVerif.Pair.PairCert
