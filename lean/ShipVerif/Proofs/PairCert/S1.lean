import ShipVerif.Proofs.PairCert.Defs
namespace ShipVerif.Pair.PairCert
open ShipVerif.Pair ShipVerif.Generated
theorem c1 : closedOnX tree PairReach.c1 = true := by decide +kernel
end ShipVerif.Pair.PairCert
