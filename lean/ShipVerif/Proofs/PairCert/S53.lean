import ShipVerif.Proofs.PairCert.Defs
namespace ShipVerif.Pair.PairCert
open ShipVerif.Pair ShipVerif.Generated
theorem c53 : closedOnX tree PairReach.c53 = true := by decide +kernel
end ShipVerif.Pair.PairCert
