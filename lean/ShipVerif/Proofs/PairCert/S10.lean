import ShipVerif.Proofs.PairCert.Defs
namespace ShipVerif.Pair.PairCert
open ShipVerif.Pair ShipVerif.Generated
theorem c10 : closedOnX tree PairReach.c10 = true := by decide +kernel
end ShipVerif.Pair.PairCert
