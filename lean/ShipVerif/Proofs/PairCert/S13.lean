import ShipVerif.Proofs.PairCert.Defs
namespace ShipVerif.Pair.PairCert
open ShipVerif.Pair ShipVerif.Generated
theorem c13 : closedOnX tree PairReach.c13 = true := by decide +kernel
end ShipVerif.Pair.PairCert
