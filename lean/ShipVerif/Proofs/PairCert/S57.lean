import ShipVerif.Proofs.PairCert.Defs
namespace ShipVerif.Pair.PairCert
open ShipVerif.Pair ShipVerif.Generated
theorem c57 : closedOnX tree PairReach.c57 = true := by decide +kernel
end ShipVerif.Pair.PairCert
