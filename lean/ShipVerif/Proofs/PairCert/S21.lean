import ShipVerif.Proofs.PairCert.Defs
namespace ShipVerif.Pair.PairCert
open ShipVerif.Pair ShipVerif.Generated
theorem c21 : closedOnX tree PairReach.c21 = true := by decide +kernel
end ShipVerif.Pair.PairCert
