import ShipVerif.Proofs.PairCert.Defs
namespace ShipVerif.Pair.PairCert
open ShipVerif.Pair ShipVerif.Generated
theorem c33 : closedOnX tree PairReach.c33 = true := by decide +kernel
end ShipVerif.Pair.PairCert
