import ShipVerif.Proofs.PairCert.Defs
namespace ShipVerif.Pair.PairCert
open ShipVerif.Pair ShipVerif.Generated
theorem c28 : closedOnX tree PairReach.c28 = true := by decide +kernel
end ShipVerif.Pair.PairCert
