import ShipVerif.Proofs.PairCert.Defs
namespace ShipVerif.Pair.PairCert
open ShipVerif.Pair ShipVerif.Generated
theorem c54 : closedOnX tree PairReach.c54 = true := by decide +kernel
end ShipVerif.Pair.PairCert
