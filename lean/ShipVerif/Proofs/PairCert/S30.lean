import ShipVerif.Proofs.PairCert.Defs
namespace ShipVerif.Pair.PairCert
open ShipVerif.Pair ShipVerif.Generated
theorem c30 : closedOnX tree PairReach.c30 = true := by decide +kernel
end ShipVerif.Pair.PairCert
