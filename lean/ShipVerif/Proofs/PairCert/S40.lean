import ShipVerif.Proofs.PairCert.Defs
namespace ShipVerif.Pair.PairCert
open ShipVerif.Pair ShipVerif.Generated
theorem c40 : closedOnX tree PairReach.c40 = true := by decide +kernel
end ShipVerif.Pair.PairCert
