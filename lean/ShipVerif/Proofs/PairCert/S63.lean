import ShipVerif.Proofs.PairCert.Defs
namespace ShipVerif.Pair.PairCert
open ShipVerif.Pair ShipVerif.Generated
theorem c63 : closedOnX tree PairReach.c63 = true := by decide +kernel
end ShipVerif.Pair.PairCert
