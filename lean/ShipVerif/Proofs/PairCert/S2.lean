import ShipVerif.Proofs.PairCert.Defs
namespace ShipVerif.Pair.PairCert
open ShipVerif.Pair ShipVerif.Generated
theorem c2 : closedOnX tree PairReach.c2 = true := by decide +kernel
end ShipVerif.Pair.PairCert
