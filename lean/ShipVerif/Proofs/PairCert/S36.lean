import ShipVerif.Proofs.PairCert.Defs
namespace ShipVerif.Pair.PairCert
open ShipVerif.Pair ShipVerif.Generated
theorem c36 : closedOnX tree PairReach.c36 = true := by decide +kernel
end ShipVerif.Pair.PairCert
