import ShipVerif.Proofs.PairCert.Defs
namespace ShipVerif.Pair.PairCert
open ShipVerif.Pair ShipVerif.Generated
theorem c49 : closedOnX tree PairReach.c49 = true := by decide +kernel
end ShipVerif.Pair.PairCert
