import ShipVerif.Proofs.PairCert.Defs
namespace ShipVerif.Pair.PairCert
open ShipVerif.Pair ShipVerif.Generated
theorem c17 : closedOnX tree PairReach.c17 = true := by decide +kernel
end ShipVerif.Pair.PairCert
