import ShipVerif.Proofs.PairCert.Defs
namespace ShipVerif.Pair.PairCert
open ShipVerif.Pair ShipVerif.Generated
theorem c29 : closedOnX tree PairReach.c29 = true := by decide +kernel
end ShipVerif.Pair.PairCert
