import ShipVerif.Proofs.PairCert.Defs
namespace ShipVerif.Pair.PairCert
open ShipVerif.Pair ShipVerif.Generated
theorem c3 : closedOnX tree PairReach.c3 = true := by decide +kernel
end ShipVerif.Pair.PairCert
