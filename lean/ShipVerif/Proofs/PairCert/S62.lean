import ShipVerif.Proofs.PairCert.Defs
namespace ShipVerif.Pair.PairCert
open ShipVerif.Pair ShipVerif.Generated
theorem c62 : closedOnX tree PairReach.c62 = true := by decide +kernel
end ShipVerif.Pair.PairCert
