import ShipVerif.Proofs.PairCert.Defs
namespace ShipVerif.Pair.PairCert
open ShipVerif.Pair ShipVerif.Generated
theorem c38 : closedOnX tree PairReach.c38 = true := by decide +kernel
end ShipVerif.Pair.PairCert
