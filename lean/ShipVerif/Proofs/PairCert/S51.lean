import ShipVerif.Proofs.PairCert.Defs
namespace ShipVerif.Pair.PairCert
open ShipVerif.Pair ShipVerif.Generated
theorem c51 : closedOnX tree PairReach.c51 = true := by decide +kernel
end ShipVerif.Pair.PairCert
