import ShipVerif.Proofs.PairCert.Defs
namespace ShipVerif.Pair.PairCert
open ShipVerif.Pair ShipVerif.Generated
theorem c48 : closedOnX tree PairReach.c48 = true := by decide +kernel
end ShipVerif.Pair.PairCert
