import ShipVerif.Proofs.PairCert.Defs
namespace ShipVerif.Pair.PairCert
open ShipVerif.Pair ShipVerif.Generated
theorem c16 : closedOnX tree PairReach.c16 = true := by decide +kernel
end ShipVerif.Pair.PairCert
