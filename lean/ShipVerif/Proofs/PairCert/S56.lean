import ShipVerif.Proofs.PairCert.Defs
namespace ShipVerif.Pair.PairCert
open ShipVerif.Pair ShipVerif.Generated
theorem c56 : closedOnX tree PairReach.c56 = true := by decide +kernel
end ShipVerif.Pair.PairCert
