import ShipVerif.Proofs.PairCert.Defs
namespace ShipVerif.Pair.PairCert
open ShipVerif.Pair ShipVerif.Generated
theorem c4 : closedOnX tree PairReach.c4 = true := by decide +kernel
end ShipVerif.Pair.PairCert
