import ShipVerif.Proofs.PairCert.Defs
namespace ShipVerif.Pair.PairCert
open ShipVerif.Pair ShipVerif.Generated
theorem c34 : closedOnX tree PairReach.c34 = true := by decide +kernel
end ShipVerif.Pair.PairCert
