import ShipVerif.Proofs.PairCert.Defs
namespace ShipVerif.Pair.PairCert
open ShipVerif.Pair ShipVerif.Generated
theorem c25 : closedOnX tree PairReach.c25 = true := by decide +kernel
end ShipVerif.Pair.PairCert
