import ShipVerif.Proofs.PairCert.Defs
namespace ShipVerif.Pair.PairCert
open ShipVerif.Pair ShipVerif.Generated
theorem c46 : closedOnX tree PairReach.c46 = true := by decide +kernel
end ShipVerif.Pair.PairCert
