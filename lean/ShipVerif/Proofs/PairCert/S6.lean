import ShipVerif.Proofs.PairCert.Defs
namespace ShipVerif.Pair.PairCert
open ShipVerif.Pair ShipVerif.Generated
theorem c6 : closedOnX tree PairReach.c6 = true := by decide +kernel
end ShipVerif.Pair.PairCert
