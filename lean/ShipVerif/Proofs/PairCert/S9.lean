import ShipVerif.Proofs.PairCert.Defs
namespace ShipVerif.Pair.PairCert
open ShipVerif.Pair ShipVerif.Generated
theorem c9 : closedOnX tree PairReach.c9 = true := by decide +kernel
end ShipVerif.Pair.PairCert
