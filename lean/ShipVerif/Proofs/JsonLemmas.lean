/-
  JsonLemmas — helper lemmas for C07: behaviour of `rep` (bytes.ReplaceAll) on concatenations, the guard
  `good`, heads of renderings, and the four pass lemmas by mutual structural induction.
-/
import ShipVerif.Model.Json

namespace ShipVerif.Json

/-! ### the guard -/

def inertC (c : Char) : Bool := c != '[' && c != ']' && c != '{' && c != '}'
def inertL (a : List Char) : Bool := !a.isEmpty && a.all inertC

mutual
/-- no empty array; atoms and keys non-empty and free of brackets and braces -/
def good : J → Bool
  | .atom a => inertL a
  | .arr .nil => false
  | .arr (.cons x xs) => good x && goods xs
  | .obj ms => goodm ms
def goods : Js → Bool
  | .nil => true
  | .cons x xs => good x && goods xs
def goodm : Ms → Bool
  | .nil => true
  | .cons k v ms => inertL k && good v && goodm ms
end

/-! ### rep -/

theorem rep_skip (pat out : List Char) : ∀ (xs rest : List Char),
    rep pat out xs.length (xs ++ rest) = rep pat out 0 rest
  | [], rest => by cases rest <;> simp [rep]
  | x :: xs, rest => by simp [rep, rep_skip pat out xs rest]

theorem rep_nomatch {pat out : List Char} {c : Char} {cs : List Char}
    (h : pat.isPrefixOf (c :: cs) = false) : rep pat out 0 (c :: cs) = c :: rep pat out 0 cs := by
  simp [rep, h]

/-- a character that is not the first character of the pattern is copied -/
theorem rep_other {p : Char} {ps out : List Char} {c : Char} {cs : List Char} (h : c ≠ p) :
    rep (p :: ps) out 0 (c :: cs) = c :: rep (p :: ps) out 0 cs := by
  apply rep_nomatch
  simp [List.isPrefixOf]
  intro h2; exact absurd h2.symm h

theorem rep_block {p : Char} {ps out : List Char} : ∀ (a rest : List Char), (∀ c ∈ a, c ≠ p) →
    rep (p :: ps) out 0 (a ++ rest) = a ++ rep (p :: ps) out 0 rest
  | [], _, _ => rfl
  | c :: cs, rest, h => by
    have hc : c ≠ p := h c (by simp)
    have ih := rep_block (p := p) (ps := ps) (out := out) cs rest (fun d hd => h d (by simp [hd]))
    simp only [List.cons_append]
    rw [rep_other hc, ih]

theorem inertL_spec {a : List Char} (h : inertL a = true) :
    a ≠ [] ∧ ∀ c ∈ a, c ≠ '[' ∧ c ≠ ']' ∧ c ≠ '{' ∧ c ≠ '}' := by
  simp only [inertL, Bool.and_eq_true, Bool.not_eq_true', List.isEmpty_eq_false_iff, List.all_eq_true] at h
  refine ⟨h.1, ?_⟩
  intro c hc
  have := h.2 c hc
  simp only [inertC, Bool.and_eq_true, bne_iff_ne, ne_eq] at this
  exact ⟨this.1.1.1, this.1.1.2, this.1.2, this.2⟩

/-! ### heads of renderings -/

/-- in the wire style a good value starts with an inert character or `[` -/
theorem ren_wire_head : ∀ (x : J), good x = true → ∃ c t, ren wire x = c :: t ∧ c ≠ '{' ∧ c ≠ ']'
  | .atom a, h => by
    simp only [good] at h
    obtain ⟨hne, hall⟩ := inertL_spec h
    cases a with
    | nil => exact absurd rfl hne
    | cons c t =>
      have := hall c (by simp)
      exact ⟨c, t, by simp [ren], this.2.2.1, this.2.1⟩
  | .arr .nil, h => by simp [good] at h
  | .arr (.cons x xs), _ => ⟨'[', _, by rw [ren], by decide, by decide⟩
  | .obj .nil, _ => ⟨'[', [']'], by rw [ren]; rfl, by decide, by decide⟩
  | .obj (.cons k v ms), _ => ⟨'[', _, by rw [ren]; rfl, by decide, by decide⟩

/-- after the third pass a good value starts with an inert character, `[` or `{` -/
theorem ren_st3_head : ∀ (x : J), good x = true → ∃ c t, ren st3 x = c :: t ∧ c ≠ ']'
  | .atom a, h => by
    simp only [good] at h
    obtain ⟨hne, hall⟩ := inertL_spec h
    cases a with
    | nil => exact absurd rfl hne
    | cons c t =>
      have := hall c (by simp)
      exact ⟨c, t, by simp [ren], this.2.1⟩
  | .arr .nil, h => by simp [good] at h
  | .arr (.cons x xs), _ => ⟨'[', _, by rw [ren], by decide⟩
  | .obj .nil, _ => ⟨'[', [']'], by rw [ren]; rfl, by decide⟩
  | .obj (.cons k v ms), _ => ⟨'{', _, by rw [ren]; rfl, by decide⟩

end ShipVerif.Json
