/-
  ConnCert.Defs — the Bool-valued closure check whose truth the shard modules establish by kernel
  evaluation (`decide +kernel`; no `native_decide`).
-/
import ShipVerif.Generated.ConnReach

namespace ShipVerif.Conn
open ShipVerif.Generated

/-- membership in the certified set of product states -/
def inR (s : PS) : Bool := ConnReach.tree.find s.enc

/-- the state with code `k` steps, on every (normalised) input, into the set with all checks passing -/
def certBody (k : Nat) : Bool :=
  let s := PS.dec k
  allInp fun x =>
    let r := stepPS okAll s x
    inR r.1 && r.2 && (r.1.c.role == s.c.role)

def closedOn (t : CodeTree) : Bool := t.all certBody

def initCheck : Bool := inR (PS.init .client) && inR (PS.init .server)

end ShipVerif.Conn
