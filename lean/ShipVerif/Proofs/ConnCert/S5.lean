import ShipVerif.Proofs.ConnCert.Defs
namespace ShipVerif.Conn
theorem cert_c5 : closedOn Generated.ConnReach.c5 = true := by decide +kernel
end ShipVerif.Conn
