import ShipVerif.Proofs.ConnCert.Defs
namespace ShipVerif.Conn
theorem cert_c3 : closedOn Generated.ConnReach.c3 = true := by decide +kernel
end ShipVerif.Conn
