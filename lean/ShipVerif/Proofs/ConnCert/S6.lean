import ShipVerif.Proofs.ConnCert.Defs
namespace ShipVerif.Conn
theorem cert_c6 : closedOn Generated.ConnReach.c6 = true := by decide +kernel
end ShipVerif.Conn
