import ShipVerif.Proofs.ConnCert.Defs
namespace ShipVerif.Conn
theorem cert_c7 : closedOn Generated.ConnReach.c7 = true := by decide +kernel
end ShipVerif.Conn
