import ShipVerif.Proofs.ConnCert.Defs
namespace ShipVerif.Conn
theorem cert_c2 : closedOn Generated.ConnReach.c2 = true := by decide +kernel
end ShipVerif.Conn
