import ShipVerif.Proofs.ConnCert.Defs
namespace ShipVerif.Conn
theorem cert_c1 : closedOn Generated.ConnReach.c1 = true := by decide +kernel
end ShipVerif.Conn
