import ShipVerif.Proofs.ConnCert.Defs
namespace ShipVerif.Conn
theorem cert_c4 : closedOn Generated.ConnReach.c4 = true := by decide +kernel
end ShipVerif.Conn
