import ShipVerif.Proofs.ConnCert.Defs
namespace ShipVerif.Conn
open ShipVerif.Generated
theorem cert_top : (certBody ConnReach.k0 && certBody ConnReach.k1 && certBody ConnReach.k2 && certBody ConnReach.k3
    && certBody ConnReach.k4 && certBody ConnReach.k5 && certBody ConnReach.k6) = true := by decide +kernel
theorem initCheck_ok : initCheck = true := by decide +kernel
end ShipVerif.Conn
