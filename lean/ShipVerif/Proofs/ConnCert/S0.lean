import ShipVerif.Proofs.ConnCert.Defs
namespace ShipVerif.Conn
theorem cert_c0 : closedOn Generated.ConnReach.c0 = true := by decide +kernel
end ShipVerif.Conn
