/-
  ConnTrace — from the certificate to statements about whole runs:
  * `runTags`: the tag sequence the control skeleton shows for a list of abstract inputs;
  * `cert_run`: every monitor check holds on `runTags` for every input list and both roles;
  * the concrete executable model `stepC` (payloads, ids, codes) shows an expansion of those tags on
    which the monitors give the same verdicts (`concrete_ok`).
-/
import ShipVerif.Proofs.ConnCert
import ShipVerif.Model.ConnData

namespace ShipVerif.Conn

/-! ### monitor algebra -/

theorem monRun_append (ok : Mon → Tag → Bool) (m : Mon) (a b : List Tag) :
    monRun ok m (a ++ b) =
      ((monRun ok (monRun ok m a).1 b).1, (monRun ok m a).2 && (monRun ok (monRun ok m a).1 b).2) := by
  induction a generalizing m with
  | nil => simp [monRun]
  | cons t ts ih => simp [monRun, ih, Bool.and_assoc]

theorem monRun_state (ok ok' : Mon → Tag → Bool) (m : Mon) (ts : List Tag) :
    (monRun ok m ts).1 = (monRun ok' m ts).1 := by
  induction ts generalizing m with
  | nil => rfl
  | cons t ts ih => simp [monRun, ih]

/-- a check that is implied pointwise is implied on runs -/
theorem monRun_mono {ok ok' : Mon → Tag → Bool} (h : ∀ m t, ok m t = true → ok' m t = true)
    (m : Mon) (ts : List Tag) : (monRun ok m ts).2 = true → (monRun ok' m ts).2 = true := by
  induction ts generalizing m with
  | nil => intro _; rfl
  | cons t ts ih =>
    simp only [monRun, Bool.and_eq_true]
    intro ⟨h1, h2⟩
    exact ⟨h _ _ h1, ih _ h2⟩

/-! ### abstract runs -/

/-- tags of a run of the control skeleton; events the environment cannot produce are skipped -/
def runTags : Ctl → List Inp → List Tag
  | _, [] => []
  | c, x :: xs =>
    if !envEnabled c x.i then runTags c xs
    else (stepTags c x).2 ++ runTags (stepTags c x).1 xs

/-- control state after a run -/
def runCtl : Ctl → List Inp → Ctl
  | c, [] => c
  | c, x :: xs => if !envEnabled c x.i then runCtl c xs else runCtl (stepTags c x).1 xs

theorem runPS_spec (r : Role) (s : PS) (hs : inR s = true) (hr : s.c.role = r) (xs : List Inp) :
    monRun (okAll r) s.m (runTags s.c xs) = ((runPS okAll s xs).1.m, (runPS okAll s xs).2)
    ∧ (runPS okAll s xs).1.c = runCtl s.c xs := by
  induction xs generalizing s with
  | nil => simp [runTags, runPS, monRun, runCtl]
  | cons x xs ih =>
    have hstep := inR_step hs x
    by_cases he : envEnabled s.c x.i = true
    · have hs' : stepPS okAll s x =
          ({ c := (stepTags s.c x).1, m := (monRun (okAll s.c.role) s.m (stepTags s.c x).2).1 },
           (monRun (okAll s.c.role) s.m (stepTags s.c x).2).2) := by
        simp [stepPS, he]
      have ih' := ih (stepPS okAll s x).1 hstep.1 (by rw [hstep.2.2, hr])
      rw [hs'] at ih'
      simp only [runTags, runCtl, he, Bool.not_true, Bool.false_eq_true, if_false, runPS, monRun_append]
      rw [hs']
      subst hr
      simp only at ih' ⊢
      exact ⟨by rw [ih'.1], ih'.2⟩
    · have he' : envEnabled s.c x.i = false := by simpa using he
      have hs' : stepPS okAll s x = (s, true) := by simp [stepPS, he']
      have ih' := ih s hs hr
      simp only [runTags, runCtl, he', Bool.not_false, if_true, runPS, hs', Bool.true_and]
      exact ih'

/-- **Certificate, lifted**: on every run of the control skeleton, from the initial state of either
    role, all monitor checks hold on every tag. -/
theorem cert_run (r : Role) (xs : List Inp) :
    (monRun (okAll r) (Mon.init r) (runTags (Ctl.init r) xs)).2 = true := by
  have h := runPS_spec r (PS.init r) (inR_init r) rfl xs
  have h2 := runPS_all (inR_init r) xs
  have : (PS.init r).m = Mon.init r := rfl
  rw [this] at h
  have : (PS.init r).c = Ctl.init r := rfl
  rw [this] at h
  rw [h.1]
  exact h2.2

/-! ### concrete runs -/

def obsTags (obs : List Obs) : List Tag := obs.map fun o => .act o.act

/-- a check that cannot tell a flushed payload from a directly delivered one, and that accepts the
    silent actions -/
structure Insensitive (ok : Mon → Tag → Bool) : Prop where
  flush : ∀ m, ok m (.act .deliverBuffered) = true → ok m (.act .deliver) = true
  silentBuffer : ∀ m, ok m (.act .buffer) = true
  silentDrop : ∀ m, ok m (.act .dropData) = true

theorem monNext_deliver (m : Mon) : monNext m (.act .deliver) = m := rfl
theorem monNext_flush (m : Mon) : monNext m (.act .deliverBuffered) = m := rfl
theorem monNext_buffer (m : Mon) : monNext m (.act .buffer) = m := rfl
theorem monNext_drop (m : Mon) : monNext m (.act .dropData) = m := rfl

theorem monRun_delivers (ok : Mon → Tag → Bool) (m : Mon) (h : ok m (.act .deliver) = true)
    (ps : List String) :
    monRun ok m (obsTags (ps.map fun p => ({ act := .deliver, data := p } : Obs))) = (m, true) := by
  induction ps with
  | nil => rfl
  | cons p ps ih =>
    simp only [obsTags, List.map_cons, List.map_map] at ih ⊢
    simp only [monRun, monNext_deliver, h, Bool.true_and]
    exact ih

/-- the observations `interp1` produces for one action are judged like the action itself -/
theorem interp1_ok {ok : Mon → Tag → Bool} (hi : Insensitive ok) (ev : CEv) (d : Data) (a : Act) (m : Mon)
    (h : ok m (.act a) = true) :
    monRun ok m (obsTags (interp1 ev d a).2) = (monNext m (.act a), true) := by
  cases a with
  | deliverBuffered =>
    simp only [interp1, monNext_flush]
    exact monRun_delivers ok m (hi.flush m h) d.buffer
  | buffer => simp [interp1, obsTags, monRun, monNext_buffer]
  | dropData => simp [interp1, obsTags, monRun, monNext_drop]
  | sent f => cases f <;> simp [interp1, obsTags, monRun, h]
  | report s e => simp [interp1, obsTags, monRun, h]
  | q k ans => simp [interp1, obsTags, monRun, h]
  | setup => simp [interp1, obsTags, monRun, h]
  | shipId => simp [interp1, obsTags, monRun, h]
  | deliver => simp [interp1, obsTags, monRun, h]
  | wsClose k r => simp [interp1, obsTags, monRun, h]
  | closedCb e => simp [interp1, obsTags, monRun, h]

theorem interp_ok {ok : Mon → Tag → Bool} (hi : Insensitive ok) (ev : CEv) (d : Data) (acts : List Act)
    (m : Mon) (h : (monRun ok m (acts.map .act)).2 = true) :
    monRun ok m (obsTags (interp ev d acts).2) = ((monRun ok m (acts.map .act)).1, true) := by
  induction acts generalizing d m with
  | nil => rfl
  | cons a as ih =>
    simp only [List.map_cons, monRun, Bool.and_eq_true] at h
    have h1 := interp1_ok hi ev d a m h.1
    simp only [interp, obsTags, List.map_append]
    have := monRun_append ok m ((interp1 ev d a).2.map fun o => Tag.act o.act)
      ((interp ev (interp1 ev d a).1 as).2.map fun o => Tag.act o.act)
    rw [this]
    simp only [obsTags] at h1 ih
    rw [h1]
    simp only [Bool.true_and, List.map_cons, monRun]
    exact ih (interp1 ev d a).1 (monNext m (.act a)) h.2

/-- tags of one concrete step: event kind, observations, snapshot -/
def stepCTags (s : CS) (x : CEvX) : List Tag :=
  let r := stepC s x
  .ev (cls s x.ev).kind :: (obsTags r.2 ++
    [.snap r.1.c.trun r.1.c.wsClosed (!r.1.c.pendRej && !r.1.c.pendGrace)])

/-- tags of a concrete run (environment-disabled events are skipped, as the harness never issues them) -/
def runCTags : CS → List CEvX → List Tag
  | _, [] => []
  | s, x :: xs =>
    if !envEnabled s.c (cls s x.ev) then runCTags s xs
    else stepCTags s x ++ runCTags (stepC s x).1 xs

/-- the abstract inputs a concrete run induces -/
def absInputs : CS → List CEvX → List Inp
  | _, [] => []
  | s, x :: xs =>
    { i := cls s x.ev, env := x.env, fail := x.fail } ::
      (if !envEnabled s.c (cls s x.ev) then absInputs s xs else absInputs (stepC s x).1 xs)

theorem stepC_ctl (s : CS) (x : CEvX) :
    (stepC s x).1.c = (stepCtl s.c { i := cls s x.ev, env := x.env, fail := x.fail }).1 := rfl

/-- the monitors give on a concrete run the verdict they give on the induced abstract run -/
theorem concrete_ok {ok : Mon → Tag → Bool} (hi : Insensitive ok) (s : CS) (xs : List CEvX) (m : Mon)
    (h : (monRun ok m (runTags s.c (absInputs s xs))).2 = true) :
    monRun ok m (runCTags s xs) = ((monRun ok m (runTags s.c (absInputs s xs))).1, true) := by
  induction xs generalizing s m with
  | nil => rfl
  | cons x xs ih =>
    by_cases he : envEnabled s.c (cls s x.ev) = true
    · simp only [absInputs, runTags, he, Bool.not_true, Bool.false_eq_true, if_false, runCTags] at h ⊢
      rw [monRun_append] at h ⊢
      simp only [Bool.and_eq_true] at h
      -- one step
      have hstep : monRun ok m (stepCTags s x) =
          ((monRun ok m (stepTags s.c { i := cls s x.ev, env := x.env, fail := x.fail }).2).1, true) := by
        have h1 := h.1
        simp only [stepTags, monRun, Bool.and_eq_true, ] at h1 ⊢
        rw [monRun_append] at h1
        simp only [Bool.and_eq_true] at h1
        simp only [stepCTags, monRun, h1.1, Bool.true_and]
        rw [monRun_append]
        have hin := interp_ok hi x.ev s.d (stepCtl s.c { i := cls s x.ev, env := x.env, fail := x.fail }).2
          (monNext m (.ev (cls s x.ev).kind)) h1.2.1
        have hobs : (stepC s x).2 = (interp x.ev s.d (stepCtl s.c { i := cls s x.ev, env := x.env, fail := x.fail }).2).2 := rfl
        rw [hobs, hin, monRun_append]
        simp only [Bool.true_and, stepC_ctl]
        have h2 := h1.2.2
        simp only [monRun, Bool.and_true] at h2 ⊢
        simp [h2]
      rw [hstep]
      have hc : (stepC s x).1.c = (stepTags s.c { i := cls s x.ev, env := x.env, fail := x.fail }).1 := rfl
      have ih' := ih (stepC s x).1 _ (by rw [hc]; exact h.2)
      rw [ih', hc]
      simp [monRun_append]
    · have he' : envEnabled s.c (cls s x.ev) = false := by simpa using he
      simp only [absInputs, runTags, he', Bool.not_false, if_true, runCTags] at h ⊢
      exact ih s m h

end ShipVerif.Conn
