/-
  C03, second half — the two sides never disagree for good even when a timer runs out prematurely.

  Certificate `Proofs/PairCertArb` (13 853 states, 256 shards; built in the thorough tier only): every trust and
  SHIP-id configuration, every event list in which at most ONE timer expiry comes while other things could still
  happen (expiries that come when nothing else can happen are not limited).  With an unbounded number of premature
  expiries the streams grow without bound (each expiry of a pending server sends another prolongation request), so
  no finite certificate exists for that; this theorem is therefore named `…_one_premature_expiry`.
-/
import ShipVerif.Proofs.PairCertArb
import ShipVerif.Props.C03

namespace ShipVerif.Pair
open ShipVerif.Conn

/-- **C03 (agreement under a premature timer expiry)**: whenever nothing more can happen, both sides are completed on
    an open connection or both have closed it; nobody is set up twice, nobody completes without trust -/
theorem C03_agreement_one_premature_expiry (e : Env) (rc rs : IdRel) (evs : List PEv)
    (hq : quiescentX (runX (PX.init 1 e rc rs) evs) = true) :
    (bothCompleted (runX (PX.init 1 e rc rs) evs) = true ∨ bothEnded (runX (PX.init 1 e rc rs) evs) = true) ∧
    alwaysOk (runX (PX.init 1 e rc rs) evs) = true := by
  have h := PairCertArb.facts 1 (by simp [PairCertArb.budgets]) e rc rs evs
  simp only [propsOk, Bool.and_eq_true, hq] at h
  have h2 := h.2
  simp only [settledOk, Bool.and_eq_true, Bool.or_eq_true] at h2
  exact ⟨h2.1.1, h.1⟩

end ShipVerif.Pair
