/-
  C08 — no peer-controlled input can crash or wedge the process.

  What is proved here:
  * `all_sites_justified`: every partial operation (index, slice, pointer dereference, unchecked type assertion,
    integer division, channel send / close, field-map write, explicit panic) that the regenerated inventory
    `Generated.panicSites` finds in packages ship, ws, mdns, util and hub is either dominated by a condition that
    makes it safe, or is one of the listed waivers (each naming the theorem or source fact it rests on);
  * `below_sound`, `atMost_sound`, `C08_guarded_sites_safe`: "dominated by a condition that makes it safe" means
    safe for every value of the lengths, integers and pointers involved;
  * `once_bodies_reentry_free`: no `sync.Once` body reaches, by static calls inside its package, a function that
    runs the same once again (the receive loop would block forever inside `Do`).
  The handlers themselves are total functions in the Conn / Ws / Mdns / Json models; the engines feed malformed and
  out-of-phase input in every state to the real code and compare.
-/
import ShipVerif.Generated.PanicFacts

namespace ShipVerif.Panic

/-- soundness of `G.below`: a condition accepted by it really forces the index below the length -/
theorem below_sound (g : G) (x : String) (i : Idx) (hb : g.below x i = true) (e : Env) (hg : g.holds e) :
    i.eval e < e.len x := by
  cases g with
  | len y c k neg =>
    cases k with
    | lit n =>
      cases i with
      | lit k =>
        simp only [G.below, Bool.and_eq_true, beq_iff_eq] at hb
        obtain ⟨hy, hb⟩ := hb
        subst hy
        cases c <;> cases neg <;> simp [G.holds, Cmp.holds, Idx.eval] at hb hg ⊢ <;> omega
      | var w => simp [G.below] at hb
    | var v =>
      cases i with
      | lit k => simp [G.below] at hb
      | var w =>
        simp only [G.below, Bool.and_eq_true, beq_iff_eq] at hb
        obtain ⟨⟨hy, hv⟩, hb⟩ := hb
        subst hy; subst hv
        cases c <;> cases neg <;> simp [G.holds, Cmp.holds, Idx.eval] at hb hg ⊢ <;> omega
  | _ => simp [G.below] at hb

theorem atMost_sound (g : G) (x : String) (i : Idx) (hb : g.atMost x i = true) (e : Env) (hg : g.holds e) :
    i.eval e ≤ e.len x := by
  unfold G.atMost at hb
  rw [Bool.or_eq_true] at hb
  rcases hb with h1 | h2
  · exact Nat.le_of_lt (below_sound g x i h1 e hg)
  · cases g with
    | len y c k neg =>
      cases k with
      | lit n =>
        cases i with
        | lit k =>
          simp only [Bool.and_eq_true, beq_iff_eq] at h2
          obtain ⟨hy, h2⟩ := h2
          subst hy
          cases c <;> cases neg <;> simp [G.holds, Cmp.holds, Idx.eval] at h2 hg ⊢ <;> omega
        | var w => simp at h2
      | var v =>
        cases i with
        | lit k => simp at h2
        | var w =>
          simp only [Bool.and_eq_true, beq_iff_eq] at h2
          obtain ⟨⟨hy, hv⟩, h2⟩ := h2
          subst hy; subst hv
          cases c <;> cases neg <;> simp [G.holds, Cmp.holds, Idx.eval] at h2 hg ⊢ <;> omega
    | _ => simp at h2


def boundProp (e : Env) (x : String) : Option Idx → Prop
  | some i => i.eval e ≤ e.len x
  | none => True

/-- what "safe" means for an operation, in an environment -/
def Op.safe (e : Env) : Op → Prop
  | .index x i => i.eval e < e.len x
  | .slice x lo hi => boundProp e x lo ∧ boundProp e x hi
  | .deref p => e.isNil p = false
  | .fieldptr p => e.isNil p = false
  | _ => True

theorem boundOk_sound (gs : List G) (x : String) (b : Option Idx) (hb : boundOk gs x b = true) (e : Env)
    (hg : ∀ g ∈ gs, g.holds e) : boundProp e x b := by
  cases b with
  | none => trivial
  | some i =>
    show i.eval e ≤ e.len x
    unfold boundOk at hb
    split at hb
    · cases ‹some i = none›
    · next h => cases h; simp [Idx.eval]
    · next j _ h =>
      cases h
      rw [List.any_eq_true] at hb
      obtain ⟨g, hgm, hga⟩ := hb
      exact atMost_sound g x _ hga e (hg g hgm)

/-- the index / slice / dereference sites that are justified by their dominating conditions (not by a range loop, a
    type switch or a waiver) are safe whatever the values are, as long as the conditions hold -/
theorem C08_guarded_sites_safe (s : Site) (e : Env) (hg : ∀ g ∈ s.guards, g.holds e) :
    (∀ x i, s.op = .index x i → s.guards.any (·.below x i) = true → s.op.safe e) ∧
    (∀ x lo hi, s.op = .slice x lo hi → boundOk s.guards x lo = true → boundOk s.guards x hi = true → s.op.safe e) ∧
    (∀ p, s.op = .deref p ∨ s.op = .fieldptr p → s.guards.any (· == .nil p false) = true → s.op.safe e) := by
  refine ⟨?_, ?_, ?_⟩
  · intro x i ho hb
    rw [ho]
    rw [List.any_eq_true] at hb
    obtain ⟨g, hgm, hgb⟩ := hb
    exact below_sound g x i hgb e (hg g hgm)
  · intro x lo hi ho hl hh
    rw [ho]
    exact ⟨boundOk_sound s.guards x lo hl e hg, boundOk_sound s.guards x hi hh e hg⟩
  · intro p ho hb
    rw [List.any_eq_true] at hb
    obtain ⟨g, hgm, hge⟩ := hb
    have : g = .nil p false := by simpa using hge
    have h := hg g hgm
    rw [this] at h
    rcases ho with ho | ho <;> rw [ho] <;> exact h

/-- **C08 (inventory)**: every partial operation in the current source is justified -/
theorem all_sites_justified : Generated.panicSites.all Site.justified = true := by decide +kernel

/-- **C08 (no wedge by once re-entry)** -/
theorem once_bodies_reentry_free : Generated.onceBodies.all OnceBody.reentryFree = true := by decide +kernel

/-- non-vacuity: the inventory is not empty, it contains guarded sites of each kind, and an unguarded index is rejected -/
example : Generated.panicSites.length ≥ 30 ∧ Generated.onceBodies.length ≥ 3 := by decide +kernel
example : (Generated.panicSites.filter fun s => !s.waived).length ≥ 20 := by decide +kernel
example : ({ pkg := "ship", fn := "f", text := "msg[0]", op := .index "msg" (.lit 0), guards := [] } : Site).justified = false := by decide
example : ({ pkg := "ship", fn := "f", text := "msg[2]", op := .index "msg" (.lit 2), guards := [.len "msg" .gt (.lit 1) false] } : Site).justified = false := by decide
example : ({ pkg := "ship", fn := "f", text := "msg[2]", op := .index "msg" (.lit 2), guards := [.len "msg" .gt (.lit 2) false] } : Site).justified = true := by decide
example : ({ pkg := "ship", fn := "f", once := "o", callees := ["a", "f"], doers := ["f"] } : OnceBody).reentryFree = false := by decide

end ShipVerif.Panic
