/-
  C11 (notifications end consistent with reality): for every history of connections to one SKI - successive ones,
  doubled ones that replace each other, ends by any cause - the application's last notification is "set up" exactly
  when a completed connection is registered.
-/
import ShipVerif.Model.Life
import ShipVerif.Generated.LifeFacts

namespace ShipVerif.Life

def regList : Option Nat → List Nat
  | some c => [c]
  | none => []

structure LInv (s : S) : Prop where
  one : s.alive = regList s.reg
  sub : ∀ c ∈ s.completed, c ∈ s.alive
  cons : consistent s
  fresh : ∀ c ∈ s.alive, c < s.next

theorem linv_init : LInv ({} : S) where
  one := rfl
  sub := by intro c h; cases h
  cons := by
    constructor
    · intro h; cases h
    · rintro ⟨c, hc, _⟩; cases hc
  fresh := by intro c h; cases h

theorem alive_of_reg {s : S} (h : LInv s) {c : Nat} (hr : s.reg = some c) : s.alive = [c] := by rw [h.one, hr]; rfl
theorem alive_of_none {s : S} (h : LInv s) (hr : s.reg = none) : s.alive = [] := by rw [h.one, hr]; rfl

theorem completed_sub {s : S} (h : LInv s) {c : Nat} (hr : s.reg = some c) : ∀ x ∈ s.completed, x = c := by
  intro x hx
  have := h.sub x hx
  rw [alive_of_reg h hr] at this
  exact List.mem_singleton.mp this

theorem filter_ne_completed {s : S} (h : LInv s) {c : Nat} (hr : s.reg = some c) : s.completed.filter (· != c) = [] := by
  apply List.filter_eq_nil_iff.mpr
  intro x hx
  simp [completed_sub h hr x hx]

theorem endConn_reg (s : S) (c : Nat) (h : LInv s) (hr : s.reg = some c) : LInv (endConn s c) := by
  have ha := alive_of_reg h hr
  have hf := filter_ne_completed h hr
  have he : endConn s c = { s with alive := [], completed := [], reg := none, last := some .disconnected } := by
    simp [endConn, ha, hf, hr]
  rw [he]
  refine ⟨rfl, ?_, ?_, ?_⟩
  · intro x hx; cases hx
  · constructor
    · intro hh; cases hh
    · rintro ⟨x, hx, _⟩; cases hx
  · intro x hx; cases hx

theorem endConn_other (s : S) (c : Nat) (h : LInv s) (hr : s.reg ≠ some c) : endConn s c = s := by
  have hn : s.alive.contains c = false := by
    cases hreg : s.reg with
    | none => rw [alive_of_none h hreg]; rfl
    | some d =>
      rw [alive_of_reg h hreg]
      have : c ≠ d := by intro hcd; apply hr; rw [hreg, hcd]
      simp [this]
  simp only [endConn, hn, Bool.false_eq_true, if_false]

theorem linv_step {s : S} (h : LInv s) (a : Act) : LInv (step Cfg.fixed s a) := by
  cases a with
  | connect =>
    simp only [step]
    cases hr : s.reg with
    | some d => simp only; exact h
    | none =>
      have ha := alive_of_none h hr
      have hc : s.completed = [] := by
        cases hcc : s.completed with
        | nil => rfl
        | cons x t => have := h.sub x (by rw [hcc]; exact List.mem_cons_self); rw [ha] at this; cases this
      simp only
      refine ⟨?_, ?_, ?_, ?_⟩
      · simp [regList, ha]
      · intro c hcm; rw [hc] at hcm; cases hcm
      · constructor
        · intro hl
          obtain ⟨c, hcr, _⟩ := h.cons.mp hl
          rw [hr] at hcr; cases hcr
        · rintro ⟨c, _, hcm⟩; simp only at hcm; rw [hc] at hcm; cases hcm
      · intro c hcm; simp only [ha, List.mem_cons, List.not_mem_nil, or_false] at hcm; rw [hcm]; exact Nat.lt_succ_self _
  | replace =>
    simp only [step, Cfg.fixed, if_true]
    cases hr : s.reg with
    | none => simp only; exact h
    | some old =>
      have ha := alive_of_reg h hr
      have hf := filter_ne_completed h hr
      simp only [ha, hf]
      have hfa : List.filter (fun x => x != old) [old] = [] := by simp
      rw [hfa]
      refine ⟨rfl, ?_, ?_, ?_⟩
      · intro x hx; cases hx
      · constructor
        · intro hh; cases hh
        · rintro ⟨x, _, hxm⟩; cases hxm
      · intro x hx; rw [List.mem_singleton.mp hx]; exact Nat.lt_succ_self _
  | complete c =>
    simp only [step]
    split
    · next hc =>
      simp only [Bool.and_eq_true, Bool.not_eq_true'] at hc
      have hca : c ∈ s.alive := by simpa using hc.1
      have hreg : s.reg = some c := by
        cases hr : s.reg with
        | none => rw [alive_of_none h hr] at hca; cases hca
        | some d => rw [alive_of_reg h hr] at hca; rw [List.mem_singleton.mp hca]
      refine ⟨h.one, ?_, ?_, h.fresh⟩
      · intro x hx; rcases List.mem_cons.mp hx with rfl | hx
        · exact hca
        · exact h.sub x hx
      · constructor
        · intro _; exact ⟨c, hreg, List.mem_cons_self⟩
        · intro _; rfl
    · exact h
  | ending c =>
    simp only [step]
    by_cases hr : s.reg = some c
    · exact endConn_reg s c h hr
    · rw [endConn_other s c h hr]; exact h

theorem linv_run (acts : List Act) : LInv (run Cfg.fixed acts) := by
  unfold run
  suffices ∀ s, LInv s → LInv (acts.foldl (step Cfg.fixed) s) from this _ linv_init
  induction acts with
  | nil => intro s h; exact h
  | cons a rest ih => intro s h; exact ih _ (linv_step h a)

theorem lifeCfg_is_fixed : Generated.lifeCfg = Cfg.fixed := by decide

/-- **C11 (the notifications end consistent with reality)**: after every history the application's last notification for
    the SKI is "set up" exactly when a completed connection is registered. -/
theorem C11_notifications_consistent (acts : List Act) : consistent (run Generated.lifeCfg acts) := by
  rw [lifeCfg_is_fixed]; exact (linv_run acts).cons

/-- an older connection that is ended with a delay reports its end after the newer one's setup: the application is left
    with "disconnected" while a completed connection is registered -/
theorem C11_delayed_end_of_older_connection :
    let s := run { closeOldNow := false } [.connect, .complete 0, .replace, .complete 1, .ending 0]
    s.last = some .disconnected ∧ s.reg = some 1 ∧ 1 ∈ s.completed := by decide

example : (run Cfg.fixed [.connect, .complete 0, .replace, .complete 1, .ending 0]).last = some .setup := by decide

end ShipVerif.Life
