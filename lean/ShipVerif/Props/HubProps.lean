/-
  Hub properties (C10, C11 hub part, C15 operations, C18) over the sequential hub model.
-/
import ShipVerif.Model.Hub
import ShipVerif.Props.C15

namespace ShipVerif.Hub
open ShipVerif.Ski (Str normalize)

/-! ### C15: every operation sees only the normal form of the SKI it is given -/

/-- **C15 (operations)**: two spellings of one SKI have exactly the same effect and the same
    observations, for every operation and in every hub state. -/
theorem C15_op_invariant (h : H) (s t : Str) (hst : normalize s = normalize t) :
    step h (.register s) = step h (.register t) ∧ step h (.unregister s) = step h (.unregister t) ∧
    step h (.cancel s) = step h (.cancel t) ∧ step h (.disconnect s) = step h (.disconnect t) ∧
    step h (.pairingDetail s) = step h (.pairingDetail t) ∧ step h (.lookup s) = step h (.lookup t) := by
  simp only [step, hst, and_self]

/-- in particular for the variants of C15: case changes, inserted spaces and dashes -/
theorem C15_variant_invariant (h : H) (s t : Str) (hv : ShipVerif.Ski.Variant s t) :
    step h (.unregister s) = step h (.unregister t) ∧ step h (.disconnect s) = step h (.disconnect t) ∧
    step h (.cancel s) = step h (.cancel t) :=
  let e := C15_op_invariant h s t (ShipVerif.Ski.normalize_variant hv)
  ⟨e.2.1, e.2.2.2.1, e.2.2.1⟩

/-! ### get / set -/

def getL (l : List (Key × Per)) (k : Key) : Per := ((l.find? (·.1 = k)).map (·.2)).getD {}
def updL (l : List (Key × Per)) (k : Key) (p : Per) : List (Key × Per) :=
  l.map fun q => if q.1 = k then (k, p) else q

theorem getL_updL_same : ∀ (l : List (Key × Per)) (k : Key) (p : Per), l.any (·.1 = k) = true → getL (updL l k p) k = p
  | [], _, _, h => by simp at h
  | q :: qs, k, p, h => by
    by_cases hq : q.1 = k
    · simp [getL, updL, hq]
    · have hq' : decide (q.1 = k) = false := by simpa using hq
      simp only [List.any_cons, hq', Bool.false_or] at h
      have ih := getL_updL_same qs k p h
      simp only [getL, updL, List.map_cons, hq, if_false, List.find?_cons, hq'] at ih ⊢
      exact ih

theorem getL_updL_other : ∀ (l : List (Key × Per)) (k k' : Key) (p : Per), k' ≠ k → getL (updL l k p) k' = getL l k'
  | [], _, _, _, _ => rfl
  | q :: qs, k, k', p, hne => by
    have ih := getL_updL_other qs k k' p hne
    by_cases hq : q.1 = k
    · have h1 : decide (k = k') = false := by simp; exact fun e => hne e.symm
      have h2 : decide (q.1 = k') = false := by simp; rw [hq]; exact fun e => hne e.symm
      simp only [getL, updL, List.map_cons, hq, if_true, List.find?_cons, h1, h2] at ih ⊢
      exact ih
    · by_cases hqk : q.1 = k'
      · have h3 : decide (q.1 = k') = true := by simpa using hqk
        simp only [getL, updL, List.map_cons, hq, if_false, List.find?_cons, h3]
      · have h2 : decide (q.1 = k') = false := by simpa using hqk
        simp only [getL, updL, List.map_cons, hq, if_false, List.find?_cons, h2] at ih ⊢
        exact ih

theorem getL_append_none (l : List (Key × Per)) (k : Key) (p : Per) (h : l.any (·.1 = k) = false) :
    getL (l ++ [(k, p)]) k = p := by
  have hn : l.find? (fun q => decide (q.1 = k)) = none := by
    rw [List.find?_eq_none]
    intro q hq
    have := List.any_eq_false.1 h q hq
    simpa using this
  simp [getL, List.find?_append, hn]

theorem getL_append_other (l : List (Key × Per)) (k k' : Key) (p : Per) (hne : k' ≠ k) :
    getL (l ++ [(k, p)]) k' = getL l k' := by
  have h1 : decide (k = k') = false := by simp; exact fun e => hne e.symm
  simp only [getL, List.find?_append]
  cases hf : l.find? (fun q => decide (q.1 = k')) with
  | some q => simp
  | none => simp [List.find?, h1]

theorem get_set_same (h : H) (k : Key) (p : Per) : (h.set k p).get k = p := by
  show getL (h.set k p).per k = p
  unfold H.set
  by_cases ha : h.per.any (·.1 = k) = true
  · simp only [ha, if_true]; exact getL_updL_same h.per k p ha
  · have ha' : h.per.any (·.1 = k) = false := by
      cases hx : h.per.any (·.1 = k) with
      | false => rfl
      | true => exact absurd hx ha
    simp only [ha', Bool.false_eq_true, if_false]; exact getL_append_none h.per k p ha'

theorem get_set_other (h : H) (k k' : Key) (p : Per) (hne : k' ≠ k) : (h.set k p).get k' = h.get k' := by
  show getL (h.set k p).per k' = getL h.per k'
  unfold H.set
  by_cases ha : h.per.any (·.1 = k) = true
  · simp only [ha, if_true]; exact getL_updL_other h.per k k' p hne
  · have ha' : h.per.any (·.1 = k) = false := by
      cases hx : h.per.any (·.1 = k) with
      | false => rfl
      | true => exact absurd hx ha
    simp only [ha', Bool.false_eq_true, if_false]; exact getL_append_other h.per k k' p hne

/-! ### structural facts -/

@[simp] theorem set_shut (h : H) (k : Key) (p : Per) : (h.set k p).shut = h.shut := by
  unfold H.set; split <;> rfl
@[simp] theorem set_queue (h : H) (k : Key) (p : Per) : (h.set k p).queue = h.queue := by
  unfold H.set; split <;> rfl
@[simp] theorem touch_shut (h : H) (k : Key) : (h.touch k).shut = h.shut := by
  unfold H.touch; split <;> simp
@[simp] theorem touch_queue (h : H) (k : Key) : (h.touch k).queue = h.queue := by
  unfold H.touch; split <;> simp

theorem get_touch (h : H) (k k' : Key) : (h.touch k).get k' = h.get k' := by
  unfold H.touch
  by_cases ha : h.per.any (·.1 = k) = true
  · simp [ha]
  · have ha' : h.per.any (·.1 = k) = false := by
      cases hx : h.per.any (·.1 = k) with
      | false => rfl
      | true => exact absurd hx ha
    simp only [ha', Bool.false_eq_true, if_false]
    by_cases hk : k' = k
    · subst hk
      rw [get_set_same]
      -- a missing record reads as the default record
      show ({} : Per) = getL h.per k'
      have hn : h.per.find? (fun q => decide (q.1 = k')) = none := by
        rw [List.find?_eq_none]
        intro q hq
        have := List.any_eq_false.1 ha' q hq
        simpa using this
      simp [getL, hn]
    · exact get_set_other h k k' {} hk

@[simp] theorem setDetailState_shut (h : H) (k : Key) (st : Nat) : (h.setDetailState k st).shut = h.shut := by
  simp [H.setDetailState]
@[simp] theorem notify_shut (h : H) (k : Key) (d : Bool) : (h.notify k d).shut = h.shut := by
  unfold H.notify; split <;> simp

/-! ### C10: dial only registered SKIs, never after Shutdown -/


theorem C10_task_guard (h : H) (k k' : Key) (c : Nat) (hd : Obs.dial k' ∈ (taskFire h k c).2) :
    k' = k ∧ ((h.get k).trusted = true ∨ (h.get k).detail.1 = csQueued) ∧ h.shut = false ∧
    (h.get k).conn = none ∧ (h.get k).counter = some c := by
  unfold taskFire at hd
  simp only [H.detail, get_set_same, Per.detail, set_shut] at hd
  by_cases hc : (h.get k).counter = some c
  · simp only [hc, ne_eq, not_true_eq_false, if_false] at hd
    by_cases ht : ((h.get k).trusted || decide ((h.get k).cur.1 = csQueued)) = true
    · simp only [ht, Bool.not_true, Bool.false_eq_true, if_false] at hd
      by_cases hs : ((h.get k).conn.isSome || h.shut) = true
      · simp [hs] at hd
      · simp only [hs, Bool.false_eq_true, if_false, List.mem_append, List.mem_singleton] at hd
        have hk : k' = k := by
          rcases hd with hd | hd
          · cases hd; rfl
          · unfold reannounce at hd
            split at hd
            · simp at hd
            · split at hd <;> simp at hd
        simp only [Bool.or_eq_true, decide_eq_true_eq] at ht
        simp only [Bool.or_eq_true, not_or, Bool.not_eq_true] at hs
        refine ⟨hk, ht, hs.2, ?_, hc⟩
        cases hcn : (h.get k).conn with
        | none => rfl
        | some x => simp [hcn] at hs
    · simp [ht] at hd
  · simp [hc] at hd

@[simp] theorem setConnSt_shut (h : H) (k : Key) (st : Nat) : (setConnSt h k st).shut = h.shut := by
  unfold setConnSt; split <;> simp
@[simp] theorem trustOnHelloOk_shut (h : H) (k : Key) (st : Nat) : (trustOnHelloOk h k st).shut = h.shut := by
  unfold trustOnHelloOk; split <;> simp
@[simp] theorem updateDetail_shut (h : H) (k : Key) (ps : Nat) (err : Bool) : (updateDetail h k ps err).shut = h.shut := by
  unfold updateDetail; split <;> simp
@[simp] theorem connUpdateH_shut (h : H) (k : Key) (st : Nat) (err : Bool) : (connUpdateH h k st err).shut = h.shut := by
  simp [connUpdateH]


theorem taskFire_shut (h : H) (k : Key) (c : Nat) (hs : h.shut = true) :
    (taskFire h k c).2 = [] ∧ (taskFire h k c).1.shut = true := by
  unfold taskFire
  simp only [set_shut, hs, Bool.or_true, if_true]
  split
  · exact ⟨rfl, by simp [hs]⟩
  · split <;> exact ⟨rfl, by simp [hs]⟩

theorem deliver_obs (all : Bool) : ∀ (fuel : Nat) (h : H) (acc : List Obs) (k : Key),
    Obs.dial k ∈ (deliver all fuel h acc).2 → Obs.dial k ∈ acc
  | 0, h, acc, k, hd => by simpa [deliver] using hd
  | fuel + 1, h, acc, k, hd => by
    unfold deliver at hd
    split at hd
    · exact hd
    · split at hd
      · exact hd
      · have := deliver_obs all fuel _ _ k hd
        simpa using this

theorem deliver_shut (all : Bool) : ∀ (fuel : Nat) (h : H) (acc : List Obs),
    (deliver all fuel h acc).1.shut = h.shut
  | 0, h, acc => rfl
  | fuel + 1, h, acc => by
    unfold deliver
    split
    · rfl
    · split
      · rfl
      · rw [deliver_shut all fuel]; simp

theorem taskFold_shut (k : Key) : ∀ (tasks : List Nat) (r : H × List Obs), r.1.shut = true →
    (tasks.foldl (taskFold k) r).2 = r.2 ∧ (tasks.foldl (taskFold k) r).1.shut = true
  | [], r, hr => ⟨rfl, hr⟩
  | c :: cs, r, hr => by
    have ht := taskFire_shut r.1 k c hr
    simp only [List.foldl_cons]
    have := taskFold_shut k cs (taskFold k r c) (by simp [taskFold, ht.2])
    rw [this.1]
    exact ⟨by simp [taskFold, ht.1], this.2⟩

theorem fireTasks_shut : ∀ (l : List (Key × Per)) (h : H) (acc : List Obs), h.shut = true →
    (fireTasks l h acc).2 = acc ∧ (fireTasks l h acc).1.shut = true
  | [], h, acc, hs => ⟨rfl, hs⟩
  | (k, _) :: rest, h, acc, hs => by
    unfold fireTasks
    have h0 := taskFold_shut k (h.get k).tasks (h.set k { h.get k with tasks := [] }, acc) (by simp [hs])
    have := fireTasks_shut rest _ ((h.get k).tasks.foldl (taskFold k) (h.set k { h.get k with tasks := [] }, acc)).2 h0.2
    rw [h0.1] at this ⊢
    exact this

theorem reportOne_shut (r : H × List Obs) (k : Key) (hr : r.1.shut = true) :
    (reportOne r k).2 = r.2 ∧ (reportOne r k).1.shut = true := by
  unfold reportOne
  simp only [touch_shut, hr, Bool.or_true, if_true]
  split
  · exact ⟨rfl, by simp [hr]⟩
  · split <;> exact ⟨rfl, by simp [hr]⟩

theorem reportFold_shut : ∀ (ks : List Key) (r : H × List Obs), r.1.shut = true →
    (ks.foldl reportOne r).2 = r.2 ∧ (ks.foldl reportOne r).1.shut = true
  | [], r, hr => ⟨rfl, hr⟩
  | k :: ks, r, hr => by
    have h1 := reportOne_shut r k hr
    have := reportFold_shut ks (reportOne r k) h1.2
    simp only [List.foldl_cons]
    rw [this.1, h1.1]
    exact ⟨rfl, this.2⟩
@[simp] theorem connClosedH_shut (h : H) (k : Key) (id : Nat) (e : Bool) : (connClosedH h k id e).shut = h.shut := by
  unfold connClosedH
  split
  · simp only; split <;> split <;> simp
  · simp

@[simp] theorem untrust_shut (h : H) (k : Key) : (untrust h k).shut = h.shut := by simp [untrust]
@[simp] theorem cancelConn_shut (h : H) (k : Key) : (cancelConn h k).1.shut = h.shut := by
  unfold cancelConn; split <;> simp
theorem cancelConn_no_dial (h : H) (k kd : Key) : Obs.dial kd ∉ (cancelConn h k).2 := by
  unfold cancelConn; split
  · simp only [List.mem_append, List.mem_cons, reduceCtorEq, List.mem_nil_iff, or_false, false_or]
    split <;> simp
  · simp

theorem reannounce_no_dial (h : H) (k : Key) : Obs.dial k ∉ reannounce h := by
  unfold reannounce; split
  · simp
  · split <;> simp

theorem C10_no_dial_after_shutdown (h : H) (hs : h.shut = true) (e : Ev) (k : Key) :
    Obs.dial k ∉ (step h e).2 ∧ (step h e).1.shut = true := by
  cases e with
  | start => simp [step, hs]
  | register s =>
    simp only [step]
    split
    · exact ⟨reannounce_no_dial _ k, by simp [hs]⟩
    · split
      · exact ⟨by simp, by simp [hs]⟩
      · exact ⟨by simp, by simp [hs]⟩
  | unregister s =>
    simp only [step]
    exact ⟨by split <;> simp, by simp [hs]⟩
  | disconnect s => simp only [step]; exact ⟨by split <;> simp, hs⟩
  | cancel s =>
    simp only [step]
    exact ⟨cancelConn_no_dial _ _ k, by simp [hs]⟩
  | pairingDetail s => simp only [step]; split <;> simp [hs]
  | lookup s => simp [step, hs]
  | setAuto b => simp [step, hs]
  | shutdown => simp [step]
  | report ks =>
    simp only [step]
    have := reportFold_shut ks (h, []) hs
    rw [this.1]
    exact ⟨by simp, this.2⟩
  | settle =>
    simp only [step]
    exact ⟨fun hd => by simpa using deliver_obs false _ _ _ k hd, by rw [deliver_shut]; exact hs⟩
  | tick =>
    simp only [step]
    have hf := fireTasks_shut h.per h [] hs
    constructor
    · intro hd
      have := deliver_obs true _ _ _ k hd
      rw [hf.1] at this
      simp at this
    · rw [deliver_shut]; exact hf.2
  | connected k' id st => simp [step, hs]
  | connSetState k' st => simp only [step]; split <;> simp [hs]
  | connUpdate k' st err =>
    simp only [step]
    exact ⟨by simp, by simp [hs]⟩
  | connClosed k' id hsEnd =>
    simp only [step]
    constructor
    · simp only [List.mem_append, List.mem_singleton, reduceCtorEq, false_or]
      split
      · simp
      · exact reannounce_no_dial _ k
    · rw [connClosedH_shut]; exact hs

theorem get_set (h : H) (k k' : Key) (p : Per) : (h.set k p).get k' = if k' = k then p else h.get k' := by
  by_cases hk : k' = k
  · subst hk; simp [get_set_same]
  · simp [hk, get_set_other h k k' p hk]

theorem taskFire_get (h : H) (k k' : Key) (c : Nat) :
    ((taskFire h k c).1.get k').trusted = (h.get k').trusted ∧ ((taskFire h k c).1.get k').detail = (h.get k').detail ∧
    ((taskFire h k c).1.get k').conn = (h.get k').conn := by
  unfold taskFire
  simp only
  split
  · simp only [get_set]; split <;> simp_all [Per.detail]
  · split
    · simp only [get_set]; split <;> simp_all [Per.detail]
    · split <;> (simp only [get_set]; split <;> simp_all [Per.detail])

/-- what the dial guard reads: the shut flag and, of the key, trust, pairing detail and connection -/
def core (h : H) (k : Key) : Bool × Bool × (Nat × Bool) × Option Conn :=
  (h.shut, (h.get k).trusted, (h.get k).detail, (h.get k).conn)

theorem taskFire_shut_eq (h : H) (k : Key) (c : Nat) : (taskFire h k c).1.shut = h.shut := by
  unfold taskFire; simp only; split
  · simp
  · split
    · simp
    · split <;> simp

theorem taskFire_core (h : H) (k k' : Key) (c : Nat) : core (taskFire h k c).1 k' = core h k' := by
  have := taskFire_get h k k' c
  simp only [core, this.1, this.2.1, this.2.2, taskFire_shut_eq]

theorem taskFold_core (k k' : Key) : ∀ (tasks : List Nat) (r : H × List Obs), core (tasks.foldl (taskFold k) r).1 k' = core r.1 k'
  | [], r => rfl
  | c :: cs, r => by
    simp only [List.foldl_cons]
    rw [taskFold_core k k' cs]
    simp only [taskFold]
    exact taskFire_core r.1 k k' c

theorem core_set_sched (h : H) (k k' : Key) (t : List Nat) (r : Bool) (c : Option Nat) :
    core (h.set k { h.get k with tasks := t, running := r, counter := c }) k' = core h k' := by
  simp only [core, get_set, set_shut]; split <;> simp_all [Per.detail]

theorem core_touch (h : H) (k k' : Key) : core (h.touch k) k' = core h k' := by
  simp only [core, get_touch, touch_shut]

/-- the guard, transferred to a state with the same core -/
theorem guard_transfer (h h' : H) (k kd : Key) (c : Nat) (hc : core h' kd = core h kd)
    (hd : Obs.dial kd ∈ (taskFire h' k c).2) :
    ((h.get kd).trusted = true ∨ (h.get kd).detail.1 = csQueued) ∧ h.shut = false := by
  obtain ⟨hk, ht, hsh, _, _⟩ := C10_task_guard h' k kd c hd
  subst hk
  simp only [core, Prod.mk.injEq] at hc
  rw [← hc.1, ← hc.2.1, ← hc.2.2.1]
  exact ⟨ht, hsh⟩

abbrev Intent (h : H) (kd : Key) : Prop :=
  ((h.get kd).trusted = true ∨ (h.get kd).detail.1 = csQueued) ∧ h.shut = false

theorem taskFold_dial (h0 : H) (k kd : Key) : ∀ (tasks : List Nat) (r : H × List Obs),
    core r.1 kd = core h0 kd → (Obs.dial kd ∈ r.2 → Intent h0 kd) →
    Obs.dial kd ∈ (tasks.foldl (taskFold k) r).2 → Intent h0 kd
  | [], r, _, ha, hd => ha hd
  | c :: cs, r, hc, ha, hd => by
    simp only [List.foldl_cons] at hd
    refine taskFold_dial h0 k kd cs (taskFold k r c) ?_ ?_ hd
    · simp only [taskFold]; rw [taskFire_core]; exact hc
    · intro hm
      simp only [taskFold, List.mem_append] at hm
      rcases hm with hm | hm
      · exact ha hm
      · exact guard_transfer h0 r.1 k kd c hc hm

theorem fireTasks_dial (h0 : H) (kd : Key) : ∀ (l : List (Key × Per)) (h : H) (acc : List Obs),
    core h kd = core h0 kd → (Obs.dial kd ∈ acc → Intent h0 kd) →
    Obs.dial kd ∈ (fireTasks l h acc).2 → Intent h0 kd
  | [], h, acc, _, ha, hd => ha hd
  | (k, _) :: rest, h, acc, hc, ha, hd => by
    unfold fireTasks at hd
    have hc1 : core (h.set k { h.get k with tasks := [] }) kd = core h0 kd := by
      have := core_set_sched h k kd [] (h.get k).running (h.get k).counter
      simp only at this
      rw [← hc, ← this]
    refine fireTasks_dial h0 kd rest _ _ ?_ ?_ hd
    · rw [taskFold_core]; exact hc1
    · intro hm
      exact taskFold_dial h0 k kd (h.get k).tasks _ hc1 ha hm

theorem reportOne_core (r : H × List Obs) (k kd : Key) : core (reportOne r k).1 kd = core r.1 kd := by
  unfold reportOne
  split
  · exact core_touch _ _ _
  · split
    · exact core_touch _ _ _
    · split
      · exact core_touch _ _ _
      · simp only
        have h1 := core_set_sched (r.1.touch k) k kd ((r.1.touch k).get k).tasks true (some (nextCounter ((r.1.touch k).get k).counter))
        simp only at h1
        split
        · rw [taskFire_core, h1, core_touch]
        · have h2 := core_set_sched ((r.1.touch k).set k { (r.1.touch k).get k with running := true, counter := some (nextCounter ((r.1.touch k).get k).counter) }) k kd
            ((((r.1.touch k).set k { (r.1.touch k).get k with running := true, counter := some (nextCounter ((r.1.touch k).get k).counter) }).get k).tasks ++ [nextCounter ((r.1.touch k).get k).counter])
            (((r.1.touch k).set k { (r.1.touch k).get k with running := true, counter := some (nextCounter ((r.1.touch k).get k).counter) }).get k).running
            (((r.1.touch k).set k { (r.1.touch k).get k with running := true, counter := some (nextCounter ((r.1.touch k).get k).counter) }).get k).counter
          simp only at h2
          rw [h2, h1, core_touch]

theorem reportOne_dial (h0 : H) (r : H × List Obs) (k kd : Key) (hc : core r.1 kd = core h0 kd)
    (ha : Obs.dial kd ∈ r.2 → Intent h0 kd) (hd : Obs.dial kd ∈ (reportOne r k).2) : Intent h0 kd := by
  unfold reportOne at hd
  split at hd
  · exact ha hd
  · split at hd
    · exact ha hd
    · split at hd
      · exact ha hd
      · simp only at hd
        split at hd
        · simp only [List.mem_append] at hd
          rcases hd with hd | hd
          · exact ha hd
          · refine guard_transfer h0 _ k kd _ ?_ hd
            have h1 := core_set_sched (r.1.touch k) k kd ((r.1.touch k).get k).tasks true (some (nextCounter ((r.1.touch k).get k).counter))
            simp only at h1
            rw [h1, core_touch]; exact hc
        · exact ha hd

theorem reportFold_dial (h0 : H) (kd : Key) : ∀ (ks : List Key) (r : H × List Obs),
    core r.1 kd = core h0 kd → (Obs.dial kd ∈ r.2 → Intent h0 kd) →
    Obs.dial kd ∈ (ks.foldl reportOne r).2 → Intent h0 kd
  | [], r, _, ha, hd => ha hd
  | k :: ks, r, hc, ha, hd => by
    simp only [List.foldl_cons] at hd
    refine reportFold_dial h0 kd ks (reportOne r k) ?_ ?_ hd
    · rw [reportOne_core]; exact hc
    · exact reportOne_dial h0 r k kd hc ha

/-- **C10 (dial only registered)**: whatever the event — an mDNS report, sleeping dial tasks waking up, any
    user call or connection callback — a dial attempt to a SKI is made only if, when the event began,
    that SKI was trusted (registered, or its handshake reached hello-ok) or queued for pairing by
    `RegisterRemoteSKI`, and the hub was not shut down. -/
theorem C10_dial_only_registered (h : H) (e : Ev) (k : Key) (hd : Obs.dial k ∈ (step h e).2) : Intent h k := by
  cases e with
  | report ks =>
    simp only [step, List.mem_append, List.mem_singleton, reduceCtorEq, or_false] at hd
    exact reportFold_dial h k ks (h, []) rfl (by simp) hd
  | tick =>
    simp only [step] at hd
    have := deliver_obs true _ _ _ k hd
    exact fireTasks_dial h k h.per h [] rfl (by simp) this
  | settle =>
    simp only [step] at hd
    have := deliver_obs false _ _ _ k hd
    simp at this
  | start => simp [step] at hd
  | register s =>
    simp only [step] at hd
    split at hd
    · exact absurd hd (reannounce_no_dial _ k)
    · split at hd <;> simp at hd
  | unregister s => simp only [step] at hd; split at hd <;> simp at hd
  | disconnect s => simp only [step] at hd; split at hd <;> simp at hd
  | cancel s =>
    simp only [step] at hd
    exact absurd hd (cancelConn_no_dial _ _ k)
  | pairingDetail s => simp only [step] at hd; split at hd <;> simp at hd
  | lookup s => simp [step] at hd
  | setAuto b => simp [step] at hd
  | shutdown => simp [step] at hd
  | connected k' id st => simp [step] at hd
  | connSetState k' st => simp only [step] at hd; split at hd <;> simp at hd
  | connUpdate k' st err => simp [step] at hd
  | connClosed k' id hsEnd =>
    simp only [step, List.mem_append, List.mem_singleton, reduceCtorEq, false_or] at hd
    split at hd
    · simp at hd
    · exact absurd hd (reannounce_no_dial _ k)

theorem setDetailState_get (h : H) (k k' : Key) (st : Nat) :
    (h.setDetailState k st).get k' = if k' = k then (h.get k).setDetailState st else h.get k' := by
  simp [H.setDetailState, get_set]

theorem Per.setDetailState_facts (p : Per) (st : Nat) :
    (p.setDetailState st).trusted = p.trusted ∧ (p.setDetailState st).counter = p.counter ∧
    (p.setDetailState st).conn = p.conn ∧ (p.setDetailState st).detail = (st, p.cur.2) ∧
    (p.setDetailState st).running = p.running ∧ (p.setDetailState st).tasks = p.tasks := by
  unfold Per.setDetailState; split <;> simp [Per.detail]

theorem notify_get_eq (h : H) (k k' : Key) (d : Bool) :
    (h.notify k d).get k' = (if (h.get k).obj = 0 then h.setDetailState k (h.detail k).1 else h).get k' := by
  unfold H.notify
  rfl

theorem notify_get (h : H) (k k' : Key) (d : Bool) :
    ((h.notify k d).get k').trusted = (h.get k').trusted ∧ ((h.notify k d).get k').counter = (h.get k').counter ∧
    ((h.notify k d).get k').conn = (h.get k').conn ∧ ((h.notify k d).get k').detail = (h.get k').detail := by
  rw [notify_get_eq]
  split
  · rw [setDetailState_get]
    split
    · next hk =>
      subst hk
      have := Per.setDetailState_facts (h.get k') (h.detail k').1
      simp only [H.detail, Per.detail] at this ⊢
      simp [this.1, this.2.1, this.2.2.1, this.2.2.2.1]
    · simp
  · simp

theorem untrust_get (h : H) (k : Key) :
    ((untrust h k).get k).trusted = false ∧ ((untrust h k).get k).counter = (h.get k).counter ∧
    ((untrust h k).get k).conn = (h.get k).conn ∧ ((untrust h k).get k).detail.1 = csNone := by
  unfold untrust
  have n := notify_get ((h.set k { h.get k with trusted := false }).setDetailState k csNone) k k false
  rw [n.1, n.2.1, n.2.2.1, n.2.2.2]
  simp only [setDetailState_get, if_true, get_set]
  have f := Per.setDetailState_facts ({ h.get k with trusted := false }) csNone
  exact ⟨by rw [f.1], by rw [f.2.1], by rw [f.2.2.1], by rw [f.2.2.2.1]⟩

/-- **C10 (unregister)**: after `UnregisterRemoteSKI` with any spelling, the SKI is untrusted, its attempt
    counter is gone, its pairing state is "none" (so by `C10_dial_only_registered` no dial task for it can
    dial), and the registered connection is told to close with code 4500. -/
theorem C10_unregister_effect (h : H) (s : Str) :
    ((step h (.unregister s)).1.get (normalize s)).trusted = false ∧
    ((step h (.unregister s)).1.get (normalize s)).counter = none ∧
    ((step h (.unregister s)).1.get (normalize s)).detail.1 = csNone ∧
    (∀ c, (h.get (normalize s)).conn = some c → Obs.close c.id true 4500 ∈ (step h (.unregister s)).2) := by
  simp only [step]
  have u := untrust_get ((h.touch (normalize s)).set (normalize s) { (h.touch (normalize s)).get (normalize s) with counter := none }) (normalize s)
  refine ⟨u.1, ?_, u.2.2.2, ?_⟩
  · rw [u.2.1]; simp [get_set]
  · intro c hc; rw [hc]; simp

theorem cancelConn_get (h : H) (k : Key) :
    ((cancelConn h k).1.get k).counter = (h.get k).counter ∧ ((cancelConn h k).1.get k).trusted = (h.get k).trusted := by
  unfold cancelConn; split <;> simp [get_set]

/-- **C10 (cancel)**: `CancelPairingWithSKI` with any spelling leaves the SKI untrusted with pairing state
    "none" and no attempt counter; a registered connection is told to abort, and unless its handshake has
    thereby (or already) failed it is closed with 4452 — a running handshake cannot complete later and a
    completed connection of the now untrusted SKI does not stay. -/
theorem C10_cancel_effect (h : H) (s : Str) :
    ((step h (.cancel s)).1.get (normalize s)).trusted = false ∧
    ((step h (.cancel s)).1.get (normalize s)).counter = none ∧
    ((step h (.cancel s)).1.get (normalize s)).detail.1 = csNone ∧
    (∀ c, (h.get (normalize s)).conn = some c →
      Obs.abort c.id ∈ (step h (.cancel s)).2 ∧
      (handshakeFailed (if c.st = 8 || c.st = 11 then 15 else c.st) = false →
        Obs.close c.id false 4452 ∈ (step h (.cancel s)).2)) := by
  simp only [step]
  have u := untrust_get (cancelConn ((h.touch (normalize s)).set (normalize s) { (h.touch (normalize s)).get (normalize s) with counter := none }) (normalize s)).1 (normalize s)
  have cg := cancelConn_get ((h.touch (normalize s)).set (normalize s) { (h.touch (normalize s)).get (normalize s) with counter := none }) (normalize s)
  refine ⟨u.1, ?_, u.2.2.2, ?_⟩
  · rw [u.2.1, cg.1]; simp [get_set]
  · intro c hc
    have hc' : (((h.touch (normalize s)).set (normalize s) { (h.touch (normalize s)).get (normalize s) with counter := none }).get (normalize s)).conn = some c := by
      simp [get_set, get_touch, hc]
    unfold cancelConn
    simp only [hc']
    refine ⟨by simp, ?_⟩
    intro he
    simp only [Bool.or_eq_true, decide_eq_true_eq] at he
    simp [he]

theorem fireTasks_core (kd : Key) : ∀ (l : List (Key × Per)) (h : H) (acc : List Obs), core (fireTasks l h acc).1 kd = core h kd
  | [], h, acc => rfl
  | (k, _) :: rest, h, acc => by
    unfold fireTasks
    rw [fireTasks_core kd rest, taskFold_core]
    have := core_set_sched h k kd [] (h.get k).running (h.get k).counter
    simp only at this
    exact this

theorem reportFold_core (kd : Key) : ∀ (ks : List Key) (r : H × List Obs), core (ks.foldl reportOne r).1 kd = core r.1 kd
  | [], r => rfl
  | k :: ks, r => by
    simp only [List.foldl_cons]
    rw [reportFold_core kd ks, reportOne_core]

theorem deliver_core (all : Bool) (kd : Key) : ∀ (fuel : Nat) (h : H) (acc : List Obs), core (deliver all fuel h acc).1 kd = core h kd
  | 0, h, acc => rfl
  | fuel + 1, h, acc => by
    unfold deliver
    split
    · rfl
    · split
      · rfl
      · rw [deliver_core all kd fuel]
        simp only [core, get_set, set_shut]
        split <;> simp_all [Per.detail, H.get]

theorem untrust_trusted_other (h : H) (k k' : Key) (hk : k' ≠ k) : ((untrust h k).get k').trusted = (h.get k').trusted := by
  unfold untrust
  have n := notify_get ((h.set k { h.get k with trusted := false }).setDetailState k csNone) k k' false
  rw [n.1]
  simp [setDetailState_get, get_set, hk]

theorem cancelConn_trusted (h : H) (k k' : Key) : ((cancelConn h k).1.get k').trusted = (h.get k').trusted := by
  unfold cancelConn; split
  · simp only [get_set]; split <;> simp_all
  · rfl

theorem setConnSt_trusted (h : H) (k k' : Key) (st : Nat) : ((setConnSt h k st).get k').trusted = (h.get k').trusted := by
  unfold setConnSt; split
  · simp only [get_set]; split <;> simp_all
  · rfl

theorem updateDetail_trusted (h : H) (k k' : Key) (ps : Nat) (err : Bool) :
    ((updateDetail h k ps err).get k').trusted = (h.get k').trusted := by
  unfold updateDetail; split
  · show ((h.set k ((h.get k).newDetail ps err)).get k').trusted = _
    simp only [get_set]; split <;> simp_all [Per.newDetail]
  · rfl

theorem connUpdateH_trusted (h : H) (k k' : Key) (st : Nat) (err : Bool)
    (ht : ((connUpdateH h k st err).get k').trusted = true) : (h.get k').trusted = true ∨ (k' = k ∧ st = 13) := by
  unfold connUpdateH at ht
  rw [updateDetail_trusted] at ht
  unfold trustOnHelloOk at ht
  split at ht
  · next h13 =>
    by_cases hk : k' = k
    · exact Or.inr ⟨hk, h13⟩
    · left
      rw [get_set_other _ _ _ _ hk, setConnSt_trusted, get_touch] at ht
      exact ht
  · left
    rw [setConnSt_trusted, get_touch] at ht
    exact ht

theorem connClosedH_trusted (h : H) (k k' : Key) (id : Nat) (e : Bool) :
    ((connClosedH h k id e).get k').trusted = (h.get k').trusted := by
  unfold connClosedH
  split
  · simp only
    split <;> split
    all_goals (try simp only [get_set, get_touch])
    all_goals (try ((repeat' split) <;> simp_all [get_touch]))
  · exact congrArg Per.trusted (get_touch h k k')

/-- **C10 (sources of trust)**: a SKI becomes trusted only through `RegisterRemoteSKI` (any spelling of it) or
    through a connection of that SKI reporting hello-ok — which by C01 a connection does only if the SKI was
    trusted when it decided, auto-accept was on, the hub itself dialled it, or the user approved. Nothing
    mDNS announces, no dial task, no notification and no other SKI's events can make it trusted. -/
theorem C10_trust_sources (h : H) (e : Ev) (k : Key) (ht : ((step h e).1.get k).trusted = true) :
    (h.get k).trusted = true ∨ (∃ s, e = .register s ∧ normalize s = k) ∨ (∃ err, e = .connUpdate k 13 err) := by
  cases e with
  | start => left; simpa [step, H.get] using ht
  | register s =>
    by_cases hk : normalize s = k
    · exact Or.inr (Or.inl ⟨s, rfl, hk⟩)
    · left
      simp only [step] at ht
      have hk' : k ≠ normalize s := fun e => hk e.symm
      split at ht
      · simpa [get_set, hk', get_touch] using ht
      · split at ht
        · simpa [get_set, hk', get_touch] using ht
        · have n := notify_get (((h.touch (normalize s)).set (normalize s) { (h.touch (normalize s)).get (normalize s) with trusted := true }).setDetailState (normalize s) csQueued) (normalize s) k false
          rw [n.1] at ht
          simpa [setDetailState_get, get_set, hk', get_touch] using ht
  | unregister s =>
    left
    simp only [step] at ht
    by_cases hk : k = normalize s
    · subst hk
      have u := untrust_get ((h.touch (normalize s)).set (normalize s) { (h.touch (normalize s)).get (normalize s) with counter := none }) (normalize s)
      rw [u.1] at ht; cases ht
    · unfold untrust at ht
      have n := notify_get ((((h.touch (normalize s)).set (normalize s) { (h.touch (normalize s)).get (normalize s) with counter := none }).set (normalize s)
        { (((h.touch (normalize s)).set (normalize s) { (h.touch (normalize s)).get (normalize s) with counter := none }).get (normalize s)) with trusted := false }).setDetailState (normalize s) csNone) (normalize s) k false
      rw [n.1] at ht
      simpa [setDetailState_get, get_set, hk, get_touch] using ht
  | disconnect s => left; simpa [step] using ht
  | cancel s =>
    left
    simp only [step] at ht
    by_cases hk : k = normalize s
    · subst hk
      have u := untrust_get (cancelConn ((h.touch (normalize s)).set (normalize s) { (h.touch (normalize s)).get (normalize s) with counter := none }) (normalize s)).1 (normalize s)
      rw [u.1] at ht; cases ht
    · rw [untrust_trusted_other _ _ _ hk, cancelConn_trusted] at ht
      simpa [get_set, hk, get_touch] using ht
  | pairingDetail s => left; simp only [step] at ht; split at ht <;> simpa [get_touch] using ht
  | lookup s => left; simpa [step, get_touch] using ht
  | setAuto b => left; simpa [step, H.get] using ht
  | shutdown => left; simpa [step, H.get] using ht
  | report ks =>
    left
    simp only [step] at ht
    have := reportFold_core k ks (h, [])
    simp only [core, Prod.mk.injEq] at this
    rw [← this.2.1]; exact ht
  | settle =>
    left
    simp only [step] at ht
    have := deliver_core false k (h.queue.length + 1) h []
    simp only [core, Prod.mk.injEq] at this
    rw [← this.2.1]; exact ht
  | tick =>
    left
    simp only [step] at ht
    have h1 := deliver_core true k ((fireTasks h.per h []).1.queue.length + 1) (fireTasks h.per h []).1 (fireTasks h.per h []).2
    have h2 := fireTasks_core k h.per h []
    simp only [core, Prod.mk.injEq] at h1 h2
    rw [← h2.2.1, ← h1.2.1]; exact ht
  | connected k' id st => left; simp only [step] at ht; by_cases hk : k = k' <;> simpa [get_set, hk, get_touch] using ht
  | connSetState k' st =>
    left; simp only [step] at ht
    split at ht
    · by_cases hk : k = k' <;> simpa [get_set, hk] using ht
    · exact ht
  | connUpdate k' st err =>
    simp only [step] at ht
    rcases connUpdateH_trusted h k' k st err ht with h1 | ⟨hk, h13⟩
    · exact Or.inl h1
    · subst hk; subst h13; exact Or.inr (Or.inr ⟨err, rfl⟩)
  | connClosed k' id hsEnd =>
    left
    simp only [step] at ht
    rw [connClosedH_trusted] at ht
    exact ht
/-- **C11 (registry)**: when a connection reports its end, the hub forgets the registered connection of that
    SKI exactly if it is the very connection that ended — an old (double) connection closing never removes
    the entry of its successor — no other SKI's entry is touched, and the application is told
    `RemoteSKIDisconnected` exactly once for this end. -/
theorem C11_registry (h : H) (k : Key) (id : Nat) (e : Bool) :
    ((step h (.connClosed k id e)).1.get k).conn =
      (match (h.get k).conn with
       | some c => if c.id = id then none else some c
       | none => none) ∧
    (∀ k', k' ≠ k → ((step h (.connClosed k id e)).1.get k').conn = (h.get k').conn) ∧
    ((step h (.connClosed k id e)).2.filter (· == Obs.disconnected k)).length = 1 := by
  simp only [step]
  refine ⟨?_, ?_, ?_⟩
  · unfold connClosedH
    rw [get_touch]
    cases hc : (h.get k).conn with
    | none => simp [get_touch, hc]
    | some c =>
      simp only
      by_cases hid : c.id = id <;> cases e <;> simp [hid, get_set, get_touch, hc]
  · intro k' hk
    unfold connClosedH
    rw [get_touch]
    cases hc : (h.get k).conn with
    | none => simp [get_touch]
    | some c =>
      simp only
      by_cases hid : c.id = id <;> cases e <;> simp [hid, get_set, get_touch, hk]
  · have hr : ∀ hh : H, (reannounce hh).filter (· == Obs.disconnected k) = [] := by
      intro hh; unfold reannounce; split
      · rfl
      · split <;> simp
    simp only [List.filter_append, List.filter_cons, beq_self_eq_true, if_true, List.filter_nil, List.length_append,
      List.length_cons, List.length_nil]
    split
    · simp
    · rw [hr]; simp
/-- the ConnectionState indices the model uses are the ones api/connectionstate.go declares (regenerated facts) -/
theorem cs_names : Generated.connStateNames[csNone]? = some "ConnectionStateNone" ∧
    Generated.connStateNames[csQueued]? = some "ConnectionStateQueued" ∧
    Generated.connStateNames[csReceivedPairingRequest]? = some "ConnectionStateReceivedPairingRequest" ∧
    Generated.connStateNames[csError]? = some "ConnectionStateError" := by decide

/-! ### C18: pairing notifications converge on the hub's pairing detail -/

def pendingFor (q : List Note) (k : Key) : List Note := q.filter (·.key = k)

def J (h : H) (k : Key) : Prop :=
  match (pendingFor h.queue k).getLast? with
  | some n => n.obj = (h.get k).obj
  | none => (h.get k).lastNote = some (h.get k).cur ∨ ((h.get k).lastNote = none ∧ (h.get k).cur = (csNone, false))

def dv (p : Per) : Nat × (Nat × Bool) × Option (Nat × Bool) := (p.obj, p.cur, p.lastNote)

/-- `h'` shows key `k` the same pending notifications, detail object and last delivery as `h` -/
def BenAt (h h' : H) (k : Key) : Prop := pendingFor h'.queue k = pendingFor h.queue k ∧ dv (h'.get k) = dv (h.get k)

theorem BenAt.refl (h : H) (k : Key) : BenAt h h k := ⟨rfl, rfl⟩
theorem BenAt.trans {h1 h2 h3 : H} {k : Key} (a : BenAt h1 h2 k) (b : BenAt h2 h3 k) : BenAt h1 h3 k :=
  ⟨b.1.trans a.1, b.2.trans a.2⟩

theorem J_ben {h h' : H} {k : Key} (b : BenAt h h' k) (hj : J h k) : J h' k := by
  obtain ⟨b1, b2⟩ := b
  simp only [dv, Prod.mk.injEq] at b2
  unfold J at hj ⊢
  rw [b1, b2.1, b2.2.1, b2.2.2]
  exact hj

theorem ben_set (h : H) (k k' : Key) (p : Per) (hp : k' = k → dv p = dv (h.get k)) : BenAt h (h.set k p) k' := by
  refine ⟨by simp, ?_⟩
  rw [get_set]
  split
  · next e => rw [hp e, e]
  · rfl

theorem ben_touch (h : H) (k k' : Key) : BenAt h (h.touch k) k' := ⟨by simp, by rw [get_touch]⟩

theorem taskFire_ben (h : H) (k k' : Key) (c : Nat) : BenAt h (taskFire h k c).1 k' := by
  have : (taskFire h k c).1 = h.set k { h.get k with running := false } := by
    unfold taskFire; simp only; split
    · rfl
    · split
      · rfl
      · split <;> rfl
  rw [this]
  exact ben_set _ _ _ _ (fun _ => rfl)

theorem taskFold_ben (k k' : Key) : ∀ (tasks : List Nat) (r : H × List Obs), BenAt r.1 (tasks.foldl (taskFold k) r).1 k'
  | [], r => BenAt.refl _ _
  | c :: rest, r => by
    simp only [List.foldl_cons]
    exact (taskFire_ben r.1 k k' c).trans (taskFold_ben k k' rest (taskFold k r c))

theorem fireTasks_ben (k' : Key) : ∀ (l : List (Key × Per)) (h : H) (acc : List Obs), BenAt h (fireTasks l h acc).1 k'
  | [], h, acc => BenAt.refl _ _
  | (k, _) :: rest, h, acc => by
    unfold fireTasks
    refine BenAt.trans ?_ (fireTasks_ben k' rest _ _)
    exact (ben_set h k k' { h.get k with tasks := [] } (fun _ => rfl)).trans (taskFold_ben k k' _ _)

theorem reportOne_ben (r : H × List Obs) (k k' : Key) : BenAt r.1 (reportOne r k).1 k' := by
  unfold reportOne
  split
  · exact ben_touch _ _ _
  · split
    · exact ben_touch _ _ _
    · split
      · exact ben_touch _ _ _
      · simp only
        have b1 := ben_touch r.1 k k'
        have b2 := ben_set (r.1.touch k) k k' { (r.1.touch k).get k with running := true, counter := some (nextCounter ((r.1.touch k).get k).counter) } (fun _ => rfl)
        split
        · exact (b1.trans b2).trans (taskFire_ben _ _ _ _)
        · refine (b1.trans b2).trans (ben_set _ _ _ _ (fun _ => rfl))

theorem reportFold_ben (k' : Key) : ∀ (ks : List Key) (r : H × List Obs), BenAt r.1 (ks.foldl reportOne r).1 k'
  | [], r => BenAt.refl _ _
  | k :: ks, r => by
    simp only [List.foldl_cons]
    exact (reportOne_ben r k k').trans (reportFold_ben k' ks _)

theorem cancelConn_ben (h : H) (k k' : Key) : BenAt h (cancelConn h k).1 k' := by
  unfold cancelConn; split
  · exact ben_set _ _ _ _ (fun _ => rfl)
  · exact BenAt.refl _ _

theorem setConnSt_ben (h : H) (k k' : Key) (st : Nat) : BenAt h (setConnSt h k st) k' := by
  unfold setConnSt; split
  · exact ben_set _ _ _ _ (fun _ => rfl)
  · exact BenAt.refl _ _

theorem trustOnHelloOk_ben (h : H) (k k' : Key) (st : Nat) : BenAt h (trustOnHelloOk h k st) k' := by
  unfold trustOnHelloOk; split
  · exact ben_set _ _ _ _ (fun _ => rfl)
  · exact BenAt.refl _ _

theorem connClosedH_ben (h : H) (k k' : Key) (id : Nat) (e : Bool) : BenAt h (connClosedH h k id e) k' := by
  unfold connClosedH
  have t := ben_touch h k k'
  split
  · next c hc =>
    simp only
    have b1 : BenAt h (if c.id = id then (h.touch k).set k { (h.touch k).get k with conn := none } else h.touch k) k' := by
      split
      · exact t.trans (ben_set _ _ _ _ (fun _ => rfl))
      · exact t
    split
    · exact b1.trans (ben_set _ _ _ _ (fun _ => rfl))
    · exact b1
  · exact t


theorem J_append {h : H} {k : Key} (q : List Note) (d : Bool)
    (hq : h.queue = q ++ [{ key := k, obj := (h.get k).obj, delayed := d }]) : J h k := by
  unfold J
  rw [hq]
  simp [pendingFor, List.filter_append]

theorem pendingFor_append_other (q : List Note) (n : Note) (k : Key) (hk : n.key ≠ k) :
    pendingFor (q ++ [n]) k = pendingFor q k := by
  simp [pendingFor, List.filter_append, hk]

theorem setDetailState_ben_other (h : H) (k k' : Key) (st : Nat) (hk : k' ≠ k) : BenAt h (h.setDetailState k st) k' :=
  ben_set _ _ _ _ (fun e => absurd e hk)

theorem notify_J (h : H) (k : Key) (d : Bool) : J (h.notify k d) k := by
  unfold H.notify
  exact J_append _ d rfl

theorem notify_ben_other (h : H) (k k' : Key) (d : Bool) (hk : k' ≠ k) : BenAt h (h.notify k d) k' := by
  have hk' : k ≠ k' := fun e => hk e.symm
  unfold H.notify
  split
  · refine ⟨?_, ?_⟩
    · simp only
      rw [pendingFor_append_other _ _ _ hk']
      exact (setDetailState_ben_other h k k' _ hk).1
    · exact (setDetailState_ben_other h k k' _ hk).2
  · refine ⟨?_, rfl⟩
    simp only
    rw [pendingFor_append_other _ _ _ hk']

theorem untrust_J (h : H) (k : Key) : J (untrust h k) k := notify_J _ _ _

theorem untrust_ben_other (h : H) (k k' : Key) (hk : k' ≠ k) : BenAt h (untrust h k) k' := by
  unfold untrust
  exact ((ben_set h k k' _ (fun e => absurd e hk)).trans (setDetailState_ben_other _ k k' _ hk)).trans
    (notify_ben_other _ k k' false hk)

theorem updateDetail_J (h : H) (k : Key) (ps : Nat) (err : Bool) (hj : J h k) : J (updateDetail h k ps err) k := by
  unfold updateDetail
  split
  · refine J_append h.queue true ?_
    show h.queue ++ _ = h.queue ++ [{ key := k, obj := ((h.set k ((h.get k).newDetail ps err)).get k).obj, delayed := true }]
    rw [get_set_same]
    rfl
  · exact hj

theorem updateDetail_ben_other (h : H) (k k' : Key) (ps : Nat) (err : Bool) (hk : k' ≠ k) :
    BenAt h (updateDetail h k ps err) k' := by
  have hk' : k ≠ k' := fun e => hk e.symm
  unfold updateDetail
  split
  · refine ⟨?_, ?_⟩
    · simp only
      rw [pendingFor_append_other _ _ _ hk']
    · show dv ((h.set k ((h.get k).newDetail ps err)).get k') = _
      rw [get_set_other _ _ _ _ hk]
  · exact BenAt.refl _ _

theorem deliver_J (all : Bool) : ∀ (fuel : Nat) (h : H) (acc : List Obs), (∀ k, J h k) → ∀ k, J (deliver all fuel h acc).1 k
  | 0, h, acc, hj, k => hj k
  | fuel + 1, h, acc, hj, k => by
    unfold deliver
    split
    · exact hj k
    · next n rest hq =>
      split
      · exact hj k
      · refine deliver_J all fuel _ _ ?_ k
        intro k2
        have hj2 := hj k2
        by_cases hk : k2 = n.key
        · subst hk
          unfold J at hj2 ⊢
          simp only [set_queue, get_set_same]
          rw [hq] at hj2
          have hp : pendingFor (n :: rest) n.key = n :: pendingFor rest n.key := by simp [pendingFor]
          rw [hp] at hj2
          cases hpr : pendingFor rest n.key with
          | nil =>
            rw [hpr] at hj2
            simp only [List.getLast?_singleton] at hj2
            simp only [List.getLast?_nil]
            left
            show some (((({ h with queue := rest } : H).get n.key)).objVal n.obj) = some (({ h with queue := rest } : H).get n.key).cur
            simp only [Per.objVal]
            rw [if_pos]
            exact hj2
          | cons m ms =>
            rw [hpr] at hj2
            rw [List.getLast?_cons_cons] at hj2
            exact hj2
        · have b : BenAt h (({ h with queue := rest } : H).set n.key
              { ({ h with queue := rest } : H).get n.key with lastNote := some ((({ h with queue := rest } : H).get n.key).objVal n.obj) }) k2 := by
            refine ⟨?_, ?_⟩
            · simp only [set_queue]
              rw [hq]
              have : n.key ≠ k2 := fun e => hk e.symm
              simp [pendingFor, this]
            · rw [get_set_other _ _ _ _ hk]; rfl
          exact J_ben b hj2


theorem prep_ben (h : H) (k0 k : Key) :
    BenAt h ((h.touch k0).set k0 { (h.touch k0).get k0 with counter := none }) k :=
  (ben_touch h k0 k).trans (ben_set (h.touch k0) k0 k _ (fun _ => rfl))

/-- the notification invariant is preserved by every hub event -/
theorem J_step (h : H) (e : Ev) (hj : ∀ k, J h k) : ∀ k, J (step h e).1 k := by
  intro k
  cases e with
  | start => exact J_ben (h := h) ⟨rfl, rfl⟩ (hj k)
  | register s =>
    simp only [step]
    have t := ben_touch h (normalize s) k
    split
    · exact J_ben (t.trans (ben_set _ _ _ _ (fun _ => rfl))) (hj k)
    · split
      · exact J_ben (t.trans (ben_set _ _ _ _ (fun _ => rfl))) (hj k)
      · by_cases hk : k = normalize s
        · subst hk; exact notify_J _ _ _
        · have b1 := t.trans (ben_set (h.touch (normalize s)) (normalize s) k
            { (h.touch (normalize s)).get (normalize s) with trusted := true } (fun _ => rfl))
          have b2 := b1.trans (setDetailState_ben_other _ (normalize s) k csQueued hk)
          exact J_ben (b2.trans (notify_ben_other _ (normalize s) k false hk)) (hj k)
  | unregister s =>
    simp only [step]
    by_cases hk : k = normalize s
    · subst hk; exact untrust_J _ _
    · exact J_ben ((prep_ben h (normalize s) k).trans (untrust_ben_other _ (normalize s) k hk)) (hj k)
  | disconnect s => exact hj k
  | cancel s =>
    simp only [step]
    by_cases hk : k = normalize s
    · subst hk; exact untrust_J _ _
    · exact J_ben (((prep_ben h (normalize s) k).trans (cancelConn_ben _ (normalize s) k)).trans
        (untrust_ben_other _ (normalize s) k hk)) (hj k)
  | pairingDetail s =>
    simp only [step]
    split <;> exact J_ben (ben_touch h (normalize s) k) (hj k)
  | lookup s => exact J_ben (ben_touch h (normalize s) k) (hj k)
  | setAuto b => exact J_ben (h := h) ⟨rfl, rfl⟩ (hj k)
  | shutdown => exact J_ben (h := h) ⟨rfl, rfl⟩ (hj k)
  | report ks => exact J_ben (reportFold_ben k ks (h, [])) (hj k)
  | settle => exact deliver_J false _ h [] hj k
  | tick =>
    simp only [step]
    exact deliver_J true _ _ _ (fun k2 => J_ben (fireTasks_ben k2 h.per h []) (hj k2)) k
  | connected k' id st =>
    exact J_ben ((ben_touch h k' k).trans (ben_set _ _ _ _ (fun _ => rfl))) (hj k)
  | connSetState k' st =>
    simp only [step]
    split
    · exact J_ben (ben_set _ _ _ _ (fun _ => rfl)) (hj k)
    · exact hj k
  | connUpdate k' st err =>
    simp only [step, connUpdateH]
    have b := ((ben_touch h k' k).trans (setConnSt_ben _ k' k st)).trans (trustOnHelloOk_ben _ k' k st)
    by_cases hk : k = k'
    · subst hk; exact updateDetail_J _ _ _ _ (J_ben b (hj k))
    · exact J_ben (b.trans (updateDetail_ben_other _ _ _ _ _ hk)) (hj k)
  | connClosed k' id hsEnd => exact J_ben (connClosedH_ben h k' k id hsEnd) (hj k)

theorem J_init (k : Key) : J {} k := by
  simp [J, pendingFor, H.get, csNone]

theorem J_run_aux : ∀ (evs : List Ev) (r : H × List (List Obs)), (∀ k, J r.1 k) →
    ∀ k, J (evs.foldl (fun r e => let x := step r.1 e; (x.1, r.2 ++ [x.2])) r).1 k
  | [], r, hj => hj
  | e :: evs, r, hj => by
    simp only [List.foldl_cons]
    exact J_run_aux evs _ (J_step r.1 e hj)

/-- `deliver true` with enough fuel empties the queue -/
theorem deliver_all_empties : ∀ (fuel : Nat) (h : H) (acc : List Obs), h.queue.length < fuel →
    (deliver true fuel h acc).1.queue = []
  | 0, h, acc, hf => by omega
  | fuel + 1, h, acc, hf => by
    unfold deliver
    split
    · next hq => exact hq
    · next n rest hq =>
      simp only [Bool.not_true, Bool.and_false, Bool.false_eq_true, if_false]
      refine deliver_all_empties fuel _ _ ?_
      simp only [set_queue]
      rw [hq] at hf
      simp only [List.length_cons] at hf
      omega

/-- **C18 (eventual consistency of pairing notifications)**: in every reachable hub state and for every SKI, either
    a notification for the *current* detail object is still queued (and will be delivered after every earlier one),
    or the last `ServicePairingDetailUpdate` the application received for the SKI carried exactly the detail
    `PairingDetailForSki` reports now — or it never received one and the detail is still the initial one. -/
theorem C18_notifications_converge (evs : List Ev) (k : Key) : J (run evs).1 k :=
  J_run_aux evs ({}, []) J_init k

/-- once the delayed notifications have run (a `tick`), nothing is pending and the application's view of every
    SKI is the hub's -/
theorem C18_quiescent (evs : List Ev) (k : Key) :
    let h := (step (run evs).1 .tick).1
    h.queue = [] ∧ ((h.get k).lastNote = some (h.get k).cur ∨ ((h.get k).lastNote = none ∧ (h.get k).cur = (csNone, false))) := by
  have hj := J_step (run evs).1 .tick (fun k => C18_notifications_converge evs k) k
  have he : (step (run evs).1 .tick).1.queue = [] := by
    simp only [step]
    exact deliver_all_empties _ _ _ (by omega)
  refine ⟨he, ?_⟩
  unfold J at hj
  rw [he] at hj
  simpa [pendingFor] using hj


/-- what delivering the notification `n` shows the application in state `h` -/
def noteObs (h : H) (n : Note) : Obs :=
  .pairing n.key ((h.get n.key).objVal n.obj).1 ((h.get n.key).objVal n.obj).2

theorem noteObs_set_lastNote (h : H) (k : Key) (v : Option (Nat × Bool)) (q : List Note) (m : Note) :
    noteObs (({ h with queue := q } : H).set k { ({ h with queue := q } : H).get k with lastNote := v }) m = noteObs h m := by
  unfold noteObs
  rw [get_set]
  split
  · next e => rw [e]; rfl
  · rfl

/-- **C18 (order)**: the notifications are delivered in the order in which the detail changes were queued, each
    showing the value of the detail object it was queued for -/
theorem C18_fifo : ∀ (fuel : Nat) (h : H) (acc : List Obs), h.queue.length < fuel →
    (deliver true fuel h acc).2 = acc ++ h.queue.map (noteObs h)
  | 0, h, acc, hf => by omega
  | fuel + 1, h, acc, hf => by
    unfold deliver
    split
    · next hq => simp [hq]
    · next n rest hq =>
      simp only [Bool.not_true, Bool.and_false, Bool.false_eq_true, if_false]
      rw [C18_fifo fuel]
      · simp only [set_queue, hq, List.map_cons, List.append_assoc, List.singleton_append]
        congr 2
        apply List.map_congr_left
        intro m _
        exact noteObs_set_lastNote h n.key _ rest m
      · simp only [set_queue]
        rw [hq] at hf
        simp only [List.length_cons] at hf
        omega


/-- non-vacuity: register → notification queued; tick → delivered; the invariant's two branches are both met -/
example : let h := (run [.start, .register [0x41], .settle]).1
    h.queue = [] ∧ (h.get [0x61]).lastNote = some (csQueued, false) := by decide +kernel
example : ((run [.start, .connected [0x61] 1 8, .connUpdate [0x61] 8 false]).1.queue).length = 1 := by decide +kernel

end ShipVerif.Hub
