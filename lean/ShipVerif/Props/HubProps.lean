/-
  Hub properties (C10, C11 hub part, C15 operations, C18) over the sequential hub model.
-/
import ShipVerif.Model.Hub
import ShipVerif.Props.C15

namespace ShipVerif.Hub
open ShipVerif.Ski (Str normalize)

/-! ### C15: every operation sees only the normal form of the SKI it is given -/

/-- **C15 (operations)**: two spellings of one SKI have exactly the same effect and the same
    observations, for every operation and in every hub state. -/
theorem C15_op_invariant (h : H) (s t : Str) (hst : normalize s = normalize t) :
    step h (.register s) = step h (.register t) ∧ step h (.unregister s) = step h (.unregister t) ∧
    step h (.cancel s) = step h (.cancel t) ∧ step h (.disconnect s) = step h (.disconnect t) ∧
    step h (.pairingDetail s) = step h (.pairingDetail t) := by
  simp only [step, hst, and_self]

/-- in particular for the variants of C15: case changes, inserted spaces and dashes -/
theorem C15_variant_invariant (h : H) (s t : Str) (hv : ShipVerif.Ski.Variant s t) :
    step h (.unregister s) = step h (.unregister t) ∧ step h (.disconnect s) = step h (.disconnect t) ∧
    step h (.cancel s) = step h (.cancel t) :=
  let e := C15_op_invariant h s t (ShipVerif.Ski.normalize_variant hv)
  ⟨e.2.1, e.2.2.2.1, e.2.2.1⟩

/-! ### get / set -/

def getL (l : List (Key × Per)) (k : Key) : Per := ((l.find? (·.1 = k)).map (·.2)).getD {}
def updL (l : List (Key × Per)) (k : Key) (p : Per) : List (Key × Per) :=
  l.map fun q => if q.1 = k then (k, p) else q

theorem getL_updL_same : ∀ (l : List (Key × Per)) (k : Key) (p : Per), l.any (·.1 = k) = true → getL (updL l k p) k = p
  | [], _, _, h => by simp at h
  | q :: qs, k, p, h => by
    by_cases hq : q.1 = k
    · simp [getL, updL, hq]
    · have hq' : decide (q.1 = k) = false := by simpa using hq
      simp only [List.any_cons, hq', Bool.false_or] at h
      have ih := getL_updL_same qs k p h
      simp only [getL, updL, List.map_cons, hq, if_false, List.find?_cons, hq'] at ih ⊢
      exact ih

theorem getL_updL_other : ∀ (l : List (Key × Per)) (k k' : Key) (p : Per), k' ≠ k → getL (updL l k p) k' = getL l k'
  | [], _, _, _, _ => rfl
  | q :: qs, k, k', p, hne => by
    have ih := getL_updL_other qs k k' p hne
    by_cases hq : q.1 = k
    · have h1 : decide (k = k') = false := by simp; exact fun e => hne e.symm
      have h2 : decide (q.1 = k') = false := by simp; rw [hq]; exact fun e => hne e.symm
      simp only [getL, updL, List.map_cons, hq, if_true, List.find?_cons, h1, h2] at ih ⊢
      exact ih
    · by_cases hqk : q.1 = k'
      · have h3 : decide (q.1 = k') = true := by simpa using hqk
        simp only [getL, updL, List.map_cons, hq, if_false, List.find?_cons, h3]
      · have h2 : decide (q.1 = k') = false := by simpa using hqk
        simp only [getL, updL, List.map_cons, hq, if_false, List.find?_cons, h2] at ih ⊢
        exact ih

theorem getL_append_none (l : List (Key × Per)) (k : Key) (p : Per) (h : l.any (·.1 = k) = false) :
    getL (l ++ [(k, p)]) k = p := by
  have hn : l.find? (fun q => decide (q.1 = k)) = none := by
    rw [List.find?_eq_none]
    intro q hq
    have := List.any_eq_false.1 h q hq
    simpa using this
  simp [getL, List.find?_append, hn]

theorem getL_append_other (l : List (Key × Per)) (k k' : Key) (p : Per) (hne : k' ≠ k) :
    getL (l ++ [(k, p)]) k' = getL l k' := by
  have h1 : decide (k = k') = false := by simp; exact fun e => hne e.symm
  simp only [getL, List.find?_append]
  cases hf : l.find? (fun q => decide (q.1 = k')) with
  | some q => simp
  | none => simp [List.find?, h1]

theorem get_set_same (h : H) (k : Key) (p : Per) : (h.set k p).get k = p := by
  show getL (h.set k p).per k = p
  unfold H.set
  by_cases ha : h.per.any (·.1 = k) = true
  · simp only [ha, if_true]; exact getL_updL_same h.per k p ha
  · have ha' : h.per.any (·.1 = k) = false := by
      cases hx : h.per.any (·.1 = k) with
      | false => rfl
      | true => exact absurd hx ha
    simp only [ha', Bool.false_eq_true, if_false]; exact getL_append_none h.per k p ha'

theorem get_set_other (h : H) (k k' : Key) (p : Per) (hne : k' ≠ k) : (h.set k p).get k' = h.get k' := by
  show getL (h.set k p).per k' = getL h.per k'
  unfold H.set
  by_cases ha : h.per.any (·.1 = k) = true
  · simp only [ha, if_true]; exact getL_updL_other h.per k k' p hne
  · have ha' : h.per.any (·.1 = k) = false := by
      cases hx : h.per.any (·.1 = k) with
      | false => rfl
      | true => exact absurd hx ha
    simp only [ha', Bool.false_eq_true, if_false]; exact getL_append_other h.per k k' p hne

/-! ### structural facts -/

@[simp] theorem set_shut (h : H) (k : Key) (p : Per) : (h.set k p).shut = h.shut := by
  unfold H.set; split <;> rfl
@[simp] theorem set_queue (h : H) (k : Key) (p : Per) : (h.set k p).queue = h.queue := by
  unfold H.set; split <;> rfl
@[simp] theorem touch_shut (h : H) (k : Key) : (h.touch k).shut = h.shut := by
  unfold H.touch; split <;> simp
@[simp] theorem touch_queue (h : H) (k : Key) : (h.touch k).queue = h.queue := by
  unfold H.touch; split <;> simp

theorem get_touch (h : H) (k k' : Key) : (h.touch k).get k' = h.get k' := by
  unfold H.touch
  by_cases ha : h.per.any (·.1 = k) = true
  · simp [ha]
  · have ha' : h.per.any (·.1 = k) = false := by
      cases hx : h.per.any (·.1 = k) with
      | false => rfl
      | true => exact absurd hx ha
    simp only [ha', Bool.false_eq_true, if_false]
    by_cases hk : k' = k
    · subst hk
      rw [get_set_same]
      -- a missing record reads as the default record
      show ({} : Per) = getL h.per k'
      have hn : h.per.find? (fun q => decide (q.1 = k')) = none := by
        rw [List.find?_eq_none]
        intro q hq
        have := List.any_eq_false.1 ha' q hq
        simpa using this
      simp [getL, hn]
    · exact get_set_other h k k' {} hk

@[simp] theorem setDetailState_shut (h : H) (k : Key) (st : Nat) : (h.setDetailState k st).shut = h.shut := by
  simp [H.setDetailState]
@[simp] theorem notify_shut (h : H) (k : Key) (d : Bool) : (h.notify k d).shut = h.shut := by
  unfold H.notify; split <;> simp

/-! ### C10: dial only registered SKIs, never after Shutdown -/


theorem C10_task_guard (h : H) (k k' : Key) (c : Nat) (hd : Obs.dial k' ∈ (taskFire h k c).2) :
    k' = k ∧ ((h.get k).trusted = true ∨ (h.get k).detail.1 = csQueued) ∧ h.shut = false ∧
    (h.get k).conn = none ∧ (h.get k).counter = some c := by
  unfold taskFire at hd
  simp only [H.detail, get_set_same, Per.detail, set_shut] at hd
  by_cases hc : (h.get k).counter = some c
  · simp only [hc, ne_eq, not_true_eq_false, if_false] at hd
    by_cases ht : ((h.get k).trusted || decide ((h.get k).cur.1 = csQueued)) = true
    · simp only [ht, Bool.not_true, Bool.false_eq_true, if_false] at hd
      by_cases hs : ((h.get k).conn.isSome || h.shut) = true
      · simp [hs] at hd
      · simp only [hs, Bool.false_eq_true, if_false, List.mem_append, List.mem_singleton] at hd
        have hk : k' = k := by
          rcases hd with hd | hd
          · cases hd; rfl
          · unfold reannounce at hd
            split at hd
            · simp at hd
            · split at hd <;> simp at hd
        simp only [Bool.or_eq_true, decide_eq_true_eq] at ht
        simp only [Bool.or_eq_true, not_or, Bool.not_eq_true] at hs
        refine ⟨hk, ht, hs.2, ?_, hc⟩
        cases hcn : (h.get k).conn with
        | none => rfl
        | some x => simp [hcn] at hs
    · simp [ht] at hd
  · simp [hc] at hd

@[simp] theorem setConnSt_shut (h : H) (k : Key) (st : Nat) : (setConnSt h k st).shut = h.shut := by
  unfold setConnSt; split <;> simp
@[simp] theorem trustOnHelloOk_shut (h : H) (k : Key) (st : Nat) : (trustOnHelloOk h k st).shut = h.shut := by
  unfold trustOnHelloOk; split <;> simp
@[simp] theorem updateDetail_shut (h : H) (k : Key) (ps : Nat) (err : Bool) : (updateDetail h k ps err).shut = h.shut := by
  unfold updateDetail; split <;> simp
@[simp] theorem connUpdateH_shut (h : H) (k : Key) (st : Nat) (err : Bool) : (connUpdateH h k st err).shut = h.shut := by
  simp [connUpdateH]


theorem taskFire_shut (h : H) (k : Key) (c : Nat) (hs : h.shut = true) :
    (taskFire h k c).2 = [] ∧ (taskFire h k c).1.shut = true := by
  unfold taskFire
  simp only [set_shut, hs, Bool.or_true, if_true]
  split
  · exact ⟨rfl, by simp [hs]⟩
  · split <;> exact ⟨rfl, by simp [hs]⟩

theorem deliver_obs (all : Bool) : ∀ (fuel : Nat) (h : H) (acc : List Obs) (k : Key),
    Obs.dial k ∈ (deliver all fuel h acc).2 → Obs.dial k ∈ acc
  | 0, h, acc, k, hd => by simpa [deliver] using hd
  | fuel + 1, h, acc, k, hd => by
    unfold deliver at hd
    split at hd
    · exact hd
    · split at hd
      · exact hd
      · have := deliver_obs all fuel _ _ k hd
        simpa using this

theorem deliver_shut (all : Bool) : ∀ (fuel : Nat) (h : H) (acc : List Obs),
    (deliver all fuel h acc).1.shut = h.shut
  | 0, h, acc => rfl
  | fuel + 1, h, acc => by
    unfold deliver
    split
    · rfl
    · split
      · rfl
      · rw [deliver_shut all fuel]; simp

theorem taskFold_shut (k : Key) : ∀ (tasks : List Nat) (r : H × List Obs), r.1.shut = true →
    (tasks.foldl (taskFold k) r).2 = r.2 ∧ (tasks.foldl (taskFold k) r).1.shut = true
  | [], r, hr => ⟨rfl, hr⟩
  | c :: cs, r, hr => by
    have ht := taskFire_shut r.1 k c hr
    simp only [List.foldl_cons]
    have := taskFold_shut k cs (taskFold k r c) (by simp [taskFold, ht.2])
    rw [this.1]
    exact ⟨by simp [taskFold, ht.1], this.2⟩

theorem fireTasks_shut : ∀ (l : List (Key × Per)) (h : H) (acc : List Obs), h.shut = true →
    (fireTasks l h acc).2 = acc ∧ (fireTasks l h acc).1.shut = true
  | [], h, acc, hs => ⟨rfl, hs⟩
  | (k, _) :: rest, h, acc, hs => by
    unfold fireTasks
    have h0 := taskFold_shut k (h.get k).tasks (h.set k { h.get k with tasks := [] }, acc) (by simp [hs])
    have := fireTasks_shut rest _ ((h.get k).tasks.foldl (taskFold k) (h.set k { h.get k with tasks := [] }, acc)).2 h0.2
    rw [h0.1] at this ⊢
    exact this

theorem reportOne_shut (r : H × List Obs) (k : Key) (hr : r.1.shut = true) :
    (reportOne r k).2 = r.2 ∧ (reportOne r k).1.shut = true := by
  unfold reportOne
  simp only [touch_shut, hr, Bool.or_true, if_true]
  split
  · exact ⟨rfl, by simp [hr]⟩
  · split <;> exact ⟨rfl, by simp [hr]⟩

theorem reportFold_shut : ∀ (ks : List Key) (r : H × List Obs), r.1.shut = true →
    (ks.foldl reportOne r).2 = r.2 ∧ (ks.foldl reportOne r).1.shut = true
  | [], r, hr => ⟨rfl, hr⟩
  | k :: ks, r, hr => by
    have h1 := reportOne_shut r k hr
    have := reportFold_shut ks (reportOne r k) h1.2
    simp only [List.foldl_cons]
    rw [this.1, h1.1]
    exact ⟨rfl, this.2⟩
@[simp] theorem connClosedH_shut (h : H) (k : Key) (id : Nat) (e : Bool) : (connClosedH h k id e).shut = h.shut := by
  unfold connClosedH
  split
  · simp only; split <;> split <;> simp
  · simp

theorem reannounce_no_dial (h : H) (k : Key) : Obs.dial k ∉ reannounce h := by
  unfold reannounce; split
  · simp
  · split <;> simp

theorem C10_no_dial_after_shutdown (h : H) (hs : h.shut = true) (e : Ev) (k : Key) :
    Obs.dial k ∉ (step h e).2 ∧ (step h e).1.shut = true := by
  cases e with
  | start => simp [step, hs]
  | register s =>
    simp only [step]
    split
    · exact ⟨reannounce_no_dial _ k, by simp [hs]⟩
    · split
      · exact ⟨by simp, by simp [hs]⟩
      · exact ⟨by simp, by simp [hs]⟩
  | unregister s =>
    simp only [step]
    exact ⟨by split <;> simp, by simp [hs]⟩
  | disconnect s => simp only [step]; exact ⟨by split <;> simp, hs⟩
  | cancel s =>
    simp only [step]
    split
    · next c hc =>
      constructor
      · simp only [List.mem_append, List.mem_cons, reduceCtorEq, List.mem_nil_iff, or_false, false_or]
        split <;> simp
      · simp [hs]
    · exact ⟨by simp, by simp [hs]⟩
  | pairingDetail s => simp only [step]; split <;> simp [hs]
  | setAuto b => simp [step, hs]
  | shutdown => simp [step]
  | report ks =>
    simp only [step]
    have := reportFold_shut ks (h, []) hs
    rw [this.1]
    exact ⟨by simp, this.2⟩
  | settle =>
    simp only [step]
    exact ⟨fun hd => by simpa using deliver_obs false _ _ _ k hd, by rw [deliver_shut]; exact hs⟩
  | tick =>
    simp only [step]
    have hf := fireTasks_shut h.per h [] hs
    constructor
    · intro hd
      have := deliver_obs true _ _ _ k hd
      rw [hf.1] at this
      simp at this
    · rw [deliver_shut]; exact hf.2
  | connected k' id st => simp [step, hs]
  | connSetState k' st => simp only [step]; split <;> simp [hs]
  | connUpdate k' st err =>
    simp only [step]
    exact ⟨by simp, by simp [hs]⟩
  | connClosed k' id hsEnd =>
    simp only [step]
    constructor
    · simp only [List.mem_append, List.mem_singleton, reduceCtorEq, false_or]
      split
      · simp
      · exact reannounce_no_dial _ k
    · rw [connClosedH_shut]; exact hs

theorem get_set (h : H) (k k' : Key) (p : Per) : (h.set k p).get k' = if k' = k then p else h.get k' := by
  by_cases hk : k' = k
  · subst hk; simp [get_set_same]
  · simp [hk, get_set_other h k k' p hk]

theorem taskFire_get (h : H) (k k' : Key) (c : Nat) :
    ((taskFire h k c).1.get k').trusted = (h.get k').trusted ∧ ((taskFire h k c).1.get k').detail = (h.get k').detail ∧
    ((taskFire h k c).1.get k').conn = (h.get k').conn := by
  unfold taskFire
  simp only
  split
  · simp only [get_set]; split <;> simp_all [Per.detail]
  · split
    · simp only [get_set]; split <;> simp_all [Per.detail]
    · split <;> (simp only [get_set]; split <;> simp_all [Per.detail])

end ShipVerif.Hub
