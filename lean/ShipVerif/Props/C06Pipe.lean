/-
  C06 (end to end) — what the receiving application is handed is, on every schedule, a gap-free prefix of the valid
  datagrams the sending connection accepted, in order; nothing is handed over before the data reader is installed;
  as long as neither side has closed, every accepted datagram is either handed over, buffered, or still under way in a
  named stage; when the stages are empty the application has exactly what was accepted.
-/
import ShipVerif.Model.Pipe
import ShipVerif.Generated.PipeFacts
import ShipVerif.Props.C12C13

namespace ShipVerif.Pipe
open ShipVerif.Ws

/-! ### Ws-level facts about the two ends of the adapter (design `Cfg.fixed`) -/

theorem shutdown_rw (s : S) (e b : Bool) :
    (shutdown Ws.Cfg.fixed s e b).1.delivered = s.delivered ∧ (shutdown Ws.Cfg.fixed s e b).1.inbound = s.inbound ∧
    (shutdown Ws.Cfg.fixed s e b).1.reader = s.reader ∧ (shutdown Ws.Cfg.fixed s e b).1.peerGot = s.peerGot := by
  rw [shutdown_fixed]; split <;> simp

theorem errorPath_rw (s : S) :
    (errorPath Ws.Cfg.fixed s).delivered = s.delivered ∧ (errorPath Ws.Cfg.fixed s).inbound = s.inbound ∧
    (errorPath Ws.Cfg.fixed s).reader = s.reader ∧ (errorPath Ws.Cfg.fixed s).peerGot = s.peerGot := by
  rw [errorPath_fixed]; split <;> simp

theorem msgs_append (l r : List Item) : msgs (l ++ r) = msgs l ++ msgs r := by
  induction l with
  | nil => rfl
  | cons i t ih => cases i <;> simp [msgs, ih]

/-- the sender's transport only ever gains messages -/
theorem peerGot_mono (s : S) (x : Ws.Act) : s.peerGot <+: (Ws.step Ws.Cfg.fixed s x).peerGot := by
  cases x <;> simp only [Ws.step, fixed_rr, Bool.true_and]
  case localCloseBegin =>
    have : (if Ws.Cfg.fixed.farewellInsideOnce = true then (shutdown Ws.Cfg.fixed s false false).1
        else { s with localClosing := true, inbound := s.inbound ++ [.fail] }) = (shutdown Ws.Cfg.fixed s false false).1 := rfl
    rw [this, (shutdown_rw s false false).2.2.2]; exact List.prefix_refl _
  case localClose => rw [(shutdown_rw s false false).2.2.2]; exact List.prefix_refl _
  all_goals (repeat' split) <;> (try exact List.prefix_refl _) <;> (try simp [(errorPath_rw s).2.2.2]) <;>
    (try (rw [readErrorPath_fixed, (errorPath_rw s).2.2.2]; exact List.prefix_refl _))

/-- effect of one step of the receiving adapter on what it has delivered and what it still holds -/
theorem read_side (s : S) (x : Ws.Act) (hx : x ≠ .peerSend) :
    ((Ws.step Ws.Cfg.fixed s x).delivered = s.delivered ∧ flight (Ws.step Ws.Cfg.fixed s x) = flight s) ∨
    (∃ m, s.reader = .checked m ∧ x = .rDeliver ∧ (Ws.step Ws.Cfg.fixed s x).delivered = s.delivered ++ [m] ∧
          flight s = m :: flight (Ws.step Ws.Cfg.fixed s x)) ∨
    ((Ws.step Ws.Cfg.fixed s x).reader = .exited ∧ (Ws.step Ws.Cfg.fixed s x).delivered = s.delivered ∧
          ∃ pre, flight s = pre ++ flight (Ws.step Ws.Cfg.fixed s x)) := by
  cases x with
  | peerSend => exact absurd rfl hx
  | enter => left; simp only [Ws.step]; split <;> simp [flight]
  | wCheck => left; simp only [Ws.step]; (repeat' split) <;> simp [flight]
  | wSend => left; simp only [Ws.step]; (repeat' split) <;> simp [flight]
  | wClosed => left; simp only [Ws.step]; (repeat' split) <;> simp [flight]
  | wGiveUp => left; simp only [Ws.step]; (repeat' split) <;> simp [flight]
  | pumpTake => left; simp only [Ws.step]; (repeat' split) <;> simp [flight]
  | pumpCheck => left; simp only [Ws.step]; (repeat' split) <;> simp [flight]
  | pumpExit => left; simp only [Ws.step]; (repeat' split) <;> simp [flight]
  | pumpWrite ok =>
    left; simp only [Ws.step]
    repeat' split
    all_goals (try simp [flight])
    all_goals simp [flight, (errorPath_rw s).1, (errorPath_rw s).2.1, (errorPath_rw s).2.2.1]
  | localCloseBegin =>
    left
    have : Ws.step Ws.Cfg.fixed s .localCloseBegin = (shutdown Ws.Cfg.fixed s false false).1 := rfl
    rw [this]
    have h := shutdown_rw s false false
    simp [flight, h.1, h.2.1, h.2.2.1]
  | localClose =>
    left; simp only [Ws.step]
    have h := shutdown_rw s false false
    simp [flight, h.1, h.2.1, h.2.2.1]
  | peerFail => left; simp [Ws.step, flight, msgs_append, msgs]
  | rStart =>
    left; simp only [Ws.step]
    split
    · next hr => split <;> simp [flight, hr, held]
    · simp
  | rReturn =>
    left; simp only [Ws.step]
    split
    · next hr =>
      split
      · simp [flight, hr, held]
      · split
        · simp
        · next i rest hi => cases i <;> simp [flight, hr, held, hi, msgs]
    · simp
  | rReturnBuf =>
    left; simp only [Ws.step]
    split
    · next hr =>
      split
      · simp
      · next i rest hi => cases i <;> simp [flight, hr, held, hi, msgs]
    · simp
  | rCheck =>
    simp only [Ws.step, fixed_rr, Bool.true_and]
    split
    · next i hr =>
      split
      · right; right; refine ⟨?_, ?_, held (.got i), ?_⟩ <;> simp [flight, hr, held]
      · split
        · left
          rw [readErrorPath_fixed]
          simp [flight, hr, held, (errorPath_rw s).1, (errorPath_rw s).2.1]
        · next m => left; simp [flight, hr, held]
    · left; simp
  | rDeliver =>
    simp only [Ws.step]
    split
    · next m hr => right; left; refine ⟨m, hr, ?_, ?_, ?_⟩ <;> simp [flight, hr, held]
    · left; simp

/-- a read pump that has exited stays exited -/
theorem exited_absorbing (s : S) (x : Ws.Act) (h : s.reader = .exited) : (Ws.step Ws.Cfg.fixed s x).reader = .exited := by
  cases x <;> simp only [Ws.step, fixed_rr, Bool.true_and]
  case localCloseBegin =>
    have : (if Ws.Cfg.fixed.farewellInsideOnce = true then (shutdown Ws.Cfg.fixed s false false).1
        else { s with localClosing := true, inbound := s.inbound ++ [.fail] }) = (shutdown Ws.Cfg.fixed s false false).1 := rfl
    rw [this, (shutdown_rw s false false).2.2.1]; exact h
  case localClose => rw [(shutdown_rw s false false).2.2.1]; exact h
  all_goals (repeat' split) <;> (try exact h) <;> (try simp_all) <;> (try (rw [(errorPath_rw s).2.2.1]; exact h))

theorem take_of_prefix {α : Type} {l l' : List α} {n : Nat} (h : l <+: l') (hn : n ≤ l.length) : l'.take n = l.take n := by
  obtain ⟨t, rfl⟩ := h
  exact List.take_append_of_le_length hn

/-! ### The pipeline invariant -/

structure PInv (k : Cls) (p : P) : Prop where
  aInv : Ws.Inv p.a
  wiredLe : p.wired ≤ p.a.peerGot.length
  arrived : p.b.delivered <+: p.a.peerGot.take p.wired
  arrivedEq : p.b.reader ≠ .exited → p.b.delivered ++ flight p.b = p.a.peerGot.take p.wired
  ship : p.appGot ++ p.buffer = p.b.delivered.filter k.d
  notYet : p.installed = false → p.appGot = []
  noBuf : p.installed = true → p.buffer = []
  noPend : p.flushPending = []

theorem pinv_init (k : Cls) : PInv k ({} : P) where
  aInv := inv_init
  wiredLe := Nat.le_refl _
  arrived := List.prefix_refl _
  arrivedEq := fun _ => rfl
  ship := rfl
  notYet := fun _ => rfl
  noBuf := fun _ => rfl
  noPend := rfl

theorem shipRecv_inv (k : Cls) (p : P) (m : Msg) (del : List Msg)
    (hs : p.appGot ++ p.buffer = del.filter k.d) (hn : p.installed = false → p.appGot = [])
    (hb : p.installed = true → p.buffer = []) (hp : p.flushPending = []) :
    let q := shipRecv Cfg.fixed k p m
    q.appGot ++ q.buffer = (del ++ [m]).filter k.d ∧ (q.installed = false → q.appGot = []) ∧
    (q.installed = true → q.buffer = []) ∧ q.flushPending = [] ∧ q.a = p.a ∧ q.b = p.b ∧ q.wired = p.wired := by
  simp only [shipRecv, Cfg.fixed, if_true]
  by_cases hd : k.d m = true
  · simp only [hd, if_true]
    by_cases hi : p.installed = true
    · simp [hi, hb hi, hs, hd, hp, List.filter_append]
      rw [← hs, hb hi]; simp
    · have hi' : p.installed = false := by simpa using hi
      simp [hi', hn hi', hd, hp, List.filter_append]
      rw [← hs, hn hi']; simp
  · have hd' : k.d m = false := by simpa using hd
    simp only [hd', Bool.false_eq_true, if_false]
    by_cases hf : (k.fin m && !p.installed) = true
    · simp only [hf, if_true]
      have hi' : p.installed = false := by
        cases h : p.installed <;> simp_all
      simp [hs, hd', hp, List.filter_append, hn hi']
      rw [← hs, hn hi']; simp
    · simp only [hf, Bool.false_eq_true, if_false]
      simp [hs, hd', hp, List.filter_append]
      exact ⟨hn, hb⟩

theorem pinv_step {k : Cls} {p : P} (h : PInv k p) (x : PAct) : PInv k (step Ws.Cfg.fixed Cfg.fixed k p x) := by
  obtain ⟨h1, h2, h3, h4, h5, h6, h7, h8⟩ := h
  cases x with
  | a y =>
    have hm := peerGot_mono p.a y
    have hl : p.a.peerGot.length ≤ (Ws.step Ws.Cfg.fixed p.a y).peerGot.length := hm.length_le
    have ht := take_of_prefix hm h2
    exact ⟨inv_step h1 y, Nat.le_trans h2 hl, by simp only [step]; rw [ht]; exact h3,
      by intro hr; simp only [step]; rw [ht]; exact h4 hr, h5, h6, h7, h8⟩
  | flush =>
    have : step Ws.Cfg.fixed Cfg.fixed k p .flush = p := by simp [step, h8]
    rw [this]; exact ⟨h1, h2, h3, h4, h5, h6, h7, h8⟩
  | wire =>
    simp only [step]
    split
    · next m hm =>
      have hlt : p.wired < p.a.peerGot.length := by
        rcases Nat.lt_or_ge p.wired p.a.peerGot.length with hh | hh
        · exact hh
        · rw [List.getElem?_eq_none hh] at hm; cases hm
      have htk : p.a.peerGot.take (p.wired + 1) = p.a.peerGot.take p.wired ++ [m] := by
        rw [List.take_add_one, hm]; rfl
      refine ⟨h1, hlt, ?_, ?_, h5, h6, h7, h8⟩
      · simp only; rw [htk]; exact List.IsPrefix.trans h3 (List.prefix_append _ _)
      · intro hr
        simp only at hr ⊢
        rw [htk, ← h4 hr]
        simp [flight, msgs_append, msgs]
    · exact ⟨h1, h2, h3, h4, h5, h6, h7, h8⟩
  | b y =>
    simp only [step, stepB]
    by_cases hy : y = .peerSend
    · simp only [hy, if_true]; exact ⟨h1, h2, h3, h4, h5, h6, h7, h8⟩
    · simp only [hy, if_false]
      rcases read_side p.b y hy with ⟨hd, hf⟩ | ⟨m, hr, hyd, hd, hf⟩ | ⟨he, hd, pre, hf⟩
      · -- nothing delivered, nothing dropped
        have hkeep : (Ws.step Ws.Cfg.fixed p.b y).reader ≠ .exited → p.b.reader ≠ .exited :=
          fun hne hex => hne (exited_absorbing p.b y hex)
        by_cases hyd : y = .rDeliver
        · simp only [hyd, if_true]
          split
          · next m hr =>
            -- a delivery: contradicts "nothing delivered"
            rcases read_side p.b .rDeliver (by simp) with ⟨hd2, _⟩ | ⟨m2, _, _, hd2, _⟩ | ⟨_, hd2, _⟩
            all_goals (subst hyd; simp [Ws.step, hr] at hd)
          · subst hyd
            exact ⟨h1, h2, by simp only; rw [hd]; exact h3, by intro hne; simp only at hne ⊢; rw [hd, hf]; exact h4 (hkeep hne),
              by simp only; rw [hd]; exact h5, h6, h7, h8⟩
        · simp only [hyd, if_false]
          exact ⟨h1, h2, by simp only; rw [hd]; exact h3, by intro hne; simp only at hne ⊢; rw [hd, hf]; exact h4 (hkeep hne),
            by simp only; rw [hd]; exact h5, h6, h7, h8⟩
      · -- the read pump hands m to the SHIP layer
        subst hyd
        simp only [if_true, hr]
        have hne : p.b.reader ≠ .exited := by rw [hr]; intro hx; cases hx
        have heq := h4 hne
        rw [hf] at heq
        have hs := shipRecv_inv k { p with b := Ws.step Ws.Cfg.fixed p.b .rDeliver } m p.b.delivered h5 h6 h7 h8
        obtain ⟨s1, s2, s3, s4, s5, s6, s7⟩ := hs
        refine ⟨by rw [s5]; exact h1, by rw [s5, s7]; exact h2, ?_, ?_, ?_, s2, s3, s4⟩
        · rw [s5, s6, s7]; simp only; rw [hd, ← heq]
          exact ⟨flight (Ws.step Ws.Cfg.fixed p.b .rDeliver), by simp⟩
        · intro _; rw [s5, s6, s7]; simp only; rw [hd, ← heq]; simp
        · rw [s6]; simp only; rw [hd]; exact s1
      · -- the read pump exits and drops what it held
        have hfin : PInv k { p with b := Ws.step Ws.Cfg.fixed p.b y } :=
          ⟨h1, h2, by simp only; rw [hd]; exact h3, by intro hne; exact absurd he hne, by simp only; rw [hd]; exact h5, h6, h7, h8⟩
        by_cases hyd : y = .rDeliver
        · subst hyd
          have hno : ∀ m, p.b.reader ≠ .checked m := by
            intro m hr
            simp [Ws.step, hr] at he
          simp only [if_true]
          first
            | exact hfin
            | (split
               · next m hr => exact absurd hr (hno m)
               · exact hfin)
        · simp only [hyd, if_false]; exact hfin

theorem pinv_run (k : Cls) (acts : List PAct) : PInv k (run Ws.Cfg.fixed Cfg.fixed k acts) := by
  unfold run
  suffices ∀ p, PInv k p → PInv k (acts.foldl (step Ws.Cfg.fixed Cfg.fixed k) p) from this _ (pinv_init k)
  induction acts with
  | nil => intro p h; exact h
  | cons x rest ih => intro p h; exact ih _ (pinv_step h x)

theorem pipeCfg_is_fixed : Generated.pipeCfg = Cfg.fixed := by decide

/-- **C06 (in order, nothing invented, nothing early)**: on every schedule - any number of datagrams and other messages,
    closes and failures on either side at any moment - what the receiving application was handed, followed by what
    is buffered for it, is a gap-free prefix of the valid datagrams the sending connection accepted, in acceptance
    order; nothing is handed over before the data reader is installed, and once it is the buffer is empty. -/
theorem C06_in_order_no_invention (k : Cls) (acts : List PAct) :
    ∀ p, p = run Generated.wsCfg Generated.pipeCfg k acts →
      p.appGot ++ p.buffer <+: p.a.accepted.filter k.d ∧ p.flushPending = [] ∧
      (p.installed = true → p.buffer = []) := by
  intro p hp
  rw [wsCfg_is_fixed, pipeCfg_is_fixed] at hp
  have h := pinv_run k acts
  rw [← hp] at h
  refine ⟨?_, h.noPend, h.noBuf⟩
  rw [h.ship]
  apply List.IsPrefix.filter
  exact List.IsPrefix.trans h.arrived (List.IsPrefix.trans (List.take_prefix _ _) h.aInv.order.2)

theorem C06_not_before_setup (k : Cls) (acts : List PAct) :
    (run Generated.wsCfg Generated.pipeCfg k acts).installed = false →
    (run Generated.wsCfg Generated.pipeCfg k acts).appGot = [] := by
  rw [wsCfg_is_fixed, pipeCfg_is_fixed]; exact (pinv_run k acts).notYet

/-- **C06 (nothing is lost while the connection stays open)**: as long as the sender's write pump and the receiver's
    read pump are alive, every accepted datagram is accounted for: handed over, buffered, or under way in one of
    the named stages (read pump, receiver's socket, transport, write pump, write queue) - in that order. -/
theorem C06_nothing_lost_while_open (k : Cls) (acts : List PAct) :
    ∀ p, p = run Generated.wsCfg Generated.pipeCfg k acts → p.a.pump ≠ .exited → p.b.reader ≠ .exited →
      p.a.accepted.filter k.d =
        p.appGot ++ p.buffer ++ (flight p.b ++ p.a.peerGot.drop p.wired ++ pending p.a).filter k.d := by
  intro p hp hpump hreader
  rw [wsCfg_is_fixed, pipeCfg_is_fixed] at hp
  have h := pinv_run k acts
  rw [← hp] at h
  have h1 := h.aInv.order.1 hpump
  have h2 := h.arrivedEq hreader
  rw [h.ship, h1]
  conv => lhs; rw [← List.take_append_drop p.wired p.a.peerGot, ← h2]
  simp [List.filter_append, List.append_assoc]

/-- **C06 (exactly once)**: when nothing is under way any more and the reader is installed, the application has been
    handed exactly the valid datagrams that were accepted, each once, in order. -/
theorem C06_exactly_once_when_drained (k : Cls) (acts : List PAct) :
    ∀ p, p = run Generated.wsCfg Generated.pipeCfg k acts → p.a.pump ≠ .exited → p.b.reader ≠ .exited →
      flight p.b = [] → p.wired = p.a.peerGot.length → pending p.a = [] → p.installed = true →
      p.appGot = p.a.accepted.filter k.d := by
  intro p hp hpump hreader hf hw hq hi
  have h := C06_nothing_lost_while_open k acts p hp hpump hreader
  have hb := (C06_in_order_no_invention k acts p hp).2.2 hi
  rw [h, hf, hw, hq, hb]; simp

/-- non-vacuity: three messages sent, carried over and read - two datagrams around the message that completes the
    receiver's handshake: the first is buffered and flushed, the second handed over directly -/
def demoCls : Cls := { d := fun m => m != 1, fin := fun m => m == 1 }
def sendOne : List PAct := [.a .enter, .a .wCheck, .a .wSend, .a .pumpTake, .a (.pumpWrite true)]
def recvOne : List PAct := [.wire, .b .rStart, .b .rReturn, .b .rCheck, .b .rDeliver]
def demoActs : List PAct := sendOne ++ sendOne ++ sendOne ++ recvOne ++ recvOne ++ recvOne

example : (run Ws.Cfg.fixed Cfg.fixed demoCls demoActs).appGot = [0, 2] ∧
    (run Ws.Cfg.fixed Cfg.fixed demoCls demoActs).a.accepted = [0, 1, 2] ∧
    (run Ws.Cfg.fixed Cfg.fixed demoCls (sendOne ++ recvOne)).buffer = [0] := by decide

/-- a design that hands the buffered datagrams over in a goroutine of its own delivers a later datagram first -/
theorem C06_async_flush_reorders :
    (run Ws.Cfg.fixed { Cfg.fixed with flushSync := false } demoCls (demoActs ++ [.flush])).appGot = [2, 0] := by decide

end ShipVerif.Pipe
