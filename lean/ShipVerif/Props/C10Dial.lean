/-
  C10 (removal against an establishment under way): "after a SKI is unregistered it is untrusted, its connection is
  closed, no further connection to it is initiated" - for every interleaving of the user's operations with dials that
  started earlier and finish later.
-/
import ShipVerif.Model.Dial
import ShipVerif.Generated.DialFacts

namespace ShipVerif.Dial

structure DInv (s : S) : Prop where
  settled : s.rm = none → s.removed = true → s.wanted = false ∧ s.reg = none
  under : ∀ f, s.rm = some { marked := true, looked := some f } → s.wanted = false ∧ (s.reg = none ∨ s.reg = f)
  shape : ∀ r, s.rm = some r → (r.marked = true ↔ r.looked.isSome = true)

theorem dinv_init : DInv ({} : S) where
  settled := by intro _ h; cases h
  under := by intro f h; cases h
  shape := by intro r h; cases h

theorem dinv_step {s : S} (h : DInv s) (a : Act) : DInv (step Cfg.fixed s a) := by
  obtain ⟨h1, h2, h3⟩ := h
  cases a with
  | register =>
    simp only [step]
    split
    · next hr =>
      refine ⟨?_, ?_, ?_⟩
      · intro _ hx; cases hx
      · intro f hf; rw [hr] at hf; cases hf
      · intro r hx; rw [hr] at hx; cases hx
    · exact ⟨h1, h2, h3⟩
  | dialStart =>
    simp only [step]
    split
    · exact ⟨h1, h2, h3⟩
    · exact ⟨h1, h2, h3⟩
  | dialDone d =>
    simp only [step, Cfg.fixed, Bool.true_and]
    split
    · split
      · exact ⟨h1, h2, h3⟩
      · next hw =>
        have hw' : s.wanted = true := by simpa using hw
        refine ⟨?_, ?_, h3⟩
        · intro hr hx; have := (h1 hr hx).1; rw [hw'] at this; cases this
        · intro f hf; have := (h2 f hf).1; rw [hw'] at this; cases this
    · exact ⟨h1, h2, h3⟩
  | rmStart =>
    simp only [step]
    split
    · refine ⟨?_, ?_, ?_⟩
      · intro hx; cases hx
      · intro f hf; simp at hf
      · intro r hr; simp at hr; subst hr; simp
    · exact ⟨h1, h2, h3⟩
  | rmMark =>
    simp only [step, Cfg.fixed, if_true]; split <;> exact ⟨h1, h2, h3⟩
  | rmLookup =>
    simp only [step, Cfg.fixed, if_true]; split <;> exact ⟨h1, h2, h3⟩
  | rmBoth =>
    simp only [step, Cfg.fixed, Bool.true_and]
    split
    · next r hr =>
      split
      · refine ⟨?_, ?_, ?_⟩
        · intro hx; cases hx
        · intro f hf; simp at hf; exact ⟨rfl, Or.inr hf⟩
        · intro r' hr'; simp at hr'; subst hr'; simp
      · exact ⟨h1, h2, h3⟩
    · exact ⟨h1, h2, h3⟩
  | rmFinish =>
    simp only [step]
    split
    · next found hr =>
      have hh := h2 found hr
      refine ⟨?_, ?_, ?_⟩
      · intro _ _
        refine ⟨hh.1, ?_⟩
        rcases hh.2 with hn | hf
        · simp [hn]
        · simp [hf]
      · intro f hf; cases hf
      · intro r hx; cases hx
    · exact ⟨h1, h2, h3⟩
  | connClosed =>
    refine ⟨?_, ?_, h3⟩
    · intro hr hx; exact ⟨(h1 hr hx).1, rfl⟩
    · intro f hf; exact ⟨(h2 f hf).1, Or.inl rfl⟩

theorem dinv_run (acts : List Act) : DInv (run Cfg.fixed acts) := by
  unfold run
  suffices ∀ s, DInv s → DInv (acts.foldl (step Cfg.fixed) s) from this _ dinv_init
  induction acts with
  | nil => intro s h; exact h
  | cons a rest ih => intro s h; exact ih _ (dinv_step h a)

theorem dialCfg_is_fixed : Generated.dialCfg = Cfg.fixed := by decide

/-- **C10 (removal is final, all schedules)**: whenever the user's last finished operation on the SKI is a removal,
    the service is not wanted and no connection of it is registered - whatever dials were under way when the removal
    came and whenever they finish. -/
theorem C10_removed_stays_removed (acts : List Act) :
    (run Generated.dialCfg acts).rm = none → (run Generated.dialCfg acts).removed = true →
    (run Generated.dialCfg acts).wanted = false ∧ (run Generated.dialCfg acts).reg = none := by
  rw [dialCfg_is_fixed]; exact (dinv_run acts).settled

/-- the pinned design (no re-check): a dial that finishes after the removal registers its connection -/
theorem C10_pinned_dial_survives_removal :
    let s := run Cfg.pinned [.register, .dialStart, .rmStart, .rmMark, .rmLookup, .rmFinish, .dialDone 0]
    s.rm = none ∧ s.removed = true ∧ s.reg = some 0 := by decide

/-- a re-check alone is not enough when the removal looks the connection up before it marks the service (the order in
    CancelPairingWithSKI): the establishment slips in between -/
theorem C10_recheck_without_exclusion :
    let s := run { recheck := true, exclusive := false } [.register, .dialStart, .rmStart, .rmLookup, .dialDone 0, .rmMark, .rmFinish]
    s.rm = none ∧ s.removed = true ∧ s.reg = some 0 := by decide

/-- non-vacuity: in the fixed design a removal does finish, and a registered service does get its connection -/
example : (run Cfg.fixed [.register, .dialStart, .rmStart, .rmBoth, .rmFinish, .dialDone 0]).removed = true ∧
    (run Cfg.fixed [.register, .dialStart, .rmStart, .rmBoth, .rmFinish, .dialDone 0]).reg = none := by decide
example : (run Cfg.fixed [.register, .dialStart, .dialDone 0]).reg = some 0 := by decide

end ShipVerif.Dial
