/-
  Props/C18Notify.lean — C18, liveness of the notification queue: whatever the schedule, when no delivery goroutine is
  left every queued update has been delivered; there is never more than one delivery goroutine (so updates reach the
  application in the order they were queued). The schedule that loses an update when the mark is cleared late.
-/
import ShipVerif.Model.Notify
import ShipVerif.Generated.NotifyFacts

namespace ShipVerif.Notify

def Cfg.fixed : Cfg := { clearInSection := true }

theorem notifyCfg_is_fixed : Generated.notifyCfg = Cfg.fixed := by decide

/-- the mark says whether a delivery goroutine exists; there is at most one; without one the queue is empty; every
    update queued is delivered, queued or in the goroutine's hands -/
def Inv (s : S) : Prop :=
  (s.active = false ∧ s.ds = [] ∧ s.queue = 0 ∧ s.notified = s.delivered) ∨
  (s.active = true ∧ s.ds = [.check] ∧ s.notified = s.delivered + s.queue) ∨
  (s.active = true ∧ s.ds = [.deliver] ∧ s.notified = s.delivered + s.queue + 1)

theorem inv_init : Inv S.init := Or.inl ⟨rfl, rfl, rfl, rfl⟩

theorem inv_step (s : S) (a : Act) (h : Inv s) : Inv (step Cfg.fixed s a) := by
  rcases h with ⟨ha, hd, hq, hn⟩ | ⟨ha, hd, hn⟩ | ⟨ha, hd, hn⟩
  · cases a with
    | notify =>
      refine Or.inr (Or.inl ?_)
      simp [step, ha, hd, hq, hn]
    | stepD i => exact Or.inl (by simp [step, hd, ha, hq, hn])
  · cases a with
    | notify => exact Or.inr (Or.inl (by simp [step, ha, hd]; omega))
    | stepD i =>
      cases i with
      | zero =>
        by_cases hq : s.queue = 0
        · exact Or.inl (by simp [step, hd, hq, Cfg.fixed]; omega)
        · refine Or.inr (Or.inr ?_)
          simp [step, hd, hq, ha]; omega
      | succ j => exact Or.inr (Or.inl (by simp [step, hd, ha, hn]))
  · cases a with
    | notify => exact Or.inr (Or.inr (by simp [step, ha, hd]; omega))
    | stepD i =>
      cases i with
      | zero => exact Or.inr (Or.inl (by simp [step, hd, ha]; omega))
      | succ j => exact Or.inr (Or.inr (by simp [step, hd, ha, hn]))

theorem inv_run (as : List Act) : Inv (run Cfg.fixed as) := by
  unfold run
  suffices h : ∀ s, Inv s → Inv (as.foldl (step Cfg.fixed) s) from h _ inv_init
  induction as with
  | nil => intro s h; exact h
  | cons a as ih => intro s h; exact ih _ (inv_step s a h)

/-- C18, nothing is left behind: in every schedule, once no delivery goroutine is alive, the queue is empty and every
    update that was queued has been delivered to the application -/
theorem C18_queue_drained (as : List Act) (hq : (run Cfg.fixed as).ds = []) :
    (run Cfg.fixed as).queue = 0 ∧ (run Cfg.fixed as).delivered = (run Cfg.fixed as).notified := by
  rcases inv_run as with ⟨_, _, h0, hn⟩ | ⟨_, hd, _⟩ | ⟨_, hd, _⟩
  · exact ⟨h0, hn.symm⟩
  · simp [hd] at hq
  · simp [hd] at hq

/-- C18, one consumer: there is never more than one delivery goroutine, so the application is called with the updates
    one at a time in the order of the queue -/
theorem C18_single_deliverer (as : List Act) : (run Cfg.fixed as).ds.length ≤ 1 := by
  rcases inv_run as with ⟨_, hd, _⟩ | ⟨_, hd, _⟩ | ⟨_, hd, _⟩ <;> simp [hd]

/-- the theorem applied to /repo -/
theorem C18_queue_drained_repo (as : List Act) (hq : (run Generated.notifyCfg as).ds = []) :
    (run Generated.notifyCfg as).delivered = (run Generated.notifyCfg as).notified := by
  rw [notifyCfg_is_fixed] at hq ⊢
  exact (C18_queue_drained as hq).2

/-- non-vacuity: two updates, the second queued while the first is being delivered; both delivered, goroutine gone -/
example : (run Cfg.fixed [.notify, .stepD 0, .notify, .stepD 0, .stepD 0, .stepD 0, .stepD 0]).ds = [] ∧
    (run Cfg.fixed [.notify, .stepD 0, .notify, .stepD 0, .stepD 0, .stepD 0, .stepD 0]).delivered = 2 := by decide

/-- the lost wakeup: the mark is cleared after the mutex was released. An update queued between the empty check and the
    clearing finds the mark still set and starts no goroutine; the goroutine then clears the mark and ends: no delivery
    goroutine is alive, one update is queued and stays there until some later update -/
theorem C18_late_clear_loses_update :
    let s := run { clearInSection := false } [.notify, .stepD 0, .stepD 0, .stepD 0, .notify, .stepD 0]
    s.ds = [] ∧ s.queue = 1 ∧ s.delivered = 1 ∧ s.notified = 2 := by decide

end ShipVerif.Notify
