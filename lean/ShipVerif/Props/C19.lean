/-
  C19 — the Avahi provider survives daemon restarts without stale or lost announcements.
-/
import ShipVerif.Model.Avahi
import ShipVerif.Generated.AvahiFacts

namespace ShipVerif.Avahi

structure Inv (s : S) : Prop where
  sessUp : s.session = true → s.up = true
  browse : s.browsing = s.session
  pubSess : s.published ≠ none → s.session = true ∧ s.groupRef = true
  autoNotManual : s.autoRe = true → s.manual = false ∧ s.started = true
  loopsWhenLost : s.autoRe = true → s.session = false → s.loops ≠ []
  pubWanted : s.session = true → s.loops = [] → s.autoRe = true → s.published = s.wanted
  pubNoneOrWanted : s.published = none ∨ s.published = s.wanted
  noLate : s.afterShutdown = 0
  listen : s.listener = true → s.listenerAlive = true
  notBlocked : s.shutdownBlocked = false
  idle : s.autoRe = false → s.wanted = none
  sessAuto : s.session = true → s.autoRe = true

theorem inv_init : Inv ({} : S) where
  sessUp := by intro h; cases h
  browse := rfl
  pubSess := by intro h; exact absurd rfl h
  autoNotManual := by intro h; cases h
  loopsWhenLost := by intro h; cases h
  pubWanted := by intro h; cases h
  pubNoneOrWanted := Or.inl rfl
  noLate := rfl
  listen := by intro h; cases h
  notBlocked := rfl
  idle := by intro _; rfl
  sessAuto := by intro h; cases h

set_option maxHeartbeats 1000000 in
theorem inv_step {s : S} (h : Inv s) (e : Ev) : Inv (step Cfg.fixed s e) := by
  obtain ⟨h1, h2, h3, h4, h5, h6, h7, h8, h9, h10, h11, h12⟩ := h
  cases e with
  | start =>
    simp only [step]
    by_cases ha : s.autoRe = true
    · simp only [ha, if_true]
      exact ⟨h1, h2, h3, h4, h5, h6, h7, h8, h9, h10, h11, h12⟩
    · have ha' : s.autoRe = false := by simpa using ha
      have hs : s.session = false := by
        cases hx : s.session with
        | false => rfl
        | true => have := h12 hx; rw [ha'] at this; cases this
      have hw := h11 ha'
      simp only [ha', Bool.false_eq_true, if_false, doStart]
      by_cases hu : s.up = true
      · simp only [hu, Bool.not_true, Bool.false_eq_true, if_false]
        constructor <;> simp_all
        · cases hl : s.listener
          · exact Or.inr rfl
          · exact Or.inl (h9 hl)
      · have hu' : s.up = false := by simpa using hu
        simp only [hu', Bool.not_false, if_true]
        constructor <;> simp_all
  | daemonUp =>
    simp only [step]
    constructor <;> simp_all
  | daemonDown =>
    simp only [step]
    by_cases hu : s.up = true
    · simp only [hu, Bool.not_true, Bool.false_eq_true, if_false]
      by_cases hc : (!s.session || s.manual || !s.autoRe) = true
      · simp only [hc, if_true]
        constructor <;> simp_all
        · intro ha
          rcases hc with (hc | hc) | hc
          · exact h5 ha hc
          · rw [(h4 ha).1] at hc; cases hc
          · rw [ha] at hc; cases hc
      · simp only [hc, Bool.false_eq_true, if_false]
        constructor <;> simp_all
    · have hu' : s.up = false := by simpa using hu
      simp only [hu', Bool.not_false, if_true]
      constructor <;> simp_all
  | tick =>
    simp only [step, Cfg.fixed, Bool.true_and, if_true]
    cases hl : s.loops with
    | nil => simp only []; exact ⟨h1, h2, h3, h4, h5, h6, h7, h8, h9, h10, h11, h12⟩
    | cons captured rest =>
      simp only []
      by_cases hm : s.manual = true
      · simp only [hm, if_true]
        have ha : s.autoRe = false := by
          cases hx : s.autoRe with
          | false => rfl
          | true => have := (h4 hx).1; rw [hm] at this; cases this
        have hs : s.session = false := by
          cases hx : s.session with
          | false => rfl
          | true => have := h12 hx; rw [ha] at this; cases this
        constructor <;> simp_all
      · have hm' : s.manual = false := by simpa using hm
        simp only [hm', Bool.false_eq_true, if_false, doStart]
        by_cases hu : s.up = true
        · simp only [hu, Bool.not_true, Bool.false_eq_true, if_false, doAnnounce]
          cases hw : s.wanted with
          | none =>
            simp only []
            constructor <;> simp_all
            · cases hl2 : s.listener
              · exact Or.inr rfl
              · exact Or.inl (h9 hl2)
          | some t =>
            simp only [Bool.and_self, if_true]
            constructor <;> simp_all
            · cases hl2 : s.listener
              · exact Or.inr rfl
              · exact Or.inl (h9 hl2)
        · have hu' : s.up = false := by simpa using hu
          simp only [hu', Bool.not_false, if_true]
          constructor <;> simp_all
  | announce t =>
    simp only [step, doAnnounce]
    by_cases ha : s.autoRe = true
    · simp only [ha, Bool.not_true, Bool.false_eq_true, if_false]
      by_cases hc : (s.session && s.up) = true
      · simp only [hc, if_true]
        constructor <;> simp_all
      · simp only [hc, Bool.false_eq_true, if_false]
        have hs : s.session = false := by
          cases hx : s.session with
          | false => rfl
          | true => have := h1 hx; simp [hx, this] at hc
        have hp : s.published = none := by
          cases hpub : s.published with
          | none => rfl
          | some t => have := (h3 (by rw [hpub]; simp)).1; rw [hs] at this; cases this
        constructor <;> simp_all
    · have ha' : s.autoRe = false := by simpa using ha
      simp only [ha', Bool.not_false, if_true]
      exact ⟨h1, h2, h3, h4, h5, h6, h7, h8, h9, h10, h11, h12⟩
  | unannounce =>
    simp only [step]
    by_cases ha : s.autoRe = true
    · simp only [ha, Bool.not_true, Bool.false_eq_true, if_false]
      by_cases hg : s.groupRef = true
      · simp only [hg, if_true]
        constructor <;> simp_all
      · simp only [hg, Bool.false_eq_true, if_false]
        have hp : s.published = none := by
          cases hpub : s.published with
          | none => rfl
          | some t => have := (h3 (by rw [hpub]; simp)).2; exact absurd this hg
        constructor <;> simp_all
    · have ha' : s.autoRe = false := by simpa using ha
      simp only [ha', Bool.not_false, if_true]
      exact ⟨h1, h2, h3, h4, h5, h6, h7, h8, h9, h10, h11, h12⟩
  | shutdown =>
    simp only [step]
    by_cases hst : s.started = true
    · simp only [hst, Bool.not_true, Bool.false_eq_true, if_false]
      constructor <;> simp_all
    · have hst' : s.started = false := by simpa using hst
      simp only [hst', Bool.not_false, if_true]
      have ha : s.autoRe = false := by
        cases hx : s.autoRe with
        | false => rfl
        | true => have := (h4 hx).2; rw [hst'] at this; cases this
      have hs : s.session = false := by
        cases hx : s.session with
        | false => rfl
        | true => have := h12 hx; rw [ha] at this; cases this
      constructor <;> simp_all

  | service =>
    simp only [step]
    split
    · exact ⟨h1, h2, h3, h4, h5, h6, h7, h8, h9, h10, h11, h12⟩
    · split <;> exact ⟨h1, h2, h3, h4, h5, h6, h7, h8, h9, h10, h11, h12⟩
  | tickFlaky =>
    simp only [step, Cfg.fixed, Bool.true_and, doStart]
    (repeat' split)
    all_goals first
      | exact ⟨h1, h2, h3, h4, h5, h6, h7, h8, h9, h10, h11, h12⟩
      | (constructor <;> simp_all)

theorem cfg_fixed : Generated.avahiCfg = Cfg.fixed := by decide

theorem inv_run (evs : List Ev) : Inv (run Cfg.fixed evs) := by
  unfold run
  suffices ∀ s, Inv s → Inv (evs.foldl (step Cfg.fixed) s) from this _ inv_init
  induction evs with
  | nil => intro s h; exact h
  | cons e es ih => intro s h; exact ih _ (inv_step h e)

/-- **C19 (resume)**: after any sequence of daemon outages, failed reconnect attempts, announce,
    unannounce and shutdown calls: whenever the daemon is reachable, no reconnect attempt is pending and
    the provider is running (started, not shut down), it is browsing, and the daemon publishes exactly
    what is wanted at that moment — nothing if the announcement was withdrawn, the latest TXT otherwise. -/
theorem C19_resume (evs : List Ev) :
    let s := run Generated.avahiCfg evs
    s.up = true → s.loops = [] → s.autoRe = true → s.browsing = true ∧ s.published = s.wanted := by
  rw [cfg_fixed]
  intro s hu hl ha
  have h := inv_run evs
  have hs : s.session = true := by
    cases hx : s.session with
    | true => rfl
    | false => exact absurd hl (h.loopsWhenLost ha hx)
  exact ⟨by rw [h.browse]; exact hs, h.pubWanted hs hl ha⟩

/-- **C19 (shutdown is final and returns)**: a reconnect loop never touches the daemon after a manual
    shutdown, nothing stays published or browsing after it, and Shutdown never waits for a listener
    that does not exist. -/
theorem C19_shutdown_final (evs : List Ev) :
    let s := run Generated.avahiCfg evs
    s.afterShutdown = 0 ∧ s.shutdownBlocked = false ∧
    (s.manual = true → s.session = false ∧ s.browsing = false ∧ s.published = none) := by
  rw [cfg_fixed]
  intro s
  have h := inv_run evs
  refine ⟨h.noLate, h.notBlocked, ?_⟩
  intro hm
  have ha : s.autoRe = false := by
    cases hx : s.autoRe with
    | false => rfl
    | true => have := (h.autoNotManual hx).1; rw [hm] at this; cases this
  have hs : s.session = false := by
    cases hx : s.session with
    | false => rfl
    | true => have := h.sessAuto hx; rw [ha] at this; cases this
  refine ⟨hs, by rw [h.browse]; exact hs, ?_⟩
  cases hp : s.published with
  | none => rfl
  | some t => have := (h.pubSess (by rw [hp]; simp)).1; rw [hs] at this; cases this

/-- a session with the daemon always has a listener flag set, and nothing the daemon emitted was left untaken -/
def InvL (s : S) : Prop := (s.session = true → s.listener = true) ∧ s.undelivered = 0

theorem invL_step {s : S} (hi : Inv s) (h : InvL s) (e : Ev) : InvL (step Cfg.fixed s e) := by
  obtain ⟨h1, h2⟩ := h
  have hsl : s.browsing = true → s.listenerAlive = true := by
    intro hb
    have hs : s.session = true := by rw [← hi.browse]; exact hb
    exact hi.listen (h1 hs)
  unfold InvL
  cases e <;> simp only [step, doStart, doAnnounce, Cfg.fixed, Bool.true_and]
  all_goals (repeat' split)
  all_goals (first | exact ⟨h1, h2⟩ | (constructor <;> simp_all))

theorem invL_run (evs : List Ev) : InvL (run Cfg.fixed evs) := by
  unfold run
  suffices ∀ s, Inv s → InvL s → InvL (evs.foldl (step Cfg.fixed) s) from this _ inv_init ⟨(fun h => by cases h), rfl⟩
  induction evs with
  | nil => intro s _ h; exact h
  | cons e es ih => intro s hi h; exact ih _ (inv_step hi e) (invL_step hi h e)

/-- **C19 (services resolved afterwards are reported again)**: on every history, every browse result the daemon
    emits is taken by the provider's listener and reported - none is left untaken; and whenever the daemon is
    reachable, no reconnect is pending and the provider is running, the daemon does hold a browser for it
    (`C19_resume`), so that results are emitted at all. -/
theorem C19_results_reported (evs : List Ev) : (run Generated.avahiCfg evs).undelivered = 0 := by
  rw [cfg_fixed]; exact (invL_run evs).2

/-- non-vacuity: a service found after a daemon restart is reported -/
example : (run Cfg.fixed [.start, .service, .daemonDown, .service, .daemonUp, .tick, .service]).reports = 2 := by decide

/-- the pinned design: an announcement withdrawn during an outage is published again after the
    reconnect (the announcement was captured when the daemon went away) -/
theorem C19_pinned_resurrects_announcement :
    (run Cfg.pinned [.start, .announce 1, .daemonDown, .unannounce, .daemonUp, .tick]).published = some 1 := by decide

/-- the pinned design: a reconnect loop that slept through Shutdown starts the provider again -/
theorem C19_pinned_restart_after_shutdown :
    let s := run Cfg.pinned [.start, .daemonDown, .daemonUp, .shutdown, .tick]
    s.browsing = true ∧ s.afterShutdown = 1 := by decide

/-- non-vacuity: an announcement changed during an outage is published with the new TXT afterwards -/
example : (run Cfg.fixed [.start, .announce 1, .daemonDown, .announce 2, .tick, .daemonUp, .tick]).published = some 2 := by decide
example : (run Cfg.fixed [.start, .announce 1, .daemonDown, .announce 2, .tick, .daemonUp, .tick]).browsing = true := by decide

end ShipVerif.Avahi
