/-
  C15 (string part) — all spellings of a SKI normalise to the same canonical string.
-/
import ShipVerif.Model.Ski

namespace ShipVerif.Ski

theorem ops_eq : Generated.normalizeOps = [("replace", " ", ""), ("replace", "-", ""), ("tolower", "", "")] := by decide

def keep (c : Nat) : Bool := decide (c ≠ 32 ∧ c ≠ 45)

theorem applyOp_space (s : Str) : applyOp ("replace", " ", "") s = s.filter (fun x => decide (x ≠ 32)) := by
  have h1 : strBytes " " = [32] := by decide
  have h3 : strBytes "" = [] := by decide
  simp [applyOp, h1, h3]
theorem applyOp_dash (s : Str) : applyOp ("replace", "-", "") s = s.filter (fun x => decide (x ≠ 45)) := by
  have h2 : strBytes "-" = [45] := by decide
  have h3 : strBytes "" = [] := by decide
  simp [applyOp, h2, h3]
theorem applyOp_lower (s : Str) : applyOp ("tolower", "", "") s = s.map lower := by
  simp [applyOp]

/-- closed form of NormalizeSKI -/
theorem normalize_eq (s : Str) : normalize s = (s.filter keep).map lower := by
  simp only [normalize, ops_eq, List.foldl, applyOp_space, applyOp_dash, applyOp_lower, List.filter_filter]
  congr 1
  apply List.filter_congr
  intro x _
  simp only [keep, ne_eq, decide_not, Bool.decide_and]
  cases decide (x = 32) <;> cases decide (x = 45) <;> rfl

theorem keep_lower (c : Nat) : keep (lower c) = keep c := by
  unfold keep
  rw [decide_eq_decide]
  unfold lower
  split <;> omega

theorem keep_upper (c : Nat) : keep (upper c) = keep c := by
  unfold keep
  rw [decide_eq_decide]
  unfold upper
  split <;> omega

theorem lower_lower (c : Nat) : lower (lower c) = lower c := by
  unfold lower
  split
  · next h =>
    have : ¬ (65 ≤ c + 32 ∧ c + 32 ≤ 90) := by omega
    rw [if_neg this]
  · rfl

theorem lower_upper (c : Nat) : lower (upper c) = lower c := by
  unfold lower upper
  split
  · next h =>
    have h1 : 65 ≤ c - 32 ∧ c - 32 ≤ 90 := by omega
    have h2 : ¬ (65 ≤ c ∧ c ≤ 90) := by omega
    rw [if_pos h1, if_neg h2]; omega
  · rfl

theorem filter_keep_map_lower (l : Str) : (l.map lower).filter keep = (l.filter keep).map lower := by
  induction l with
  | nil => rfl
  | cons c cs ih =>
    simp only [List.map_cons, List.filter_cons, keep_lower]
    by_cases h : keep c = true
    · simp [h, ih]
    · simp [h, ih]

theorem normalize_append (a b : Str) : normalize (a ++ b) = normalize a ++ normalize b := by
  simp [normalize_eq]

/-- **C15**: normalisation is idempotent -/
theorem normalize_idem (s : Str) : normalize (normalize s) = normalize s := by
  rw [normalize_eq, normalize_eq, filter_keep_map_lower, List.filter_filter]
  simp [List.map_map, Function.comp_def, lower_lower]

/-- **C15**: every spelling variant has the same normal form -/
theorem normalize_variant {s t : Str} (h : Variant s t) : normalize s = normalize t := by
  induction h with
  | refl => rfl
  | symm _ ih => exact ih.symm
  | trans _ _ ih1 ih2 => exact ih1.trans ih2
  | space a b => simp [normalize_eq, keep]
  | dash a b => simp [normalize_eq, keep]
  | caseUp a b c =>
    simp only [normalize_eq, List.filter_append, List.filter_cons, List.map_append, keep_upper]
    by_cases h : keep c = true <;> simp [h, lower_upper]
  | caseDown a b c =>
    simp only [normalize_eq, List.filter_append, List.filter_cons, List.map_append, keep_lower]
    by_cases h : keep c = true <;> simp [h, lower_lower]

/-- the normal form contains no space, no dash and no upper-case ASCII letter -/
theorem normalize_canonical (s : Str) : ∀ c ∈ normalize s, c ≠ 32 ∧ c ≠ 45 ∧ ¬ (65 ≤ c ∧ c ≤ 90) := by
  intro c hc
  rw [normalize_eq] at hc
  simp only [List.mem_map, List.mem_filter] at hc
  obtain ⟨d, ⟨_, hd⟩, rfl⟩ := hc
  have hk : keep (lower d) = true := by rw [keep_lower]; exact hd
  simp only [keep, decide_eq_true_eq] at hk
  refine ⟨hk.1, hk.2, ?_⟩
  unfold lower
  split
  · omega
  · next h => exact h

/-- non-vacuity: "AB-cd 12" and "abcd12" are variants with normal form "abcd12" -/
example : normalize [65, 66, 45, 99, 100, 32, 49, 50] = [97, 98, 99, 100, 49, 50] := by decide

end ShipVerif.Ski
