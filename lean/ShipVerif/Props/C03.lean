/-
  C03 — a client-role and a server-role endpoint always agree.

  Model: `Pair` (two `Conn.stepCtl` endpoints, two FIFO streams, close propagation, user approve / cancel on the
  server side, timers on both sides; `Run()` of each endpoint happens once, possibly after the read pump already
  delivered something).  The theorems below hold for **every** server trust configuration (paired, auto-accept,
  waiting allowed), every SHIP-id configuration (unknown / known and right / known and wrong, per side) and
  **every** finite list of events, in 'timely' mode: a timer runs out only when nothing else can happen, and then
  the one that is due first.  They come from a kernel-checked certificate (`Proofs/PairCert`, 3 185 states, closed
  under all 14 events, every state satisfying `propsOk`).

  `C03_approve_with_hello_under_way` is the proved counter-example to the unrestricted reading of "approval given
  at any moment while pending": approving while a hello message of either side is still under way ends both sides
  in error (they still agree).  It is replayed on the implementation and is an open known finding; the baseline
  test `TestApprovePendingHandshake` pins the transition it needs.

  One premature timer expiry per run is covered by `Props/C03Arb.lean` (thorough tier, a larger certificate).
-/
import ShipVerif.Proofs.PairCert

namespace ShipVerif.Pair
open ShipVerif.Conn

/-! ### the configuration is carried unchanged through a run -/

theorem learn_mismatch (b : Bool) (r : IdRel) : (learn b r).isMismatch = r.isMismatch := by
  cases r <;> cases b <;> rfl

theorem setSide_cfg (p : PS2) (sd : Side) (c : Ctl) (out : List Frame) (l : Bool) :
    (setSide p sd c out l).envS = p.envS ∧ (setSide p sd c out l).relC.isMismatch = p.relC.isMismatch ∧
    (setSide p sd c out l).relS.isMismatch = p.relS.isMismatch := by
  cases sd <;> simp [setSide, learn_mismatch]

theorem clearClosed_cfg (p : PS2) :
    (clearClosed p).envS = p.envS ∧ (clearClosed p).relC = p.relC ∧ (clearClosed p).relS = p.relS := by
  unfold clearClosed
  simp only
  split <;> split <;> simp

theorem apply_cfg (p : PS2) (sd : Side) (i : In) :
    (apply p sd i).1.envS = p.envS ∧ (apply p sd i).1.relC.isMismatch = p.relC.isMismatch ∧
    (apply p sd i).1.relS.isMismatch = p.relS.isMismatch := by
  unfold apply
  simp only
  have a := clearClosed_cfg (setSide p sd (stepCtl (p.ctl sd) { i := i, env := p.env sd, fail := none }).1
    (sentFrames (stepCtl (p.ctl sd) { i := i, env := p.env sd, fail := none }).2) (hasShipId (stepCtl (p.ctl sd) { i := i, env := p.env sd, fail := none }).2))
  have b := setSide_cfg p sd (stepCtl (p.ctl sd) { i := i, env := p.env sd, fail := none }).1
    (sentFrames (stepCtl (p.ctl sd) { i := i, env := p.env sd, fail := none }).2) (hasShipId (stepCtl (p.ctl sd) { i := i, env := p.env sd, fail := none }).2)
  rw [a.1, a.2.1, a.2.2]
  exact b

def sameCfg (p q : PS2) : Prop :=
  q.envS = p.envS ∧ q.relC.isMismatch = p.relC.isMismatch ∧ q.relS.isMismatch = p.relS.isMismatch

theorem stepP_cfg (p : PS2) (e : PEv) : sameCfg p (stepP p e).1 := by
  unfold stepP sameCfg
  split
  · exact ⟨rfl, rfl, rfl⟩
  · cases e with
    | start sd => cases sd <;> exact apply_cfg _ _ _
    | deliver to =>
      simp only
      split
      · exact ⟨rfl, rfl, rfl⟩
      · cases to <;> exact apply_cfg _ _ _
    | timeout sd => exact apply_cfg _ _ _
    | approve => exact apply_cfg _ _ _
    | cancel => exact apply_cfg _ _ _
    | propagate to => exact apply_cfg _ _ _
    | fireRej sd => exact apply_cfg _ _ _
    | fireGrace sd => exact apply_cfg _ _ _

theorem sameCfg_early {p q : PS2} (h : sameCfg p q) (c : Bool) (k : Nat) :
    sameCfg p (if c then { q with early := k } else q) := by
  cases c
  · exact h
  · exact ⟨h.1, h.2.1, h.2.2⟩

theorem stepX_cfg (x : PX) (e : PEv) : (stepX x e).budget = x.budget ∧ sameCfg x.p (stepX x e).p := by
  unfold stepX
  split
  · exact ⟨rfl, rfl, rfl, rfl⟩
  · refine ⟨rfl, ?_⟩
    exact sameCfg_early (stepP_cfg x.p e) _ _

theorem runX_cfg : ∀ (evs : List PEv) (x : PX), (runX x evs).budget = x.budget ∧ sameCfg x.p (runX x evs).p
  | [], x => ⟨rfl, rfl, rfl, rfl⟩
  | e :: evs, x => by
    have h1 := stepX_cfg x e
    have h2 := runX_cfg evs (stepX x e)
    simp only [runX, List.foldl_cons] at h2 ⊢
    refine ⟨h2.1.trans h1.1, ?_⟩
    obtain ⟨a1, a2, a3⟩ := h1.2
    obtain ⟨b1, b2, b3⟩ := h2.2
    exact ⟨b1.trans a1, b2.trans a2, b3.trans a3⟩

/-! ### the theorems -/

/-- the state reached in timely mode from the given configuration -/
abbrev timelyRun (e : Env) (rc rs : IdRel) (evs : List PEv) : PX := runX (PX.init 0 e rc rs) evs

theorem facts0 (e : Env) (rc rs : IdRel) (evs : List PEv) : propsOk (timelyRun e rc rs evs) = true :=
  PairCert.facts 0 (by simp [PairCert.budgets]) e rc rs evs

theorem always0 (e : Env) (rc rs : IdRel) (evs : List PEv) : alwaysOkCore (timelyRun e rc rs evs) = true := by
  have h := facts0 e rc rs evs
  simp only [propsOk, alwaysOk, Bool.and_eq_true] at h
  exact h.1.1.1

theorem kept0 (e : Env) (rc rs : IdRel) (evs : List PEv) : pendingKept (timelyRun e rc rs evs) = true := by
  have h := facts0 e rc rs evs
  simp only [propsOk, alwaysOk, Bool.and_eq_true] at h
  exact h.1.1.2

theorem cancel0 (e : Env) (rc rs : IdRel) (evs : List PEv) : cancelFinal (timelyRun e rc rs evs) = true := by
  have h := facts0 e rc rs evs
  simp only [propsOk, alwaysOk, Bool.and_eq_true] at h
  exact h.1.2

theorem settled0 (e : Env) (rc rs : IdRel) (evs : List PEv) (hq : quiescentX (timelyRun e rc rs evs) = true) :
    settledOk (timelyRun e rc rs evs) = true := by
  have h := facts0 e rc rs evs
  simp only [propsOk, Bool.and_eq_true, hq] at h
  exact h.2

theorem cfg0 (e : Env) (rc rs : IdRel) (evs : List PEv) :
    timely (timelyRun e rc rs evs) = true ∧ (timelyRun e rc rs evs).p.envS = e ∧
    (timelyRun e rc rs evs).p.relC.isMismatch = rc.isMismatch ∧ (timelyRun e rc rs evs).p.relS.isMismatch = rs.isMismatch := by
  have h := runX_cfg evs (PX.init 0 e rc rs)
  have hb : (timelyRun e rc rs evs).budget = 0 := h.1
  refine ⟨?_, h.2.1, h.2.2.1, h.2.2.2⟩
  simp only [timely, hb, beq_self_eq_true]

/-- **C03 (agreement)**: whenever nothing more can happen (apart from a decision of the user), either both sides
    are completed on an open connection or both have closed it -/
theorem C03_agreement (e : Env) (rc rs : IdRel) (evs : List PEv) (hq : quiescentX (timelyRun e rc rs evs) = true) :
    bothCompleted (timelyRun e rc rs evs) = true ∨ bothEnded (timelyRun e rc rs evs) = true := by
  have h := settled0 e rc rs evs hq
  simp only [settledOk, Bool.and_eq_true, Bool.or_eq_true] at h
  exact h.1.1

/-- **C03 (trusted beforehand or auto-accept)**: if neither side holds a wrong id for the other and the user does
    not cancel, the settled state is: both completed -/
theorem C03_trusted_completes (e : Env) (rc rs : IdRel) (evs : List PEv) (ht : e.paired = true ∨ e.auto = true)
    (hrc : rc ≠ .mismatch) (hrs : rs ≠ .mismatch)
    (hc : (timelyRun e rc rs evs).cancelled = false) (hq : quiescentX (timelyRun e rc rs evs) = true) :
    bothCompleted (timelyRun e rc rs evs) = true := by
  have h := settled0 e rc rs evs hq
  have c := cfg0 e rc rs evs
  simp only [settledOk, Bool.and_eq_true, Bool.or_eq_true, Bool.not_eq_true'] at h
  have hids : idsOk (timelyRun e rc rs evs) = true := by
    simp only [idsOk, c.2.2.1, c.2.2.2, Bool.and_eq_true, Bool.not_eq_true']
    exact ⟨by cases rc <;> simp_all [IdRel.isMismatch], by cases rs <;> simp_all [IdRel.isMismatch]⟩
  have htb : trustedBefore (timelyRun e rc rs evs) = true := by
    simp only [trustedBefore, c.2.1, Bool.or_eq_true]; exact ht
  rcases h.1.2 with h2 | h2
  · simp only [c.1, htb, hids, hc, Bool.not_false, Bool.and_self] at h2
    cases h2
  · exact h2

/-- **C03 (approval by the user)**: an approval given while the request is pending and no hello message of either
    side is under way leads, with acceptable ids and no cancel, to: both completed -/
theorem C03_approved_completes_partial (e : Env) (rc rs : IdRel) (evs : List PEv)
    (hrc : rc ≠ .mismatch) (hrs : rs ≠ .mismatch)
    (ha : (timelyRun e rc rs evs).approved = true) (hae : (timelyRun e rc rs evs).approvedEarly = false)
    (hc : (timelyRun e rc rs evs).cancelled = false) (hq : quiescentX (timelyRun e rc rs evs) = true) :
    bothCompleted (timelyRun e rc rs evs) = true := by
  have h := settled0 e rc rs evs hq
  have c := cfg0 e rc rs evs
  simp only [settledOk, Bool.and_eq_true, Bool.or_eq_true, Bool.not_eq_true'] at h
  have hids : idsOk (timelyRun e rc rs evs) = true := by
    simp only [idsOk, c.2.2.1, c.2.2.2, Bool.and_eq_true, Bool.not_eq_true']
    exact ⟨by cases rc <;> simp_all [IdRel.isMismatch], by cases rs <;> simp_all [IdRel.isMismatch]⟩
  rcases h.2 with h2 | h2
  · simp only [c.1, ha, hae, hids, hc, Bool.not_false, Bool.and_self] at h2
    cases h2
  · exact h2

/-- **C03 (no trust, no completion)**: a server that neither trusts the client beforehand nor auto-accepts, and
    whose user never approves - whether trust is denied, the request cancelled or waiting not allowed - never
    completes, and neither does the client; nobody sets up the remote device. In every state of every run. -/
theorem C03_untrusted_never_completes (e : Env) (rc rs : IdRel) (evs : List PEv) (hp : e.paired = false) (ha : e.auto = false)
    (hn : (timelyRun e rc rs evs).approved = false) :
    (timelyRun e rc rs evs).p.c.st ≠ .complete ∧ (timelyRun e rc rs evs).p.s.st ≠ .complete ∧
    (timelyRun e rc rs evs).setC = .zero ∧ (timelyRun e rc rs evs).setS = .zero := by
  have h := always0 e rc rs evs
  have c := cfg0 e rc rs evs
  simp only [alwaysOkCore, Bool.and_eq_true] at h
  have h1 := h.1.1.1.1.1.1
  have ht : trustedBefore (timelyRun e rc rs evs) = false := by simp [trustedBefore, c.2.1, hp, ha]
  rw [ht, hn] at h1
  simp only [Bool.not_false, Bool.and_self, Bool.not_true, Bool.false_or, Bool.and_eq_true, Bool.not_eq_true'] at h1
  obtain ⟨⟨⟨a, b⟩, c1⟩, d⟩ := h1
  refine ⟨?_, ?_, ?_, ?_⟩
  · intro hh; rw [hh] at a; cases a
  · intro hh; rw [hh] at b; cases b
  · cases hs : (timelyRun e rc rs evs).setC <;> simp_all [Cnt3.isZero]
  · cases hs : (timelyRun e rc rs evs).setS <;> simp_all [Cnt3.isZero]

/-- **C03 (a pending request is kept)**: in timely mode, with waiting allowed and no cancellation by the user, the
    server side does not abort the pending request by itself as long as the client is still waiting - so that an
    approval "at any moment while the request is pending" has a request to act on. In every state of every run. -/
theorem C03_pending_kept (e : Env) (rc rs : IdRel) (evs : List PEv) (ha : e.allow = true)
    (hc : (timelyRun e rc rs evs).cancelled = false)
    (hs : (timelyRun e rc rs evs).p.s.st = .hAbort ∨ (timelyRun e rc rs evs).p.s.st = .hAbortDone) :
    clientGone (timelyRun e rc rs evs) = true := by
  have h := kept0 e rc rs evs
  have c := cfg0 e rc rs evs
  have hl : (timelyRun e rc rs evs).p.s.st.isLocalAbort = true := by
    rcases hs with hs | hs <;> rw [hs] <;> rfl
  simp only [pendingKept, c.1, c.2.1, ha, hc, hl, Bool.not_false, Bool.and_self, Bool.not_true, Bool.false_or] at h
  exact h

/-- **C03 (a cancellation is final)**: once the user has cancelled while the server side was waiting in the hello phase
    (pending or ready), neither side ever completes and nobody sets up the remote device - whatever is still under
    way. In every state of every run. -/
theorem C03_cancel_final (e : Env) (rc rs : IdRel) (evs : List PEv) (hc : (timelyRun e rc rs evs).cancelled = true) :
    (timelyRun e rc rs evs).p.c.st ≠ .complete ∧ (timelyRun e rc rs evs).p.s.st ≠ .complete ∧
    (timelyRun e rc rs evs).setC = .zero ∧ (timelyRun e rc rs evs).setS = .zero := by
  have h := cancel0 e rc rs evs
  simp only [cancelFinal, hc, Bool.not_true, Bool.false_or, Bool.and_eq_true, Bool.not_eq_true'] at h
  obtain ⟨⟨⟨a, b⟩, c1⟩, d⟩ := h
  refine ⟨?_, ?_, ?_, ?_⟩
  · intro hh; rw [hh] at a; cases a
  · intro hh; rw [hh] at b; cases b
  · cases hs : (timelyRun e rc rs evs).setC <;> simp_all [Cnt3.isZero]
  · cases hs : (timelyRun e rc rs evs).setS <;> simp_all [Cnt3.isZero]

/-- **C03 (set up exactly once, ids learned)**: nobody is set up twice; a side in the completed state has been set
    up exactly once and holds the other side's SHIP id; a side that holds a different id for the peer never completes -/
theorem C03_setup_once_and_ids (e : Env) (rc rs : IdRel) (evs : List PEv) :
    (timelyRun e rc rs evs).setC ≠ .many ∧ (timelyRun e rc rs evs).setS ≠ .many ∧
    ((timelyRun e rc rs evs).p.c.st = .complete → (timelyRun e rc rs evs).setC = .one ∧ (timelyRun e rc rs evs).p.relC = .same) ∧
    ((timelyRun e rc rs evs).p.s.st = .complete → (timelyRun e rc rs evs).setS = .one ∧ (timelyRun e rc rs evs).p.relS = .same) ∧
    (rc = .mismatch → (timelyRun e rc rs evs).p.c.st ≠ .complete) ∧ (rs = .mismatch → (timelyRun e rc rs evs).p.s.st ≠ .complete) := by
  have h := always0 e rc rs evs
  have c := cfg0 e rc rs evs
  simp only [alwaysOkCore, Bool.and_eq_true, Bool.or_eq_true, Bool.not_eq_true'] at h
  obtain ⟨⟨⟨⟨⟨⟨_, h2⟩, h3⟩, h4⟩, h5⟩, h6⟩, _⟩ := h
  refine ⟨?_, ?_, ?_, ?_, ?_, ?_⟩
  · intro hh; rw [hh] at h4; simp [Cnt3.isMany] at h4
  · intro hh; rw [hh] at h4; simp [Cnt3.isMany] at h4
  · intro hh
    rw [hh] at h5
    simp only [St.isComplete, Bool.false_eq_true, false_or, Bool.and_eq_true] at h5
    exact ⟨by cases hs : (timelyRun e rc rs evs).setC <;> simp_all [Cnt3.isOne],
           by cases hs : (timelyRun e rc rs evs).p.relC <;> simp_all [IdRel.isSame]⟩
  · intro hh
    rw [hh] at h6
    simp only [St.isComplete, Bool.false_eq_true, false_or, Bool.and_eq_true] at h6
    exact ⟨by cases hs : (timelyRun e rc rs evs).setS <;> simp_all [Cnt3.isOne],
           by cases hs : (timelyRun e rc rs evs).p.relS <;> simp_all [IdRel.isSame]⟩
  · intro hm hh
    rcases h2 with h2 | h2
    · rw [c.2.2.1, hm] at h2; cases h2
    · rw [hh] at h2; cases h2
  · intro hm hh
    rcases h3 with h3 | h3
    · rw [c.2.2.2, hm] at h3; cases h3
    · rw [hh] at h3; cases h3

/-- the two streams never hold more than five frames -/
theorem C03_streams_bounded (e : Env) (rc rs : IdRel) (evs : List PEv) :
    (timelyRun e rc rs evs).p.qcs.length ≤ 5 ∧ (timelyRun e rc rs evs).p.qsc.length ≤ 5 := by
  have h := always0 e rc rs evs
  simp only [alwaysOkCore, Bool.and_eq_true, decide_eq_true_eq] at h
  exact h.2

/-- the events of the counter-example: the server is pending, its prolongation request is under way, the user approves -/
def approveEarlyRun : List PEv :=
  [.start .C, .deliver .S, .start .S, .deliver .C, .deliver .C, .approve, .deliver .C, .deliver .S, .propagate .C]

/-- **C03 (counter-example to 'approval at any moment')**: waiting allowed, ids unknown, the user approves while
    the client's hello is still under way: the server moves on to the protocol phase, the client's hello is then
    rejected there, both sides end in error - although the user approved and nobody cancelled. -/
theorem C03_approve_with_hello_under_way :
    let x := timelyRun { paired := false, auto := false, allow := true } .fresh .fresh approveEarlyRun
    x.approved = true ∧ x.approvedEarly = true ∧ x.cancelled = false ∧ quiescentX x = true ∧
    bothCompleted x = false ∧ bothEnded x = true := by decide

def approveLateRun : List PEv :=
  [.start .C, .deliver .S, .start .S, .deliver .C, .deliver .S, .deliver .C, .approve, .deliver .C, .deliver .S, .deliver .C,
   .deliver .S, .deliver .S, .deliver .C, .deliver .S, .deliver .C, .deliver .S, .deliver .C]

def pairedRun : List PEv :=
  [.start .C, .deliver .S, .start .S, .deliver .C, .deliver .S, .deliver .C, .deliver .S, .deliver .C, .deliver .S, .deliver .S,
   .deliver .C, .deliver .S, .deliver .C, .deliver .S, .deliver .C]

/-- non-vacuity: the same configuration with the approval given after the hello exchange completes on both sides;
    a paired configuration completes without the user, each side set up once -/
example : (timelyRun { paired := false, auto := false, allow := true } .fresh .fresh approveLateRun).approved = true ∧
    (timelyRun { paired := false, auto := false, allow := true } .fresh .fresh approveLateRun).approvedEarly = false ∧
    quiescentX (timelyRun { paired := false, auto := false, allow := true } .fresh .fresh approveLateRun) = true ∧
    bothCompleted (timelyRun { paired := false, auto := false, allow := true } .fresh .fresh approveLateRun) = true := by decide +kernel
example : quiescentX (timelyRun { paired := true, auto := false, allow := false } .fresh .fresh pairedRun) = true ∧
    bothCompleted (timelyRun { paired := true, auto := false, allow := false } .fresh .fresh pairedRun) = true ∧
    (timelyRun { paired := true, auto := false, allow := false } .fresh .fresh pairedRun).setC = .one ∧
    (timelyRun { paired := true, auto := false, allow := false } .fresh .fresh pairedRun).setS = .one := by decide +kernel

end ShipVerif.Pair
