/-
  Property theorems about the single-connection model (C01, C04, C06, C09, C11 — control parts).

  Each predicate `P_Cxx role tags` is the verdict of one monitor of `ConnMon` over a sequence of
  observation tags; the driver evaluates the very same function on implementation traces.  Each theorem
  says the predicate holds on *every* run of the executable model `stepC`: every role, every stored /
  local SHIP id, every finite list of concrete events with arbitrary provider answers and a write fault
  at an arbitrary write of every event.  Events the environment cannot produce (`envEnabled`) are
  skipped; that assumption is discharged by C13 (websocket layer) and by the hub's routing.
-/
import ShipVerif.Proofs.ConnTrace

namespace ShipVerif.Conn

def P_C01 (r : Role) (tags : List Tag) : Bool := (monRun okC01 (Mon.init r) tags).2
def P_C04 (r : Role) (tags : List Tag) : Bool := (monRun (okC04 r) (Mon.init r) tags).2
def P_C06 (r : Role) (tags : List Tag) : Bool := (monRun okC06 (Mon.init r) tags).2
def P_C09 (r : Role) (tags : List Tag) : Bool := (monRun okC09 (Mon.init r) tags).2
def P_C11 (r : Role) (tags : List Tag) : Bool := (monRun okC11 (Mon.init r) tags).2

theorem insens_C01 : Insensitive okC01 := ⟨fun _ h => h, fun _ => rfl, fun _ => rfl⟩
theorem insens_C04 (r : Role) : Insensitive (okC04 r) := ⟨fun _ _ => rfl, fun _ => rfl, fun _ => rfl⟩
theorem insens_C06 : Insensitive okC06 := ⟨fun _ h => h, fun _ => rfl, fun _ => rfl⟩
theorem insens_C09 : Insensitive okC09 := ⟨fun _ _ => rfl, fun _ => rfl, fun _ => rfl⟩
theorem insens_C11 : Insensitive okC11 := ⟨fun _ _ => rfl, fun _ => rfl, fun _ => rfl⟩

/-- generic transfer: a monitor implied by `okAll` holds on every concrete run -/
theorem holds_on_runs {ok : Mon → Tag → Bool} (r : Role) (hi : Insensitive ok)
    (himp : ∀ m t, okAll r m t = true → ok m t = true)
    (stored localId : String) (xs : List CEvX) :
    (monRun ok (Mon.init r) (runCTags (CS.init r stored localId) xs)).2 = true := by
  have h := cert_run r (absInputs (CS.init r stored localId) xs)
  have h2 := monRun_mono himp _ _ h
  have h3 := concrete_ok hi (CS.init r stored localId) xs (Mon.init r) h2
  rw [h3]

theorem okAll_C01 (r : Role) (m : Mon) (t : Tag) (h : okAll r m t = true) : okC01 m t = true := by
  simp only [okAll, Bool.and_eq_true] at h; exact h.1.1.1.1
theorem okAll_C04 (r : Role) (m : Mon) (t : Tag) (h : okAll r m t = true) : okC04 r m t = true := by
  simp only [okAll, Bool.and_eq_true] at h; exact h.1.1.1.2
theorem okAll_C06 (r : Role) (m : Mon) (t : Tag) (h : okAll r m t = true) : okC06 m t = true := by
  simp only [okAll, Bool.and_eq_true] at h; exact h.1.1.2
theorem okAll_C09 (r : Role) (m : Mon) (t : Tag) (h : okAll r m t = true) : okC09 m t = true := by
  simp only [okAll, Bool.and_eq_true] at h; exact h.1.2
theorem okAll_C11 (r : Role) (m : Mon) (t : Tag) (h : okAll r m t = true) : okC11 m t = true := by
  simp only [okAll, Bool.and_eq_true] at h; exact h.2

/-- **C01 (trust gate)**: on every run no state past the hello phase is reported, the remote device is
    never set up and no SPINE payload is delivered unless trust was granted before: a positive
    paired / auto-accept answer of the provider, the client role, or an `ApprovePendingHandshake` call. -/
theorem C01_trust_gate (r : Role) (stored localId : String) (xs : List CEvX) :
    P_C01 r (runCTags (CS.init r stored localId) xs) = true :=
  holds_on_runs r insens_C01 (okAll_C01 r) stored localId xs

/-- **C04 (state graph, terminal outcomes final)**: every reported transition is an edge of the SHIP
    state graph for the role; after a terminal report or a local close no progress state is reported,
    only closing-exchange frames are sent, no timer is armed at the end of any event, and once no
    closer goroutine is pending the transport is closed. -/
theorem C04_state_graph (r : Role) (stored localId : String) (xs : List CEvX) :
    P_C04 r (runCTags (CS.init r stored localId) xs) = true :=
  holds_on_runs r (insens_C04 r) (okAll_C04 r) stored localId xs

/-- **C06 (control part)**: payloads are handed to the application only after exactly one setup. -/
theorem C06_after_setup (r : Role) (stored localId : String) (xs : List CEvX) :
    P_C06 r (runCTags (CS.init r stored localId) xs) = true :=
  holds_on_runs r insens_C06 (okAll_C06 r) stored localId xs

/-- **C09 (control part)**: the SHIP id is reported at most once and before the setup callback; the
    setup callback happens at most once and right after the `approved` state was reported. -/
theorem C09_report_once (r : Role) (stored localId : String) (xs : List CEvX) :
    P_C09 r (runCTags (CS.init r stored localId) xs) = true :=
  holds_on_runs r insens_C09 (okAll_C09 r) stored localId xs

/-- **C11 (connection part)**: `HandleConnectionClosed` is called at most once per connection, and
    exactly once by the time the transport is closed and no closer goroutine is pending. -/
theorem C11_closed_once (r : Role) (stored localId : String) (xs : List CEvX) :
    P_C11 r (runCTags (CS.init r stored localId) xs) = true :=
  holds_on_runs r insens_C11 (okAll_C11 r) stored localId xs

/-- the spec graph advances by at most one phase per edge and never goes back (error aside) -/
theorem spec_phase_order : ∀ r a b, edgeOK r a b = true →
    b = .error ∨ (a.phase ≤ b.phase ∧ b.phase ≤ a.phase + 1) := by
  intro r a b
  cases r <;> cases a <;> cases b <;> decide

end ShipVerif.Conn
