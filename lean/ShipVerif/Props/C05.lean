/-
  C05 — two hubs that dialled each other end up with exactly one connection, the same one on both sides.

  * `C05_rule_agreement`: for every pair of distinct SKIs the initiator and the responder of a connection take the
    same decision about it, and of the two possible connections exactly one is favoured;
  * `C05_double_connection`: in the model of one double-connection episode (Model/Double.lean), for every order of
    the SKIs, every combination of who dialled and every interleaving of establishments and close propagations,
    a state in which nothing more can happen has the same connection registered at both hubs, open at both ends -
    the one the higher SKI initiated when both dialled - and never none when someone dialled;
  * `C05_progress`: every event that changes anything decreases a measure bounded by 12, so quiescence is reached.
  The rule itself is re-read from hub/hub_connections.go (`keepRule_expected`).
  Not covered by a theorem: re-dialling after both connections of an episode were lost (transport failures,
  restarts) - the twohubs engine exercises that on two real hubs.
-/
import ShipVerif.Model.Double
import ShipVerif.Generated.MiscFacts

namespace ShipVerif.Double

theorem C05_rule_agreement (i r : Nat) (h : i ≠ r) :
    -- the initiator (outgoing at i) and the responder (incoming at r) decide alike about i's connection
    keepNew i r false = keepNew r i true ∧
    -- and exactly one of the two directions is favoured
    (keepNew i r false = !keepNew r i false) := by
  unfold keepNew
  by_cases h1 : i > r
  · have : ¬ r > i := by omega
    simp [h1, this]
  · have : r > i := by omega
    simp [h1, this]

/-- only the order of the two SKIs matters: the model's 1 / 2 stand for any pair of distinct SKIs -/
theorem keepNew_order (a b : Nat) (h : a ≠ b) (inc : Bool) :
    keepNew a b inc = keepNew (if a > b then 2 else 1) (if a > b then 1 else 2) inc := by
  unfold keepNew
  by_cases h1 : a > b
  · have : ¬ b > a := by omega
    cases inc <;> simp [h1, this]
  · have : b > a := by omega
    cases inc <;> simp [h1, this]

def expand (l : List S) : List S :=
  (l.flatMap fun s => allEvs.map (step s)).foldl (fun acc s => if acc.contains s then acc else acc ++ [s]) l

def closure : Nat → List S → List S
  | 0, l => l
  | n + 1, l => closure n (expand l)

def inits : List S :=
  [init true true true, init false true true, init true true false, init false true false,
   init true false true, init false false true, init true false false, init false false false]

/-- the reachable states (computed, 50-odd) -/
def R : List S := closure 12 inits

theorem R_inits : ∀ a x y, (init a x y) ∈ R := by decide +kernel

theorem R_closed : R.all (fun s => allEvs.all fun e => R.contains (step s e)) = true := by decide +kernel

theorem step_allEvs (s : S) (e : Ev) : e ∈ allEvs := by
  cases e with
  | establish c sd => cases c <;> cases sd <;> simp [allEvs]
  | propagate c sd => cases c <;> cases sd <;> simp [allEvs]

theorem R_step {s : S} (hs : s ∈ R) (e : Ev) : step s e ∈ R := by
  have h := R_closed
  rw [List.all_eq_true] at h
  have h1 := h s hs
  rw [List.all_eq_true] at h1
  have h2 := h1 e (step_allEvs s e)
  simpa using h2

def run (s : S) (evs : List Ev) : S := evs.foldl step s

theorem R_run {s : S} (hs : s ∈ R) (evs : List Ev) : run s evs ∈ R := by
  induction evs generalizing s with
  | nil => exact hs
  | cons e evs ih => exact ih (R_step hs e)

theorem R_quiescent_good : R.all (fun s => !quiescent s || good s) = true := by decide +kernel

/-- **C05 (double connection)** -/
theorem C05_double_connection (aHigher dialX dialY : Bool) (evs : List Ev)
    (hq : quiescent (run (init aHigher dialX dialY) evs) = true) : good (run (init aHigher dialX dialY) evs) = true := by
  have hr := R_run (R_inits aHigher dialX dialY) evs
  have h := R_quiescent_good
  rw [List.all_eq_true] at h
  have := h _ hr
  simpa [hq] using this

/-- progress measure: establishments still to come count 3, open ends count 1 -/
def μ (s : S) : Nat :=
  let ends := [(Conn.X, Side.A), (Conn.X, Side.B), (Conn.Y, Side.A), (Conn.Y, Side.B)]
  (ends.map fun (c, sd) => (if s.exists_ c && !(s.end_ c sd).arrived then 3 else 0) + (if (s.end_ c sd).open_ then 1 else 0)).sum

theorem R_progress : R.all (fun s => allEvs.all fun e => step s e == s || decide (μ (step s e) < μ s)) = true := by decide +kernel

/-- **C05 (progress)**: an event that changes the state decreases the measure (at most 12 at the start) -/
theorem C05_progress (aHigher dialX dialY : Bool) (evs : List Ev) (e : Ev)
    (hc : step (run (init aHigher dialX dialY) evs) e ≠ run (init aHigher dialX dialY) evs) :
    μ (step (run (init aHigher dialX dialY) evs) e) < μ (run (init aHigher dialX dialY) evs) ∧
    μ (init aHigher dialX dialY) ≤ 12 := by
  have hr := R_run (R_inits aHigher dialX dialY) evs
  have h := R_progress
  rw [List.all_eq_true] at h
  have h1 := h (run (init aHigher dialX dialY) evs) hr
  rw [List.all_eq_true] at h1
  have h2 := h1 e (step_allEvs (run (init aHigher dialX dialY) evs) e)
  refine ⟨?_, by cases aHigher <;> cases dialX <;> cases dialY <;> decide⟩
  simp only [Bool.or_eq_true, beq_iff_eq, decide_eq_true_eq] at h2
  rcases h2 with h2 | h2
  · exact absurd h2 hc
  · exact h2

/-- the rule as written in hub/hub_connections.go keepThisConnection (regenerated): incoming - keep the new one iff
    the remote SKI is higher; outgoing - iff the local SKI is higher; nothing registered - keep -/
theorem keepRule_expected : Generated.keepRule =
    [("incoming", "remoteSKI > h.localService.SKI()"), ("outgoing", "h.localService.SKI() > remoteSKI"), ("none-registered", "true")] := by decide

/-- the model's `establish` is one step (decide, close the loser, register): in the code the statements from
    keepThisConnection to registerConnection run under one mutex in both places a connection is established
    (regenerated). Without it two simultaneous establishments both see nothing registered and the second
    registration replaces the first - a state the model cannot reach. -/
theorem establish_atomic_expected : Generated.establishAtomic =
    [("ServeHTTP", "under muxConnect"), ("connectFoundService", "under muxConnect")] := by decide

/-- non-vacuity: both dial, the lower SKI's connection is set up everywhere first, the favoured one wins on both sides -/
example : let s := run (init true true true) [.establish .Y .B, .establish .Y .A, .establish .X .A, .establish .X .B, .propagate .Y .A, .propagate .Y .B]
    quiescent s = true ∧ s.regA = some .X ∧ s.regB = some .X := by decide
example : R.length ≥ 50 := by decide +kernel

end ShipVerif.Double
