/-
  C08 / C12 (no wedge among the library's own locks): the lock-order relation regenerated from /repo admits a ranking,
  and waiting in rank order excludes every cycle of goroutines waiting for each other.
-/
import ShipVerif.Model.LockOrder
import ShipVerif.Generated.OrderFacts

namespace ShipVerif.LockOrder

theorem exists_max {T : Type} (f : T → Nat) : ∀ (D : List T), D ≠ [] → ∃ t ∈ D, ∀ t' ∈ D, f t' ≤ f t
  | [], h => absurd rfl h
  | [a], _ => ⟨a, List.mem_singleton.mpr rfl, fun t' ht' => by rw [List.mem_singleton.mp ht']; exact Nat.le_refl _⟩
  | a :: b :: rest, _ => by
    obtain ⟨m, hm, hmax⟩ := exists_max f (b :: rest) (by intro h; cases h)
    by_cases hle : f a ≤ f m
    · refine ⟨m, List.mem_cons_of_mem _ hm, ?_⟩
      intro t' ht'
      rcases List.mem_cons.mp ht' with rfl | ht'
      · exact hle
      · exact hmax t' ht'
    · refine ⟨a, List.mem_cons_self, ?_⟩
      intro t' ht'
      rcases List.mem_cons.mp ht' with rfl | ht'
      · exact Nat.le_refl _
      · exact Nat.le_trans (hmax t' ht') (Nat.le_of_lt (Nat.lt_of_not_le hle))

/-- **no deadlock under rank order**: for any number of threads and resources -/
theorem no_deadlock {T : Type} (rank : String → Nat) (c : Config T) (h : Ordered rank c) (D : List T) : ¬ Deadlocked c D := by
  intro ⟨hne, hd⟩
  let f : T → Nat := fun t => match c.waits t with | some l => rank l | none => 0
  obtain ⟨t, ht, hmax⟩ := exists_max f D hne
  obtain ⟨l, hw, t', ht', hh⟩ := hd t ht
  obtain ⟨l', hw', _⟩ := hd t' ht'
  have h1 : rank l < rank l' := h t' l' l hw' hh
  have h2 : f t' ≤ f t := hmax t' ht'
  have ft : f t = rank l := by simp only [f, hw]
  have ft' : f t' = rank l' := by simp only [f, hw']
  rw [ft, ft'] at h2
  exact absurd h1 (Nat.not_lt_of_le h2)

theorem rank_of_edge {edges : List (String × String × String)} {r : List (String × Nat)} (hr : ranked edges r = true)
    {a b fn : String} (he : (a, b, fn) ∈ edges) : rankOf r a < rankOf r b := by
  simp only [ranked, List.all_eq_true, decide_eq_true_eq] at hr
  exact hr (a, b, fn) he

/-- a configuration whose (held, wanted) pairs are all listed is ordered by any ranking that respects the list -/
theorem ordered_of_edges {T : Type} (edges : List (String × String × String)) (r : List (String × Nat)) (hr : ranked edges r = true)
    (c : Config T) (hc : ∀ t l l', c.waits t = some l → c.holds t l' → ∃ fn, (l', l, fn) ∈ edges) : Ordered (rankOf r) c := by
  intro t l l' hw hh
  obtain ⟨fn, he⟩ := hc t l l' hw hh
  exact rank_of_edge hr he

/-- the ranking proposed by the extractor respects every (held, wanted) pair found in the current source, and the
    extractor left no node unranked -/
theorem lockOrder_ranked : ranked Generated.lockEdges Generated.lockRank = true ∧ Generated.lockCycle = [] := by
  decide +kernel

/-- **C08 / C12 (no wedge)**: whatever the goroutines of ws, ship, hub and mdns hold and wait for - as long as every
    such pair is one the extractor lists - no set of them waits for each other. -/
theorem C08_no_lock_cycle {T : Type} (c : Config T)
    (hc : ∀ t l l', c.waits t = some l → c.holds t l' → ∃ fn, (l', l, fn) ∈ Generated.lockEdges) (D : List T) :
    ¬ Deadlocked c D :=
  no_deadlock _ c (ordered_of_edges _ _ lockOrder_ranked.1 c hc) D

/-- non-vacuity: a relation with a cycle admits no ranking (here: two locks taken in both orders) -/
example : ∀ r0 r1 : Nat, ranked [("a", "b", "f"), ("b", "a", "g")] [("a", r0), ("b", r1)] = false := by
  intro r0 r1
  simp only [ranked, List.all_cons, List.all_nil, rankOf]
  by_cases h : r0 < r1 <;> simp [h] <;> omega

end ShipVerif.LockOrder
