/-
  C12 / C13 — websocket adapter: writing while closing, transport loss.

  All theorems quantify over every schedule (`List Act`): any number of writers, any placement of local
  close, peer close / failure, failing transport writes, full queue.  They are stated for the design the
  extractor finds in the source (`Generated.wsCfg`, obligation `wsCfg_is_fixed`).  The pinned design is
  shown unsafe by two witness schedules (`C12_pinned_panics`, `C13_pinned_leaks_socket`).
-/
import ShipVerif.Model.Ws
import ShipVerif.Generated.WsFacts

namespace ShipVerif.Ws

def pending (s : S) : List Msg :=
  (match s.pump with | .holding m => [m] | _ => []) ++ (match s.queue with | some m => [m] | none => [])

def readerRank : Reader → Nat
  | .exited => 0 | .idle => 1 | .got _ => 1 | .reading => 2 | .checked _ => 2
def pumpRank : Pump → Nat
  | .exited => 0 | .idle => 1 | .holding _ => 1

structure Inv (s : S) : Prop where
  noPanic : s.panicked = false ∧ s.queueClosed = false
  closedOnce : s.closed = s.once ∧ s.closeCh = s.once ∧ s.sock = s.once
  pumpExited : s.pump = .exited → s.closed = true
  reports : s.reports = (if s.once && !s.localFirst then 1 else 0)
  errSet : (s.once = true ∧ s.localFirst = false) → s.errSet = true
  localOnce : s.localFirst = true → s.once = true
  order : (s.pump ≠ .exited → s.accepted = s.peerGot ++ pending s) ∧ s.peerGot <+: s.accepted
  rets : ∀ p ∈ s.rets, p.1 = true → p.2 = false
  inside : ∀ m pc f, s.inside = some (m, pc, f) → (f = true → s.closed = true ∧ pc = .atCheck)
  late : (s.closed = false → s.deliveredAfterClose = 0) ∧
         s.deliveredAfterClose + (match s.reader with | .checked _ => 1 | _ => 0) ≤ 1
  silent : s.localClosing = false ∧ s.reportsAfterLocal = 0

@[simp] theorem fixed_rr : Cfg.fixed.readerRechecks = true := rfl

theorem inv_init : Inv ({} : S) where
  noPanic := ⟨rfl, rfl⟩
  closedOnce := ⟨rfl, rfl, rfl⟩
  pumpExited := by intro h; cases h
  reports := rfl
  errSet := by intro h; cases h.1
  localOnce := by intro h; cases h
  order := ⟨fun _ => rfl, List.prefix_refl _⟩
  rets := by intro p hp; cases hp
  inside := by intro m pc f h; cases h
  late := ⟨fun _ => rfl, by decide⟩
  silent := ⟨rfl, rfl⟩

/-- the once body, fixed design -/
theorem shutdown_fixed (s : S) (err byErr : Bool) :
    shutdown Cfg.fixed s err byErr =
      if s.once then (s, false)
      else ({ s with once := true, closed := true, errSet := s.errSet || err, closeCh := true, sock := true,
                     localFirst := !byErr }, true) := by
  simp [shutdown, Cfg.fixed]

theorem errorPath_fixed (s : S) :
    errorPath Cfg.fixed s =
      if s.once then s
      else { s with once := true, closed := true, errSet := true, closeCh := true, sock := true,
                    localFirst := false, reports := s.reports + 1,
                    reportsAfterLocal := if s.localClosing then s.reportsAfterLocal + 1 else s.reportsAfterLocal } := by
  simp only [errorPath, shutdown_fixed, report]
  by_cases h : s.once = true <;> simp [h, Cfg.fixed]

theorem inv_errorPath {s : S} (h : Inv s) : Inv (errorPath Cfg.fixed s) := by
  rw [errorPath_fixed]
  by_cases ho : s.once = true
  · simp only [ho, if_true]; exact h
  · have ho' : s.once = false := by simpa using ho
    obtain ⟨h1, h2, h3, h4, h5, h6, h7, h8, h9, h10, h11⟩ := h
    have hc : s.closed = false := by rw [h2.1, ho']
    simp only [ho', Bool.false_eq_true, if_false]
    refine ⟨h1, ⟨rfl, rfl, rfl⟩, fun _ => rfl, ?_, fun _ => rfl, ?_, h7, h8, ?_, ?_, ?_⟩
    · simp [ho'] at h4; simp [h4]
    · intro hl; cases hl
    · intro m pc f hi hf
      have := h9 m pc f hi hf
      rw [hc] at this; cases this.1
    · exact ⟨(by intro hx; cases hx), h10.2⟩
    · exact ⟨h11.1, by simp [h11.1, h11.2]⟩

theorem inv_localClose {s : S} (h : Inv s) : Inv (shutdown Cfg.fixed s false false).1 := by
  rw [shutdown_fixed]
  by_cases ho : s.once = true
  · simp only [ho, if_true]; exact h
  · have ho' : s.once = false := by simpa using ho
    obtain ⟨h1, h2, h3, h4, h5, h6, h7, h8, h9, h10, h11⟩ := h
    have hc : s.closed = false := by rw [h2.1, ho']
    simp only [ho', Bool.false_eq_true, if_false]
    refine ⟨h1, ⟨rfl, rfl, rfl⟩, fun _ => rfl, ?_, ?_, fun _ => rfl, h7, h8, ?_, ?_, ?_⟩
    · simp [ho'] at h4; simp [h4]
    · intro hx; simp at hx
    · intro m pc f hi hf
      have := h9 m pc f hi hf
      rw [hc] at this; cases this.1
    · exact ⟨(by intro hx; cases hx), h10.2⟩
    · exact h11

theorem errorPath_closed {s : S} (h : Inv s) : (errorPath Cfg.fixed s).closed = true := by
  rw [errorPath_fixed]
  by_cases ho : s.once = true
  · simp only [ho, if_true]; rw [h.closedOnce.1]; exact ho
  · simp [ho]

theorem errorPath_same (s : S) :
    (errorPath Cfg.fixed s).peerGot = s.peerGot ∧ (errorPath Cfg.fixed s).accepted = s.accepted ∧
    (errorPath Cfg.fixed s).deliveredAfterClose = s.deliveredAfterClose ∧
    (errorPath Cfg.fixed s).reader = s.reader ∧ (errorPath Cfg.fixed s).pump = s.pump ∧
    (errorPath Cfg.fixed s).queue = s.queue := by
  rw [errorPath_fixed]; by_cases ho : s.once = true <;> simp [ho]

theorem inv_step {s : S} (h : Inv s) (a : Act) : Inv (step Cfg.fixed s a) := by
  cases a with
  | enter =>
    obtain ⟨h1, h2, h3, h4, h5, h6, h7, h8, h9, h10, h11⟩ := h
    simp only [step]
    split
    · exact ⟨h1, h2, h3, h4, h5, h6, h7, h8, h9, h10, h11⟩
    · refine ⟨h1, h2, h3, h4, h5, h6, h7, h8, ?_, h10, h11⟩
      intro m pc f he hf
      simp_all
  | wCheck =>
    obtain ⟨h1, h2, h3, h4, h5, h6, h7, h8, h9, h10, h11⟩ := h
    simp only [step]
    split
    · split
      · refine ⟨h1, h2, h3, h4, h5, h6, h7, ?_, ?_, h10, h11⟩
        · intro p hp; simp at hp; rcases hp with rfl | hp
          · simp
          · exact h8 p hp
        · simp
      · refine ⟨h1, h2, h3, h4, h5, h6, h7, h8, ?_, h10, h11⟩
        intro m pc f he hf
        simp_all
    · exact ⟨h1, h2, h3, h4, h5, h6, h7, h8, h9, h10, h11⟩
  | wSend =>
    obtain ⟨h1, h2, h3, h4, h5, h6, h7, h8, h9, h10, h11⟩ := h
    simp only [step]
    split
    · next m f hi =>
      split
      · next hq => rw [h1.2] at hq; cases hq
      · split
        · exact ⟨h1, h2, h3, h4, h5, h6, h7, h8, h9, h10, h11⟩
        · next hqn =>
          have hf : f = false := by
            cases f with
            | false => rfl
            | true => have := (h9 m .atSelect true hi rfl).2; cases this
          refine ⟨h1, h2, h3, h4, h5, h6, ?_, ?_, ?_, h10, h11⟩
          · constructor
            · intro hp
              have := h7.1 hp
              simp only [pending, hqn, List.append_nil] at this
              simp only [pending]
              rw [this]; simp
            · exact List.IsPrefix.trans h7.2 (List.prefix_append _ _)
          · intro p hp; simp at hp; rcases hp with rfl | hp
            · simp [hf]
            · exact h8 p hp
          · simp
    · exact ⟨h1, h2, h3, h4, h5, h6, h7, h8, h9, h10, h11⟩
  | wClosed =>
    obtain ⟨h1, h2, h3, h4, h5, h6, h7, h8, h9, h10, h11⟩ := h
    simp only [step]
    split
    · split
      · refine ⟨h1, h2, h3, h4, h5, h6, h7, ?_, ?_, h10, h11⟩
        · intro p hp; simp at hp; rcases hp with rfl | hp
          · simp
          · exact h8 p hp
        · simp
      · exact ⟨h1, h2, h3, h4, h5, h6, h7, h8, h9, h10, h11⟩
    · exact ⟨h1, h2, h3, h4, h5, h6, h7, h8, h9, h10, h11⟩
  | wGiveUp =>
    have : step Cfg.fixed s .wGiveUp = s := by simp only [step, Cfg.fixed, if_true]; split <;> rfl
    rw [this]; exact h
  | pumpTake =>
    obtain ⟨h1, h2, h3, h4, h5, h6, h7, h8, h9, h10, h11⟩ := h
    simp only [step]
    split
    · next m hp hq =>
      refine ⟨h1, h2, ?_, h4, h5, h6, ?_, h8, h9, h10, h11⟩
      · intro he; cases he
      · constructor
        · intro _
          have := h7.1 (by rw [hp]; intro hx; cases hx)
          simp only [pending, hp, hq, List.nil_append] at this
          simp only [pending, List.append_nil]
          exact this
        · exact h7.2
    · exact ⟨h1, h2, h3, h4, h5, h6, h7, h8, h9, h10, h11⟩
  | pumpCheck =>
    obtain ⟨h1, h2, h3, h4, h5, h6, h7, h8, h9, h10, h11⟩ := h
    simp only [step]
    split
    · split
      · next hc =>
        exact ⟨⟨h1.1, rfl⟩, h2, fun _ => hc, h4, h5, h6, ⟨fun hx => absurd rfl hx, h7.2⟩, h8, h9, h10, h11⟩
      · exact ⟨h1, h2, h3, h4, h5, h6, h7, h8, h9, h10, h11⟩
    · exact ⟨h1, h2, h3, h4, h5, h6, h7, h8, h9, h10, h11⟩
  | pumpWrite ok =>
    simp only [step]
    split
    · next m hp =>
      split
      · exact h
      · split
        · obtain ⟨h1, h2, h3, h4, h5, h6, h7, h8, h9, h10, h11⟩ := h
          have ho := h7.1 (by rw [hp]; intro hx; cases hx)
          simp only [pending, hp] at ho
          refine ⟨h1, h2, ?_, h4, h5, h6, ?_, h8, h9, h10, h11⟩
          · intro he; cases he
          · constructor
            · intro _
              simp only [pending, List.nil_append]
              rw [ho]; simp
            · rw [ho]
              have : s.peerGot ++ ([m] ++ match s.queue with | some m => [m] | none => []) =
                  (s.peerGot ++ [m]) ++ (match s.queue with | some m => [m] | none => []) := by simp
              rw [this]
              exact List.prefix_append _ _
        · have he := inv_errorPath h
          have hcl := errorPath_closed h
          have hsame := errorPath_same s
          obtain ⟨e1, e2, e3, e4, e5, e6, e7, e8, e9, e10, e11⟩ := he
          refine ⟨⟨e1.1, rfl⟩, e2, fun _ => hcl, e4, e5, e6, ⟨fun hx => absurd rfl hx, ?_⟩, e8, e9, e10, e11⟩
          show (errorPath Cfg.fixed s).peerGot <+: (errorPath Cfg.fixed s).accepted
          rw [hsame.1, hsame.2.1]; exact h.order.2
    · exact h
  | pumpExit =>
    obtain ⟨h1, h2, h3, h4, h5, h6, h7, h8, h9, h10, h11⟩ := h
    simp only [step]
    split
    · split
      · next hc =>
        have hcl : s.closed = true := by rw [h2.1, ← h2.2.1]; exact hc
        exact ⟨⟨h1.1, rfl⟩, h2, fun _ => hcl, h4, h5, h6, ⟨fun hx => absurd rfl hx, h7.2⟩, h8, h9, h10, h11⟩
      · exact ⟨h1, h2, h3, h4, h5, h6, h7, h8, h9, h10, h11⟩
    · exact ⟨h1, h2, h3, h4, h5, h6, h7, h8, h9, h10, h11⟩
  | rStart =>
    obtain ⟨h1, h2, h3, h4, h5, h6, h7, h8, h9, h10, h11⟩ := h
    simp only [step]
    split
    · next hr =>
      rw [hr] at h10
      split
      · exact ⟨h1, h2, h3, h4, h5, h6, h7, h8, h9, ⟨h10.1, by simpa using h10.2⟩, h11⟩
      · exact ⟨h1, h2, h3, h4, h5, h6, h7, h8, h9, ⟨h10.1, by simpa using h10.2⟩, h11⟩
    · exact ⟨h1, h2, h3, h4, h5, h6, h7, h8, h9, h10, h11⟩
  | rReturn =>
    obtain ⟨h1, h2, h3, h4, h5, h6, h7, h8, h9, h10, h11⟩ := h
    simp only [step]
    split
    · next hr =>
      have h10' := h10
      rw [hr] at h10'
      split
      · exact ⟨h1, h2, h3, h4, h5, h6, h7, h8, h9, ⟨h10'.1, by simpa using h10'.2⟩, h11⟩
      · split
        · exact ⟨h1, h2, h3, h4, h5, h6, h7, h8, h9, h10, h11⟩
        · exact ⟨h1, h2, h3, h4, h5, h6, h7, h8, h9, ⟨h10'.1, by simpa using h10'.2⟩, h11⟩
    · exact ⟨h1, h2, h3, h4, h5, h6, h7, h8, h9, h10, h11⟩
  | rReturnBuf =>
    obtain ⟨h1, h2, h3, h4, h5, h6, h7, h8, h9, h10, h11⟩ := h
    simp only [step]
    split
    · next hr =>
      have h10' := h10
      rw [hr] at h10'
      split
      · exact ⟨h1, h2, h3, h4, h5, h6, h7, h8, h9, h10, h11⟩
      · exact ⟨h1, h2, h3, h4, h5, h6, h7, h8, h9, ⟨h10'.1, by simpa using h10'.2⟩, h11⟩
    · exact ⟨h1, h2, h3, h4, h5, h6, h7, h8, h9, h10, h11⟩
  | rCheck =>
    simp only [step, fixed_rr, Bool.true_and]
    split
    · next i hr =>
      split
      · obtain ⟨h1, h2, h3, h4, h5, h6, h7, h8, h9, h10, h11⟩ := h
        rw [hr] at h10
        exact ⟨h1, h2, h3, h4, h5, h6, h7, h8, h9, ⟨h10.1, by simpa using h10.2⟩, h11⟩
      · next hc =>
        have hc' : s.closed = false := by simpa using hc
        cases i with
        | fail =>
          have he : readErrorPath Cfg.fixed s = errorPath Cfg.fixed s := by simp [readErrorPath, Cfg.fixed]
          simp only [he]
          have hi := inv_errorPath h
          have hsame := errorPath_same s
          obtain ⟨e1, e2, e3, e4, e5, e6, e7, e8, e9, e10, e11⟩ := hi
          have hl := h.late
          rw [hr] at hl
          refine ⟨e1, e2, e3, e4, e5, e6, e7, e8, e9, ?_, e11⟩
          refine ⟨?_, ?_⟩
          · intro _
            show (errorPath Cfg.fixed s).deliveredAfterClose = 0
            rw [hsame.2.2.1]; exact hl.1 hc'
          · show (errorPath Cfg.fixed s).deliveredAfterClose + 0 ≤ 1
            rw [hsame.2.2.1]; have := hl.2; simp at this; omega
        | msg m =>
          obtain ⟨h1, h2, h3, h4, h5, h6, h7, h8, h9, h10, h11⟩ := h
          refine ⟨h1, h2, h3, h4, h5, h6, h7, h8, h9, ⟨h10.1, ?_⟩, h11⟩
          have := h10.1 hc'
          simp [this]
    · exact h
  | rDeliver =>
    obtain ⟨h1, h2, h3, h4, h5, h6, h7, h8, h9, h10, h11⟩ := h
    simp only [step]
    split
    · next m hr =>
      rw [hr] at h10
      refine ⟨h1, h2, h3, h4, h5, h6, h7, h8, h9, ?_, h11⟩
      by_cases hc : s.closed = true
      · refine ⟨?_, ?_⟩
        · intro hx; rw [hc] at hx; cases hx
        · have := h10.2; simp [hc] at this ⊢; omega
      · have hc' : s.closed = false := by simpa using hc
        refine ⟨?_, ?_⟩
        · intro _; simp [hc']; exact h10.1 hc'
        · have := h10.1 hc'; simp [hc', this]
    · exact ⟨h1, h2, h3, h4, h5, h6, h7, h8, h9, h10, h11⟩
  | peerSend =>
    obtain ⟨h1, h2, h3, h4, h5, h6, h7, h8, h9, h10, h11⟩ := h
    exact ⟨h1, h2, h3, h4, h5, h6, h7, h8, h9, h10, h11⟩
  | peerFail =>
    obtain ⟨h1, h2, h3, h4, h5, h6, h7, h8, h9, h10, h11⟩ := h
    exact ⟨h1, h2, h3, h4, h5, h6, h7, h8, h9, h10, h11⟩
  | localCloseBegin =>
    simp only [step, Cfg.fixed, if_true]
    exact inv_localClose h
  | localClose => exact inv_localClose h

theorem inv_run (acts : List Act) : Inv (run Cfg.fixed acts) := by
  unfold run
  suffices ∀ s, Inv s → Inv (acts.foldl (step Cfg.fixed) s) from this _ inv_init
  induction acts with
  | nil => intro s h; exact h
  | cons a as ih => intro s h; exact ih _ (inv_step h a)

theorem wsCfg_is_fixed : Generated.wsCfg = Cfg.fixed := by decide

/-- **C12**: on every schedule no writer panics; what the peer received is a gap-free prefix of the
    accepted messages in acceptance order; a Write that began after the connection was closed returns
    an error; a writer waiting in Write is never stranded (queue full, pump gone, close channel open). -/
theorem C12_write_vs_close (acts : List Act) :
    ∀ s, s = run Generated.wsCfg acts →
    s.panicked = false ∧ s.peerGot <+: s.accepted ∧ (∀ p ∈ s.rets, p.1 = true → p.2 = false) ∧
    ¬ (∃ m f, s.inside = some (m, .atSelect, f) ∧ s.queue.isSome ∧ s.pump = .exited ∧ s.closeCh = false) := by
  intro s hs
  rw [wsCfg_is_fixed] at hs
  have h := inv_run acts
  rw [← hs] at h
  refine ⟨h.noPanic.1, h.order.2, h.rets, ?_⟩
  rintro ⟨m, f, _, _, hp, hc⟩
  have := h.pumpExited hp
  rw [h.closedOnce.1, ← h.closedOnce.2.1, hc] at this
  cases this

/-- **C13**: on every schedule an error is reported at most once, exactly when an error path (read
    failure, peer close, failing write) closed the connection and never after a local close won; a
    closed connection has its socket closed and its close channel closed; at most the one message
    whose read had completed before the close is still delivered afterwards. -/
theorem C13_transport_loss (acts : List Act) :
    ∀ s, s = run Generated.wsCfg acts →
    s.reports = (if s.once && !s.localFirst then 1 else 0) ∧
    ((s.once = true ∧ s.localFirst = false) → s.errSet = true) ∧
    (s.closed = true → s.sock = true ∧ s.closeCh = true) ∧
    s.deliveredAfterClose ≤ 1 ∧ s.reportsAfterLocal = 0 := by
  intro s hs
  rw [wsCfg_is_fixed] at hs
  have h := inv_run acts
  rw [← hs] at h
  refine ⟨h.reports, h.errSet, ?_, ?_⟩
  · intro hc
    have ho : s.once = true := by rw [← h.closedOnce.1]; exact hc
    exact ⟨by rw [h.closedOnce.2.2]; exact ho, by rw [h.closedOnce.2.1]; exact ho⟩
  · exact ⟨by have := h.late.2; omega, h.silent.2⟩

/-- **C13 (pumps terminate)**: once closed, every step of a pump moves it strictly towards `exited`,
    and a pump that has not exited always has such a step. -/
theorem C13_pumps_terminate (s : S) (h : Inv s) (hc : s.closed = true) :
    (∀ a, readerRank (step Cfg.fixed s a).reader ≤ readerRank s.reader ∧
          pumpRank (step Cfg.fixed s a).pump ≤ pumpRank s.pump) ∧
    (s.reader ≠ .exited → ∃ a, readerRank (step Cfg.fixed s a).reader < readerRank s.reader) ∧
    (s.pump ≠ .exited → ∃ a, pumpRank (step Cfg.fixed s a).pump < pumpRank s.pump) := by
  have hsock : s.sock = true := by rw [h.closedOnce.2.2, ← h.closedOnce.1]; exact hc
  have hch : s.closeCh = true := by rw [h.closedOnce.2.1, ← h.closedOnce.1]; exact hc
  have honce : s.once = true := by rw [← h.closedOnce.1]; exact hc
  have hsd : ∀ e b, shutdown Cfg.fixed s e b = (s, false) := by intro e b; rw [shutdown_fixed]; simp [honce]
  have hep : errorPath Cfg.fixed s = s := by rw [errorPath_fixed]; simp [honce]
  refine ⟨?_, ?_, ?_⟩
  · intro a
    cases a <;> simp only [step, fixed_rr, Bool.true_and]
    all_goals (try (split <;> simp_all [readerRank, pumpRank]; done))
    all_goals (try (repeat' split) <;> simp_all [readerRank, pumpRank])
  · intro hr
    cases hrd : s.reader with
    | exited => exact absurd hrd hr
    | idle => exact ⟨.rStart, by simp [step, hrd, hch, readerRank]⟩
    | reading => exact ⟨.rReturn, by simp [step, hrd, hsock, readerRank]⟩
    | got i => exact ⟨.rCheck, by simp [step, hrd, hc, readerRank, fixed_rr]⟩
    | checked m => exact ⟨.rDeliver, by simp [step, hrd, readerRank]⟩
  · intro hp
    cases hpd : s.pump with
    | exited => exact absurd hpd hp
    | idle => exact ⟨.pumpExit, by simp [step, hpd, hch, pumpRank, Cfg.fixed]⟩
    | holding m => exact ⟨.pumpCheck, by simp [step, hpd, hc, pumpRank, Cfg.fixed]⟩

/-- pinned design: a writer past the closed check sends on the queue the exiting pump has closed -/
theorem C12_pinned_panics :
    (run Cfg.pinned [.enter, .wCheck, .localClose, .pumpExit, .wSend]).panicked = true := by decide

/-- pinned design: a failing transport write marks the connection closed, `close()` then returns early:
    the socket is never closed and the read pump stays blocked in its read -/
theorem C13_pinned_leaks_socket :
    let s := run Cfg.pinned [.rStart, .enter, .wCheck, .wSend, .pumpTake, .pumpWrite false, .localClose]
    s.closed = true ∧ s.sock = false ∧ s.reader = .reading := by decide

/-- the design before the last repair: the peer's reply to the close frame of a deliberate local close
    is reported as a connection error -/
theorem C13_local_close_reported_before_fix :
    (run { Cfg.fixed with farewellInsideOnce := false } [.rStart, .localCloseBegin, .rReturn, .rCheck, .localClose]).reportsAfterLocal = 1 := by
  decide

/-- non-vacuity: messages do get through, in order, and a peer failure is reported once -/
example : (run Cfg.fixed [.enter, .wCheck, .wSend, .pumpTake, .pumpWrite true, .enter, .wCheck, .wSend, .pumpTake,
    .pumpWrite true]).peerGot = [0, 1] := by decide
example : (run Cfg.fixed [.rStart, .peerFail, .rReturn, .rCheck]).reports = 1 := by decide

/-- what the read pump holds was read before the close, and nothing read after the close was ever delivered -/
def Inv2 (s : S) : Prop :=
  (s.gotLate = true → s.closed = true) ∧ s.lateDelivered = 0 ∧ (∀ m, s.reader = .checked m → s.gotLate = false)

theorem shutdown_closed_mono (s : S) (e b : Bool) (h : s.closed = true) : (shutdown Cfg.fixed s e b).1.closed = true := by
  rw [shutdown_fixed]; split <;> simp [h]

theorem shutdown_late (s : S) (e b : Bool) :
    (shutdown Cfg.fixed s e b).1.gotLate = s.gotLate ∧ (shutdown Cfg.fixed s e b).1.lateDelivered = s.lateDelivered ∧
    (shutdown Cfg.fixed s e b).1.reader = s.reader := by
  rw [shutdown_fixed]; split <;> simp

theorem errorPath_late (s : S) :
    (errorPath Cfg.fixed s).gotLate = s.gotLate ∧ (errorPath Cfg.fixed s).lateDelivered = s.lateDelivered ∧
    (errorPath Cfg.fixed s).reader = s.reader ∧ (s.closed = true → (errorPath Cfg.fixed s).closed = true) := by
  rw [errorPath_fixed]; split <;> simp [report]

theorem inv2_shutdown {s : S} (h : Inv2 s) (e b : Bool) : Inv2 (shutdown Cfg.fixed s e b).1 := by
  obtain ⟨h1, h2, h3⟩ := h
  have l := shutdown_late s e b
  refine ⟨?_, by rw [l.2.1]; exact h2, ?_⟩
  · intro hg; rw [l.1] at hg; exact shutdown_closed_mono s e b (h1 hg)
  · intro m hm; rw [l.2.2] at hm; rw [l.1]; exact h3 m hm

theorem inv2_errorPath {s : S} (h : Inv2 s) : Inv2 (errorPath Cfg.fixed s) := by
  obtain ⟨h1, h2, h3⟩ := h
  have l := errorPath_late s
  refine ⟨?_, by rw [l.2.1]; exact h2, ?_⟩
  · intro hg; rw [l.1] at hg; exact l.2.2.2 (h1 hg)
  · intro m hm; rw [l.2.2.1] at hm; rw [l.1]; exact h3 m hm


theorem inv2_step {s : S} (h : Inv2 s) (a : Act) : Inv2 (step Cfg.fixed s a) := by
  cases a with
  | localCloseBegin => simp only [step, Cfg.fixed, if_true]; exact inv2_shutdown h false false
  | localClose => exact inv2_shutdown h false false
  | pumpWrite ok =>
    simp only [step]
    split
    · split
      · exact h
      · split
        · exact h
        · have e := inv2_errorPath h
          exact e
    · exact h
  | rCheck =>
    obtain ⟨h1, h2, h3⟩ := h
    simp only [step, fixed_rr, Bool.true_and]
    split
    · next i hr =>
      split
      · refine ⟨h1, h2, ?_⟩
        intro m hm; cases hm
      · next hc =>
        have hc' : s.closed = false := by simpa using hc
        have hg : s.gotLate = false := by
          cases hgl : s.gotLate with
          | false => rfl
          | true => have := h1 hgl; rw [hc'] at this; cases this
        cases i with
        | fail =>
          have he : readErrorPath Cfg.fixed s = errorPath Cfg.fixed s := by simp [readErrorPath, Cfg.fixed]
          simp only [he]
          have e := inv2_errorPath (s := s) ⟨h1, h2, h3⟩
          obtain ⟨e1, e2, e3⟩ := e
          refine ⟨e1, e2, ?_⟩
          intro m hm; cases hm
        | msg m =>
          refine ⟨h1, h2, ?_⟩
          intro m' _; exact hg
    · exact ⟨h1, h2, h3⟩
  | rReturn =>
    obtain ⟨h1, h2, h3⟩ := h
    simp only [step]
    split
    · split
      · refine ⟨fun hg => hg, h2, ?_⟩
        intro m hm; cases hm
      · split
        · exact ⟨h1, h2, h3⟩
        · refine ⟨fun hg => hg, h2, ?_⟩
          intro m hm; cases hm
    · exact ⟨h1, h2, h3⟩
  | rReturnBuf =>
    obtain ⟨h1, h2, h3⟩ := h
    simp only [step]
    split
    · split
      · exact ⟨h1, h2, h3⟩
      · refine ⟨fun hg => hg, h2, ?_⟩
        intro m hm; cases hm
    · exact ⟨h1, h2, h3⟩
  | rDeliver =>
    obtain ⟨h1, h2, h3⟩ := h
    simp only [step]
    split
    · next m hr =>
      have hg := h3 m hr
      refine ⟨h1, ?_, ?_⟩
      · simp [hg, h2]
      · intro m' hm; cases hm
    · exact ⟨h1, h2, h3⟩
  | rStart =>
    obtain ⟨h1, h2, h3⟩ := h
    simp only [step]
    split
    · split
      · refine ⟨h1, h2, ?_⟩; intro m hm; cases hm
      · refine ⟨h1, h2, ?_⟩; intro m hm; cases hm
    · exact ⟨h1, h2, h3⟩
  | enter => obtain ⟨h1, h2, h3⟩ := h; simp only [step]; split <;> exact ⟨h1, h2, h3⟩
  | wCheck => obtain ⟨h1, h2, h3⟩ := h; simp only [step]; split <;> (try split) <;> exact ⟨h1, h2, h3⟩
  | wSend => obtain ⟨h1, h2, h3⟩ := h; simp only [step]; split <;> (try split) <;> (try split) <;> exact ⟨h1, h2, h3⟩
  | wClosed => obtain ⟨h1, h2, h3⟩ := h; simp only [step]; split <;> (try split) <;> exact ⟨h1, h2, h3⟩
  | wGiveUp =>
    have : step Cfg.fixed s .wGiveUp = s := by simp only [step, Cfg.fixed, if_true]; split <;> rfl
    rw [this]; exact h
  | pumpTake => obtain ⟨h1, h2, h3⟩ := h; simp only [step]; split <;> exact ⟨h1, h2, h3⟩
  | pumpCheck => obtain ⟨h1, h2, h3⟩ := h; simp only [step]; split <;> (try split) <;> exact ⟨h1, h2, h3⟩
  | pumpExit => obtain ⟨h1, h2, h3⟩ := h; simp only [step]; split <;> (try split) <;> exact ⟨h1, h2, h3⟩
  | peerSend => exact h
  | peerFail => exact h

theorem inv2_run (acts : List Act) : Inv2 (run Cfg.fixed acts) := by
  unfold run
  suffices ∀ s, Inv2 s → Inv2 (acts.foldl (step Cfg.fixed) s) from this _ ⟨(by intro h; cases h), rfl, (by intro m h; cases h)⟩
  induction acts with
  | nil => intro s h; exact h
  | cons a rest ih => intro s h; exact ih _ (inv2_step h a)

/-- **C13 (nothing read after the close is delivered)**: on every schedule, a message that a read returned
    after the connection had been closed - by a local close, a peer close, a failed read or a failed write on
    another goroutine - is never handed to the SHIP layer. (A message whose read ended before the close may still
    be delivered concurrently with it: `C13_transport_loss` bounds that by one.) -/
theorem C13_no_late_delivery (acts : List Act) : (run Generated.wsCfg acts).lateDelivered = 0 := by
  rw [wsCfg_is_fixed]; exact (inv2_run acts).2.1

/-- a read pump that looks at the result of a read without testing the closed flag again delivers such a message -/
theorem C13_no_recheck_delivers_late :
    (run { Cfg.fixed with readerRechecks := false } [.peerSend, .rStart, .localClose, .rReturnBuf, .rCheck, .rDeliver]).lateDelivered = 1 := by
  decide

/-! ### A Write on an open connection waits, it is never refused (used by C06: nothing is dropped while the
    connection stays open). `refusedOpen` counts Writes that returned an error while the closed flag was not set. -/

theorem shutdown_refused (s : S) (e b : Bool) : (shutdown Cfg.fixed s e b).1.refusedOpen = s.refusedOpen := by
  rw [shutdown_fixed]; split <;> rfl

theorem errorPath_refused (s : S) : (errorPath Cfg.fixed s).refusedOpen = s.refusedOpen := by
  rw [errorPath_fixed]; split <;> rfl

theorem readErrorPath_fixed (s : S) : readErrorPath Cfg.fixed s = errorPath Cfg.fixed s := rfl

theorem refused_step (s : S) (a : Act) : (step Cfg.fixed s a).refusedOpen = s.refusedOpen := by
  cases a <;> simp only [step, fixed_rr, Bool.true_and]
  case wGiveUp => simp only [Cfg.fixed, if_true]; split <;> rfl
  case localCloseBegin => simp only [Cfg.fixed, if_true]; exact shutdown_refused s false false
  case localClose => exact shutdown_refused s false false
  all_goals (repeat' split) <;> (try rfl) <;> (try exact errorPath_refused s) <;>
    (try (rw [readErrorPath_fixed]; exact errorPath_refused s))

theorem refused_run (acts : List Act) : (run Cfg.fixed acts).refusedOpen = 0 := by
  unfold run
  suffices ∀ s, s.refusedOpen = 0 → (acts.foldl (step Cfg.fixed) s).refusedOpen = 0 from this _ rfl
  induction acts with
  | nil => intro s h; exact h
  | cons a rest ih => intro s h; exact ih _ (by rw [refused_step s a]; exact h)

/-- **C12 / C06 (a Write waits)**: on every schedule, no Write returns an error while the connection is open; with
    `C12_write_vs_close` (accepted = what the peer got ++ what is queued, as long as the pump lives) nothing handed to
    an open connection is dropped. -/
theorem C12_write_waits (acts : List Act) : (run Generated.wsCfg acts).refusedOpen = 0 := by
  rw [wsCfg_is_fixed]; exact refused_run acts

/-- a Write with a timeout (or default) case in its select refuses a message on an open connection -/
theorem C12_timeout_case_drops :
    (run { Cfg.fixed with writeWaits := false } [.enter, .wCheck, .wSend, .enter, .wCheck, .wGiveUp]).refusedOpen = 1 := by
  decide

end ShipVerif.Ws
