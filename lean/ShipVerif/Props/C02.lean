/-
  C02 — every connection is bound to the SKI of the presented certificate, and that SKI to the key.
  `H` (SHA-1) is an arbitrary function here: the theorems hold for every hash function; that SHA-1 is
  collision resistant, and that TLS proves possession of the certificate's key, is outside the model.
-/
import ShipVerif.Model.Accept

namespace ShipVerif.Accept
open ShipVerif.Ski (Str)

theorem hex_length : ∀ (b : Str), (hex b).length = 2 * b.length
  | [] => rfl
  | _ :: bs => by simp [hex, hex_length bs]; omega

theorem hexDigit_lower (n : Nat) (h : n < 16) :
    (48 ≤ hexDigit n ∧ hexDigit n ≤ 57) ∨ (97 ≤ hexDigit n ∧ hexDigit n ≤ 102) := by
  unfold hexDigit; split <;> omega

/-- every character of a hex SKI is one of `0-9a-f` -/
theorem hex_lower : ∀ (b : Str), ∀ c ∈ hex b, (48 ≤ c ∧ c ≤ 57) ∨ (97 ≤ c ∧ c ≤ 102)
  | [], c, h => by simp [hex] at h
  | x :: xs, c, h => by
    simp only [hex, List.mem_cons] at h
    rcases h with rfl | rfl | h
    · exact hexDigit_lower _ (Nat.mod_lt _ (by decide))
    · exact hexDigit_lower _ (Nat.mod_lt _ (by decide))
    · exact hex_lower xs c h

theorem hexDigit_inj {a b : Nat} (ha : a < 16) (hb : b < 16) (h : hexDigit a = hexDigit b) : a = b := by
  unfold hexDigit at h; split at h <;> split at h <;> omega

/-- different byte strings (bytes < 256) have different hex spellings -/
theorem hex_injective : ∀ (a b : Str), (∀ x ∈ a, x < 256) → (∀ x ∈ b, x < 256) → hex a = hex b → a = b
  | [], [], _, _, _ => rfl
  | [], _ :: _, _, _, h => by simp [hex] at h
  | _ :: _, [], _, _, h => by simp [hex] at h
  | x :: xs, y :: ys, ha, hb, h => by
    simp only [hex, List.cons.injEq] at h
    have hx := ha x (by simp)
    have hy := hb y (by simp)
    have h1 := hexDigit_inj (Nat.mod_lt _ (by decide)) (Nat.mod_lt _ (by decide)) h.1
    have h2 := hexDigit_inj (Nat.mod_lt _ (by decide)) (Nat.mod_lt _ (by decide)) h.2.1
    have : x = y := by omega
    rw [this, hex_injective xs ys (fun z hz => ha z (by simp [hz])) (fun z hz => hb z (by simp [hz])) h.2.2]

theorem skiFromCert_some {H : Str → Str} {c : Cert} {ski : Str} (h : skiFromCert H c = some ski) :
    ∃ id, c.ext = some id ∧ id.length = 20 ∧ id = H c.pub ∧ ski = hex id := by
  unfold skiFromCert at h
  split at h
  · cases h
  · next id hid =>
    split at h
    · next hc => exact ⟨id, hid, hc.1, hc.2, by cases h; rfl⟩
    · cases h

/-- **C02 (inbound)**: an accepted inbound connection used TLS ≥ 1.2, negotiated the `ship`
    sub-protocol, presented a certificate whose first entry carries a 20-byte identifier that is the
    hash of that certificate's own public key, and is attributed to the 40-digit lower-case hex spelling
    of exactly that identifier. -/
theorem inbound_accept_sound (H : Str → Str) (x : Inbound) (ski : Str)
    (h : acceptInbound H x = .accept ski) :
    2 ≤ x.tlsMinor ∧ x.subProtocol = shipProto ∧
    ∃ c rest id, x.certs = c :: rest ∧ c.ext = some id ∧ id.length = 20 ∧ id = H c.pub ∧ ski = hex id ∧
      ski.length = 40 := by
  unfold acceptInbound at h
  split at h
  · cases h
  · next htls =>
    split at h
    · cases h
    · split at h
      · cases h
      · split at h
        · cases h
        · next hsub =>
          split at h
          · cases h
          · next c rest hc =>
            split at h
            · next s hs =>
              cases h
              obtain ⟨id, h1, h2, h3, h4⟩ := skiFromCert_some hs
              refine ⟨by omega, by simpa using hsub, c, rest, id, hc, h1, h2, h3, h4, ?_⟩
              rw [h4, hex_length, h2]
            · cases h

/-- a peer cannot assume another device's identity: a certificate carrying the victim's identifier over
    a different key whose hash differs is never accepted under the victim's SKI -/
theorem inbound_no_identity_theft (H : Str → Str) (x : Inbound) (victim attacker : Cert) (rest : List Cert)
    (hv : victim.ext = some (H victim.pub)) (hc : x.certs = { ext := victim.ext, pub := attacker.pub } :: rest)
    (hne : H attacker.pub ≠ H victim.pub) : ∀ ski, acceptInbound H x ≠ .accept ski := by
  intro ski h
  obtain ⟨_, _, c, r, id, h1, h2, _, h4, _⟩ := inbound_accept_sound H x ski h
  rw [hc] at h1
  cases h1
  simp only [hv, Option.some.injEq] at h2
  exact hne (by rw [← h4, h2])

/-- **C02 (outbound)**: the hub proceeds to SHIP only if the server's first certificate yields exactly
    the dialled SKI, bound to that certificate's key; otherwise the connection is closed first. -/
theorem outbound_proceed_sound (H : Str → Str) (dialled : Str) (certs : List Cert)
    (h : acceptOutbound H dialled certs = .proceed) :
    ∃ c rest id, certs = c :: rest ∧ c.ext = some id ∧ id.length = 20 ∧ id = H c.pub ∧ dialled = hex id := by
  unfold acceptOutbound at h
  split at h
  · cases h
  · next c rest =>
    split at h
    · next ski hs =>
      split at h
      · next he =>
        obtain ⟨id, h1, h2, h3, h4⟩ := skiFromCert_some hs
        exact ⟨c, rest, id, rfl, h1, h2, h3, by rw [← he, h4]⟩
      · cases h
    · cases h

/-- **C02 (generator)**: certificates of the library's generator always pass, with the SKI being the
    hex spelling of the key hash (40 lower-case hex digits when the hash has 20 bytes). -/
theorem gen_passes (H : Str → Str) (key : Str) (hlen : (H key).length = 20) :
    skiFromCert H (genCert H key) = some (hex (H key)) ∧ (hex (H key)).length = 40 := by
  constructor
  · simp [skiFromCert, genCert, hlen]
  · rw [hex_length, hlen]

/-- non-vacuity: with a toy hash an honest certificate is accepted, a copied identifier is not -/
def toyH : Str → Str := fun k => List.replicate 20 (k.headD 0)
def honest : Inbound := Inbound.mk 3 [genCert toyH [7]] shipProto
def thief : Inbound := Inbound.mk 3 [Cert.mk (some (List.replicate 20 7)) [9]] shipProto
example : acceptInbound toyH honest = .accept (hex (List.replicate 20 7)) := by decide
example : acceptInbound toyH thief = .refuse .peerCertCheck := by decide

end ShipVerif.Accept
