/-
  C11 (registry under concurrency): "the hub forgets exactly that connection and never drops the registry entry of
  a newer connection to the same SKI" - for every interleaving of connection ends and registrations.
-/
import ShipVerif.Model.Reg
import ShipVerif.Generated.RegFacts

namespace ShipVerif.Reg

structure RInv (s : S) : Prop where
  noPend : s.pend = []
  kept : newestKept s
  isNewest : ∀ x, s.registry = some x → s.regs.getLast? = some x
  startedOld : ∀ x ∈ s.started, x < s.next

theorem rinv_init : RInv ({} : S) where
  noPend := rfl
  kept := by intro n h; simp at h
  isNewest := by intro x h; cases h
  startedOld := by intro x h; cases h

theorem rinv_step {s : S} (h : RInv s) (a : Act) : RInv (step Cfg.fixed s a) := by
  obtain ⟨h1, h2, h3, h4⟩ := h
  cases a with
  | register =>
    refine ⟨h1, ?_, ?_, ?_⟩
    · intro n hn _; simp [step] at hn ⊢; exact hn
    · intro x hx; simp [step] at hx ⊢; exact hx
    · intro x hx; exact Nat.lt_succ_of_lt (h4 x hx)
  | closeCheck c =>
    simp only [step, Cfg.fixed, if_true]
    split
    · next hc =>
      split
      · next hr =>
        refine ⟨h1, ?_, ?_, ?_⟩
        · intro n hn hns
          have : s.regs.getLast? = some c := h3 c hr
          simp only at hn
          rw [this] at hn; cases hn
          exact absurd (List.mem_cons_self) hns
        · intro x hx; cases hx
        · intro x hx; simp only [List.mem_cons] at hx; rcases hx with rfl | hx
          · exact hc.1
          · exact h4 x hx
      · next hr =>
        refine ⟨h1, ?_, h3, ?_⟩
        · intro n hn hns
          exact h2 n hn (fun hm => hns (List.mem_cons_of_mem _ hm))
        · intro x hx; simp only [List.mem_cons] at hx; rcases hx with rfl | hx
          · exact hc.1
          · exact h4 x hx
    · exact ⟨h1, h2, h3, h4⟩
  | closeDelete c =>
    have : step Cfg.fixed s (.closeDelete c) = s := by simp [step, h1, lookup]
    rw [this]; exact ⟨h1, h2, h3, h4⟩

theorem rinv_run (acts : List Act) : RInv (run Cfg.fixed acts) := by
  unfold run
  suffices ∀ s, RInv s → RInv (acts.foldl (step Cfg.fixed) s) from this _ rinv_init
  induction acts with
  | nil => intro s h; exact h
  | cons a rest ih => intro s h; exact ih _ (rinv_step h a)

theorem regCfg_is_fixed : Generated.regCfg = Cfg.fixed := by decide

/-- **C11 (registry, all schedules)**: whatever the interleaving of connection ends and registrations, the
    connection registered last stays registered until its own end is handled, and the registry never holds
    anything but the connection registered last. -/
theorem C11_newest_kept (acts : List Act) :
    newestKept (run Generated.regCfg acts) ∧
    (∀ x, (run Generated.regCfg acts).registry = some x → (run Generated.regCfg acts).regs.getLast? = some x) := by
  rw [regCfg_is_fixed]; exact ⟨(rinv_run acts).kept, (rinv_run acts).isNewest⟩

/-- the design of the pinned tree (comparison and removal in two critical sections): the end of connection 0,
    overtaken by the registration of connection 1, removes connection 1's entry -/
theorem C11_two_sections_drop_newer :
    let s := run Cfg.pinned [.register, .closeCheck 0, .register, .closeDelete 0]
    s.regs.getLast? = some 1 ∧ 1 ∉ s.started ∧ s.registry = none := by decide

/-- non-vacuity: in the fixed design the same schedule keeps connection 1, and an end does remove its own entry -/
example : (run Cfg.fixed [.register, .closeCheck 0, .register, .closeDelete 0]).registry = some 1 := by decide
example : (run Cfg.fixed [.register, .register, .closeCheck 0, .closeCheck 1]).registry = none := by decide

end ShipVerif.Reg
