/-
  C07 — EEBUS-JSON transform: shape and round trip.

  `C07_roundtrip_partial`: for every document whose top level is a non-empty object, that contains no
  empty array and whose atoms and keys contain none of the characters `[ ] { }` (the guard `good`),
  `JsonFromEEBUSJson (JsonIntoEEBUSJson j)` is exactly the compact serialisation of `j` — arbitrary
  nesting depth and width, by mutual structural induction with one lemma per replacement pass.  The
  passes are those found in the source (`Generated.fromEEBUSPasses`, obligation `passes_eq`).
  `C07_shape`: the wire form is the plain serialisation of `toEEBUS j`, in which every object has
  exactly one member and is an array element; atoms and their order are untouched.
  The full statement of C07 (every document) is false for the transform as designed; the excluded
  inputs are shown to fail: `C07_empty_array_lost`, `C07_bracket_in_string_rewritten`,
  `C07_empty_top_object_lost`.
-/
import ShipVerif.Proofs.JsonLemmas

namespace ShipVerif.Json

theorem wire_open : wire.open_ = ['[', '{'] := rfl
theorem wire_sep : wire.sep = ['}', ',', '{'] := rfl
theorem wire_close : wire.close = ['}', ']'] := rfl
theorem wire_empty : wire.empty = ['[', ']'] := rfl
theorem st1_open : st1.open_ = ['{'] := rfl
theorem st1_sep : st1.sep = ['}', ',', '{'] := rfl
theorem st1_close : st1.close = ['}', ']'] := rfl
theorem st1_empty : st1.empty = ['[', ']'] := rfl
theorem st2_open : st2.open_ = ['{'] := rfl
theorem st2_sep : st2.sep = [','] := rfl
theorem st2_close : st2.close = ['}', ']'] := rfl
theorem st2_empty : st2.empty = ['[', ']'] := rfl
theorem st3_open : st3.open_ = ['{'] := rfl
theorem st3_sep : st3.sep = [','] := rfl
theorem st3_close : st3.close = ['}'] := rfl
theorem st3_empty : st3.empty = ['[', ']'] := rfl
theorem plain_open : plain.open_ = ['{'] := rfl
theorem plain_sep : plain.sep = [','] := rfl
theorem plain_close : plain.close = ['}'] := rfl
theorem plain_empty : plain.empty = ['{', '}'] := rfl

theorem goodm_cons {k v ms} (h : goodm (.cons k v ms) = true) : inertL k = true ∧ good v = true ∧ goodm ms = true := by
  simp only [goodm, Bool.and_eq_true] at h; exact ⟨h.1.1, h.1.2, h.2⟩
theorem goods_cons {x xs} (h : goods (.cons x xs) = true) : good x = true ∧ goods xs = true := by
  simp only [goods, Bool.and_eq_true] at h; exact h
theorem good_arr_cons {x xs} (h : good (.arr (.cons x xs)) = true) : good x = true ∧ goods xs = true := by
  simp only [good, Bool.and_eq_true] at h; exact h

local notation "p1" => rep ['[', '{'] ['{'] 0
local notation "p2" => rep ['}', ',', '{'] [','] 0
local notation "p3" => rep ['}', ']'] ['}'] 0
local notation "p4" => rep ['[', ']'] ['{', '}'] 0

theorem p1_match (X : List Char) : p1 ('[' :: '{' :: X) = '{' :: p1 X := by simp [rep, List.isPrefixOf]
theorem p2_match (X : List Char) : p2 ('}' :: ',' :: '{' :: X) = ',' :: p2 X := by simp [rep, List.isPrefixOf]
theorem p3_match (X : List Char) : p3 ('}' :: ']' :: X) = '}' :: p3 X := by simp [rep, List.isPrefixOf]
theorem p4_match (X : List Char) : p4 ('[' :: ']' :: X) = '{' :: '}' :: p4 X := by simp [rep, List.isPrefixOf]
theorem p2_close (X : List Char) : p2 ('}' :: ']' :: X) = '}' :: p2 (']' :: X) :=
  rep_nomatch (by simp [List.isPrefixOf])
theorem p1_empty (X : List Char) : p1 ('[' :: ']' :: X) = '[' :: p1 (']' :: X) :=
  rep_nomatch (by simp [List.isPrefixOf])

/-! ### pass 1: `[{` → `{` -/
mutual
theorem pass1_J : ∀ (x : J) (rest : List Char), good x = true →
    p1 (ren wire x ++ rest) = ren st1 x ++ p1 rest
  | .atom a, rest, h => by
    simp only [good] at h
    have := (inertL_spec h).2
    simp only [ren]
    exact rep_block a rest (fun c hc => (this c hc).1)
  | .arr .nil, _, h => by simp [good] at h
  | .arr (.cons x xs), rest, h => by
    obtain ⟨hx, hxs⟩ := good_arr_cons h
    obtain ⟨c, t, hc, hne, _⟩ := ren_wire_head x hx
    have hnm : (['[', '{'] : List Char).isPrefixOf ('[' :: (ren wire x ++ (renTail wire xs ++ (']' :: rest)))) = false := by
      rw [hc]; simp [List.isPrefixOf]; exact fun h => absurd h.symm hne
    simp only [ren, List.cons_append, List.append_assoc, List.nil_append]
    rw [rep_nomatch hnm, pass1_J x _ hx, pass1_Js xs _ hxs, rep_other (by decide)]
  | .obj .nil, rest, _ => by
    simp only [ren, wire_empty, st1_empty, List.cons_append, List.nil_append]
    rw [p1_empty, rep_other (by decide)]
  | .obj (.cons k v ms), rest, h => by
    simp only [good] at h
    obtain ⟨hk, hv, hms⟩ := goodm_cons h
    have hki := (inertL_spec hk).2
    simp only [ren, wire_open, wire_close, st1_open, st1_close, List.cons_append, List.append_assoc, List.nil_append]
    rw [p1_match, rep_block k _ (fun c hc => (hki c hc).1), rep_other (by decide), pass1_J v _ hv, pass1_Ms ms _ hms,
      rep_other (by decide), rep_other (by decide)]
theorem pass1_Js : ∀ (xs : Js) (rest : List Char), goods xs = true →
    p1 (renTail wire xs ++ rest) = renTail st1 xs ++ p1 rest
  | .nil, _, _ => by simp [renTail]
  | .cons x xs, rest, h => by
    obtain ⟨hx, hxs⟩ := goods_cons h
    simp only [renTail, List.cons_append, List.append_assoc]
    rw [rep_other (by decide), pass1_J x _ hx, pass1_Js xs _ hxs]
theorem pass1_Ms : ∀ (ms : Ms) (rest : List Char), goodm ms = true →
    p1 (renMems wire ms ++ rest) = renMems st1 ms ++ p1 rest
  | .nil, _, _ => by simp [renMems]
  | .cons k v ms, rest, h => by
    obtain ⟨hk, hv, hms⟩ := goodm_cons h
    have hki := (inertL_spec hk).2
    simp only [renMems, wire_sep, st1_sep, List.cons_append, List.append_assoc, List.nil_append]
    rw [rep_other (by decide), rep_other (by decide), rep_other (by decide), rep_block k _ (fun c hc => (hki c hc).1),
      rep_other (by decide), pass1_J v _ hv, pass1_Ms ms _ hms]
end

/-! ### pass 2: `},{` → `,` -/
mutual
theorem pass2_J : ∀ (x : J) (rest : List Char), good x = true →
    p2 (ren st1 x ++ rest) = ren st2 x ++ p2 rest
  | .atom a, rest, h => by
    simp only [good] at h
    have := (inertL_spec h).2
    simp only [ren]
    exact rep_block a rest (fun c hc => (this c hc).2.2.2)
  | .arr .nil, _, h => by simp [good] at h
  | .arr (.cons x xs), rest, h => by
    obtain ⟨hx, hxs⟩ := good_arr_cons h
    simp only [ren, List.cons_append, List.append_assoc, List.nil_append]
    rw [rep_other (by decide), pass2_J x _ hx, pass2_Js xs _ hxs, rep_other (by decide)]
  | .obj .nil, rest, _ => by
    simp only [ren, st1_empty, st2_empty, List.cons_append, List.nil_append]
    rw [rep_other (by decide), rep_other (by decide)]
  | .obj (.cons k v ms), rest, h => by
    simp only [good] at h
    obtain ⟨hk, hv, hms⟩ := goodm_cons h
    have hki := (inertL_spec hk).2
    simp only [ren, st1_open, st1_close, st2_open, st2_close, List.cons_append, List.append_assoc, List.nil_append]
    rw [rep_other (by decide), rep_block k _ (fun c hc => (hki c hc).2.2.2), rep_other (by decide), pass2_J v _ hv,
      pass2_Ms ms _ hms, p2_close, rep_other (by decide)]
theorem pass2_Js : ∀ (xs : Js) (rest : List Char), goods xs = true →
    p2 (renTail st1 xs ++ rest) = renTail st2 xs ++ p2 rest
  | .nil, _, _ => by simp [renTail]
  | .cons x xs, rest, h => by
    obtain ⟨hx, hxs⟩ := goods_cons h
    simp only [renTail, List.cons_append, List.append_assoc]
    rw [rep_other (by decide), pass2_J x _ hx, pass2_Js xs _ hxs]
theorem pass2_Ms : ∀ (ms : Ms) (rest : List Char), goodm ms = true →
    p2 (renMems st1 ms ++ rest) = renMems st2 ms ++ p2 rest
  | .nil, _, _ => by simp [renMems]
  | .cons k v ms, rest, h => by
    obtain ⟨hk, hv, hms⟩ := goodm_cons h
    have hki := (inertL_spec hk).2
    simp only [renMems, st1_sep, st2_sep, List.cons_append, List.append_assoc, List.nil_append]
    rw [p2_match, rep_block k _ (fun c hc => (hki c hc).2.2.2), rep_other (by decide), pass2_J v _ hv, pass2_Ms ms _ hms]
end

/-! ### pass 3: `}]` → `}` -/
mutual
theorem pass3_J : ∀ (x : J) (rest : List Char), good x = true →
    p3 (ren st2 x ++ rest) = ren st3 x ++ p3 rest
  | .atom a, rest, h => by
    simp only [good] at h
    have := (inertL_spec h).2
    simp only [ren]
    exact rep_block a rest (fun c hc => (this c hc).2.2.2)
  | .arr .nil, _, h => by simp [good] at h
  | .arr (.cons x xs), rest, h => by
    obtain ⟨hx, hxs⟩ := good_arr_cons h
    simp only [ren, List.cons_append, List.append_assoc, List.nil_append]
    rw [rep_other (by decide), pass3_J x _ hx, pass3_Js xs _ hxs, rep_other (by decide)]
  | .obj .nil, rest, _ => by
    simp only [ren, st2_empty, st3_empty, List.cons_append, List.nil_append]
    rw [rep_other (by decide), rep_other (by decide)]
  | .obj (.cons k v ms), rest, h => by
    simp only [good] at h
    obtain ⟨hk, hv, hms⟩ := goodm_cons h
    have hki := (inertL_spec hk).2
    simp only [ren, st2_open, st2_close, st3_open, st3_close, List.cons_append, List.append_assoc, List.nil_append]
    rw [rep_other (by decide), rep_block k _ (fun c hc => (hki c hc).2.2.2), rep_other (by decide), pass3_J v _ hv,
      pass3_Ms ms _ hms, p3_match]
theorem pass3_Js : ∀ (xs : Js) (rest : List Char), goods xs = true →
    p3 (renTail st2 xs ++ rest) = renTail st3 xs ++ p3 rest
  | .nil, _, _ => by simp [renTail]
  | .cons x xs, rest, h => by
    obtain ⟨hx, hxs⟩ := goods_cons h
    simp only [renTail, List.cons_append, List.append_assoc]
    rw [rep_other (by decide), pass3_J x _ hx, pass3_Js xs _ hxs]
theorem pass3_Ms : ∀ (ms : Ms) (rest : List Char), goodm ms = true →
    p3 (renMems st2 ms ++ rest) = renMems st3 ms ++ p3 rest
  | .nil, _, _ => by simp [renMems]
  | .cons k v ms, rest, h => by
    obtain ⟨hk, hv, hms⟩ := goodm_cons h
    have hki := (inertL_spec hk).2
    simp only [renMems, st2_sep, st3_sep, List.cons_append, List.append_assoc, List.nil_append]
    rw [rep_other (by decide), rep_block k _ (fun c hc => (hki c hc).2.2.2), rep_other (by decide), pass3_J v _ hv,
      pass3_Ms ms _ hms]
end

/-! ### pass 4: `[]` → `{}` -/
mutual
theorem pass4_J : ∀ (x : J) (rest : List Char), good x = true →
    p4 (ren st3 x ++ rest) = ren plain x ++ p4 rest
  | .atom a, rest, h => by
    simp only [good] at h
    have := (inertL_spec h).2
    simp only [ren]
    exact rep_block a rest (fun c hc => (this c hc).1)
  | .arr .nil, _, h => by simp [good] at h
  | .arr (.cons x xs), rest, h => by
    obtain ⟨hx, hxs⟩ := good_arr_cons h
    obtain ⟨c, t, hc, hne⟩ := ren_st3_head x hx
    have hnm : (['[', ']'] : List Char).isPrefixOf ('[' :: (ren st3 x ++ (renTail st3 xs ++ (']' :: rest)))) = false := by
      rw [hc]; simp [List.isPrefixOf]; exact fun h => absurd h.symm hne
    simp only [ren, List.cons_append, List.append_assoc, List.nil_append]
    rw [rep_nomatch hnm, pass4_J x _ hx, pass4_Js xs _ hxs, rep_other (by decide)]
  | .obj .nil, rest, _ => by
    simp only [ren, st3_empty, plain_empty, List.cons_append, List.nil_append]
    rw [p4_match]
  | .obj (.cons k v ms), rest, h => by
    simp only [good] at h
    obtain ⟨hk, hv, hms⟩ := goodm_cons h
    have hki := (inertL_spec hk).2
    simp only [ren, st3_open, st3_close, plain_open, plain_close, List.cons_append, List.append_assoc, List.nil_append]
    rw [rep_other (by decide), rep_block k _ (fun c hc => (hki c hc).1), rep_other (by decide), pass4_J v _ hv,
      pass4_Ms ms _ hms, rep_other (by decide)]
theorem pass4_Js : ∀ (xs : Js) (rest : List Char), goods xs = true →
    p4 (renTail st3 xs ++ rest) = renTail plain xs ++ p4 rest
  | .nil, _, _ => by simp [renTail]
  | .cons x xs, rest, h => by
    obtain ⟨hx, hxs⟩ := goods_cons h
    simp only [renTail, List.cons_append, List.append_assoc]
    rw [rep_other (by decide), pass4_J x _ hx, pass4_Js xs _ hxs]
theorem pass4_Ms : ∀ (ms : Ms) (rest : List Char), goodm ms = true →
    p4 (renMems st3 ms ++ rest) = renMems plain ms ++ p4 rest
  | .nil, _, _ => by simp [renMems]
  | .cons k v ms, rest, h => by
    obtain ⟨hk, hv, hms⟩ := goodm_cons h
    have hki := (inertL_spec hk).2
    simp only [renMems, st3_sep, plain_sep, List.cons_append, List.append_assoc, List.nil_append]
    rw [rep_other (by decide), rep_block k _ (fun c hc => (hki c hc).1), rep_other (by decide), pass4_J v _ hv,
      pass4_Ms ms _ hms]
end

/-! ### wire form = plain serialisation of the rewritten tree -/
mutual
theorem ren_toEEBUS : ∀ (x : J), ren plain (toEEBUS x) = ren wire x
  | .atom a => by simp [toEEBUS, ren]
  | .arr .nil => by simp [toEEBUS, toEEBUSs, ren]
  | .arr (.cons x xs) => by
    simp only [toEEBUS, toEEBUSs, ren]
    rw [ren_toEEBUS x, renTail_toEEBUSs xs]
  | .obj .nil => by simp [toEEBUS, toEEBUSm, ren, wire_empty]
  | .obj (.cons k v ms) => by
    simp only [toEEBUS, toEEBUSm, ren, renMems, plain_open, plain_close, wire_open, wire_close, List.cons_append,
      List.append_assoc, List.nil_append]
    rw [ren_toEEBUS v, renTail_toEEBUSm ms]
theorem renTail_toEEBUSs : ∀ (xs : Js), renTail plain (toEEBUSs xs) = renTail wire xs
  | .nil => by simp [toEEBUSs, renTail]
  | .cons x xs => by
    simp only [toEEBUSs, renTail]
    rw [ren_toEEBUS x, renTail_toEEBUSs xs]
/-- the members of the rewritten object, shifted by one brace -/
theorem renTail_toEEBUSm : ∀ (ms : Ms) (rest : List Char),
    '}' :: (renTail plain (toEEBUSm ms) ++ rest) = renMems wire ms ++ ('}' :: rest)
  | .nil, _ => by simp [toEEBUSm, renTail, renMems]
  | .cons k v ms, rest => by
    simp only [toEEBUSm, renTail, ren, renMems, plain_open, plain_close, wire_sep, List.cons_append,
      List.append_assoc, List.nil_append]
    rw [ren_toEEBUS v, renTail_toEEBUSm ms]
end

theorem trimBrackets_spec (xs : List Char) : trimBrackets ('[' :: (xs ++ [']'])) = xs := by
  simp [trimBrackets, List.reverse_append]

theorem trimNul_braces (xs : List Char) : trimNul ('{' :: (xs ++ ['}'])) = '{' :: (xs ++ ['}']) := by
  simp [trimNul, List.dropWhile, List.reverse_append]

/-- the replacement passes found in the source -/
theorem passes_eq : Generated.fromEEBUSPasses = [("[{", "{"), ("},{", ","), ("}]", "}"), ("[]", "{}")] := by decide

theorem fromEEBUS_eq (s : List Char) : fromEEBUS s = trimNul (p4 (p3 (p2 (p1 s)))) := by
  simp only [fromEEBUS, passes_eq, List.foldl, replaceAll]
  rfl

/-- the wire text of a non-empty top-level object -/
def topWire (st : Style) (k : List Char) (v : J) (ms : Ms) : List Char :=
  '{' :: (k ++ (':' :: (ren st v ++ (renMems st ms ++ ['}']))))

theorem intoEEBUS_top (k : List Char) (v : J) (ms : Ms) :
    intoEEBUS (.obj (.cons k v ms)) = topWire wire k v ms := by
  simp only [intoEEBUS, serialize, ren_toEEBUS, ren, wire_open, wire_close, List.cons_append, List.nil_append]
  have : '[' :: '{' :: (k ++ ':' :: (ren wire v ++ (renMems wire ms ++ ['}', ']']))) =
      '[' :: (('{' :: (k ++ ':' :: (ren wire v ++ (renMems wire ms ++ ['}'])))) ++ [']']) := by simp
  rw [this, trimBrackets_spec]
  rfl

/-- **C07 (round trip, guarded)**: for a non-empty top-level object without empty arrays whose atoms and
    keys are free of brackets and braces, EEBUS→JSON after JSON→EEBUS gives back the compact document. -/
theorem C07_roundtrip_partial (k : List Char) (v : J) (ms : Ms) (h : goodm (.cons k v ms) = true) :
    fromEEBUS (intoEEBUS (.obj (.cons k v ms))) = serialize (.obj (.cons k v ms)) := by
  obtain ⟨hk, hv, hms⟩ := goodm_cons h
  have hki := (inertL_spec hk).2
  rw [fromEEBUS_eq, intoEEBUS_top]
  simp only [topWire]
  -- pass 1
  have e1 : p1 ('{' :: (k ++ ':' :: (ren wire v ++ (renMems wire ms ++ ['}'])))) =
      '{' :: (k ++ ':' :: (ren st1 v ++ (renMems st1 ms ++ ['}']))) := by
    rw [rep_other (by decide), rep_block k _ (fun c hc => (hki c hc).1), rep_other (by decide), pass1_J v _ hv,
      pass1_Ms ms _ hms]
    simp [rep, List.isPrefixOf]
  rw [e1]
  -- pass 2
  have e2 : p2 ('{' :: (k ++ ':' :: (ren st1 v ++ (renMems st1 ms ++ ['}'])))) =
      '{' :: (k ++ ':' :: (ren st2 v ++ (renMems st2 ms ++ ['}']))) := by
    rw [rep_other (by decide), rep_block k _ (fun c hc => (hki c hc).2.2.2), rep_other (by decide), pass2_J v _ hv,
      pass2_Ms ms _ hms]
    simp [rep, List.isPrefixOf]
  rw [e2]
  -- pass 3
  have e3 : p3 ('{' :: (k ++ ':' :: (ren st2 v ++ (renMems st2 ms ++ ['}'])))) =
      '{' :: (k ++ ':' :: (ren st3 v ++ (renMems st3 ms ++ ['}']))) := by
    rw [rep_other (by decide), rep_block k _ (fun c hc => (hki c hc).2.2.2), rep_other (by decide), pass3_J v _ hv,
      pass3_Ms ms _ hms]
    simp [rep, List.isPrefixOf]
  rw [e3]
  -- pass 4
  have e4 : p4 ('{' :: (k ++ ':' :: (ren st3 v ++ (renMems st3 ms ++ ['}'])))) =
      '{' :: (k ++ ':' :: (ren plain v ++ (renMems plain ms ++ ['}']))) := by
    rw [rep_other (by decide), rep_block k _ (fun c hc => (hki c hc).1), rep_other (by decide), pass4_J v _ hv,
      pass4_Ms ms _ hms]
    simp [rep, List.isPrefixOf]
  rw [e4]
  have : '{' :: (k ++ ':' :: (ren plain v ++ (renMems plain ms ++ ['}']))) =
      '{' :: ((k ++ ':' :: (ren plain v ++ renMems plain ms)) ++ ['}']) := by simp
  rw [this, trimNul_braces]
  simp [serialize, ren, plain_open, plain_close]

/-! ### shape -/

mutual
/-- every object is a one-member object standing as an array element; the top level is an array -/
def eebusShape : J → Bool
  | .atom _ => true
  | .arr xs => eebusShapes xs
  | .obj _ => false
def eebusShapes : Js → Bool
  | .nil => true
  | .cons (.obj (.cons _ v .nil)) xs => eebusShape v && eebusShapes xs
  | .cons x xs => eebusShape x && eebusShapes xs
end

mutual
theorem toEEBUS_shape : ∀ (x : J), eebusShape (toEEBUS x) = true
  | .atom _ => by simp [toEEBUS, eebusShape]
  | .arr xs => by simp only [toEEBUS, eebusShape]; exact toEEBUSs_shape xs
  | .obj ms => by simp only [toEEBUS, eebusShape]; exact toEEBUSm_shape ms
theorem toEEBUSs_shape : ∀ (xs : Js), eebusShapes (toEEBUSs xs) = true
  | .nil => by simp [toEEBUSs, eebusShapes]
  | .cons x xs => by
    have hx := toEEBUS_shape x
    have hxs := toEEBUSs_shape xs
    cases x with
    | atom a => simp [toEEBUSs, toEEBUS, eebusShapes, eebusShape, hxs]
    | arr ys => simp only [toEEBUSs, toEEBUS, eebusShapes, Bool.and_eq_true]; simp only [toEEBUS] at hx; exact ⟨hx, hxs⟩
    | obj ms => simp only [toEEBUSs, toEEBUS, eebusShapes, Bool.and_eq_true]; simp only [toEEBUS] at hx; exact ⟨hx, hxs⟩
theorem toEEBUSm_shape : ∀ (ms : Ms), eebusShapes (toEEBUSm ms) = true
  | .nil => by simp [toEEBUSm, eebusShapes]
  | .cons k v ms => by
    simp only [toEEBUSm, eebusShapes, Bool.and_eq_true]
    exact ⟨toEEBUS_shape v, toEEBUSm_shape ms⟩
end

/-- **C07 (shape)**: the EEBUS tree has every object as a single-member array element, and its plain
    serialisation is the wire form of the original document. -/
theorem C07_shape (j : J) : eebusShape (toEEBUS j) = true ∧ serialize (toEEBUS j) = ren wire j :=
  ⟨toEEBUS_shape j, ren_toEEBUS j⟩

/-! ### what the guard excludes really fails -/

def q (s : String) : List Char := s.toList

/-- `{"a":[]}` comes back as `{"a":{}}`: an empty array and an empty object share the wire form `[]` -/
theorem C07_empty_array_lost :
    fromEEBUS (intoEEBUS (.obj (.cons (q "\"a\"") (.arr .nil) .nil))) = q "{\"a\":{}}" := by
  rw [fromEEBUS_eq]; decide

/-- `{"a":"[{"}` comes back as `{"a":"{"}`: the textual passes also rewrite string contents -/
theorem C07_bracket_in_string_rewritten :
    fromEEBUS (intoEEBUS (.obj (.cons (q "\"a\"") (.atom (q "\"[{\"")) .nil))) = q "{\"a\":\"{\"}" := by
  rw [fromEEBUS_eq]; decide

/-- the empty top-level object `{}` is sent as the empty string and comes back as the empty string -/
theorem C07_empty_top_object_lost : fromEEBUS (intoEEBUS (.obj .nil)) = [] := by
  rw [fromEEBUS_eq]; decide

/-- non-vacuity: a nested document satisfying the guard -/
example : goodm (.cons (q "\"data\"") (.obj (.cons (q "\"header\"") (.obj (.cons (q "\"protocolId\"") (.atom (q "\"ee1.0\"")) .nil))
    (.cons (q "\"payload\"") (.arr (.cons (.obj .nil) (.cons (.atom (q "12.50")) .nil))) .nil))) .nil) = true := by decide

end ShipVerif.Json
