/-
  C20 — no data race on library state.

  * `common_mem`: a mutex in `commonLocks as` is held at every access in `as`;
  * `C20_no_simultaneous_access`: if one mutex is held at every access to a field, two different threads are never
    inside accesses to that field at the same moment - whatever the schedule (a mutex has one holder);
  * `C20_lock_discipline`: every field of packages api, hub, ship, ws, mdns that is written outside constructors has
    such a mutex in the lock facts regenerated from the current source, or is one of four listed waivers
    (goroutine confinement / start-of-goroutine ordering, each with its reason).
  Together: no schedule produces two simultaneous accesses to a non-waived field.  What the lock facts are
  (which accesses exist, which mutexes are held) is the extractor's analysis and part of the trusted base; the Go
  race detector running under the stress engines is the search for a schedule that contradicts it.
-/
import ShipVerif.Generated.LockFacts

namespace ShipVerif.Lockset

theorem common_mem : ∀ (as : List Access) (l : String), l ∈ commonLocks as → ∀ a ∈ as, l ∈ a.locks
  | [], l, h, a, ha => by cases ha
  | x :: rest, l, h, a, ha => by
    simp only [commonLocks, List.mem_filter, List.all_eq_true] at h
    rcases List.mem_cons.1 ha with e | e
    · rw [e]; exact h.1
    · have := h.2 a e
      simpa using this

/-- **C20 (mutual exclusion)** -/
theorem C20_no_simultaneous_access (all : List Access) (f : String) (hne : commonLocks (accessesOf all f) ≠ [])
    (rt : Rt) (t1 t2 : Nat) (a1 a2 : Access) (h1 : a1 ∈ all) (h2 : a2 ∈ all) (f1 : a1.field = f) (f2 : a2.field = f)
    (i1 : inside rt t1 a1) (i2 : inside rt t2 a2) : t1 = t2 := by
  obtain ⟨l, hl⟩ := List.exists_mem_of_ne_nil _ hne
  have m1 : a1 ∈ accessesOf all f := by simp [accessesOf, h1, f1]
  have m2 : a2 ∈ accessesOf all f := by simp [accessesOf, h2, f2]
  have e1 := i1 l (common_mem _ l hl a1 m1)
  have e2 := i2 l (common_mem _ l hl a2 m2)
  rw [e1] at e2
  exact Option.some.inj e2

/-- **C20 (discipline of the current source)** -/
theorem C20_lock_discipline : disciplined Generated.accesses = true := by decide +kernel

/-- every non-waived field of the current source is covered by `C20_no_simultaneous_access` -/
theorem C20_fields_protected (f : String) (hf : f ∈ fields Generated.accesses) (hw : waived f = false) :
    commonLocks (accessesOf Generated.accesses f) ≠ [] := by
  have h := C20_lock_discipline
  unfold disciplined at h
  rw [List.all_eq_true] at h
  have := h f hf
  unfold fieldOk at this
  rw [hw, Bool.or_false] at this
  intro he
  rw [he] at this
  simp at this

/-- non-vacuity: the facts are there, most fields are protected by a mutex and not waived, and a field with an
    unguarded access is rejected -/
example : Generated.accesses.length ≥ 100 ∧ (fields Generated.accesses).length ≥ 40 := by decide +kernel
example : ((fields Generated.accesses).filter fun f => !waived f).length ≥ 40 := by decide +kernel
example : fieldOk [{ field := "T.x", fn := "f", write := true, locks := ["T.mu"] }, { field := "T.x", fn := "g", write := false, locks := [] }] "T.x" = false := by decide
example : fieldOk [{ field := "T.x", fn := "f", write := true, locks := ["T.mu"] }, { field := "T.x", fn := "g", write := false, locks := ["T.mu", "T.nu"] }] "T.x" = true := by decide

end ShipVerif.Lockset
