/-
  Props/C01Inter.lean — C01 under every interleaving of any number of goroutines (Model/Inter.lean), and the C04 clause
  that does not survive it.
-/
import ShipVerif.Model.Inter
import ShipVerif.Generated.RaceFacts

namespace ShipVerif.Inter
open ShipVerif.Conn

/-- the only edges of the state graph that enter the gated part are the two that carry the trust decision -/
theorem entering_links : ∀ a ∈ St.all, ∀ b ∈ St.all, link a b = true → gated a = false → gated b = true →
    (a = .hello ∧ b = .hReadyInit) ∨ (a = .hPendListen ∧ b = .hReadyInit) := by decide

/-- the regenerated facts of /repo: `SmeHelloStateReadyInit` is assigned in exactly two places, the dispatch of the hello
    state under the trust condition and `ApprovePendingHandshake` -/
theorem readyInit_sites_fixed :
    Generated.readyInitSites = ["ApprovePendingHandshake", "handleState"] ∧
    Generated.readyInitGuard = ["IsAutoAcceptEnabled", "IsRemoteServiceForSKIPaired", "ShipRoleClient"] := by decide

structure Inv (g : G) : Prop where
  shared : gated g.st = true → g.granted = true
  local_ : ∀ t a, g.loc t = some a → gated a = true → g.granted = true
  setup : g.setupDone = true → g.granted = true

theorem inv_init (trusted : Bool) : Inv (G.init trusted) :=
  ⟨by simp [G.init, gated, postHello, St.toNat], by simp [G.init], by simp [G.init]⟩

theorem inv_step {g : G} (h : Inv g) {a : Act} (hv : valid g a) : Inv (step g a) := by
  cases a with
  | read t =>
    refine ⟨h.shared, ?_, h.setup⟩
    intro u b hb hg
    simp only [step] at hb
    split at hb
    · cases hb; exact h.shared hg
    · exact h.local_ u b hb hg
  | set t x grant =>
    obtain ⟨a, hl, _, hgate⟩ := hv
    have key : gated x = true → (g.granted || grant) = true := by
      intro hx
      cases ha : gated a
      · simp [hgate ha hx]
      · simp [h.local_ t a hl ha]
    refine ⟨key, ?_, ?_⟩
    · intro u b hb hg
      simp only [step] at hb
      split at hb
      · cases hb; exact key hg
      · simp [step, h.local_ u b hb hg]
    · intro hs; simp [step, h.setup hs]
  | setup t =>
    refine ⟨h.shared, h.local_, ?_⟩
    intro _
    exact h.local_ t .approved hv (by decide)

theorem inv_run {g g' : G} {as : List Act} (r : Run g as g') (h : Inv g) : Inv g' := by
  induction r with
  | nil => exact h
  | cons hv _ ih => exact ih (inv_step h hv)

/-- C01 under every interleaving: whatever the goroutines of a connection do and in whatever order, the handshake state
    is past the hello decision, and the remote device is set up, only if trust was granted -/
theorem C01_trust_gate_interleaved {trusted : Bool} {as : List Act} {g : G} (r : Run (G.init trusted) as g) :
    (postHello g.st = true → g.granted = true) ∧ (g.setupDone = true → g.granted = true) := by
  have h := inv_run r (inv_init trusted)
  refine ⟨fun hp => h.shared ?_, h.setup⟩
  simp [gated, hp]

/-- without a grant nothing gets there: a run in which no assignment carries a grant and that starts untrusted never
    reaches a state past hello -/
theorem C01_no_grant_no_progress {as : List Act} {g : G} (r : Run (G.init false) as g)
    (hn : ∀ a ∈ as, ∀ t x, a ≠ .set t x true) : postHello g.st = false ∧ g.setupDone = false := by
  have hg : ∀ {g0 g1 : G} {l : List Act}, Run g0 l g1 → (∀ a ∈ l, ∀ t x, a ≠ .set t x true) → g0.granted = false →
      g1.granted = false := by
    intro g0 g1 l r0
    induction r0 with
    | nil => intro _ h; exact h
    | @cons g a as g' hv _ ih =>
      intro hn h0
      apply ih (fun b hb => hn b (List.mem_cons_of_mem _ hb))
      cases a with
      | read t => simpa [step] using h0
      | setup t => simpa [step] using h0
      | set t x grant =>
        cases grant
        · simpa [step] using h0
        · exact absurd rfl (hn _ List.mem_cons_self t x)
  have hfalse := hg r hn rfl
  have h := C01_trust_gate_interleaved r
  constructor
  · cases hp : postHello g.st
    · rfl
    · have := h.1 hp; simp [hfalse] at this
  · cases hs : g.setupDone
    · rfl
    · have := h.2 hs; simp [hfalse] at this

/-- every action valid in the state the earlier ones lead to -/
def validAll : G → List Act → Prop
  | _, [] => True
  | g, a :: as => valid g a ∧ validAll (step g a) as

theorem run_of_valid : ∀ (as : List Act) (g : G), validAll g as → Run g as (as.foldl step g)
  | [], g, _ => Run.nil g
  | a :: as, g, h => Run.cons h.1 (run_of_valid as (step g a) h.2)

/-- non-vacuity: the ordinary trusted server handshake up to hello-ok is a run -/
example : ∃ g, Run (G.init false)
    [.read 0, .set 0 .sWait false, .read 1, .set 1 .sEval false, .set 1 .hello false, .set 1 .hReadyInit true,
     .set 1 .hReadyListen false, .read 2, .set 2 .hOk false] g ∧ g.st = .hOk ∧ g.granted = true :=
  ⟨_, run_of_valid _ _ (by simp [validAll, valid, step, G.init, link, gated, postHello, fwdEdge, St.toNat]), rfl, rfl⟩

/-- what does NOT survive interleaving (C04 "an outcome is final"): the user approves and cancels at the same time; the
    cancel read the pending state first, the approve's goroutine assigns the ready states around it. Every action is a
    link the code can take, the shared state ends on `hReadyListen` after `hAbortDone` had been assigned - engine
    userrace's serial scheduler produces this history on the pinned code (DESIGN.md section 5) -/
theorem C04_outcome_not_final_interleaved : ∃ g, Run
    { st := .hPendListen, loc := fun _ => none, granted := false, setupDone := false }
    [.read 0, .read 1, .set 0 .hReadyInit true, .set 1 .hAbort false, .set 1 .hAbortDone false, .set 0 .hReadyListen false] g
    ∧ g.st = .hReadyListen :=
  ⟨_, run_of_valid _ _ (by simp [validAll, valid, step, link, gated, postHello, fwdEdge, St.toNat]), rfl⟩

end ShipVerif.Inter
