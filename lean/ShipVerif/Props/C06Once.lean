/-
  C06 ("exactly once"): the messages a connection accepts are pairwise different (every Write gets a fresh identity),
  so a gap-free prefix of them contains none twice: nothing the receiving application is handed is a duplicate.
-/
import ShipVerif.Props.C06Pipe

namespace ShipVerif.Pipe
open ShipVerif.Ws

structure Fresh (s : Ws.S) : Prop where
  below : ∀ x ∈ s.accepted, x < s.next
  nodup : s.accepted.Nodup
  inside : ∀ m pc f, s.inside = some (m, pc, f) → m < s.next ∧ m ∉ s.accepted

theorem fresh_init : Fresh ({} : Ws.S) where
  below := by intro x h; cases h
  nodup := List.nodup_nil
  inside := by intro m pc f h; cases h

theorem shutdown_fresh_fields (s : Ws.S) (e b : Bool) :
    (shutdown Ws.Cfg.fixed s e b).1.accepted = s.accepted ∧ (shutdown Ws.Cfg.fixed s e b).1.next = s.next ∧
    (shutdown Ws.Cfg.fixed s e b).1.inside = s.inside := by
  rw [shutdown_fixed]; split <;> simp

theorem errorPath_fresh_fields (s : Ws.S) :
    (errorPath Ws.Cfg.fixed s).accepted = s.accepted ∧ (errorPath Ws.Cfg.fixed s).next = s.next ∧
    (errorPath Ws.Cfg.fixed s).inside = s.inside := by
  rw [errorPath_fixed]; split <;> simp

theorem fresh_of_same {s t : Ws.S} (h : Fresh s) (ha : t.accepted = s.accepted) (hn : t.next = s.next) (hi : t.inside = s.inside) : Fresh t :=
  ⟨by rw [ha, hn]; exact h.below, by rw [ha]; exact h.nodup, by rw [hi, hn, ha]; exact h.inside⟩

theorem fresh_step {s : Ws.S} (h : Fresh s) (x : Ws.Act) : Fresh (Ws.step Ws.Cfg.fixed s x) := by
  obtain ⟨h1, h2, h3⟩ := h
  have hs : Fresh s := ⟨h1, h2, h3⟩
  cases x with
  | enter =>
    simp only [Ws.step]
    split
    · exact hs
    · refine ⟨?_, h2, ?_⟩
      · intro x hx; exact Nat.lt_succ_of_lt (h1 x hx)
      · intro m pc f he
        simp only [Option.some.injEq, Prod.mk.injEq] at he
        obtain ⟨rfl, _, _⟩ := he
        exact ⟨Nat.lt_succ_self _, fun hm => Nat.lt_irrefl _ (h1 _ hm)⟩
  | wCheck =>
    simp only [Ws.step]
    split
    · next m f hi =>
      split
      · exact ⟨h1, h2, by intro m' pc f' he; cases he⟩
      · refine ⟨h1, h2, ?_⟩
        intro m' pc f' he
        simp only [Option.some.injEq, Prod.mk.injEq] at he
        obtain ⟨rfl, _, _⟩ := he
        exact h3 _ _ _ hi
    · exact hs
  | wSend =>
    simp only [Ws.step]
    split
    · next m f hi =>
      have hm := h3 _ _ _ hi
      split
      · exact ⟨h1, h2, by intro m' pc f' he; cases he⟩
      · split
        · exact hs
        · refine ⟨?_, ?_, by intro m' pc f' he; cases he⟩
          · intro x hx
            rcases List.mem_append.mp hx with hx | hx
            · exact h1 x hx
            · rw [List.mem_singleton.mp hx]; exact hm.1
          · exact List.nodup_append.mpr ⟨h2, (by simp), by
              intro a ha b hb; rw [List.mem_singleton.mp hb]; intro hab; exact hm.2 (hab ▸ ha)⟩
    · exact hs
  | wClosed =>
    simp only [Ws.step]
    split
    · split
      · exact ⟨h1, h2, by intro m' pc f' he; cases he⟩
      · exact hs
    · exact hs
  | wGiveUp =>
    have : Ws.step Ws.Cfg.fixed s .wGiveUp = s := by simp only [Ws.step, Ws.Cfg.fixed, if_true]; split <;> rfl
    rw [this]; exact hs
  | pumpTake => simp only [Ws.step]; split <;> first | exact hs | exact ⟨h1, h2, h3⟩
  | pumpCheck => simp only [Ws.step]; (repeat' split) <;> first | exact hs | exact ⟨h1, h2, h3⟩
  | pumpExit => simp only [Ws.step]; (repeat' split) <;> first | exact hs | exact ⟨h1, h2, h3⟩
  | pumpWrite ok =>
    simp only [Ws.step]
    (repeat' split)
    all_goals first
      | exact hs
      | exact ⟨h1, h2, h3⟩
      | exact fresh_of_same hs (errorPath_fresh_fields s).1 (errorPath_fresh_fields s).2.1 (errorPath_fresh_fields s).2.2
  | rStart => simp only [Ws.step]; (repeat' split) <;> first | exact hs | exact ⟨h1, h2, h3⟩
  | rReturn => simp only [Ws.step]; (repeat' split) <;> first | exact hs | exact ⟨h1, h2, h3⟩
  | rReturnBuf => simp only [Ws.step]; (repeat' split) <;> first | exact hs | exact ⟨h1, h2, h3⟩
  | rCheck =>
    simp only [Ws.step, fixed_rr, Bool.true_and]
    (repeat' split)
    all_goals first
      | exact hs
      | exact ⟨h1, h2, h3⟩
      | (rw [readErrorPath_fixed]; exact fresh_of_same hs (errorPath_fresh_fields s).1 (errorPath_fresh_fields s).2.1 (errorPath_fresh_fields s).2.2)
  | rDeliver => simp only [Ws.step]; split <;> first | exact hs | exact ⟨h1, h2, h3⟩
  | peerSend =>
    refine ⟨?_, h2, ?_⟩
    · intro x hx; exact Nat.lt_succ_of_lt (h1 x hx)
    · intro m pc f he; have := h3 m pc f he; exact ⟨Nat.lt_succ_of_lt this.1, this.2⟩
  | peerFail => exact ⟨h1, h2, h3⟩
  | localCloseBegin =>
    have : Ws.step Ws.Cfg.fixed s .localCloseBegin = (shutdown Ws.Cfg.fixed s false false).1 := rfl
    rw [this]
    exact fresh_of_same hs (shutdown_fresh_fields s false false).1 (shutdown_fresh_fields s false false).2.1 (shutdown_fresh_fields s false false).2.2
  | localClose =>
    exact fresh_of_same hs (shutdown_fresh_fields s false false).1 (shutdown_fresh_fields s false false).2.1 (shutdown_fresh_fields s false false).2.2

theorem fresh_run (acts : List Ws.Act) : Fresh (Ws.run Ws.Cfg.fixed acts) := by
  unfold Ws.run
  suffices ∀ s, Fresh s → Fresh (acts.foldl (Ws.step Ws.Cfg.fixed) s) from this _ fresh_init
  induction acts with
  | nil => intro s h; exact h
  | cons a rest ih => intro s h; exact ih _ (fresh_step h a)

theorem shipRecv_a (cfg : Cfg) (k : Cls) (p : P) (m : Msg) : (shipRecv cfg k p m).a = p.a := by
  simp only [shipRecv]; (repeat' split) <;> rfl

/-- the sender component of a pipeline run is a run of the adapter -/
theorem pipe_a_fresh (k : Cls) : ∀ (acts : List PAct) (p : P), Fresh p.a → Fresh (acts.foldl (step Ws.Cfg.fixed Cfg.fixed k) p).a
  | [], _, h => h
  | x :: rest, p, h => by
    apply pipe_a_fresh k rest
    cases x with
    | a y => exact fresh_step h y
    | b y =>
      simp only [step, stepB]
      split
      · exact h
      · split
        · split
          · next m _ =>
            rw [shipRecv_a]; exact h
          · exact h
        · exact h
    | wire => simp only [step]; split <;> exact h
    | flush => simp only [step]; split <;> exact h

/-- **C06 (exactly once)**: on every schedule, nothing the receiving application was handed (or that is buffered for
    it) occurs twice. -/
theorem C06_no_duplicates (k : Cls) (acts : List PAct) :
    ∀ p, p = run Generated.wsCfg Generated.pipeCfg k acts → (p.appGot ++ p.buffer).Nodup := by
  intro p hp
  have hpre := (C06_in_order_no_invention k acts p hp).1
  rw [wsCfg_is_fixed, pipeCfg_is_fixed] at hp
  have hf : Fresh p.a := by
    rw [hp]; unfold run
    exact pipe_a_fresh k acts {} fresh_init
  exact (List.IsPrefix.sublist hpre).nodup (hf.nodup.filter _)

end ShipVerif.Pipe
