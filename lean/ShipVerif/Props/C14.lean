/-
  C14 — a stopped or replaced handshake timer never fires.

  `C14_timer_safe`: with the design the extractor finds in the source (`Generated.timerCfg`, required to
  be `Cfg.fixed`: per-arm stop channel, stop closes it, goroutine re-checks under the mutex), for
  every schedule of arm / stop / goroutine-start / wake / expire actions — any number of timers, any
  interleaving, stopping before the goroutine has even started included — every delivered timeout
  comes from the most recently armed timer, which was not stopped and has not delivered before.
  `C14_pinned_design_unsafe`: the design of the pinned commit (one shared unbuffered channel,
  non-blocking send, no re-check) delivers a timeout after stop on the 4-step schedule
  arm; stop; start; expire — the lost-stop defect that was repaired.
-/
import ShipVerif.Model.Timer
import ShipVerif.Generated.TimerFacts

namespace ShipVerif.Timer

/-- armed ids in a log (newest first) are all below `b` and strictly decreasing: each id is used once -/
def Fresh : List Ev → Nat → Bool
  | [], _ => true
  | .armed n :: rest, b => decide (n < b) && Fresh rest n
  | _ :: rest, b => Fresh rest b

structure Inv (s : S) : Prop where
  safe : Safe s.log = true
  liveCur : s.running = true → live s.log = some s.cur
  chanId : ∀ g ∈ s.gs, g.chan = g.id
  fresh : Fresh s.log s.next = true

theorem Fresh_mono {l : List Ev} {a b : Nat} (h : Fresh l a = true) (hab : a ≤ b) : Fresh l b = true := by
  induction l generalizing a b with
  | nil => rfl
  | cons e es ih =>
    cases e with
    | armed n =>
      simp only [Fresh, Bool.and_eq_true, decide_eq_true_eq] at h ⊢
      exact ⟨by omega, h.2⟩
    | stopped => simp only [Fresh] at h ⊢; exact ih h hab
    | delivered n => simp only [Fresh] at h ⊢; exact ih h hab

theorem inv_init : Inv S.init where
  safe := rfl
  liveCur := by intro h; simp [S.init] at h
  chanId := by intro g hg; simp [S.init] at hg
  fresh := rfl

theorem setPhase_chanId {gs : List G} (h : ∀ g ∈ gs, g.chan = g.id) (id : Nat) (p : Phase) :
    ∀ g ∈ setPhase gs id p, g.chan = g.id := by
  intro g hg
  simp only [setPhase, List.mem_map] at hg
  obtain ⟨g0, hg0, rfl⟩ := hg
  split <;> exact h g0 hg0

theorem inv_stop {s : S} (h : Inv s) (recv : Nat) : Inv (stopStep Cfg.fixed s recv) ∧
    (stopStep Cfg.fixed s recv).running = false ∧ (stopStep Cfg.fixed s recv).next = s.next := by
  by_cases hr : s.running = true
  · have e : stopStep Cfg.fixed s recv =
        { s with log := .stopped :: s.log, running := false, closed := s.cur :: s.closed } := by
      simp [stopStep, hr, Cfg.fixed]
    rw [e]
    refine ⟨⟨?_, ?_, h.chanId, ?_⟩, rfl, rfl⟩
    · simpa [Safe] using h.safe
    · intro hc; simp at hc
    · simpa [Fresh] using h.fresh
  · have hr' : s.running = false := by simpa using hr
    have e : stopStep Cfg.fixed s recv = s := by simp [stopStep, hr']
    rw [e]
    exact ⟨h, hr', rfl⟩

theorem inv_step {s : S} (h : Inv s) (a : Act) : Inv (step Cfg.fixed s a) := by
  cases a with
  | arm =>
    obtain ⟨hs, hrun, hnext⟩ := inv_stop h 0
    simp only [step]
    refine ⟨?_, ?_, ?_, ?_⟩
    · simpa [Safe] using hs.safe
    · intro _; simp [live, Cfg.fixed]
    · intro g hg
      simp only [List.mem_cons] at hg
      rcases hg with rfl | hg
      · simp [Cfg.fixed]
      · exact hs.chanId g hg
    · simp only [Fresh, Bool.and_eq_true, decide_eq_true_eq]
      exact ⟨by omega, hs.fresh⟩
  | stop recv => exact (inv_stop h recv).1
  | start g =>
    simp only [step]
    split
    · exact ⟨h.safe, h.liveCur, setPhase_chanId h.chanId _ _, h.fresh⟩
    · exact h
  | wake g =>
    simp only [step]
    split
    · exact ⟨h.safe, h.liveCur, setPhase_chanId h.chanId _ _, h.fresh⟩
    · exact h
  | expire g =>
    simp only [step]
    split
    · next x hx =>
      have hmem := List.mem_of_find?_eq_some hx
      have hid := h.chanId x hmem
      simp only [Cfg.fixed, if_true]
      split
      · next hc =>
        simp only [Bool.and_eq_true, decide_eq_true_eq] at hc
        have hl := h.liveCur hc.1
        refine ⟨?_, ?_, setPhase_chanId h.chanId _ _, ?_⟩
        · simp only [Safe, Bool.and_eq_true, beq_iff_eq]
          exact ⟨by rw [hl, hc.2, hid], h.safe⟩
        · intro hc2; cases hc2
        · simpa [Fresh] using h.fresh
      · exact ⟨h.safe, h.liveCur, setPhase_chanId h.chanId _ _, h.fresh⟩
    · exact h

theorem inv_run (acts : List Act) : Inv (run Cfg.fixed acts) := by
  unfold run
  suffices ∀ s, Inv s → Inv (acts.foldl (step Cfg.fixed) s) from this _ inv_init
  induction acts with
  | nil => intro s h; exact h
  | cons a as ih => intro s h; exact ih _ (inv_step h a)

/-- the design found in the source is the repaired one -/
theorem timerCfg_is_fixed : Generated.timerCfg = Cfg.fixed := by decide

/-- **C14**: for every schedule, every delivered timeout comes from the live timer — the most recently
    armed one, not stopped, not delivered before — and timer ids are never reused. -/
theorem C14_timer_safe (acts : List Act) :
    Safe (run Generated.timerCfg acts).log = true ∧
    Fresh (run Generated.timerCfg acts).log (run Generated.timerCfg acts).next = true := by
  rw [timerCfg_is_fixed]
  exact ⟨(inv_run acts).safe, (inv_run acts).fresh⟩

/-- a goroutine that picks up the stored channel only when it starts can adopt the channel of the timer that
    replaced it: the replaced timer then delivers -/
theorem C14_late_capture_unsafe :
    Safe (run { Cfg.fixed with captureAtArm := false } [.arm, .stop 0, .arm, .start 1, .expire 1]).log = false := by decide

/-- the pinned design loses a stop that comes before the goroutine waits -/
theorem C14_pinned_design_unsafe :
    Safe (run Cfg.pinned [.arm, .stop 1, .start 1, .expire 1]).log = false := by decide

/-- non-vacuity: a schedule on which the repaired design does deliver a timeout -/
example : (run Cfg.fixed [.arm, .start 1, .expire 1]).log = [.delivered 1, .armed 1] := by decide
/-- and one where a stop races the expiry: nothing is delivered -/
example : (run Cfg.fixed [.arm, .stop 0, .arm, .expire 1, .start 2]).log = [.armed 2, .stopped, .armed 1] := by decide

end ShipVerif.Timer
