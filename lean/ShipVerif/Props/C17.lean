/-
  C17 — the visible-services view tracks the mDNS history; reports converge to the final state.
-/
import ShipVerif.Model.View
import ShipVerif.Generated.AsyncFacts

namespace ShipVerif.View

theorem mem_clean (ll : Addr → Bool) : ∀ (as : List Addr) (a : Addr), a ∈ clean ll as ↔ a ∈ as ∧ ll a = false
  | [], a => by simp [clean]
  | b :: bs, a => by
    unfold clean
    by_cases hb : ll b = true
    · simp only [hb, if_true, mem_clean ll bs a, List.mem_cons]
      constructor
      · intro h; exact ⟨Or.inr h.1, h.2⟩
      · rintro ⟨h1 | h1, h2⟩
        · subst h1; rw [hb] at h2; cases h2
        · exact ⟨h1, h2⟩
    · have hb' : ll b = false := by simpa using hb
      simp only [hb', Bool.false_eq_true, if_false, List.mem_cons, List.mem_filter, mem_clean ll bs a, decide_eq_true_eq]
      constructor
      · rintro (h | ⟨⟨h1, h2⟩, _⟩)
        · subst h; exact ⟨Or.inl rfl, hb'⟩
        · exact ⟨Or.inr h1, h2⟩
      · rintro ⟨h1 | h1, h2⟩
        · exact Or.inl h1
        · by_cases hab : a = b
          · exact Or.inl hab
          · exact Or.inr ⟨⟨h1, h2⟩, hab⟩

theorem clean_nodup (ll : Addr → Bool) : ∀ (as : List Addr), (clean ll as).Nodup
  | [] => by simp [clean]
  | b :: bs => by
    unfold clean
    split
    · exact clean_nodup ll bs
    · refine List.nodup_cons.2 ⟨?_, (clean_nodup ll bs).filter _⟩
      simp

/-- well-formedness of the entry map -/
structure Inv (ll : Addr → Bool) (m : Map) : Prop where
  keys : (m.map (·.1)).Nodup
  addrs : ∀ p ∈ m, p.2.Nodup ∧ ∀ a ∈ p.2, ll a = false

theorem lookup_some {m : Map} {k : Nat} {as : List Addr} (h : lookup m k = some as) : (k, as) ∈ m := by
  unfold lookup at h
  cases hf : m.find? (·.1 == k) with
  | none => simp [hf] at h
  | some p =>
    simp only [hf, Option.map_some, Option.some.injEq] at h
    have hm := List.mem_of_find?_eq_some hf
    have hk := List.find?_some hf
    simp only [beq_iff_eq] at hk
    cases p with
    | mk a b => simp only at hk h; subst hk; subst h; exact hm

theorem lookup_none {m : Map} {k : Nat} (h : lookup m k = none) : ∀ p ∈ m, p.1 ≠ k := by
  unfold lookup at h
  intro p hp hk
  cases hf : m.find? (·.1 == k) with
  | none =>
    have := List.find?_eq_none.1 hf p hp
    simp [hk] at this
  | some q => simp [hf] at h

theorem lookup_of_mem {m : Map} (hk : (m.map (·.1)).Nodup) {k : Nat} {as : List Addr} (h : (k, as) ∈ m) :
    lookup m k = some as := by
  induction m with
  | nil => cases h
  | cons p ps ih =>
    simp only [List.map_cons, List.nodup_cons] at hk
    simp only [List.mem_cons] at h
    unfold lookup
    rcases h with h | h
    · subst h; simp [List.find?]
    · have hne : p.1 ≠ k := by
        intro he
        apply hk.1
        rw [he]
        exact List.mem_map.2 ⟨(k, as), h, rfl⟩
      have := ih hk.2 h
      unfold lookup at this
      have hb : (p.1 == k) = false := by simpa using hne
      simp only [List.find?, hb]
      exact this

theorem inv_step {ll : Addr → Bool} {m : Map} (h : Inv ll m) (e : Ev) : Inv ll (step ll m e).1 := by
  unfold step
  split
  · exact h
  · split
    · next old hl =>
      have hmem := lookup_some hl
      split
      · -- remove
        constructor
        · have : ((m.filter (·.1 != e.ski)).map (·.1)) = (m.map (·.1)).filter (· != e.ski) := by
            simp [List.filter_map, Function.comp_def]
          rw [this]; exact h.keys.filter _
        · intro p hp; exact h.addrs p (List.mem_filter.1 hp).1
      · split
        · exact h
        · -- merge
          constructor
          · have : (m.map (fun p => if p.1 == e.ski then (p.1, old ++ extraOf ll old e) else p)).map (·.1)
                = m.map (·.1) := by
              simp only [List.map_map]
              apply List.map_congr_left
              intro p _
              simp only [Function.comp]
              split <;> rfl
            rw [this]; exact h.keys
          · intro p hp
            simp only [List.mem_map] at hp
            obtain ⟨q, hq, rfl⟩ := hp
            split
            · have hold := h.addrs _ hmem
              constructor
              · refine List.nodup_append.2 ⟨hold.1, (clean_nodup ll e.addrs).filter _, ?_⟩
                intro a ha b hb hab
                subst hab
                simp only [extraOf, List.mem_filter, Bool.not_eq_true', List.contains_eq_mem, decide_eq_false_iff_not] at hb
                exact hb.2 ha
              · intro a ha
                simp only [extraOf, List.mem_append, List.mem_filter] at ha
                rcases ha with ha | ha
                · exact hold.2 a ha
                · exact ((mem_clean ll e.addrs a).1 ha.1).2
            · exact h.addrs q hq
    · next hl =>
      split
      · exact h
      · constructor
        · simp only [List.map_append, List.map_cons, List.map_nil]
          refine List.nodup_append.2 ⟨h.keys, by simp, ?_⟩
          intro a ha b hb hab
          simp only [List.mem_singleton] at hb
          subst hab; subst hb
          obtain ⟨p, hp, hpk⟩ := List.mem_map.1 ha
          exact lookup_none hl p hp hpk
        · intro p hp
          simp only [List.mem_append, List.mem_singleton] at hp
          rcases hp with hp | hp
          · exact h.addrs p hp
          · subst hp
            exact ⟨clean_nodup ll e.addrs, fun a ha => ((mem_clean ll e.addrs a).1 ha).2⟩

theorem inv_run (ll : Addr → Bool) (evs : List Ev) : Inv ll (run ll evs) := by
  unfold run
  suffices ∀ m, Inv ll m → Inv ll (evs.foldl (fun m e => (step ll m e).1) m) from
    this [] ⟨by simp, by intro p hp; cases hp⟩
  induction evs with
  | nil => intro m h; exact h
  | cons e es ih => intro m h; exact ih _ (inv_step h e)

/-- **C17 (well-formed view)**: at any time every known service appears once, its addresses are free
    of repetitions and of unusable (IPv6 link-local) addresses. -/
theorem C17_wellformed (ll : Addr → Bool) (evs : List Ev) :
    ((run ll evs).map (·.1)).Nodup ∧ ∀ p ∈ run ll evs, p.2.Nodup ∧ ∀ a ∈ p.2, ll a = false :=
  ⟨(inv_run ll evs).keys, (inv_run ll evs).addrs⟩

/-! ### refinement to the set specification -/

theorem lookup_append_single (m : Map) (k' : Nat) (v : List Addr) (k : Nat) :
    lookup (m ++ [(k', v)]) k = match lookup m k with
      | some as => some as
      | none => if k' = k then some v else none := by
  unfold lookup
  rw [List.find?_append]
  cases hf : m.find? (·.1 == k) with
  | some p => simp
  | none =>
    simp only [Option.none_or, List.find?_cons, List.find?_nil, Option.map_none]
    by_cases h : k' = k
    · simp [h]
    · have : (k' == k) = false := by simpa using h
      simp [this, h]

theorem lookup_filter_ne (m : Map) (k' k : Nat) :
    lookup (m.filter (·.1 != k')) k = if k = k' then none else lookup m k := by
  unfold lookup
  induction m with
  | nil => simp
  | cons p ps ih =>
    by_cases hp : p.1 = k'
    · have : (p.1 != k') = false := by simp [hp]
      simp only [List.filter_cons, this, Bool.false_eq_true, if_false, ih]
      by_cases hk : k = k'
      · simp [hk]
      · have : (p.1 == k) = false := by
          simp only [beq_eq_false_iff_ne, ne_eq]; intro h; exact hk (by rw [← h, hp])
        simp [hk, List.find?, this]
    · have : (p.1 != k') = true := by simp [hp]
      simp only [List.filter_cons, this, if_true, List.find?_cons]
      by_cases hpk : p.1 = k
      · have hb : (p.1 == k) = true := by simp [hpk]
        have hk : k ≠ k' := by rw [← hpk]; exact hp
        simp [hb, hk]
      · have hb : (p.1 == k) = false := by simpa using hpk
        simp only [hb, ih]

theorem lookup_map_update (m : Map) (k' : Nat) (v : List Addr) (k : Nat) :
    lookup (m.map (fun p => if p.1 == k' then (p.1, v) else p)) k =
      if k = k' then (lookup m k).map (fun _ => v) else lookup m k := by
  unfold lookup
  induction m with
  | nil => simp
  | cons p ps ih =>
    simp only [List.map_cons, List.find?_cons]
    by_cases hp : p.1 = k'
    · have hb : (p.1 == k') = true := by simp [hp]
      simp only [hb, if_true]
      by_cases hk : k = k'
      · subst hk
        simp [hb]
      · have : (p.1 == k) = false := by
          simp only [beq_eq_false_iff_ne, ne_eq]; intro h; exact hk (by rw [← h, hp])
        simp only [this, ih, hk, if_false]
    · have hb : (p.1 == k') = false := by simpa using hp
      simp only [hb, Bool.false_eq_true, if_false]
      by_cases hpk : p.1 = k
      · have : (p.1 == k) = true := by simp [hpk]
        have hk : k ≠ k' := by rw [← hpk]; exact hp
        simp [this, hk]
      · have : (p.1 == k) = false := by simpa using hpk
        simp only [this, ih]

theorem abs_step (ll : Addr → Bool) (m : Map) (e : Ev) : abs (step ll m e).1 = specStep ll (abs m) e := by
  unfold step specStep
  by_cases hv : (!e.valid || e.isLocal) = true
  · simp [hv]
  · simp only [hv, Bool.false_eq_true, if_false]
    funext k
    cases hl : lookup m e.ski with
    | some old =>
      simp only
      by_cases hr : e.remove = true
      · simp only [hr, if_true, abs, lookup_filter_ne]
        by_cases hk : k = e.ski
        · simp [hk]
        · simp [hk]
      · simp only [hr, Bool.false_eq_true, if_false]
        by_cases hx : (extraOf ll old e).isEmpty = true
        · simp only [hx, if_true, abs]
          by_cases hk : k = e.ski
          · subst hk
            simp only [hl, Option.map_some, ne_eq, not_true_eq_false, if_false, Option.some.injEq]
            funext a
            apply propext
            constructor
            · intro h; exact Or.inl h
            · rintro (h | ⟨h1, h2⟩)
              · exact h
              · have hc : a ∈ clean ll e.addrs := (mem_clean ll e.addrs a).2 ⟨h1, h2⟩
                have hempty : extraOf ll old e = [] := by simpa using hx
                by_cases hold : a ∈ old
                · exact hold
                · have : a ∈ extraOf ll old e := by
                    simp only [extraOf, List.mem_filter, Bool.not_eq_true', List.contains_eq_mem, decide_eq_false_iff_not]
                    exact ⟨hc, hold⟩
                  rw [hempty] at this; cases this
          · simp [hk]
        · simp only [hx, Bool.false_eq_true, if_false, abs, lookup_map_update]
          by_cases hk : k = e.ski
          · subst hk
            simp only [hl, Option.map_some, if_true, ne_eq, not_true_eq_false, if_false, Option.some.injEq]
            funext a
            apply propext
            simp only [List.mem_append, extraOf, List.mem_filter, Bool.not_eq_true', List.contains_eq_mem,
              decide_eq_false_iff_not, mem_clean]
            constructor
            · rintro (h | ⟨⟨h1, h2⟩, _⟩)
              · exact Or.inl h
              · exact Or.inr ⟨h1, h2⟩
            · rintro (h | ⟨h1, h2⟩)
              · exact Or.inl h
              · by_cases hold : a ∈ old
                · exact Or.inl hold
                · exact Or.inr ⟨⟨h1, h2⟩, hold⟩
          · simp [hk]
    | none =>
      simp only
      by_cases hr : e.remove = true
      · simp only [hr, if_true, abs]
        by_cases hk : k = e.ski
        · subst hk; simp [hl]
        · simp [hk]
      · simp only [hr, Bool.false_eq_true, if_false, abs, lookup_append_single]
        by_cases hk : k = e.ski
        · subst hk
          simp only [hl, if_true, Option.map_some, ne_eq, not_true_eq_false, if_false, Option.some.injEq]
          funext a
          apply propext
          simp [mem_clean]
        · have hk' : e.ski ≠ k := fun h => hk h.symm
          cases hlk : lookup m k <;> simp [hk, hk', hlk]

/-- **C17 (view = specification)**: for every sequence of resolver events — invalid records, repeated
    adds, removes of unknown services included — the known services are exactly those announced with
    valid data (not the local SKI) and not removed since, each with exactly the union of the usable
    addresses reported for it. -/
theorem C17_view_refines_spec (ll : Addr → Bool) (evs : List Ev) : abs (run ll evs) = specRun ll evs := by
  unfold run specRun
  suffices ∀ m, abs (evs.foldl (fun m e => (step ll m e).1) m) = evs.foldl (specStep ll) (abs m) from by
    have h := this []
    have h0 : abs [] = fun _ => none := by funext k; simp [abs, lookup]
    rw [h0] at h
    exact h
  induction evs with
  | nil => intro m; rfl
  | cons e es ih =>
    intro m
    simp only [List.foldl_cons]
    rw [ih, abs_step]

end ShipVerif.View

namespace ShipVerif.Async

/-- delivered sequence numbers (newest first) strictly decrease down the log:
    an older snapshot is never delivered after a newer one -/
def Decreasing : List Nat → Prop
  | [] => True
  | [_] => True
  | a :: b :: rest => b < a ∧ Decreasing (b :: rest)

structure Inv (s : S) : Prop where
  pend : ∀ i ∈ s.pending, 1 ≤ i ∧ i ≤ s.seq
  pendNodup : s.pending.Nodup
  repLe : s.reported ≤ s.seq
  repNotPending : s.reported ∉ s.pending
  head : (s.reported = 0 ∧ s.delivered = []) ∨ s.delivered.head? = some s.reported
  dec : Decreasing s.delivered
  done : ∀ i, 1 ≤ i → i ≤ s.seq → i ∈ s.pending ∨ i ≤ s.reported

theorem inv_init : Inv ({} : S) where
  pend := by intro i h; cases h
  pendNodup := List.nodup_nil
  repLe := Nat.le_refl _
  repNotPending := by intro h; cases h
  head := Or.inl ⟨rfl, rfl⟩
  dec := trivial
  done := by
    intro i h1 h2
    have : i ≤ 0 := h2
    omega

theorem inv_step {s : S} (h : Inv s) (a : Act) : Inv (step { guarded := true } s a) := by
  obtain ⟨h1, h2, h3, h4, h5, h6, h7⟩ := h
  cases a with
  | snap =>
    simp only [step]
    refine ⟨?_, ?_, by show s.reported ≤ s.seq + 1; omega, ?_, h5, h6, ?_⟩
    · intro i hi
      simp only [List.mem_cons] at hi
      rcases hi with rfl | hi
      · exact ⟨by omega, Nat.le_refl _⟩
      · have := h1 i hi; exact ⟨this.1, by show i ≤ s.seq + 1; omega⟩
    · refine List.nodup_cons.2 ⟨?_, h2⟩
      intro hm; have := (h1 _ hm).2; omega
    · intro hm
      simp only [List.mem_cons] at hm
      rcases hm with hm | hm
      · omega
      · exact h4 hm
    · intro i hi1 hi2
      have hi2' : i ≤ s.seq + 1 := hi2
      by_cases he : i = s.seq + 1
      · exact Or.inl (by simp [he])
      · rcases h7 i hi1 (by omega) with hp | hp
        · exact Or.inl (by simp [hp])
        · exact Or.inr hp
  | go i =>
    simp only [step]
    by_cases hc : s.pending.contains i = true
    · have hmem : i ∈ s.pending := by simpa using hc
      have hne : i ≠ s.reported := fun e => h4 (e ▸ hmem)
      simp only [hc, Bool.not_true, Bool.false_eq_true, if_false, Bool.true_and]
      have hpend' : ∀ j ∈ s.pending.filter (· ≠ i), 1 ≤ j ∧ j ≤ s.seq := fun j hj => h1 j (List.mem_filter.1 hj).1
      by_cases hlt : i < s.reported
      · have hd : decide (i < s.reported) = true := by simpa using hlt
        simp only [hd, if_true]
        refine ⟨hpend', h2.filter _, h3, ?_, h5, h6, ?_⟩
        · intro hm; exact h4 (List.mem_filter.1 hm).1
        · intro j hj1 hj2
          rcases h7 j hj1 hj2 with hp | hp
          · by_cases hji : j = i
            · exact Or.inr (by show j ≤ s.reported; omega)
            · exact Or.inl (List.mem_filter.2 ⟨hp, by simpa using hji⟩)
          · exact Or.inr hp
      · have hd : decide (i < s.reported) = false := by simpa using hlt
        simp only [hd, Bool.false_eq_true, if_false]
        have hgt : s.reported < i := by omega
        refine ⟨hpend', h2.filter _, (h1 i hmem).2, ?_, Or.inr rfl, ?_, ?_⟩
        · intro hm; have := (List.mem_filter.1 hm).2; simp at this
        · rcases h5 with ⟨_, hd0⟩ | hh
          · rw [hd0]; trivial
          · cases hdl : s.delivered with
            | nil => trivial
            | cons b rest =>
              rw [hdl] at hh h6
              simp only [List.head?_cons, Option.some.injEq] at hh
              exact ⟨by omega, h6⟩
        · intro j hj1 hj2
          rcases h7 j hj1 hj2 with hp | hp
          · by_cases hji : j = i
            · exact Or.inr (by show j ≤ i; omega)
            · exact Or.inl (List.mem_filter.2 ⟨hp, by simpa using hji⟩)
          · exact Or.inr (by show j ≤ i; omega)
    · have hc' : s.pending.contains i = false := by simpa using hc
      simp only [hc', Bool.not_false, if_true]
      exact ⟨h1, h2, h3, h4, h5, h6, h7⟩

theorem inv_run (acts : List Act) : Inv (run { guarded := true } acts) := by
  unfold run
  suffices ∀ s, Inv s → Inv (acts.foldl (step { guarded := true }) s) from this _ inv_init
  induction acts with
  | nil => intro s h; exact h
  | cons a as ih => intro s h; exact ih _ (inv_step h a)

theorem guardedCfg : Generated.mdnsReportCfg = { guarded := true } := by decide

/-- **C17 (reports converge)**: for every scheduling of the report goroutines, an older snapshot is
    never delivered after a newer one, and once every goroutine has run the last delivered snapshot is
    the newest one taken (the one taken after the last change). -/
theorem C17_reports_converge (acts : List Act) :
    Decreasing (run Generated.mdnsReportCfg acts).delivered ∧
    ((run Generated.mdnsReportCfg acts).pending = [] → 0 < (run Generated.mdnsReportCfg acts).seq →
      (run Generated.mdnsReportCfg acts).delivered.head? = some (run Generated.mdnsReportCfg acts).seq) := by
  rw [guardedCfg]
  have h := inv_run acts
  refine ⟨h.dec, ?_⟩
  intro hp hs
  have hd := h.done _ hs (Nat.le_refl _)
  rw [hp] at hd
  have hr : (run { guarded := true } acts).reported = (run { guarded := true } acts).seq := by
    rcases hd with hd | hd
    · cases hd
    · have := h.repLe; omega
  rcases h.head with ⟨h0, _⟩ | hh
  · omega
  · rw [hh, hr]

/-- one goroutine per report without the guard: the older snapshot can be delivered last -/
theorem C17_pinned_reports_reorder :
    (run { guarded := false } [.snap, .snap, .go 2, .go 1]).delivered.head? = some 1 := by decide

/-- non-vacuity: with the guard the same schedule ends with the newest snapshot -/
example : (run { guarded := true } [.snap, .snap, .go 2, .go 1]).delivered = [2] := by decide

end ShipVerif.Async
