/-
  Props/C04Race.lean — C01 / C04 for a user call made while a handler is inside a transport write (Model/Race.lean).
-/
import ShipVerif.Model.Race
import ShipVerif.Generated.RaceFacts

namespace ShipVerif.Race

/-- the regenerated facts of /repo meet the design obligation -/
theorem raceCfg_stable : stable Generated.raceCfg = true := by decide

/-- the facts were understood: no "not recognised" marker -/
theorem raceCfg_recognised :
    (Generated.raceCfg.abortStates ++ Generated.raceCfg.approveStates).all (· != 999) = true ∧
    Generated.raceCfg.windows.all (fun w => w.1 != 999 && w.2 != 999) = true ∧
    Generated.raceCfg.windows.length ≥ 9 := by decide

theorem stable_window {c : Cfg} (h : stable c = true) {w : Nat × Nat} (hw : w ∈ c.windows) (hp : isOutcome w.2 = false)
    (u : UserCall) : accepts c u w.1 = false := by
  have := (List.all_eq_true.mp h) w hw
  simp [hp] at this
  cases u <;> simp [accepts, this.1, this.2]

/-- C01 / C04, the call is refused: a user call made while a handler is inside a write that a progress state follows
    reports nothing - the execution is the sequential one in which the call found a state it does not act in -/
theorem C04_call_in_window_refused {c : Cfg} (h : stable c = true) {w : Nat × Nat} (hw : w ∈ c.windows)
    (hp : isOutcome w.2 = false) (u : UserCall) : episode c w u = [w.2] := by
  simp [episode, userEffect, stable_window h hw hp u]

/-- C04, outcome final: in every episode of a stable configuration nothing but outcomes follows an outcome - a handshake
    the user aborted during a handler's write is not revived by that handler -/
theorem C04_abort_not_revived {c : Cfg} (h : stable c = true) {w : Nat × Nat} (hw : w ∈ c.windows) (u : UserCall) :
    outcomeFinal (episode c w u) = true := by
  cases hp : isOutcome w.2
  · rw [C04_call_in_window_refused h hw hp u]; simp [outcomeFinal, hp]
  · unfold episode userEffect
    split
    · cases u <;> simp [outcomeFinal, isOutcome] at * <;> simp [hp]
    · simp [outcomeFinal, hp]

/-- the theorem applied to /repo -/
theorem C04_abort_not_revived_repo {w : Nat × Nat} (hw : w ∈ Generated.raceCfg.windows) (u : UserCall) :
    outcomeFinal (episode Generated.raceCfg w u) = true := C04_abort_not_revived raceCfg_stable hw u

theorem after_abortDone_outcomes : ∀ (l : List Nat), outcomeFinal l = true →
    ∀ s ∈ l.dropWhile (· != 15), isOutcome s = true
  | [], _, s, hs => by simp at hs
  | a :: rest, h, s, hs => by
    simp only [outcomeFinal, Bool.and_eq_true] at h
    by_cases ha : a = 15
    · subst ha
      simp [List.dropWhile] at hs
      rcases hs with rfl | hs
      · decide
      · have h1 := h.1
        simp [isOutcome] at h1
        simpa [isOutcome] using h1 s hs
    · have : (a != 15) = true := by simpa using ha
      simp only [List.dropWhile, this] at hs
      exact after_abortDone_outcomes rest h.2 s hs

/-- C01: after an abort took effect in an episode (AbortDone = 15 reported), no progress state - in particular not
    HelloOk = 13 - is reported -/
theorem C01_no_progress_after_abort {c : Cfg} (h : stable c = true) {w : Nat × Nat} (hw : w ∈ c.windows) (u : UserCall) :
    ∀ s ∈ (episode c w u).dropWhile (· != 15), isOutcome s = true :=
  after_abortDone_outcomes _ (C04_abort_not_revived h hw u)

/-- non-vacuity: the hello window of /repo, and what happens there -/
example : (7, 8) ∈ Generated.raceCfg.windows ∧ episode Generated.raceCfg (7, 8) .abort = [8] := by decide

/-- the failure the obligation excludes: were abort accepted in the transient ReadyInit state, a cancel during the write
    of the hello message is reported (Abort, AbortDone) and then overwritten by ReadyListen - the handshake goes on -/
theorem C04_abort_in_window_is_revived :
    let c : Cfg := { windows := [(7, 8)], abortStates := [7, 8, 10, 11], approveStates := [11] }
    stable c = false ∧ episode c (7, 8) .abort = [14, 15, 8] ∧ outcomeFinal (episode c (7, 8) .abort) = false := by decide

end ShipVerif.Race
