/-
  C05 (dial coordination): after a `tick` - every sleeping connection attempt has had its turn - no attempt counts as
  running any more, so the next mDNS report of a wanted, unconnected service starts a new attempt.  This is the
  model-side statement of the predicate the C05 check evaluates on hub traces.
-/
import ShipVerif.Props.HubProps

namespace ShipVerif.Hub

/-- what the coordination reads of a key -/
def sched (h : H) (k : Key) : Bool × List Nat := ((h.get k).running, (h.get k).tasks)

theorem taskFire_sched_other (h : H) (k k' : Key) (c : Nat) (hk : k' ≠ k) : sched (taskFire h k c).1 k' = sched h k' := by
  unfold taskFire sched
  simp only
  (repeat' split) <;> simp [get_set, hk]

theorem taskFire_sched_same (h : H) (k : Key) (c : Nat) :
    ((taskFire h k c).1.get k).running = false ∧ ((taskFire h k c).1.get k).tasks = (h.get k).tasks := by
  unfold taskFire
  simp only
  (repeat' split) <;> simp [get_set]

theorem taskFold_sched_other (k k' : Key) (hk : k' ≠ k) : ∀ (cs : List Nat) (r : H × List Obs), sched (cs.foldl (taskFold k) r).1 k' = sched r.1 k'
  | [], _ => rfl
  | c :: cs, r => by
    simp only [List.foldl_cons]
    rw [taskFold_sched_other k k' hk cs]
    simp only [taskFold]
    exact taskFire_sched_other r.1 k k' c hk

theorem taskFold_sched_same (k : Key) : ∀ (cs : List Nat) (r : H × List Obs),
    ((cs.foldl (taskFold k) r).1.get k).tasks = (r.1.get k).tasks ∧
    (((cs.foldl (taskFold k) r).1.get k).running = true → cs = [] ∧ (r.1.get k).running = true)
  | [], r => ⟨rfl, fun h => ⟨rfl, h⟩⟩
  | c :: cs, r => by
    simp only [List.foldl_cons]
    have ih := taskFold_sched_same k cs (taskFold k r c)
    have hf := taskFire_sched_same r.1 k c
    simp only [taskFold] at ih ⊢
    refine ⟨ih.1.trans hf.2, ?_⟩
    intro hr
    have := (ih.2 hr).2
    rw [hf.1] at this
    cases this

/-- all sleeping attempts of all keys fire: afterwards no key has a task, and a key still counts as running only if it
    did before and had no task to fire -/
theorem fireTasks_sched (k : Key) : ∀ (l : List (Key × Per)) (h : H) (acc : List Obs),
    ((fireTasks l h acc).1.get k).tasks = (if l.any (·.1 = k) then [] else (h.get k).tasks) ∧
    (((fireTasks l h acc).1.get k).running = true → (h.get k).running = true ∧ (l.any (·.1 = k) = true → (h.get k).tasks = []))
  | [], h, acc => ⟨by simp [fireTasks], fun hr => ⟨hr, fun hx => by simp at hx⟩⟩
  | (k0, p0) :: rest, h, acc => by
    unfold fireTasks
    have ih := fireTasks_sched k rest
      ((h.get k0).tasks.foldl (taskFold k0) (h.set k0 { h.get k0 with tasks := [] }, acc)).1
      ((h.get k0).tasks.foldl (taskFold k0) (h.set k0 { h.get k0 with tasks := [] }, acc)).2
    by_cases hk : k = k0
    · subst hk
      have hs := taskFold_sched_same k (h.get k).tasks (h.set k { h.get k with tasks := [] }, acc)
      simp only [get_set_same] at hs
      constructor
      · rw [ih.1]; simp [hs.1]
      · intro hr
        have h1 := ih.2 hr
        have h2 := hs.2 h1.1
        exact ⟨h2.2, fun _ => h2.1⟩
    · have hs := taskFold_sched_other k0 k hk (h.get k0).tasks (h.set k0 { h.get k0 with tasks := [] }, acc)
      simp only [sched, get_set, hk, if_false, Prod.mk.injEq] at hs
      constructor
      · rw [ih.1, hs.2]
        have : ((k0, p0) :: rest).any (·.1 = k) = rest.any (·.1 = k) := by
          simp [List.any_cons, Ne.symm hk]
        rw [this]
      · intro hr
        have h1 := ih.2 hr
        rw [hs.1, hs.2] at h1
        refine ⟨h1.1, fun hx => h1.2 ?_⟩
        simpa [List.any_cons, Ne.symm hk] using hx

/-! ### most operations leave running / tasks of every key alone -/

def SameSched (h h' : H) : Prop := ∀ k, sched h' k = sched h k

theorem SameSched.refl (h : H) : SameSched h h := fun _ => rfl
theorem SameSched.trans {a b c : H} (x : SameSched a b) (y : SameSched b c) : SameSched a c := fun k => (y k).trans (x k)

theorem ss_set (h : H) (k : Key) (p : Per) (hr : p.running = (h.get k).running) (ht : p.tasks = (h.get k).tasks) :
    SameSched h (h.set k p) := by
  intro k'
  simp only [sched, get_set]
  split
  · next hk => subst hk; simp [hr, ht]
  · rfl

theorem ss_touch (h : H) (k : Key) : SameSched h (h.touch k) := by
  intro k'; simp only [sched, get_touch]

theorem ss_of_get {h h' : H} (hg : ∀ k, h'.get k = h.get k) : SameSched h h' := by
  intro k; simp only [sched, hg]

theorem Per.setDetailState_sched (p : Per) (st : Nat) : (p.setDetailState st).running = p.running ∧ (p.setDetailState st).tasks = p.tasks := by
  unfold Per.setDetailState; split <;> simp

theorem ss_setDetailState (h : H) (k : Key) (st : Nat) : SameSched h (h.setDetailState k st) :=
  ss_set h k _ (Per.setDetailState_sched _ st).1 (Per.setDetailState_sched _ st).2

theorem ss_notify (h : H) (k : Key) (d : Bool) : SameSched h (h.notify k d) := by
  unfold H.notify
  simp only
  split
  · exact SameSched.trans (ss_setDetailState h k _) (ss_of_get (fun _ => rfl))
  · exact ss_of_get (fun _ => rfl)

theorem ss_untrust (h : H) (k : Key) : SameSched h (untrust h k) := by
  unfold untrust
  refine SameSched.trans ?_ (ss_notify _ k false)
  refine SameSched.trans ?_ (ss_setDetailState _ k _)
  apply ss_set <;> rfl

theorem ss_cancelConn (h : H) (k : Key) : SameSched h (cancelConn h k).1 := by
  unfold cancelConn
  split
  · apply ss_set <;> rfl
  · exact SameSched.refl h

theorem ss_setConnSt (h : H) (k : Key) (st : Nat) : SameSched h (setConnSt h k st) := by
  unfold setConnSt
  split
  · apply ss_set <;> rfl
  · exact SameSched.refl h

theorem ss_trustOnHelloOk (h : H) (k : Key) (st : Nat) : SameSched h (trustOnHelloOk h k st) := by
  unfold trustOnHelloOk
  split
  · apply ss_set <;> rfl
  · exact SameSched.refl h

theorem ss_updateDetail (h : H) (k : Key) (ps : Nat) (err : Bool) : SameSched h (updateDetail h k ps err) := by
  unfold updateDetail
  split
  · refine SameSched.trans (b := h.set k ((h.get k).newDetail ps err)) ?_ (ss_of_get (fun _ => rfl))
    apply ss_set <;> rfl
  · exact SameSched.refl h

theorem ss_connUpdateH (h : H) (k : Key) (st : Nat) (err : Bool) : SameSched h (connUpdateH h k st err) := by
  unfold connUpdateH
  refine SameSched.trans ?_ (ss_updateDetail _ k _ err)
  refine SameSched.trans ?_ (ss_trustOnHelloOk _ k st)
  refine SameSched.trans ?_ (ss_setConnSt _ k st)
  exact ss_touch h k

theorem ss_connClosedH (h : H) (k : Key) (id : Nat) (e : Bool) : SameSched h (connClosedH h k id e) := by
  unfold connClosedH
  split
  · simp only
    split
    · split
      · refine SameSched.trans ?_ (by apply ss_set <;> rfl)
        refine SameSched.trans (ss_touch h k) ?_
        apply ss_set <;> rfl
      · refine SameSched.trans (ss_touch h k) ?_
        apply ss_set <;> rfl
    · split
      · refine SameSched.trans (ss_touch h k) ?_
        apply ss_set <;> rfl
      · exact ss_touch h k
  · exact ss_touch h k

theorem ss_deliver (all : Bool) : ∀ (fuel : Nat) (h : H) (acc : List Obs), SameSched h (deliver all fuel h acc).1
  | 0, h, _ => SameSched.refl h
  | fuel + 1, h, acc => by
    unfold deliver
    split
    · exact SameSched.refl h
    · split
      · exact SameSched.refl h
      · refine SameSched.trans ?_ (ss_deliver all fuel _ _)
        refine SameSched.trans (b := { h with queue := _ }) (ss_of_get (fun _ => rfl)) ?_
        apply ss_set <;> rfl

/-! ### the invariant: an attempt that counts as running has a sleeping task -/

def Settled (h : H) : Prop := ∀ k, (h.get k).running = true → (h.get k).tasks ≠ []

theorem settled_ss {h h' : H} (hs : Settled h) (x : SameSched h h') : Settled h' := by
  intro k hr
  have := x k
  simp only [sched, Prod.mk.injEq] at this
  rw [this.2]; exact hs k (by rw [← this.1]; exact hr)

theorem settled_set {h : H} (hs : Settled h) (k : Key) (p : Per) (hp : p.running = true → p.tasks ≠ []) : Settled (h.set k p) := by
  intro k' hr
  simp only [get_set] at hr ⊢
  split
  · next hk => simp only [hk, if_true] at hr; exact hp hr
  · next hk => simp only [hk, if_false] at hr; exact hs k' hr

theorem taskFire_settled {h : H} (hs : Settled h) (k : Key) (c : Nat) : Settled (taskFire h k c).1 := by
  intro k' hr
  by_cases hk : k' = k
  · subst hk; have := (taskFire_sched_same h k' c).1; rw [this] at hr; cases hr
  · have := taskFire_sched_other h k k' c hk
    simp only [sched, Prod.mk.injEq] at this
    rw [this.2]; exact hs k' (by rw [← this.1]; exact hr)

theorem reportOne_settled {r : H × List Obs} (hs : Settled r.1) (k : Key) : Settled (reportOne r k).1 := by
  have ht : Settled (r.1.touch k) := settled_ss hs (ss_touch r.1 k)
  unfold reportOne
  simp only
  split
  · exact ht
  · split
    · exact ht
    · split
      · exact ht
      · split
        · -- queued: the attempt is prepared at once, which clears the flag again
          intro k' hr
          by_cases hk : k' = k
          · subst hk
            rw [(taskFire_sched_same _ k' _).1] at hr; cases hr
          · have h1 := taskFire_sched_other ((r.1.touch k).set k { (r.1.touch k).get k with running := true, counter := some (nextCounter ((r.1.touch k).get k).counter) }) k k' (nextCounter ((r.1.touch k).get k).counter) hk
            simp only [sched, Prod.mk.injEq, get_set, hk, if_false] at h1
            rw [h1.2]; exact ht k' (by rw [← h1.1]; exact hr)
        · -- delayed: the flag is set and a task sleeps
          intro k' hr
          by_cases hk : k' = k
          · subst hk; simp [get_set]
          · simp only [get_set, hk, if_false] at hr ⊢
            exact ht k' hr

theorem reportFold_settled : ∀ (ks : List Key) (r : H × List Obs), Settled r.1 → Settled (ks.foldl reportOne r).1
  | [], _, h => h
  | k :: ks, r, h => by
    simp only [List.foldl_cons]
    exact reportFold_settled ks _ (reportOne_settled h k)

theorem get_default_of_not_any (h : H) (k : Key) (hn : h.per.any (·.1 = k) = false) : h.get k = {} := by
  unfold H.get
  have : h.per.find? (·.1 = k) = none := by
    apply List.find?_eq_none.mpr
    intro x hx hxk
    have : h.per.any (·.1 = k) = true := List.any_eq_true.mpr ⟨x, hx, by simpa using hxk⟩
    rw [hn] at this; cases this
  rw [this]; rfl

/-- **after a tick nothing counts as running** -/
theorem tick_clears_running {h : H} (hs : Settled h) (k : Key) : ((step h .tick).1.get k).running = false := by
  simp only [step]
  have hd := ss_deliver true ((fireTasks h.per h []).1.queue.length + 1) (fireTasks h.per h []).1 (fireTasks h.per h []).2 k
  simp only [sched, Prod.mk.injEq] at hd
  rw [hd.1]
  have hf := (fireTasks_sched k h.per h []).2
  cases hr : ((fireTasks h.per h []).1.get k).running with
  | false => rfl
  | true =>
    have h1 := hf hr
    have h2 := hs k h1.1
    by_cases hin : h.per.any (·.1 = k) = true
    · exact absurd (h1.2 hin) h2
    · have hdflt := get_default_of_not_any h k ((Bool.not_eq_true _).mp hin)
      rw [hdflt] at h1; cases h1.1

theorem settled_step {h : H} (hs : Settled h) (e : Ev) : Settled (step h e).1 := by
  cases e with
  | tick =>
    intro k hr
    rw [tick_clears_running hs k] at hr; cases hr
  | report ks => simp only [step]; exact reportFold_settled ks _ hs
  | start => simp only [step]; exact settled_ss hs (ss_of_get (fun _ => rfl))
  | setAuto b => simp only [step]; exact settled_ss hs (ss_of_get (fun _ => rfl))
  | shutdown => simp only [step]; exact settled_ss hs (ss_of_get (fun _ => rfl))
  | disconnect s => simp only [step]; exact hs
  | lookup s => simp only [step]; exact settled_ss hs (ss_touch h (Ski.normalize s))
  | settle => simp only [step]; exact settled_ss hs (ss_deliver false _ h [])
  | connUpdate k st err => simp only [step]; exact settled_ss hs (ss_connUpdateH h k st err)
  | connClosed k id e => simp only [step]; exact settled_ss hs (ss_connClosedH h k id e)
  | connected k id st =>
    simp only [step]
    refine settled_ss hs (SameSched.trans (ss_touch h k) ?_)
    apply ss_set <;> rfl
  | connSetState k st =>
    simp only [step]
    split
    · refine settled_ss hs ?_
      apply ss_set <;> rfl
    · exact hs
  | pairingDetail s =>
    simp only [step]
    split <;> exact settled_ss hs (ss_touch h (Ski.normalize s))
  | unregister s =>
    simp only [step]
    refine settled_ss hs ?_
    refine SameSched.trans ?_ (ss_untrust _ _)
    refine SameSched.trans (ss_touch h (Ski.normalize s)) ?_
    apply ss_set <;> rfl
  | cancel s =>
    simp only [step]
    refine settled_ss hs ?_
    refine SameSched.trans ?_ (ss_untrust _ _)
    refine SameSched.trans ?_ (ss_cancelConn _ _)
    refine SameSched.trans (ss_touch h (Ski.normalize s)) ?_
    apply ss_set <;> rfl
  | register s =>
    simp only [step]
    split
    · refine settled_ss hs (SameSched.trans (ss_touch h (Ski.normalize s)) ?_)
      apply ss_set <;> rfl
    · split
      · refine settled_ss hs (SameSched.trans (ss_touch h (Ski.normalize s)) ?_)
        apply ss_set <;> rfl
      · refine settled_ss hs ?_
        refine SameSched.trans ?_ (ss_notify _ _ false)
        refine SameSched.trans ?_ (ss_setDetailState _ _ _)
        refine SameSched.trans (ss_touch h (Ski.normalize s)) ?_
        apply ss_set <;> rfl

theorem settled_init : Settled ({} : H) := by
  intro k hr
  have : ({} : H).get k = {} := get_default_of_not_any _ k rfl
  rw [this] at hr; cases hr

theorem settled_run : ∀ (evs : List Ev) (h : H), Settled h → Settled (evs.foldl (fun h e => (step h e).1) h)
  | [], _, hs => hs
  | e :: es, h, hs => settled_run es _ (settled_step hs e)

/-- **C05 (dial coordination)**: after any history of hub events, a tick leaves no connection attempt counting as
    running - for every SKI. (The flag is what makes `coordinateConnectionInitations` ignore further mDNS reports.) -/
theorem C05_attempts_settle (evs : List Ev) (k : Key) :
    ((step (evs.foldl (fun h e => (step h e).1) {}) .tick).1.get k).running = false :=
  tick_clears_running (settled_run evs {} settled_init) k

end ShipVerif.Hub
