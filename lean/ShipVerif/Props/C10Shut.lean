/-
  C10 / C11 (Shutdown is final): after Shutdown has returned the hub holds no connection and gets none - whatever
  dials and accepts were under way when it was called.
-/
import ShipVerif.Model.Shut
import ShipVerif.Generated.ShutFacts

namespace ShipVerif.Shut

structure SInv (s : S) : Prop where
  noPassed : s.passed = []
  collFlag : s.collected.isSome = true → s.flag = true
  sub : ∀ l, s.collected = some l → s.done = false → ∀ d ∈ s.regs, d ∈ l
  fin : s.done = true → s.regs = [] ∧ s.flag = true

theorem sinv_init : SInv ({} : S) where
  noPassed := rfl
  collFlag := by intro h; cases h
  sub := by intro l h; cases h
  fin := by intro h; cases h

theorem mem_filter_ne {l : List Nat} {d x : Nat} (h : x ∈ l.filter (· != d)) : x ∈ l := (List.mem_filter.mp h).1

theorem sinv_step {s : S} (h : SInv s) (a : Act) : SInv (step Cfg.fixed s a) := by
  obtain ⟨h1, h2, h3, h4⟩ := h
  cases a with
  | dialStart =>
    simp only [step, Cfg.fixed, Bool.and_true]
    split
    · exact ⟨h1, h2, h3, h4⟩
    · exact ⟨h1, h2, h3, h4⟩
  | dialDone d =>
    simp only [step, Cfg.fixed, Bool.true_and]
    split
    · split
      · exact ⟨h1, h2, h3, h4⟩
      · next hf =>
        have hf' : s.flag = false := by simpa using hf
        refine ⟨h1, h2, ?_, ?_⟩
        · intro l hl _; have := h2 (by rw [hl]; rfl); rw [hf'] at this; cases this
        · intro hd; have := (h4 hd).2; rw [hf'] at this; cases this
    · exact ⟨h1, h2, h3, h4⟩
  | dialCheck d =>
    have : step Cfg.fixed s (.dialCheck d) = s := by simp [step, Cfg.fixed]
    rw [this]; exact ⟨h1, h2, h3, h4⟩
  | dialRegister d =>
    have : step Cfg.fixed s (.dialRegister d) = s := by simp [step, h1]
    rw [this]; exact ⟨h1, h2, h3, h4⟩
  | mark =>
    refine ⟨h1, fun _ => rfl, h3, ?_⟩
    intro hd; exact ⟨(h4 hd).1, rfl⟩
  | collect =>
    simp only [step]
    split
    · next hc =>
      simp only [Bool.and_eq_true] at hc
      refine ⟨h1, fun _ => hc.1, ?_, h4⟩
      intro l hl _ d hd
      simp only [Option.some.injEq] at hl
      rw [← hl]; exact hd
    · exact ⟨h1, h2, h3, h4⟩
  | close =>
    simp only [step]
    split
    · next l hl =>
      split
      · exact ⟨h1, h2, h3, h4⟩
      · next hd =>
        have hd' : s.done = false := by simpa using hd
        refine ⟨h1, h2, ?_, ?_⟩
        · intro l' _ hx; cases hx
        · intro _
          refine ⟨?_, h2 (by rw [hl]; rfl)⟩
          apply List.filter_eq_nil_iff.mpr
          intro d hdm
          have := h3 l hl hd' d hdm
          simp [this]
    · exact ⟨h1, h2, h3, h4⟩
  | connClosed d =>
    refine ⟨h1, h2, ?_, ?_⟩
    · intro l hl hdn x hx; exact h3 l hl hdn x (mem_filter_ne hx)
    · intro hd
      have := h4 hd
      refine ⟨?_, this.2⟩
      show s.regs.filter (· != d) = []
      rw [this.1]; rfl

theorem sinv_run (acts : List Act) : SInv (run Cfg.fixed acts) := by
  unfold run
  suffices ∀ s, SInv s → SInv (acts.foldl (step Cfg.fixed) s) from this _ sinv_init
  induction acts with
  | nil => intro s h; exact h
  | cons a rest ih => intro s h; exact ih _ (sinv_step h a)

theorem late_step (s : S) (a : Act) : (step Cfg.fixed s a).lateStarts = s.lateStarts := by
  cases a <;> simp only [step, Cfg.fixed, Bool.and_true, Bool.true_and]
  all_goals (repeat' split) <;> (try rfl) <;> simp_all

theorem late_run (acts : List Act) : (run Cfg.fixed acts).lateStarts = 0 := by
  unfold run
  suffices ∀ s, s.lateStarts = 0 → (acts.foldl (step Cfg.fixed) s).lateStarts = 0 from this _ rfl
  induction acts with
  | nil => intro s h; exact h
  | cons a rest ih => intro s h; exact ih _ (by rw [late_step]; exact h)

theorem shutCfg_is_fixed : Generated.shutCfg = Cfg.fixed := by decide

/-- **Shutdown is final (all schedules)**: once Shutdown has returned, no connection is registered - whatever dials and
    accepts were under way when it was called and whenever they finish - and none is registered later. -/
theorem C10_shutdown_final (acts : List Act) :
    (run Generated.shutCfg acts).done = true → (run Generated.shutCfg acts).regs = [] := by
  rw [shutCfg_is_fixed]; intro h; exact ((sinv_run acts).fin h).1

/-- **no connection attempt begins after Shutdown** (every address of an mDNS entry is a new attempt) -/
theorem C10_no_attempt_after_shutdown (acts : List Act) : (run Generated.shutCfg acts).lateStarts = 0 := by
  rw [shutCfg_is_fixed]; exact late_run acts

/-- without the look at the flag when an attempt begins, the next address is tried after Shutdown -/
theorem C10_unguarded_attempt_after_shutdown :
    (run { Cfg.fixed with guardAtStart := false } [.dialStart, .mark, .dialStart]).lateStarts = 1 := by decide

/-- the pinned design: a dial that finishes after Shutdown registers its connection -/
theorem C10_pinned_dial_survives_shutdown :
    let s := run Cfg.pinned [.dialStart, .mark, .collect, .close, .dialCheck 0, .dialRegister 0]
    s.done = true ∧ s.regs = [0] := by decide

/-- a check of the flag alone does not help when a Shutdown can come between the check and the registration -/
theorem C10_recheck_without_exclusion_shutdown :
    let s := run { recheck := true, exclusive := false, guardAtStart := true } [.dialStart, .dialCheck 0, .mark, .collect, .close, .dialRegister 0]
    s.done = true ∧ s.regs = [0] := by decide

/-- non-vacuity: a connection registered before Shutdown is closed by it; without Shutdown it stays -/
example : (run Cfg.fixed [.dialStart, .dialDone 0, .mark, .collect, .close]).regs = [] ∧
    (run Cfg.fixed [.dialStart, .dialDone 0, .mark, .collect, .close]).done = true := by decide
example : (run Cfg.fixed [.dialStart, .dialDone 0]).regs = [0] := by decide

end ShipVerif.Shut
