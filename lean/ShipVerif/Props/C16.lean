/-
  C16 — what a service announces via mDNS is what a ship-go browser reads back; QR text is unambiguous.
  All statements are for arbitrary byte strings (UTF-8 or not), any length, any category list.
-/
import ShipVerif.Model.Mdns

namespace ShipVerif.Mdns
open ShipVerif.Ski (Str strBytes)

/-! ### shortening -/

theorem cutAt_length (s : Str) : ∀ k, (cutAt s k).length ≤ k
  | 0 => by simp [cutAt]
  | k + 1 => by
    unfold cutAt
    split
    · simp [List.length_take]; omega
    · have := cutAt_length s k; omega

/-- **C16**: announced descriptive fields stay within the limit -/
theorem shorten_length (s : Str) (n : Nat) : (shorten s n).length ≤ n := by
  unfold shorten
  split
  · assumption
  · exact cutAt_length s n

theorem isStart_of_not_cont {b : Nat} (h : isCont b = true) : isStart b = false := by simp [isStart, h]

/-- a valid string cut at a rune start (or at its end) is valid (`n` bounds the length) -/
theorem valid_take_aux : ∀ (n : Nat) (s : Str) (k : Nat), s.length ≤ n → valid s = true →
    (s.length ≤ k ∨ isStart (s.getD k 0) = true) → valid (s.take k) = true
  | _, [], k, _, _, _ => by simp [valid]
  | _, b :: rest, 0, _, _, _ => by simp [valid]
  | 0, b :: rest, k + 1, hl, _, _ => by simp at hl
  | n + 1, b :: rest, k + 1, hl, hv, hk => by
    unfold valid at hv
    have hl' : rest.length ≤ n := by simp at hl; omega
    have hk' : rest.length ≤ k ∨ isStart (rest.getD k 0) = true := by
      rcases hk with h | h
      · left; simp at h; omega
      · right; simpa using h
    by_cases h1 : b < 128
    · simp only [h1, if_true] at hv
      have ih := valid_take_aux n rest k hl' hv hk'
      simp only [List.take_succ_cons]
      unfold valid
      simp [h1, ih]
    · simp only [h1, if_false] at hv
      by_cases h2 : (194 ≤ b && b ≤ 223) = true
      · simp only [h2, if_true] at hv
        match rest, hv, hk, hk', hl' with
        | [], hv, _, _, _ => simp at hv
        | c1 :: r, hv, hk, hk', hl' =>
          simp only [Bool.and_eq_true] at hv
          match k, hk, hk' with
          | 0, hk, _ =>
            rcases hk with h | h
            · simp at h
            · simp [isStart_of_not_cont hv.1] at h
          | k + 1, _, hk' =>
            have hk2 : r.length ≤ k ∨ isStart (r.getD k 0) = true := by
              rcases hk' with h | h
              · left; simp at h; omega
              · right; simpa using h
            have ih := valid_take_aux n r k (by simp at hl'; omega) hv.2 hk2
            simp only [List.take_succ_cons]
            unfold valid
            simp [h1, h2, hv.1, ih]
      · simp only [h2, Bool.false_eq_true, if_false] at hv
        by_cases h3 : (224 ≤ b && b ≤ 239) = true
        · simp only [h3, if_true] at hv
          match rest, hv, hk, hk', hl' with
          | c1 :: c2 :: r, hv, hk, hk', hl' =>
            simp only [Bool.and_eq_true] at hv
            obtain ⟨⟨⟨⟨hc1, hc2⟩, ha⟩, hb⟩, hr⟩ := hv
            match k, hk, hk' with
            | 0, hk, _ =>
              rcases hk with h | h
              · simp at h
              · simp [isStart_of_not_cont hc1] at h
            | 1, hk, _ =>
              rcases hk with h | h
              · simp at h
              · simp [isStart_of_not_cont hc2] at h
            | k + 2, _, hk' =>
              have hk3 : r.length ≤ k ∨ isStart (r.getD k 0) = true := by
                rcases hk' with h | h
                · left; simp at h; omega
                · right; simpa using h
              have ih := valid_take_aux n r k (by simp at hl'; omega) hr hk3
              simp only [List.take_succ_cons]
              unfold valid
              simp [h1, h2, h3, hc1, hc2, ha, hb, ih]
          | [], hv, _, _, _ => simp at hv
          | [_], hv, _, _, _ => simp at hv
        · simp only [h3, Bool.false_eq_true, if_false] at hv
          by_cases h4 : (240 ≤ b && b ≤ 244) = true
          · simp only [h4, if_true] at hv
            match rest, hv, hk, hk', hl' with
            | c1 :: c2 :: c3 :: r, hv, hk, hk', hl' =>
              simp only [Bool.and_eq_true] at hv
              obtain ⟨⟨⟨⟨⟨hc1, hc2⟩, hc3⟩, ha⟩, hb⟩, hr⟩ := hv
              match k, hk, hk' with
              | 0, hk, _ =>
                rcases hk with h | h
                · simp at h
                · simp [isStart_of_not_cont hc1] at h
              | 1, hk, _ =>
                rcases hk with h | h
                · simp at h
                · simp [isStart_of_not_cont hc2] at h
              | 2, hk, _ =>
                rcases hk with h | h
                · simp at h
                · simp [isStart_of_not_cont hc3] at h
              | k + 3, _, hk' =>
                have hk4 : r.length ≤ k ∨ isStart (r.getD k 0) = true := by
                  rcases hk' with h | h
                  · left; simp at h; omega
                  · right; simpa using h
                have ih := valid_take_aux n r k (by simp at hl'; omega) hr hk4
                simp only [List.take_succ_cons]
                unfold valid
                simp [h1, h2, h3, h4, hc1, hc2, hc3, ha, hb, ih]
            | [], hv, _, _, _ => simp at hv
            | [_], hv, _, _, _ => simp at hv
            | [_, _], hv, _, _, _ => simp at hv
          · simp [h4] at hv

theorem valid_take (s : Str) (k : Nat) (hv : valid s = true)
    (hk : s.length ≤ k ∨ isStart (s.getD k 0) = true) : valid (s.take k) = true :=
  valid_take_aux s.length s k (Nat.le_refl _) hv hk

theorem cutAt_valid (s : Str) (hv : valid s = true) : ∀ k, valid (cutAt s k) = true
  | 0 => by simp [cutAt, valid]
  | k + 1 => by
    unfold cutAt
    split
    · next h => exact valid_take s (k + 1) hv (Or.inr h)
    · exact cutAt_valid s hv k

/-- **C16**: shortening keeps valid UTF-8 valid -/
theorem shorten_valid (s : Str) (n : Nat) (hv : valid s = true) : valid (shorten s n) = true := by
  unfold shorten
  split
  · exact hv
  · exact cutAt_valid s hv n

/-! ### splitting lemmas -/

theorem splitOn_ne_nil (sep : Nat) : ∀ s, splitOn sep s ≠ []
  | [] => by simp [splitOn]
  | c :: cs => by
    unfold splitOn
    split
    · simp
    · split <;> simp

theorem splitOn_block (sep : Nat) : ∀ (a rest : Str), sep ∉ a →
    splitOn sep (a ++ sep :: rest) = a :: splitOn sep rest
  | [], rest, _ => by simp [splitOn]
  | c :: cs, rest, h => by
    have hc : c ≠ sep := fun e => h (by simp [e])
    have ih := splitOn_block sep cs rest (fun hm => h (by simp [hm]))
    simp only [List.cons_append, splitOn, hc, if_false, ih]

theorem splitOn_last (sep : Nat) : ∀ (a : Str), sep ∉ a → splitOn sep a = [a]
  | [], _ => by simp [splitOn]
  | c :: cs, h => by
    have hc : c ≠ sep := fun e => h (by simp [e])
    have ih := splitOn_last sep cs (fun hm => h (by simp [hm]))
    simp only [splitOn, hc, if_false, ih]

theorem cut1_block (sep : Nat) : ∀ (k v : Str), sep ∉ k → cut1 sep (k ++ sep :: v) = some (k, v)
  | [], v, _ => by simp [cut1]
  | c :: cs, v, h => by
    have hc : c ≠ sep := fun e => h (by simp [e])
    have ih := cut1_block sep cs v (fun hm => h (by simp [hm]))
    simp only [List.cons_append, cut1, hc, if_false, ih, Option.map_some]

theorem splitOn_join (sep : Nat) : ∀ (xs : List Str), xs ≠ [] → (∀ x ∈ xs, sep ∉ x) →
    splitOn sep (join sep xs) = xs
  | [], h, _ => absurd rfl h
  | [x], _, h => by simp only [join]; exact splitOn_last sep x (h x (by simp))
  | x :: y :: rest, _, h => by
    simp only [join]
    rw [splitOn_block sep x _ (h x (by simp)), splitOn_join sep (y :: rest) (by simp) (fun z hz => h z (by simp [hz]))]

/-! ### TXT round trip -/

theorem cut1_kv (k : String) (v : Str) (h : EQ ∉ strBytes k) : cut1 EQ (kv k v) = some (strBytes k, v) :=
  cut1_block EQ _ v h

theorem digits_no_comma {s : Str} (h : isDigits s = true) : COMMA ∉ s := by
  simp only [isDigits, Bool.and_eq_true, List.all_eq_true] at h
  intro hm
  have := h.2 _ hm
  simp [COMMA] at this

/-- the entry a ship-go browser builds from the TXT record announced for `c` -/
def expected (c : Cfg) : Entry :=
  { ski := c.ski, id := c.id, path := strBytes "/ship/", register := c.auto,
    brand := shorten c.brand 32, typ := shorten c.typ 32, model := shorten c.model 32,
    serial := shorten c.serial 32, cats := c.cats }

/-- **C16 (TXT round trip)**: for every configuration — any byte strings for SKI, identifier and the
    descriptive fields (with `=`, `;`, `:` or anything else), any list of decimal categories, both
    auto-accept values — parsing the announced TXT record yields the announced data; the service is
    ignored only by itself. -/
theorem C16_txt_roundtrip (c : Cfg) (localSki : Str) (hl : c.ski ≠ localSki)
    (hc : ∀ x ∈ c.cats, isDigits x = true) :
    entryOf localSki (txtOf c) = some (expected c) := by
  have e1 : EQ ∉ strBytes "txtvers" := by decide
  have e2 : EQ ∉ strBytes "path" := by decide
  have e3 : EQ ∉ strBytes "id" := by decide
  have e4 : EQ ∉ strBytes "ski" := by decide
  have e5 : EQ ∉ strBytes "brand" := by decide
  have e6 : EQ ∉ strBytes "model" := by decide
  have e7 : EQ ∉ strBytes "type" := by decide
  have e8 : EQ ∉ strBytes "register" := by decide
  have e9 : EQ ∉ strBytes "serial" := by decide
  have e10 : EQ ∉ strBytes "cat" := by decide
  have ht : strBytes "true" ≠ strBytes "false" := by decide
  have hcats : c.cats.isEmpty = true → c.cats = [] := by intro h; simpa using h
  have hsplit : c.cats.isEmpty = false → (splitOn COMMA (join COMMA c.cats)).filter isDigits = c.cats := by
    intro hne
    have hne' : c.cats ≠ [] := by intro h; simp [h] at hne
    rw [splitOn_join COMMA c.cats hne' (fun x hx => digits_no_comma (hc x hx))]
    exact List.filter_eq_self.2 hc
  have hser : (shorten c.serial 32).isEmpty = true → shorten c.serial 32 = [] := by intro h; simpa using h
  cases hs : (shorten c.serial 32).isEmpty <;> cases hcat : c.cats.isEmpty <;> cases ha : c.auto <;>
    simp only [txtOf, hs, hcat, ha, if_true, Bool.false_eq_true, if_false, List.cons_append, List.nil_append,
      List.append_nil] <;>
    simp only [entryOf, lookup, List.filterMap_cons, List.filterMap_nil, cut1_kv, e1, e2, e3, e4, e5, e6, e7, e8, e9,
      e10, not_false_eq_true] <;>
    simp (config := { decide := true }) [List.find?, hl, expected, ha, hsplit, hcats, hser, hs, hcat]

/-! ### QR code text -/

theorem strip_no_semi (s : Str) : SEMI ∉ strip s := by
  simp [strip]

theorem splitOn_fields : ∀ (ps : List (Str × Str)) (tail : Str),
    (∀ p ∈ ps, SEMI ∉ p.1 ∧ SEMI ∉ p.2) →
    splitOn SEMI (ps.flatMap (fun p => p.1 ++ COLON :: (p.2 ++ [SEMI])) ++ tail) =
      ps.map (fun p => p.1 ++ COLON :: p.2) ++ splitOn SEMI tail
  | [], tail, _ => by simp
  | p :: ps, tail, h => by
    have hp := h p (by simp)
    have hns : SEMI ∉ p.1 ++ COLON :: p.2 := by
      simp only [List.mem_append, List.mem_cons]
      rintro (h1 | h1 | h1)
      · exact hp.1 h1
      · simp [SEMI, COLON] at h1
      · exact hp.2 h1
    have ih := splitOn_fields ps tail (fun q hq => h q (by simp [hq]))
    have e : (p :: ps).flatMap (fun p => p.1 ++ COLON :: (p.2 ++ [SEMI])) ++ tail =
        (p.1 ++ COLON :: p.2) ++ SEMI :: (ps.flatMap (fun p => p.1 ++ COLON :: (p.2 ++ [SEMI])) ++ tail) := by
      simp [List.flatMap_cons, List.append_assoc]
    rw [e, splitOn_block SEMI _ _ hns, ih]
    simp

/-- **C16 (QR text unambiguous)**: any list of fields whose keys contain neither `;` nor `:`, are not
    the terminator and whose values contain no `;` is recovered exactly by the reference parser. -/
theorem qrParse_render (ps : List (Str × Str))
    (h : ∀ p ∈ ps, SEMI ∉ p.1 ∧ COLON ∉ p.1 ∧ SEMI ∉ p.2) :
    qrParse (qrRender ps) = some ps := by
  have hship : SEMI ∉ strBytes "SHIP" := by decide
  have hend : SEMI ∉ strBytes "ENDSHIP" := by decide
  have e0 : strBytes "SHIP;" = strBytes "SHIP" ++ SEMI :: [] := by decide
  have e1 : strBytes "ENDSHIP;" = strBytes "ENDSHIP" ++ SEMI :: [] := by decide
  unfold qrParse qrRender
  rw [e0, List.append_assoc, List.cons_append, List.nil_append, splitOn_block SEMI _ _ hship,
    splitOn_fields ps _ (fun p hp => ⟨(h p hp).1, (h p hp).2.2⟩), e1, splitOn_block SEMI _ _ hend]
  simp only [splitOn, ne_eq, not_true_eq_false, if_false]
  -- every field contains a colon, the terminator does not
  have hne : ∀ p ∈ ps, (p.1 ++ COLON :: p.2) ≠ strBytes "ENDSHIP" := by
    intro p _ he
    have : COLON ∈ strBytes "ENDSHIP" := by rw [← he]; simp
    revert this; decide
  have htw : List.takeWhile (fun x => decide (x ≠ strBytes "ENDSHIP"))
      (ps.map (fun p => p.1 ++ COLON :: p.2) ++ [strBytes "ENDSHIP", []]) = ps.map (fun p => p.1 ++ COLON :: p.2) := by
    induction ps with
    | nil => simp [List.takeWhile]
    | cons p ps ih =>
      have := hne p (by simp)
      simp only [List.map_cons, List.cons_append, List.takeWhile, this, ne_eq, not_false_eq_true, decide_true]
      rw [ih (fun q hq => h q (by simp [hq])) (fun q hq => hne q (by simp [hq]))]
  have hlen : ¬ (ps.map (fun p => p.1 ++ COLON :: p.2)).length =
      (ps.map (fun p => p.1 ++ COLON :: p.2) ++ [strBytes "ENDSHIP", []]).length := by simp
  simp only [ne_eq] at htw
  simp only [htw, hlen, if_false]
  -- each field splits at its first colon
  have hmap : ∀ (qs : List (Str × Str)), (∀ p ∈ qs, COLON ∉ p.1) →
      (qs.map (fun p => p.1 ++ COLON :: p.2)).mapM (cut1 COLON) = some qs := by
    intro qs hq
    induction qs with
    | nil => rfl
    | cons p qs ih =>
      simp only [List.map_cons, List.mapM_cons, cut1_block COLON p.1 p.2 (hq p (by simp)),
        ih (fun q hq' => hq q (by simp [hq']))]
      rfl
  exact hmap ps (fun p hp => (h p hp).2.1)

theorem qrPairs_ok (c : Cfg) : ∀ p ∈ qrPairs c, SEMI ∉ p.1 ∧ COLON ∉ p.1 ∧ SEMI ∉ p.2 := by
  have k1 : SEMI ∉ strBytes "SKI" ∧ COLON ∉ strBytes "SKI" := by decide
  have k2 : SEMI ∉ strBytes "ID" ∧ COLON ∉ strBytes "ID" := by decide
  have k3 : SEMI ∉ strBytes "BRAND" ∧ COLON ∉ strBytes "BRAND" := by decide
  have k4 : SEMI ∉ strBytes "TYPE" ∧ COLON ∉ strBytes "TYPE" := by decide
  have k5 : SEMI ∉ strBytes "MODEL" ∧ COLON ∉ strBytes "MODEL" := by decide
  have k6 : SEMI ∉ strBytes "SERIAL" ∧ COLON ∉ strBytes "SERIAL" := by decide
  have k7 : SEMI ∉ strBytes "CAT" ∧ COLON ∉ strBytes "CAT" := by decide
  intro p hp
  simp only [qrPairs, qrOpt, List.mem_append, List.mem_cons, List.mem_nil_iff, or_false] at hp
  rcases hp with ((((((hp | hp) | hp) | hp) | hp) | hp) | hp)
  · subst hp; exact ⟨k1.1, k1.2, strip_no_semi _⟩
  · subst hp; exact ⟨k2.1, k2.2, strip_no_semi _⟩
  all_goals
    split at hp
    · simp at hp
    · simp only [List.mem_cons, List.mem_nil_iff, or_false] at hp
      subst hp
      first
        | exact ⟨k3.1, k3.2, strip_no_semi _⟩
        | exact ⟨k4.1, k4.2, strip_no_semi _⟩
        | exact ⟨k5.1, k5.2, strip_no_semi _⟩
        | exact ⟨k6.1, k6.2, strip_no_semi _⟩
        | exact ⟨k7.1, k7.2, strip_no_semi _⟩

/-- **C16 (QR)**: the QR text of every configuration parses back into exactly its fields, values with
    `;` removed: SKI and ID always, the optional fields when non-empty. -/
theorem C16_qr_unambiguous (c : Cfg) : qrParse (qrText c) = some (qrPairs c) :=
  qrParse_render (qrPairs c) (qrPairs_ok c)

/-- non-vacuity / regression witnesses of the repaired defects -/
example : shorten (strBytes "0123456789012345678901234567890" ++ [195, 164]) 32 = strBytes "0123456789012345678901234567890" := by decide +kernel +kernel
example : valid (strBytes "0123456789012345678901234567890" ++ [195]) = false := by decide +kernel
example : lookup [kv "model" (strBytes "mo=del")] "model" = some (strBytes "mo=del") := by decide +kernel
example : qrParse (qrText (Cfg.mk (strBytes "ab") (strBytes "id;BRAND:evil") [] [] [] [] [] false)) =
    some [(strBytes "SKI", strBytes "ab"), (strBytes "ID", strBytes "idBRAND:evil")] := by decide +kernel

end ShipVerif.Mdns
