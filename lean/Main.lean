import Driver.Reach
import Driver.Conn
import Driver.Json
import Driver.Txt
import Driver.Accept
import Driver.View
import Driver.Avahi
import Driver.Hub
import Driver.Pair

def main (args : List String) : IO UInt32 := do
  match args with
  | "reach" :: rest => Driver.reachMain rest
  | "pairx" :: rest => Driver.Pair.xMain rest
  | ["pair"] => Driver.Pair.pairMain
  | "pairgen" :: rest => Driver.Pair.genMain rest
  | "pairtrace" :: rest => Driver.Pair.traceMain rest
  | ["hub"] => Driver.Hub.hubMain
  | ["avahi"] => Driver.Avahi.avahiMain
  | ["view"] => Driver.View.viewMain
  | ["accept"] => Driver.Accept.acceptMain
  | ["txtqr"] => Driver.Txt.txtMain
  | ["json"] => Driver.Json.jsonMain
  | ["conn"] => Driver.Conn.connMain
  | ["connpred"] => Driver.Conn.predMain
  | ["reachsum"] => do Driver.reachSummary; return 0
  | _ =>
    IO.eprintln "usage: shipdrv <engine> [args]"
    return 2
