/-
  Line protocol for the hub engine (C10, C11, C15, C18).  One event per line, SKIs as hex; after every
  event except `tick` the due notifications are delivered (`settle`).
  Output: `<other observations, sorted> ; <pairing notifications in delivery order> | <per-SKI snapshot>`
-/
import ShipVerif.Model.Hub
import Driver.Txt

open ShipVerif.Hub ShipVerif.Ski

namespace Driver.Hub

def hx (s : Str) : String := Driver.Txt.tohex s
def uh (s : String) : Str := Driver.Txt.unhexS s
def b01 (b : Bool) : String := if b then "1" else "0"

def obsStr : Obs → String
  | .approve id => s!"approve:{id}"
  | .abort id => s!"abort:{id}"
  | .close id safe code => s!"close:{id}:{b01 safe}:{code}"
  | .query id => s!"query:{id}"
  | .pairing k st e => s!"pairing:{hx k}:{st}{if e then "e" else ""}"
  | .disconnected k => s!"disc:{hx k}"
  | .dial k => s!"dial:{hx k}"
  | .mdnsRequest => "mreq"
  | .mdnsAnnounce => "mann"
  | .mdnsSetAuto b => s!"mauto:{b01 b}"
  | .mdnsShutdown => "mshut"
  | .visible n => s!"visible:{n}"
  | .detail st e => s!"detail:{st}{if e then "e" else ""}"
  | .service k t => s!"service:{hx k}:{b01 t}"

def isPairing : Obs → Bool | .pairing _ _ _ => true | _ => false

def snapStr (h : H) : String :=
  let interesting := h.per.filter fun (k, p) =>
    let d := h.detail k
    p.trusted || d.1 != 0 || d.2 || p.conn.isSome || p.counter.isSome || p.running
  let rows := interesting.map fun (k, p) =>
    let d := h.detail k
    s!"{hx k}:t={b01 p.trusted},d={d.1}{if d.2 then "e" else ""},c={match p.conn with | some c => toString c.id | none => "-"},n={match p.counter with | some c => toString c | none => "-"},r={b01 p.running}"
  String.intercalate " " (rows.toArray.qsort (· < ·)).toList

def outLine (h : H) (obs : List Obs) : String :=
  let others := ((obs.filter (!isPairing ·)).map obsStr).toArray.qsort (· < ·)
  let pairs := (obs.filter isPairing).map obsStr
  String.intercalate " " others.toList ++ " ; " ++ String.intercalate " " pairs ++ " | " ++ snapStr h

def parseEv (toks : List String) : Option Ev :=
  let n (s : String) : Nat := s.toNat?.getD 0
  match toks with
  | ["start"] => some .start
  | ["register", s] => some (.register (uh s))
  | ["unregister", s] => some (.unregister (uh s))
  | ["cancel", s] => some (.cancel (uh s))
  | ["disconnect", s] => some (.disconnect (uh s))
  | ["pairingdetail", s] => some (.pairingDetail (uh s))
  | ["lookup", s] => some (.lookup (uh s))
  | ["setauto", b] => some (.setAuto (b == "1"))
  | ["shutdown"] => some .shutdown
  | ["report", ks] => some (.report (if ks == "-" then [] else (ks.splitOn ",").map uh))
  | ["tick"] => some .tick
  | ["connected", k, id, st] => some (.connected (uh k) (n id) (n st))
  | ["connupdate", k, st, e] => some (.connUpdate (uh k) (n st) (e == "1"))
  | ["connstate", k, st] => some (.connSetState (uh k) (n st))
  | ["connclosed", k, id, e] => some (.connClosed (uh k) (n id) (e == "1"))
  | _ => none

partial def loop (h : IO.FS.Stream) (out : IO.FS.Stream) (s : H) : IO Unit := do
  let line ← h.getLine
  if line.isEmpty then return ()
  let toks := (line.trimAscii.toString.splitOn " ").filter (· ≠ "")
  match toks with
  | ["new"] => out.putStrLn "new"; loop h out {}
  | _ =>
    match toks with
    | ["burst", k, parts] =>
      let ups := (parts.splitOn ",").map fun p =>
        match p.splitOn ":" with
        | [st, e] => Ev.connUpdate (uh k) (st.toNat?.getD 0) (e == "1")
        | _ => Ev.connUpdate (uh k) 0 false
      let r := ups.foldl (fun (r : H × List Obs) e => ((step r.1 e).1, r.2 ++ (step r.1 e).2)) (s, [])
      let r2 := step r.1 .settle
      out.putStrLn (outLine r2.1 (r.2 ++ r2.2))
      loop h out r2.1
    | ["cancelrace", raw, k, st, e] =>
      -- the connection reports a state (hello-ok; error) while CancelPairingWithSKI is under way: the update, then the cancel
      let r1 := step s (.connUpdate (uh k) (st.toNat?.getD 0) (e == "1"))
      let r := step r1.1 (.cancel (uh raw))
      let r2 := step r.1 .settle
      out.putStrLn (outLine r2.1 (r1.2 ++ r.2 ++ r2.2))
      loop h out r2.1
    | _ =>
    match parseEv toks with
    | some e =>
      let r := step s e
      let r2 := if e == .tick then (r.1, ([] : List Obs)) else step r.1 .settle
      out.putStrLn (outLine r2.1 (r.2 ++ r2.2))
      loop h out r2.1
    | none => out.putStrLn "bad-op"; loop h out s

def hubMain : IO UInt32 := do
  loop (← IO.getStdin) (← IO.getStdout) {}
  return 0

end Driver.Hub
