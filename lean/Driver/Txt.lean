/-
  Line protocol for the TXT/QR engine (C16).
    input : `cfg ski=<hex> id=<hex> brand=<hex> model=<hex> type=<hex> serial=<hex> cats=<d,d,..|-> auto=0|1 local=<hex>`
            `qrparse <hex>`     (reference parse of a QR text produced by the implementation)
    output: `txt=<hex,..> entry=<fields|none> qr=<hex> short=<brand,model,type,serial hex> valid=<bits>`
-/
import ShipVerif.Model.Mdns
import Driver.Conn

open ShipVerif.Mdns ShipVerif.Ski

namespace Driver.Txt

def hexVal (c : Char) : Nat :=
  if '0' ≤ c && c ≤ '9' then c.toNat - '0'.toNat
  else if 'a' ≤ c && c ≤ 'f' then c.toNat - 'a'.toNat + 10 else 0

partial def unhex (cs : List Char) : Str :=
  match cs with
  | a :: b :: r => (hexVal a * 16 + hexVal b) :: unhex r
  | _ => []

def unhexS (s : String) : Str := if s == "-" then [] else unhex s.toList

def hexDigit (n : Nat) : Char := if n < 10 then Char.ofNat (n + 48) else Char.ofNat (n + 87)
def tohex (bs : Str) : String :=
  if bs.isEmpty then "-" else String.ofList (bs.flatMap fun b => [hexDigit (b / 16 % 16), hexDigit (b % 16)])

def entryStr (e : Option Entry) : String :=
  match e with
  | none => "none"
  | some e => String.intercalate "|" [tohex e.ski, tohex e.id, tohex e.path, (if e.register then "1" else "0"),
      tohex e.brand, tohex e.typ, tohex e.model, tohex e.serial, String.intercalate "," (e.cats.map tohex)]

def pairsStr (ps : Option (List (Str × Str))) : String :=
  match ps with
  | none => "none"
  | some ps => String.intercalate "," (ps.map fun p => tohex p.1 ++ ":" ++ tohex p.2)

partial def loop (h : IO.FS.Stream) (out : IO.FS.Stream) : IO Unit := do
  let line ← h.getLine
  if line.isEmpty then return ()
  let toks := (line.trimAscii.toString.splitOn " ").filter (· ≠ "")
  let kvD (t : List String) (k : String) (d : String := "") : String := Driver.Conn.kvD t k d
  match toks with
  | "cfg" :: rest =>
    let cats := if kvD rest "cats" "-" == "-" then [] else ((kvD rest "cats").splitOn ",").map fun d => strBytes d
    let c : Cfg := { ski := unhexS (kvD rest "ski" "-"), id := unhexS (kvD rest "id" "-"), brand := unhexS (kvD rest "brand" "-"),
                     model := unhexS (kvD rest "model" "-"), typ := unhexS (kvD rest "type" "-"),
                     serial := unhexS (kvD rest "serial" "-"), cats := cats, auto := kvD rest "auto" == "1" }
    let localSki := unhexS (kvD rest "local" "-")
    let txt := txtOf c
    let sh := [shorten c.brand 32, shorten c.model 32, shorten c.typ 32, shorten c.serial 32]
    let vb := String.ofList ([c.brand, c.model, c.typ, c.serial].map fun s => if valid s then '1' else '0')
    let va := String.ofList (sh.map fun s => if valid s then '1' else '0')
    out.putStrLn s!"txt={String.intercalate "," (txt.map tohex)} entry={entryStr (entryOf localSki txt)} qr={tohex (qrText c)} pairs={pairsStr (some (qrPairs c))} short={String.intercalate "," (sh.map tohex)} validin={vb} validout={va}"
  | ["qrparse", hx] => out.putStrLn s!"pairs={pairsStr (qrParse (unhexS hx))}"
  | ["parsetxt", items, localHex] =>
    let txt := (items.splitOn ",").map unhexS
    out.putStrLn s!"entry={entryStr (entryOf (unhexS localHex) txt)}"
  | _ => out.putStrLn "bad-op"
  loop h out

def txtMain : IO UInt32 := do
  loop (← IO.getStdin) (← IO.getStdout)
  return 0

end Driver.Txt
