/-
  Line protocol for the JSON engine (C07).
    input : one document per line in prefix form:  T<hex> | A value* . | O (K<hex> value)* .
    output: `<good> <hex intoEEBUS> <hex fromEEBUS∘intoEEBUS> <hex serialize>`
  Bytes are carried as characters 0–255.
-/
import ShipVerif.Proofs.JsonLemmas

open ShipVerif.Json

namespace Driver.Json

def hexVal (c : Char) : Nat :=
  if '0' ≤ c && c ≤ '9' then c.toNat - '0'.toNat
  else if 'a' ≤ c && c ≤ 'f' then c.toNat - 'a'.toNat + 10 else 0

partial def unhex (cs : List Char) : List Char :=
  match cs with
  | a :: b :: r => Char.ofNat (hexVal a * 16 + hexVal b) :: unhex r
  | _ => []

def hexDigit (n : Nat) : Char := if n < 10 then Char.ofNat (n + 48) else Char.ofNat (n + 87)
def tohex (cs : List Char) : String :=
  if cs.isEmpty then "-" else String.ofList (cs.flatMap fun c => [hexDigit (c.toNat / 16 % 16), hexDigit (c.toNat % 16)])

mutual
partial def parseVal (toks : List String) : Option (J × List String) :=
  match toks with
  | [] => none
  | t :: rest =>
    if t == "A" then (parseElems rest).map fun (xs, r) => (J.arr xs, r)
    else if t == "O" then (parseMems rest).map fun (ms, r) => (J.obj ms, r)
    else if t.startsWith "T" then some (J.atom (unhex (t.drop 1).toString.toList), rest)
    else none
partial def parseElems (toks : List String) : Option (Js × List String) :=
  match toks with
  | "." :: rest => some (Js.nil, rest)
  | _ => match parseVal toks with
    | some (x, r) => (parseElems r).map fun (xs, r2) => (Js.cons x xs, r2)
    | none => none
partial def parseMems (toks : List String) : Option (Ms × List String) :=
  match toks with
  | "." :: rest => some (Ms.nil, rest)
  | k :: rest =>
    if k.startsWith "K" then
      match parseVal rest with
      | some (v, r) => (parseMems r).map fun (ms, r2) => (Ms.cons (unhex (k.drop 1).toString.toList) v ms, r2)
      | none => none
    else none
  | [] => none
end

/-- the guard of C07_roundtrip_partial for a whole document -/
def docGood : J → Bool
  | .obj (.cons k v ms) => goodm (.cons k v ms)
  | _ => false

partial def loop (h : IO.FS.Stream) (out : IO.FS.Stream) : IO Unit := do
  let line ← h.getLine
  if line.isEmpty then return ()
  let toks := (line.trimAscii.toString.splitOn " ").filter (· ≠ "")
  match parseVal toks with
  | some (j, []) =>
    let w := intoEEBUS j
    out.putStrLn s!"{if docGood j then 1 else 0} {tohex w} {tohex (fromEEBUS w)} {tohex (serialize j)}"
  | _ => out.putStrLn "bad-op"
  loop h out

def jsonMain : IO UInt32 := do
  loop (← IO.getStdin) (← IO.getStdout)
  return 0

end Driver.Json
