/-
  Line protocol for the peer-identity engine (C02).
    `in … tls=<minor> sub=<hex> cert=none | cert=<ext hex|none|->:<hash-of-key hex>`  →  `ship ski=<ski>` | `refused <reason>`
    `out … dialled=<ski> cert=<ext>:<hash>`                                            →  `ship-sent` | `closed`
  SHA-1 is not modelled: the harness supplies the hash of each certificate's key.
-/
import ShipVerif.Model.Accept
import Driver.Txt

open ShipVerif.Accept ShipVerif.Ski

namespace Driver.Accept

def parseCert (s : String) : List Cert × Str :=
  if s == "none" then ([], []) else
  match s.splitOn ":" with
  | [e, h] =>
    let ext : Option Str := if e == "none" then none else some (Driver.Txt.unhexS e)
    let hp := Driver.Txt.unhexS h
    ([{ ext := ext, pub := [] }], hp)
  | _ => ([], [])

def asString (s : Str) : String := String.ofList (s.map Char.ofNat)

def refusalName : Refusal → String
  | .noClientCert => "noClientCert" | .tlsVersion => "tlsVersion" | .peerCertCheck => "peerCertCheck"
  | .subProtocol => "subProtocol" | .firstCertSki => "firstCertSki"

partial def loop (h : IO.FS.Stream) (out : IO.FS.Stream) : IO Unit := do
  let line ← h.getLine
  if line.isEmpty then return ()
  let toks := (line.trimAscii.toString.splitOn " ").filter (· ≠ "")
  let kvD (t : List String) (k : String) (d : String := "") : String := Driver.Conn.kvD t k d
  match toks with
  | "in" :: rest =>
    let (certs, hp) := parseCert (kvD rest "cert" "none")
    let x : Inbound := { tlsMinor := (kvD rest "tls" "0").toNat?.getD 0, certs := certs, subProtocol := Driver.Txt.unhexS (kvD rest "sub" "-") }
    match acceptInbound (fun _ => hp) x with
    | .accept ski => out.putStrLn s!"ship ski={asString ski}"
    | .refuse r => out.putStrLn s!"refused {refusalName r}"
  | "out" :: rest =>
    let (certs, hp) := parseCert (kvD rest "cert" "none")
    let dialled := (kvD rest "dialled").toList.map Char.toNat
    match acceptOutbound (fun _ => hp) dialled certs with
    | .proceed => out.putStrLn "ship-sent"
    | .closeNoShip => out.putStrLn "closed"
  | "gen" :: _ => out.putStrLn "gen"
  | _ => out.putStrLn "bad-op"
  loop h out

def acceptMain : IO UInt32 := do
  loop (← IO.getStdin) (← IO.getStdout)
  return 0

end Driver.Accept
