/-
  Line protocol for the visible-services engine (C17).
    `new ll=<id,id,…|->`                                  start a history; which address ids are IPv6 link-local
    `ev valid=0|1 local=0|1 ski=<n> addrs=<id,…|-> remove=0|1`  →  `<ski>:<id,id>;… | updated=<0|1>`
-/
import ShipVerif.Model.View
import Driver.Conn

open ShipVerif.View

namespace Driver.View

def parseIds (s : String) : List Nat := if s == "-" || s == "" then [] else (s.splitOn ",").filterMap String.toNat?

def mapStr (m : Map) : String :=
  String.intercalate ";" (m.map fun p => s!"{p.1}:{String.intercalate "," (p.2.map toString)}")

partial def loop (h : IO.FS.Stream) (out : IO.FS.Stream) (ll : List Nat) (m : Map) : IO Unit := do
  let line ← h.getLine
  if line.isEmpty then return ()
  let toks := (line.trimAscii.toString.splitOn " ").filter (· ≠ "")
  let kvD (t : List String) (k : String) (d : String := "") : String := Driver.Conn.kvD t k d
  match toks with
  | "new" :: rest =>
    out.putStrLn "new"
    loop h out (parseIds (kvD rest "ll" "-")) []
  | "ev" :: rest =>
    let e : Ev := { valid := kvD rest "valid" == "1", isLocal := kvD rest "local" == "1", ski := (kvD rest "ski" "0").toNat?.getD 0,
                    addrs := parseIds (kvD rest "addrs" "-"), remove := kvD rest "remove" == "1" }
    let r := step (fun a => ll.contains a) m e
    out.putStrLn s!"{mapStr r.1} | updated={if r.2 then 1 else 0}"
    loop h out ll r.1
  | _ =>
    out.putStrLn "bad-op"
    loop h out ll m

def viewMain : IO UInt32 := do
  loop (← IO.getStdin) (← IO.getStdout) [] []
  return 0

end Driver.View
