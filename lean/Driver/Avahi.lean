/-
  Line protocol for the Avahi engine (C19).
    `new`   then one event per line: start | down | up | tick | announce <n> | unannounce | shutdown
    output: `up=<b> browsing=<b> published=<n|-> wanted=<n|-> loops=<k> late=<k>`
-/
import ShipVerif.Model.Avahi

open ShipVerif.Avahi

namespace Driver.Avahi

def b01 (b : Bool) : String := if b then "1" else "0"
def optS : Option Nat → String | none => "-" | some n => toString n

def stateStr (s : S) : String :=
  s!"up={b01 s.up} browsing={b01 s.browsing} published={optS s.published} wanted={optS s.wanted} loops={s.loops.length} late={s.afterShutdown} rep={s.reports}"

partial def loop (h : IO.FS.Stream) (out : IO.FS.Stream) (s : S) : IO Unit := do
  let line ← h.getLine
  if line.isEmpty then return ()
  let toks := (line.trimAscii.toString.splitOn " ").filter (· ≠ "")
  let next (e : Ev) : IO Unit := do
    let s' := step Cfg.fixed s e
    out.putStrLn (stateStr s')
    loop h out s'
  match toks with
  | ["new"] => out.putStrLn "new"; loop h out {}
  | ["start"] => next .start
  | ["down"] => next .daemonDown
  | ["up"] => next .daemonUp
  | ["tick"] => next .tick
  | ["announce", n] => next (.announce (n.toNat?.getD 0))
  | ["unannounce"] => next .unannounce
  | ["shutdown"] => next .shutdown
  | ["service"] => next .service
  | ["tickflaky"] => next .tickFlaky
  | _ => out.putStrLn "bad-op"; loop h out s

def avahiMain : IO UInt32 := do
  loop (← IO.getStdin) (← IO.getStdout) {}
  return 0

end Driver.Avahi
