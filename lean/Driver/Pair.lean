/-
  Driver for the two-endpoint model (C03):
    `shipdrv pairreach <mode> <qcap>`   untrusted exploration: counts, queue lengths, verdict samples
    `shipdrv pair`                      line protocol for the pair engine (lock-step)
-/
import Std.Data.HashSet
import ShipVerif.Model.PairEnum
import Driver.Conn

open ShipVerif.Conn ShipVerif.Pair

deriving instance Hashable for Role, St, TT, Ph, Frame, IdRel, Env, Ctl, PS2, Cnt3, PX

namespace Driver.Pair

def envs : List Env :=
  [true, false].flatMap fun p => [true, false].flatMap fun a => [true, false].map fun w => { paired := p, auto := a, allow := w }
def rels : List IdRel := [.fresh, .same, .mismatch]
def noE : Env := { paired := false, auto := false, allow := false }
def inits : List PS2 := envs.flatMap fun e => rels.flatMap fun rc => rels.map fun rs => PS2.init e noE rc rs

def evName : PEv → String
  | .start .C => "startC" | .start .S => "startS" | .deliver .C => "delC" | .deliver .S => "delS"
  | .timeout .C => "toC" | .timeout .S => "toS" | .approve => "approve" | .cancel => "cancel"
  | .propagate .C => "propC" | .propagate .S => "propS" | .fireRej .C => "rejC" | .fireRej .S => "rejS"
  | .fireGrace .C => "graceC" | .fireGrace .S => "graceS"

partial def bfsX (frontier : List PX) (seen : Std.HashSet PX) : Std.HashSet PX :=
  if frontier.isEmpty then seen else
  let (fr, seen) := frontier.foldl (fun (acc : List PX × Std.HashSet PX) s =>
    (allPEv.filter (modeX s)).foldl (fun acc e =>
      let t := stepX s e
      if acc.2.contains t then acc else (t :: acc.1, acc.2.insert t)) acc) ([], seen)
  bfsX fr seen

def initsX (budget : Nat) : List PX := envs.flatMap fun e => rels.flatMap fun rc => rels.map fun rs => PX.init budget e rc rs

partial def findPathX (goal : PX → Bool) (stack : List (PX × List String)) (seen : Std.HashSet PX) : Option (List String) :=
  match stack with
  | [] => none
  | (s, path) :: rest =>
    if goal s then some path.reverse else
    let (st, seen) := (allPEv.filter (modeX s)).foldl (fun (acc : List (PX × List String) × Std.HashSet PX) e =>
      let t := stepX s e
      if acc.2.contains t then acc else ((t, evName e :: path) :: acc.1, acc.2.insert t)) (rest, seen)
    findPathX goal st seen

/-- breadth-first, so that the path is a shortest one -/
partial def shortestX (goal : PX → Bool) (frontier : List (PX × List String)) (seen : Std.HashSet PX) : Option (List String) :=
  match frontier.find? (fun x => goal x.1) with
  | some (_, path) => some path.reverse
  | none =>
    if frontier.isEmpty then none else
    let (fr, seen) := frontier.foldl (fun (acc : List (PX × List String) × Std.HashSet PX) (s, path) =>
      (allPEv.filter (modeX s)).foldl (fun acc e =>
        let t := stepX s e
        if acc.2.contains t then acc else ((t, evName e :: path) :: acc.1, acc.2.insert t)) acc) ([], seen)
    shortestX goal fr seen

def parsePEv : String → Option PEv
  | "startC" => some (.start .C) | "startS" => some (.start .S) | "delC" => some (.deliver .C) | "delS" => some (.deliver .S)
  | "toC" => some (.timeout .C) | "toS" => some (.timeout .S) | "approve" => some .approve | "cancel" => some .cancel
  | "propC" => some (.propagate .C) | "propS" => some (.propagate .S) | "rejC" => some (.fireRej .C) | "rejS" => some (.fireRej .S)
  | "graceC" => some (.fireGrace .C) | "graceS" => some (.fireGrace .S) | _ => none

def frameStr (f : Frame) : String := Driver.Conn.frameName f ""

def traceMain (args : List String) : IO UInt32 := do
  -- pairtrace <paired><auto><allow> <budget> ev ev ...
  let e := Driver.Conn.parseEnv (args.getD 0 "000")
  let k := (args.getD 1 "0").toNat?.getD 0
  let mut x := PX.init k e .fresh .fresh
  for a in args.drop 2 do
    match parsePEv a with
    | none => IO.println s!"bad event {a}"
    | some ev =>
      let en := modeX x ev
      let acts := (stepP x.p ev).2
      x := stepX x ev
      let obs := acts.map fun act => Driver.Conn.obsStr { act := act }
      IO.println s!"{a}{if en then "" else " (disabled)"}: {obs} | c={x.p.c.st.toNat} t={x.p.c.trun} ws={x.p.c.wsClosed} | s={x.p.s.st.toNat} t={x.p.s.trun} ws={x.p.s.wsClosed} | qcs={x.p.qcs.map frameStr} qsc={x.p.qsc.map frameStr}"
  return 0

def xMain (args : List String) : IO UInt32 := do
  let k := (args.getD 0 "0").toNat?.getD 0
  let r := bfsX (initsX k) (Std.HashSet.ofList (initsX k))
  let l := r.toList
  IO.println s!"budget={k} states={l.length} maxq={(l.map fun x => max x.p.qcs.length x.p.qsc.length).foldl max 0}"
  let q := l.filter quiescentX
  let agree := q.filter fun x => (completed x.p.c && completed x.p.s) || (ended x.p.c && ended x.p.s)
  IO.println s!"quiescent={q.length} agree={agree.length}"
  let okRel (x : PX) := x.p.relC != .mismatch && x.p.relS != .mismatch
  -- T1a: trusted beforehand or auto-accept, no cancel: completes
  let t1a := q.filter fun x => (x.p.envS.paired || x.p.envS.auto) && !x.cancelled && okRel x
  IO.println s!"T1a candidates={t1a.length} bothCompleted={(t1a.filter fun x => completed x.p.c && completed x.p.s).length}"
  let t1b := q.filter fun x => x.approved && !x.approvedEarly && !x.cancelled && okRel x
  IO.println s!"T1b (approved after hello) candidates={t1b.length} bothCompleted={(t1b.filter fun x => completed x.p.c && completed x.p.s).length}"
  let t1bn := q.filter fun x => x.approved && x.approvedEarly && !x.cancelled && okRel x && !(x.p.envS.paired || x.p.envS.auto)
  IO.println s!"approved early: quiescent={t1bn.length} bothCompleted={(t1bn.filter fun x => completed x.p.c && completed x.p.s).length}"
  let t1c := l.filter fun x => !x.p.envS.paired && !x.p.envS.auto && !x.approved
  IO.println s!"T1c untrusted states={t1c.length} anyCompletedOrSetup={(t1c.filter fun x => x.p.c.st == .complete || x.p.s.st == .complete || x.setC != .zero || x.setS != .zero).length}"
  let many := l.filter fun x => x.setC == .many || x.setS == .many
  IO.println s!"setup more than once: {many.length}"
  let bc := l.filter fun x => completed x.p.c && completed x.p.s
  IO.println s!"bothCompleted states={bc.length} withSetupOnceEach={(bc.filter fun x => x.setC == .one && x.setS == .one).length} idsKnown={(bc.filter fun x => x.p.relC == .same && x.p.relS == .same).length}"
  let both (x : PX) := completed x.p.c && completed x.p.s
  let st0 := PX.init k { paired := true, auto := false, allow := false } .fresh .fresh
  IO.println s!"T1a shortest failing run: {shortestX (fun x => quiescentX x && !x.cancelled && !both x) [(st0, [])] (Std.HashSet.ofList [st0])}"
  let st1 := PX.init k { paired := false, auto := false, allow := true } .fresh .fresh
  IO.println s!"T1b shortest failing run (approved after hello): {shortestX (fun x => quiescentX x && !x.cancelled && x.approved && !x.approvedEarly && !both x) [(st1, [])] (Std.HashSet.ofList [st1])}"
  IO.println s!"approved early, shortest failing run: {shortestX (fun x => quiescentX x && !x.cancelled && x.approved && x.approvedEarly && !both x) [(st1, [])] (Std.HashSet.ofList [st1])}"
  IO.println s!"paired: shortest completing run: {shortestX (fun x => quiescentX x && both x) [(st0, [])] (Std.HashSet.ofList [st0])}"
  IO.println s!"approved (safe): shortest completing run: {shortestX (fun x => quiescentX x && both x && x.approved && !x.approvedEarly) [(st1, [])] (Std.HashSet.ofList [st1])}"
  for x in (t1a.filter fun x => !(completed x.p.c && completed x.p.s)).take 5 do
    IO.println s!"  T1a-fail c={x.p.c.st.toNat} s={x.p.s.st.toNat} envS={x.p.envS.paired}{x.p.envS.auto}{x.p.envS.allow} early={x.p.early} appr={x.approved}"
  for x in (t1b.filter fun x => !(completed x.p.c && completed x.p.s)).take 5 do
    IO.println s!"  T1b-fail c={x.p.c.st.toNat} s={x.p.s.st.toNat} envS={x.p.envS.paired}{x.p.envS.auto}{x.p.envS.allow} early={x.p.early}"
  return 0

def relOfStr : String → IdRel | "s" => .same | "m" => .mismatch | _ => .fresh

def sideLine (acts : List Act) (c : Ctl) : String :=
  String.intercalate " " (acts.map fun a => Driver.Conn.obsStr { act := a }) ++ " | " ++
    Driver.Conn.snapStr { st := c.st, trun := c.trun, ttype := c.ttype, buf := 0, wsClosed := c.wsClosed }

/-- lock-step mode: `new envS=<paired><auto><allow> relC=f|s|m relS=f|s|m`, then one event name per line;
    output `C: <obs> | <snap> || S: <obs> | <snap> || q=<len c→s>,<len s→c>` -/
partial def pairLoop (h : IO.FS.Stream) (out : IO.FS.Stream) (st : Option PS2) : IO Unit := do
  let line ← h.getLine
  if line.isEmpty then return ()
  let toks := (line.trimAscii.toString.splitOn " ").filter (· ≠ "")
  match toks with
  | "new" :: rest =>
    let p := PS2.init (Driver.Conn.parseEnv (Driver.Conn.kvD rest "envS" "000")) noE (relOfStr (Driver.Conn.kvD rest "relC" "f")) (relOfStr (Driver.Conn.kvD rest "relS" "f"))
    out.putStrLn "new"
    pairLoop h out (some p)
  | [ev] =>
    match st, parsePEv ev with
    | some p, some e =>
      if !enabledP p e then
        out.putStrLn "disabled"
        pairLoop h out (some p)
      else
        let r := stepP p e
        let onC := (sideOf e).isC
        let cl := sideLine (if onC then r.2 else []) r.1.c
        let sl := sideLine (if onC then [] else r.2) r.1.s
        out.putStrLn s!"C: {cl} || S: {sl} || q={r.1.qcs.length},{r.1.qsc.length}"
        pairLoop h out (some r.1)
    | _, _ => out.putStrLn "bad-op"; pairLoop h out st
  | _ => out.putStrLn "bad-op"; pairLoop h out st

def pairMain : IO UInt32 := do
  pairLoop (← IO.getStdin) (← IO.getStdout) none
  return 0

partial def treeSrc (a : Array Nat) (lo hi : Nat) : String :=
  if lo ≥ hi then ".leaf" else
    let mid := (lo + hi) / 2
    s!"(.node {treeSrc a lo mid} {a[mid]!} {treeSrc a (mid + 1) hi})"

/-- 16 chunk subtrees (kernel-checked in parallel by the shard modules) joined by 15 inner keys -/
partial def splitSrc (a : Array Nat) (lo hi depth : Nat) (chunks : Array String) (keys : Array Nat) : String × Array String × Array Nat :=
  if depth == 0 then
    let name := s!"c{chunks.size}"
    (name, chunks.push s!"def {name} : CodeTree := {treeSrc a lo hi}", keys)
  else if lo ≥ hi then
    -- empty range: still emit the (empty) chunks so that the shape is fixed
    let (l, chunks, keys) := splitSrc a lo lo (depth - 1) chunks keys
    let (r, chunks, keys) := splitSrc a lo lo (depth - 1) chunks keys
    let _ := l; let _ := r
    (".leaf", chunks, keys)
  else
    let mid := (lo + hi) / 2
    let (l, chunks, keys) := splitSrc a lo mid (depth - 1) chunks keys
    let keys := keys.push a[mid]!
    let (r, chunks, keys) := splitSrc a (mid + 1) hi (depth - 1) chunks keys
    (s!"(.node {l} {a[mid]!} {r})", chunks, keys)

def genMain (args : List String) : IO UInt32 := do
  let depth := (args.getD 1 "6").toNat?.getD 6
  let budgets := ((args.getD 2 "0").splitOn ",").filterMap (·.toNat?)
  let ns := args.getD 3 "PairReach"
  let allInits := budgets.flatMap initsX
  let r := bfsX allInits (Std.HashSet.ofList allInits)
  let l := r.toList
  let bad := l.filter fun x => !propsOk x || PX.dec x.enc != x
  IO.eprintln s!"pairgen: {l.length} states, failing the checks or the coding: {bad.length}"
  for x in bad.take 3 do
    IO.eprintln s!"   {repr x}"
  let codes := (l.map PX.enc).toArray.qsort (· < ·)
  let (tree, chunks, keys) := splitSrc codes 0 codes.size depth #[] #[]
  let mut out := "/- GENERATED by `shipdrv pairgen` (untrusted search; closure and the facts are re-checked by the kernel in Proofs/PairCert*). -/\n"
  out := out ++ s!"import ShipVerif.Model.PairEnum\n\nnamespace ShipVerif.Generated.{ns}\nopen ShipVerif.Conn\n\n"
  for c in chunks do
    out := out ++ c ++ "\n"
  out := out ++ s!"\ndef innerKeys : List Nat := {keys.toList}\n"
  out := out ++ s!"\ndef tree : CodeTree :=\n  {tree}\n\ndef size : Nat := {codes.size}\n\nend ShipVerif.Generated.{ns}\n"
  match args with
  | path :: _ => IO.FS.writeFile path out
  | _ => IO.println out
  return (if bad.isEmpty then 0 else 1)

end Driver.Pair
