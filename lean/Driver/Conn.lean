/-
  Line protocol for the single-connection engine.
    input :  `new role=c|s stored=<hex> local=<hex>`            start a scenario
             `<event> [k=v …] env=<p><a><w> fail=-|0|1|2`        one event
    output:  `<obs> <obs> … | st=<n> t=<0|1> tt=<n> buf=<n> ws=<0|1>`
  `pred` mode reads implementation traces (`E <event line>` / `O <obs line>`) and runs the property
  monitors of ConnMon over them.
-/
import ShipVerif.Model.ConnData

open ShipVerif.Conn

namespace Driver.Conn

def kv (toks : List String) (k : String) : Option String :=
  toks.findSome? fun t => if t.startsWith (k ++ "=") then some (t.drop (k.length + 1)).toString else none

def kvD (toks : List String) (k : String) (d : String := "") : String := (kv toks k).getD d

def parseEnv (s : String) : Env :=
  let cs := s.toList
  { paired := cs.getD 0 '0' == '1', auto := cs.getD 1 '0' == '1', allow := cs.getD 2 '0' == '1' }

def parseFail (s : String) : Option (Fin 3) :=
  match s with
  | "0" => some 0 | "1" => some 1 | "2" => some 2 | _ => none

def parseCloseK (s : String) : Option CloseK :=
  match s with
  | "announce" => some .announce | "confirm" => some .confirm | "other" => some .other | _ => none

def optNat (s : String) : Option Nat := if s == "-" || s == "" then none else s.toNat?
def optBool (s : String) : Option Bool := match s with | "t" => some true | "f" => some false | _ => none

def parseMsg (toks : List String) : MsgViews :=
  let data := match kvD toks "data" "none" with
    | "none" => none
    | "bad" => some none
    | s => some (some (s.drop 3).toString)   -- ok:<hex>
  let hello := (kvD toks "hello" "err:-:-").splitOn ":"
  let prot := (kvD toks "prot" "err:0:0").splitOn ":"
  let acc := (kvD toks "acc" "neither").splitOn ":"
  { dg := kvD toks "dg" == "1"
    data := data
    len3 := kvD toks "len3" == "1"
    close := parseCloseK (kvD toks "close" "none")
    initOk := kvD toks "init" == "ok"
    helloErr := hello.getD 0 "err" == "err"
    helloPhase := hello.getD 0 ""
    helloWaiting := optNat (hello.getD 1 "-")
    helloProlong := optBool (hello.getD 2 "-")
    protErr := prot.getD 0 "err" == "err"
    protType := prot.getD 0 ""
    protVerOk := prot.getD 1 "0" == "1"
    protFmtOk := prot.getD 2 "0" == "1"
    pinErr := kvD toks "pin" "err" == "err"
    pinState := kvD toks "pin" "err"
    accKind := acc.getD 0 "neither"
    accErr := acc.getD 1 "" == "err"
    accId := if acc.getD 1 "" == "id" then some (acc.getD 2 "") else none }

def parseEv (toks : List String) : Option CEv :=
  match toks with
  | "run" :: _ => some .run
  | "msg" :: rest => some (.msg (parseMsg rest))
  | "timeout" :: _ => some .timeout
  | "approve" :: _ => some .approve
  | "abort" :: _ => some .abort
  | "close" :: rest => some (.close (kvD rest "safe" == "1") ((kvD rest "code" "0").toNat?.getD 0) (kvD rest "reason"))
  | "connerr" :: _ => some .connErr
  | "appwrite" :: rest => some (.appWrite (kvD rest "valid" == "1") (kvD rest "payload"))
  | "firerej" :: _ => some .fireRej
  | "firegrace" :: _ => some .fireGrace
  | _ => none

def parseEvX (line : String) : Option CEvX :=
  let toks := (line.splitOn " ").filter (· ≠ "")
  (parseEv toks).map fun ev => { ev := ev, env := parseEnv (kvD toks "env" "000"), fail := parseFail (kvD toks "fail" "-") }

def phName : Ph → String | .ready => "ready" | .pending => "pending" | .aborted => "aborted"

def frameName (f : Frame) (data : String) : String :=
  match f with
  | .init => "init"
  | .hello ph w p =>
    s!"hello.{phName ph}.{if w then toString ShipVerif.Generated.tHelloInitMs else "-"}.{if p then "t" else "-"}"
  | .protAnnounce => "prot.announceMax"
  | .protSelect => "prot.select"
  | .protErr c => s!"prot.err.{c.val}"
  | .pinNone => "pin.none"
  | .accReq => "acc.req"
  | .accMethods => s!"acc.methods:{data}"
  | .closeAnnounce => s!"close.announce:{data}"
  | .closeConfirm => "close.confirm"
  | .data => s!"data:{data}"

def rcName : RC → String
  | .none => "none" | .closeTxt => "close" | .rejectedTxt => "rejected" | .errTxt => "err" | .user => "user"

def b01 (b : Bool) : String := if b then "1" else "0"

def obsStr (o : Obs) : String :=
  match o.act with
  | .report s e => s!"S{s.toNat}{if e then "e" else ""}"
  | .sent f => s!"W:{frameName f o.data}"
  | .q .paired a => s!"Qp{b01 a}"
  | .q .auto a => s!"Qa{b01 a}"
  | .q .allow a => s!"Qw{b01 a}"
  | .setup => "SETUP"
  | .shipId => s!"ID:{o.data}"
  | .deliver => s!"P:{o.data}"
  | .buffer => "BUF"
  | .dropData => "DROP"
  | .deliverBuffered => "FLUSH"
  | .wsClose _ r => s!"WSC:{o.num}:{rcName r}"
  | .closedCb e => s!"CB:{b01 e}"

def snapStr (s : Snap) : String :=
  s!"st={s.st.toNat} t={b01 s.trun} tt={s.ttype.toNat} buf={s.buf} ws={b01 s.wsClosed}"

def outLine (obs : List Obs) (s : Snap) : String :=
  String.intercalate " " (obs.map obsStr) ++ " | " ++ snapStr s

partial def runLoop (h : IO.FS.Stream) (out : IO.FS.Stream) (st : Option CS) : IO Unit := do
  let line ← h.getLine
  if line.isEmpty then return ()
  let line := line.trimAscii.toString
  if line.isEmpty then runLoop h out st else
  let toks := (line.splitOn " ").filter (· ≠ "")
  match toks with
  | "new" :: rest =>
    let role := if kvD rest "role" "s" == "c" then Role.client else Role.server
    let s := CS.init role (kvD rest "stored") (kvD rest "local")
    out.putStrLn "new"
    runLoop h out (some s)
  | _ =>
    match st, parseEvX line with
    | some s, some x =>
      -- events the control state cannot take (timer not armed, no goroutine pending) are reported as such
      if !enabled s.c (cls s x.ev) then
        out.putStrLn "disabled"
        runLoop h out (some s)
      else
        let r := stepC s x
        out.putStrLn (outLine r.2 r.1.snap)
        runLoop h out (some r.1)
    | _, _ =>
      out.putStrLn "bad-op"
      runLoop h out st

def connMain : IO UInt32 := do
  let stdin ← IO.getStdin
  let stdout ← IO.getStdout
  runLoop stdin stdout none
  return 0

/-! ### predicate evaluation over implementation traces -/

def parseFrameTok (s : String) : Option Frame :=
  -- only the class matters for the monitors
  if s == "init" then some .init
  else if s.startsWith "hello.aborted" then some (.hello .aborted false false)
  else if s.startsWith "hello.ready" then some (.hello .ready true false)
  else if s.startsWith "hello.pending" then some (.hello .pending true false)
  else if s == "prot.announceMax" then some .protAnnounce
  else if s == "prot.select" then some .protSelect
  else if s.startsWith "prot.err" then some (.protErr 0)
  else if s == "pin.none" then some .pinNone
  else if s == "acc.req" then some .accReq
  else if s.startsWith "acc.methods" then some .accMethods
  else if s.startsWith "close.announce" then some .closeAnnounce
  else if s == "close.confirm" then some .closeConfirm
  else if s.startsWith "data" then some .data
  else none

def parseObsTok (t : String) : Option Act :=
  if t == "SETUP" then some .setup
  else if t.startsWith "S" then
    let body := (t.drop 1).toString
    let e := body.endsWith "e"
    let num := if e then (body.dropEnd 1).toString else body
    (num.toNat?.bind St.ofNat?).map fun s => .report s e
  else if t.startsWith "W:" then
    -- an unrecognised frame is treated as a data frame (never a closing frame)
    some (.sent ((parseFrameTok (t.drop 2).toString).getD .data))
  else if t.startsWith "Qp" then some (.q .paired (t.endsWith "1"))
  else if t.startsWith "Qa" then some (.q .auto (t.endsWith "1"))
  else if t.startsWith "Qw" then some (.q .allow (t.endsWith "1"))
  else if t.startsWith "ID:" then some .shipId
  else if t.startsWith "P:" then some .deliver
  else if t.startsWith "WSC:" then some (.wsClose .dflt .none)
  else if t.startsWith "CB:" then some (.closedCb (t.endsWith "1"))
  else none

def evKindOf (toks : List String) : Option EvK :=
  match toks with
  | "run" :: _ => some .run
  | "msg" :: _ => some .msg
  | "timeout" :: _ => some .timeout
  | "approve" :: _ => some .approve
  | "abort" :: _ => some .abort
  | "close" :: rest => some (.close (kvD rest "safe" == "1"))
  | "connerr" :: _ => some .connErr
  | "appwrite" :: _ => some .appWrite
  | "firerej" :: _ => some .fireRej
  | "firegrace" :: _ => some .fireGrace
  | _ => none

structure PredState where
  role : Role
  m : Mon
  line : Nat
  bad : List String

/-- the per-property verdicts of one tag -/
def verdicts (r : Role) (m : Mon) (t : Tag) : List String :=
  (if okC01 m t then [] else ["C01"]) ++ (if okC04 r m t then [] else ["C04"]) ++
  (if okC06 m t then [] else ["C06"]) ++ (if okC09 m t then [] else ["C09"]) ++
  (if okC11 m t then [] else ["C11"])

partial def predLoop (h : IO.FS.Stream) (out : IO.FS.Stream) (st : Option PredState) (scen : Nat) : IO Unit := do
  let line ← h.getLine
  if line.isEmpty then return ()
  let line := line.trimAscii.toString
  let toks := (line.splitOn " ").filter (· ≠ "")
  let feed (ps : PredState) (t : Tag) : PredState :=
    let v := verdicts ps.role ps.m t
    { ps with m := monNext ps.m t, bad := ps.bad ++ v }
  match toks with
  | "new" :: rest =>
    let role := if kvD rest "role" "s" == "c" then Role.client else Role.server
    predLoop h out (some { role := role, m := Mon.init role, line := 0, bad := [] }) (scen + 1)
  | "E" :: rest =>
    match st, evKindOf rest with
    | some ps, some k => predLoop h out (some (feed ps (.ev k))) scen
    | _, _ => predLoop h out st scen
  | "O" :: rest =>
    match st with
    | some ps =>
      let obsToks := rest.takeWhile (· ≠ "|")
      let snapToks := (rest.dropWhile (· ≠ "|")).drop 1
      let ps := obsToks.foldl (fun ps t => match parseObsTok t with | some a => feed ps (.act a) | none => ps) ps
      let ps := feed ps (.snap (kvD snapToks "t" == "1") (kvD snapToks "ws" == "1") (kvD snapToks "final" == "1"))
      let bad := ps.bad.eraseDups
      out.putStrLn (if bad.isEmpty then "ok" else "viol " ++ String.intercalate "," bad)
      predLoop h out (some { ps with bad := [] }) scen
    | none => predLoop h out st scen
  | _ => predLoop h out st scen

def predMain : IO UInt32 := do
  predLoop (← IO.getStdin) (← IO.getStdout) none 0
  return 0

end Driver.Conn
