// extract: reads /repo's Go sources (go/ast only, nothing is linked) and prints
// ShipVerif/Generated/Facts.lean — the tables and constants whose values are the semantics.
package main

import (
	"flag"
	"fmt"
	"go/ast"
	"go/parser"
	"go/printer"
	"go/token"
	"os"
	"path/filepath"
	"sort"
	"strconv"
	"strings"
)

var fset = token.NewFileSet()

func parse(repo, rel string) *ast.File {
	f, err := parser.ParseFile(fset, filepath.Join(repo, rel), nil, parser.ParseComments)
	if err != nil {
		fmt.Fprintln(os.Stderr, "extract:", err)
		os.Exit(1)
	}
	return f
}

func funcDecl(f *ast.File, name string) *ast.FuncDecl {
	for _, d := range f.Decls {
		if fd, ok := d.(*ast.FuncDecl); ok && fd.Name.Name == name {
			return fd
		}
	}
	return nil
}

func sel(e ast.Expr) string {
	switch x := e.(type) {
	case *ast.SelectorExpr:
		return x.Sel.Name
	case *ast.Ident:
		return x.Name
	}
	return ""
}

func lit(e ast.Expr) string {
	if b, ok := e.(*ast.BasicLit); ok {
		if b.Kind == token.STRING {
			s, _ := strconv.Unquote(b.Value)
			return s
		}
		return b.Value
	}
	if c, ok := e.(*ast.CallExpr); ok && len(c.Args) == 1 { // []byte("..")
		return lit(c.Args[0])
	}
	return "?"
}

func leanStr(s string) string {
	var sb strings.Builder
	sb.WriteByte('"')
	for _, r := range s {
		switch {
		case r == '"':
			sb.WriteString("\\\"")
		case r == '\\':
			sb.WriteString("\\\\")
		case r < 32:
			sb.WriteString(fmt.Sprintf("\\x%02x", r))
		default:
			sb.WriteRune(r)
		}
	}
	sb.WriteByte('"')
	return sb.String()
}

// ---- model/types.go: state numbers
func stateNumbers(repo string) ([]string, map[string]int) {
	f := parse(repo, "model/types.go")
	var names []string
	vals := map[string]int{}
	for _, d := range f.Decls {
		gd, ok := d.(*ast.GenDecl)
		if !ok || gd.Tok != token.CONST {
			continue
		}
		for _, s := range gd.Specs {
			vs := s.(*ast.ValueSpec)
			if sel(vs.Type) != "ShipMessageExchangeState" || len(vs.Values) != 1 {
				continue
			}
			n, err := strconv.Atoi(lit(vs.Values[0]))
			if err != nil {
				continue
			}
			names = append(names, vs.Names[0].Name)
			vals[vs.Names[0].Name] = n
		}
	}
	return names, vals
}

// ---- ship/handshake.go setState: timer side effect per state
func setStateTimer(repo string, vals map[string]int) map[int]int {
	f := parse(repo, "ship/handshake.go")
	fd := funcDecl(f, "setState")
	res := map[int]int{}
	if fd == nil {
		return res
	}
	ast.Inspect(fd.Body, func(n ast.Node) bool {
		sw, ok := n.(*ast.SwitchStmt)
		if !ok || sel(sw.Tag) != "newState" {
			return true
		}
		for _, st := range sw.Body.List {
			cc := st.(*ast.CaseClause)
			code := 0
			for _, b := range cc.Body {
				es, ok := b.(*ast.ExprStmt)
				if !ok {
					code = 9
					continue
				}
				call, ok := es.X.(*ast.CallExpr)
				if !ok {
					code = 9
					continue
				}
				switch sel(call.Fun) {
				case "setHandshakeTimer":
					code = 1
					if len(call.Args) > 0 && sel(call.Args[0]) != "timeoutTimerTypeWaitForReady" {
						code = 3
					}
				case "stopHandshakeTimer":
					code = 2
				default:
					code = 9
				}
			}
			for _, e := range cc.List {
				if v, ok := vals[sel(e)]; ok {
					res[v] = code
				}
			}
		}
		return false
	})
	return res
}

// ---- ship/types.go durations
func durations(repo string) map[string]int {
	f := parse(repo, "ship/types.go")
	res := map[string]int{}
	unit := map[string]int{"Millisecond": 1, "Second": 1000, "Minute": 60000}
	for _, d := range f.Decls {
		gd, ok := d.(*ast.GenDecl)
		if !ok || gd.Tok != token.CONST {
			continue
		}
		for _, s := range gd.Specs {
			vs := s.(*ast.ValueSpec)
			if len(vs.Values) != 1 {
				continue
			}
			if be, ok := vs.Values[0].(*ast.BinaryExpr); ok && be.Op == token.MUL {
				n, err := strconv.Atoi(lit(be.X))
				u, ok2 := unit[sel(be.Y)]
				if err == nil && ok2 {
					res[vs.Names[0].Name] = n * u
				}
			}
		}
	}
	return res
}

// ---- ship/helper.go JsonFromEEBUSJson: the ordered list of textual replacements
func jsonPasses(repo string) [][2]string {
	f := parse(repo, "ship/helper.go")
	fd := funcDecl(f, "JsonFromEEBUSJson")
	var res [][2]string
	if fd == nil {
		return res
	}
	ast.Inspect(fd.Body, func(n ast.Node) bool {
		call, ok := n.(*ast.CallExpr)
		if ok && sel(call.Fun) == "ReplaceAll" && len(call.Args) == 3 {
			res = append(res, [2]string{lit(call.Args[1]), lit(call.Args[2])})
		}
		return true
	})
	return res
}

// ---- util/helper.go NormalizeSKI: replacements and case mapping
func normalizeOps(repo string) []string {
	f := parse(repo, "util/helper.go")
	fd := funcDecl(f, "NormalizeSKI")
	var res []string
	if fd == nil {
		return res
	}
	// the body has to be a straight line of `ski = f(ski, ...)` assignments and one return: a branch (a fast path for
	// some inputs, say) makes the function something else than the composition of the listed operations
	for _, st := range fd.Body.List {
		switch st.(type) {
		case *ast.AssignStmt, *ast.ReturnStmt:
		default:
			res = append(res, "("+leanStr("not-straight-line")+", \"\", \"\")")
		}
	}
	ast.Inspect(fd.Body, func(n ast.Node) bool {
		call, ok := n.(*ast.CallExpr)
		if !ok {
			return true
		}
		switch sel(call.Fun) {
		case "ReplaceAll":
			if len(call.Args) == 3 {
				res = append(res, "("+leanStr("replace")+", "+leanStr(lit(call.Args[1]))+", "+leanStr(lit(call.Args[2]))+")")
			}
		case "ToLower", "ToUpper", "TrimSpace":
			res = append(res, "("+leanStr(strings.ToLower(sel(call.Fun)))+", \"\", \"\")")
		}
		return true
	})
	return res
}

// ---- hub/hub_pairing.go mapShipMessageExchangeState
func pairingMap(repo string, vals map[string]int) (map[int]string, string) {
	f := parse(repo, "hub/hub_pairing.go")
	fd := funcDecl(f, "mapShipMessageExchangeState")
	res := map[int]string{}
	def := ""
	if fd == nil {
		return res, def
	}
	ast.Inspect(fd.Body, func(n ast.Node) bool {
		sw, ok := n.(*ast.SwitchStmt)
		if !ok {
			return true
		}
		for _, st := range sw.Body.List {
			cc := st.(*ast.CaseClause)
			target := ""
			for _, b := range cc.Body {
				if as, ok := b.(*ast.AssignStmt); ok && len(as.Rhs) == 1 {
					target = sel(as.Rhs[0])
				}
			}
			if cc.List == nil {
				def = target
			}
			for _, e := range cc.List {
				if v, ok := vals[sel(e)]; ok {
					res[v] = target
				}
			}
		}
		return false
	})
	return res, def
}

// ---- api/connectionstate.go ConnectionState iota names
func connStates(repo string) []string {
	f := parse(repo, "api/connectionstate.go")
	var names []string
	for _, d := range f.Decls {
		gd, ok := d.(*ast.GenDecl)
		if !ok || gd.Tok != token.CONST {
			continue
		}
		for _, s := range gd.Specs {
			vs := s.(*ast.ValueSpec)
			if strings.HasPrefix(vs.Names[0].Name, "ConnectionState") {
				names = append(names, vs.Names[0].Name)
			}
		}
	}
	return names
}

// ---- hub/hub.go delay ranges
func delayRanges(repo string) [][2]int {
	f := parse(repo, "hub/hub.go")
	var res [][2]int
	ast.Inspect(f, func(n ast.Node) bool {
		vs, ok := n.(*ast.ValueSpec)
		if !ok || len(vs.Names) == 0 || vs.Names[0].Name != "connectionInitiationDelayTimeRanges" {
			return true
		}
		cl := vs.Values[0].(*ast.CompositeLit)
		for _, e := range cl.Elts {
			el := e.(*ast.CompositeLit)
			var mn, mx int
			for _, kv := range el.Elts {
				k := kv.(*ast.KeyValueExpr)
				v, _ := strconv.Atoi(lit(k.Value))
				if sel(k.Key) == "min" {
					mn = v
				} else {
					mx = v
				}
			}
			res = append(res, [2]int{mn, mx})
		}
		return false
	})
	return res
}

// ---- mdns/mdns.go mandatory TXT keys
func mandatoryTxt(repo string) []string {
	f := parse(repo, "mdns/mdns.go")
	fd := funcDecl(f, "processMdnsEntry")
	var res []string
	if fd == nil {
		return res
	}
	ast.Inspect(fd.Body, func(n ast.Node) bool {
		as, ok := n.(*ast.AssignStmt)
		if !ok || len(as.Lhs) != 1 || sel(as.Lhs[0]) != "mapItems" {
			return true
		}
		if cl, ok := as.Rhs[0].(*ast.CompositeLit); ok {
			for _, e := range cl.Elts {
				res = append(res, lit(e))
			}
		}
		return false
	})
	return res
}

// ---- ship/handshake.go: design facts of the handshake timer
// hub/hub_connections.go keepThisConnection: the comparison used for incoming and for outgoing connections and
// what happens when no connection is registered yet
func keepRule(repo string) [][2]string {
	f := parse(repo, "hub/hub_connections.go")
	fd := funcDecl(f, "keepThisConnection")
	res := [][2]string{}
	if fd == nil {
		return res
	}
	txt := func(n ast.Node) string {
		var b strings.Builder
		_ = printer.Fprint(&b, fset, n)
		return strings.Join(strings.Fields(b.String()), " ")
	}
	noneReg := "?"
	ast.Inspect(fd.Body, func(x ast.Node) bool {
		ifs, ok := x.(*ast.IfStmt)
		if !ok {
			return true
		}
		c := txt(ifs.Cond)
		if c == "incomingRequest" && ifs.Else != nil {
			pick := func(b *ast.BlockStmt) string {
				if len(b.List) == 1 {
					if as, ok := b.List[0].(*ast.AssignStmt); ok && len(as.Lhs) == 1 && txt(as.Lhs[0]) == "keep" {
						return txt(as.Rhs[0])
					}
				}
				return "?"
			}
			res = append(res, [2]string{"incoming", pick(ifs.Body)})
			if eb, ok := ifs.Else.(*ast.BlockStmt); ok {
				res = append(res, [2]string{"outgoing", pick(eb)})
			}
		}
		if c == "existingC == nil" && len(ifs.Body.List) == 1 {
			if r, ok := ifs.Body.List[0].(*ast.ReturnStmt); ok && len(r.Results) == 1 {
				noneReg = txt(r.Results[0])
			}
		}
		return true
	})
	res = append(res, [2]string{"none-registered", noneReg})
	return res
}

// hub/hub_connections.go: in ServeHTTP and connectFoundService the statements from keepThisConnection to
// registerConnection run under one mutex that is locked before and released by a deferred unlock
func establishAtomic(repo string) [][2]string {
	f := parse(repo, "hub/hub_connections.go")
	res := [][2]string{}
	for _, name := range []string{"ServeHTTP", "connectFoundService"} {
		fd := funcDecl(f, name)
		verdict := "missing"
		if fd != nil {
			verdict = "unguarded"
			locked := ""
			deferred := false
			keepSeen := false
			for _, st := range fd.Body.List {
				if es, ok := st.(*ast.ExprStmt); ok {
					if c, ok := es.X.(*ast.CallExpr); ok {
						if se, ok := c.Fun.(*ast.SelectorExpr); ok && se.Sel.Name == "Lock" && !keepSeen {
							locked = sel(se.X)
						}
						if se, ok := c.Fun.(*ast.SelectorExpr); ok && se.Sel.Name == "Unlock" && sel(se.X) == locked && !deferred {
							locked = ""
						}
					}
				}
				if ds, ok := st.(*ast.DeferStmt); ok {
					if se, ok := ds.Call.Fun.(*ast.SelectorExpr); ok && se.Sel.Name == "Unlock" && sel(se.X) == locked && locked != "" {
						deferred = true
					}
				}
				if containsCall(st, "keepThisConnection") {
					keepSeen = true
					if locked == "" || !deferred {
						verdict = "decision-outside-lock"
					}
				}
				if containsCall(st, "registerConnection") && keepSeen && locked != "" && deferred && verdict == "unguarded" {
					verdict = "under " + locked
				}
			}
		}
		res = append(res, [2]string{name, verdict})
	}
	return res
}

// ---- hub/hub_shipconnection.go HandleConnectionClosed: the closing connection is compared with the registered one
// (DataHandler identity) and the entry is deleted within one muxCon critical section of the function body
func regCfg(repo string) (closeAtomic bool) {
	f := parse(repo, "hub/hub_shipconnection.go")
	fd := funcDecl(f, "HandleConnectionClosed")
	if fd == nil {
		return false
	}
	span, cur := 0, 0 // cur = number of the critical section we are in (0: none)
	compareSpan, deleteSpan := -1, -1
	for _, st := range fd.Body.List {
		if es, ok := st.(*ast.ExprStmt); ok {
			if c, ok := es.X.(*ast.CallExpr); ok {
				if se, ok := c.Fun.(*ast.SelectorExpr); ok && sel(se.X) == "muxCon" {
					if se.Sel.Name == "Lock" {
						span++
						cur = span
						continue
					}
					if se.Sel.Name == "Unlock" {
						cur = 0
						continue
					}
				}
			}
		}
		ast.Inspect(st, func(x ast.Node) bool {
			switch v := x.(type) {
			case *ast.BinaryExpr:
				if v.Op == token.EQL && mentions(v, "DataHandler") && compareSpan == -1 {
					compareSpan = cur
				}
			case *ast.CallExpr:
				if sel(v.Fun) == "delete" && len(v.Args) == 2 && sel(v.Args[0]) == "connections" && deleteSpan == -1 {
					deleteSpan = cur
				}
				// a lock taken inside a nested block ends the top-level reasoning: treat as its own section
				if se, ok := v.Fun.(*ast.SelectorExpr); ok && sel(se.X) == "muxCon" && se.Sel.Name == "Lock" {
					span++
					cur = span
				}
				if se, ok := v.Fun.(*ast.SelectorExpr); ok && sel(se.X) == "muxCon" && se.Sel.Name == "Unlock" {
					cur = 0
				}
			}
			return true
		})
	}
	return compareSpan > 0 && compareSpan == deleteSpan
}

// ---- hub: removal of a service against an establishment under way
func dialCfg(repo string) (recheck, exclusive bool) {
	cf := parse(repo, "hub/hub_connections.go")
	pf := parse(repo, "hub/hub_pairing.go")
	isMux := func(st ast.Stmt, method string) bool {
		es, ok := st.(*ast.ExprStmt)
		if !ok {
			return false
		}
		c, ok := es.X.(*ast.CallExpr)
		if !ok {
			return false
		}
		se, ok := c.Fun.(*ast.SelectorExpr)
		return ok && se.Sel.Name == method && sel(se.X) == "muxConnect"
	}
	// connectFoundService: after taking the connect mutex and before the keep decision, an if on Trusted() that returns
	if fd := funcDecl(cf, "connectFoundService"); fd != nil {
		locked := false
		for _, st := range fd.Body.List {
			if isMux(st, "Lock") {
				locked = true
				continue
			}
			if containsCall(st, "keepThisConnection") {
				break
			}
			if ifs, ok := st.(*ast.IfStmt); ok && locked && containsCall(ifs.Cond, "Trusted") && mentions(ifs.Cond, "ConnectionStateQueued") {
				for _, b := range ifs.Body.List {
					if _, ok := b.(*ast.ReturnStmt); ok {
						recheck = true
					}
				}
			}
		}
	}
	// UnregisterRemoteSKI / CancelPairingWithSKI: SetTrusted(false) and the lookup of the connection inside one
	// muxConnect section of the function body
	section := func(name string) bool {
		fd := funcDecl(pf, name)
		if fd == nil {
			return false
		}
		locked, marks, looks := false, false, false
		for _, st := range fd.Body.List {
			if isMux(st, "Lock") {
				locked, marks, looks = true, false, false
				continue
			}
			if isMux(st, "Unlock") {
				if marks && looks {
					return true
				}
				locked = false
				continue
			}
			if locked {
				if containsCall(st, "SetTrusted") {
					marks = true
				}
				if containsCall(st, "connectionForSKI") {
					looks = true
				}
			}
		}
		return false
	}
	exclusive = section("UnregisterRemoteSKI") && section("CancelPairingWithSKI")
	return
}

// ---- hub/hub_connections.go keepThisConnection: the older connection of a double connection is ended without delay
func lifeCfg(repo string) (closeOldNow bool) {
	f := parse(repo, "hub/hub_connections.go")
	fd := funcDecl(f, "keepThisConnection")
	if fd == nil {
		return false
	}
	found, ok := 0, true
	ast.Inspect(fd.Body, func(x ast.Node) bool {
		c, isCall := x.(*ast.CallExpr)
		if !isCall || sel(c.Fun) != "CloseConnection" {
			return true
		}
		found++
		if len(c.Args) < 1 {
			ok = false
			return true
		}
		if id, isId := c.Args[0].(*ast.Ident); !isId || id.Name != "false" {
			ok = false
		}
		return true
	})
	return found > 0 && ok
}

// ---- hub: Shutdown against establishments under way
func shutCfg(repo string) (recheck, exclusive, guardAtStart bool) {
	cf := parse(repo, "hub/hub_connections.go")
	hf := parse(repo, "hub/hub.go")
	isMux := func(st ast.Stmt, method string) bool {
		es, ok := st.(*ast.ExprStmt)
		if !ok {
			return false
		}
		c, ok := es.X.(*ast.CallExpr)
		if !ok {
			return false
		}
		se, ok := c.Fun.(*ast.SelectorExpr)
		return ok && se.Sel.Name == method && sel(se.X) == "muxConnect"
	}
	checks := func(name string) bool {
		fd := funcDecl(cf, name)
		if fd == nil {
			return false
		}
		locked := false
		for _, st := range fd.Body.List {
			if isMux(st, "Lock") {
				locked = true
				continue
			}
			if containsCall(st, "keepThisConnection") || containsCall(st, "registerConnection") {
				return false
			}
			if ifs, ok := st.(*ast.IfStmt); ok && locked && containsCall(ifs.Cond, "checkHasShutdown") {
				for _, b := range ifs.Body.List {
					if _, ok := b.(*ast.ReturnStmt); ok {
						return true
					}
				}
			}
		}
		return false
	}
	recheck = checks("connectFoundService") && checks("ServeHTTP")
	// connectFoundService begins with an if that looks at the flag and returns; the second attempt (without the path) too
	if fd := funcDecl(cf, "connectFoundService"); fd != nil && len(fd.Body.List) > 0 {
		first := false
		if ifs, ok := fd.Body.List[0].(*ast.IfStmt); ok && containsCall(ifs.Cond, "checkHasShutdown") {
			for _, b := range ifs.Body.List {
				if _, ok := b.(*ast.ReturnStmt); ok {
					first = true
				}
			}
		}
		// every Dial after the first one is preceded, in its block, by such a look
		second := true
		dials := 0
		ast.Inspect(fd.Body, func(x ast.Node) bool {
			blk, ok := x.(*ast.BlockStmt)
			if !ok {
				return true
			}
			looked := false
			for _, st := range blk.List {
				if ifs, ok := st.(*ast.IfStmt); ok && containsCall(ifs.Cond, "checkHasShutdown") {
					looked = true
				}
				if as, ok := st.(*ast.AssignStmt); ok && containsCall(as, "Dial") {
					dials++
					if dials > 1 && !looked {
						second = false
					}
				}
			}
			return true
		})
		guardAtStart = first && second
	}
	if fd := funcDecl(hf, "Shutdown"); fd != nil {
		locked := false
		for _, st := range fd.Body.List {
			if isMux(st, "Lock") {
				locked = true
				continue
			}
			if isMux(st, "Unlock") {
				locked = false
				continue
			}
			if as, ok := st.(*ast.AssignStmt); ok && locked && len(as.Lhs) == 1 && sel(as.Lhs[0]) == "hasShutdown" {
				exclusive = true
			}
		}
	}
	return
}

// every call of `name` inside fd is a plain call: at least one exists and none sits under a go statement, a defer or a
// function literal
func plainCalls(fd *ast.FuncDecl, name string) bool {
	if fd == nil {
		return false
	}
	count, bad := 0, 0
	var walk func(n ast.Node, detached bool)
	walk = func(n ast.Node, detached bool) {
		ast.Inspect(n, func(x ast.Node) bool {
			switch v := x.(type) {
			case *ast.GoStmt:
				walk(v.Call, true)
				return false
			case *ast.DeferStmt:
				walk(v.Call, true)
				return false
			case *ast.FuncLit:
				if x != n {
					walk(v.Body, true)
					return false
				}
			case *ast.CallExpr:
				if sel(v.Fun) == name {
					count++
					if detached {
						bad++
					}
				}
			}
			return true
		})
	}
	walk(fd.Body, false)
	return count > 0 && bad == 0
}

// ---- the receiving data path: ship/handshake.go approveHandshake, ship/connection.go, ws/websocket.go readShipPump
func pipeCfg(repo string) (flushSync, deliverSync bool) {
	hs := parse(repo, "ship/handshake.go")
	cn := parse(repo, "ship/connection.go")
	wsf := parse(repo, "ws/websocket.go")
	ap := funcDecl(hs, "approveHandshake")
	// the reader is installed (assignment to dataReader) before the buffered datagrams are handed over by a plain call
	if ap != nil {
		installedAt, flushAt := -1, -1
		for i, st := range ap.Body.List {
			if as, ok := st.(*ast.AssignStmt); ok && len(as.Lhs) == 1 && sel(as.Lhs[0]) == "dataReader" {
				installedAt = i
			}
			if es, ok := st.(*ast.ExprStmt); ok {
				if c, ok := es.X.(*ast.CallExpr); ok && sel(c.Fun) == "processBufferedSpineMessages" {
					flushAt = i
				}
			}
		}
		flushSync = installedAt >= 0 && flushAt > installedAt && plainCalls(ap, "processBufferedSpineMessages") &&
			plainCalls(funcDecl(cn, "processBufferedSpineMessages"), "HandleShipPayloadMessage")
	}
	deliverSync = plainCalls(funcDecl(wsf, "readShipPump"), "HandleIncomingWebsocketMessage") &&
		plainCalls(funcDecl(cn, "HandleIncomingWebsocketMessage"), "HandleShipPayloadMessage")
	return
}

func containsCall(n ast.Node, name string) bool {
	found := false
	ast.Inspect(n, func(x ast.Node) bool {
		if c, ok := x.(*ast.CallExpr); ok && sel(c.Fun) == name {
			found = true
		}
		return !found
	})
	return found
}

func mentions(n ast.Node, name string) bool {
	found := false
	ast.Inspect(n, func(x ast.Node) bool {
		if id, ok := x.(*ast.Ident); ok && id.Name == name {
			found = true
		}
		return !found
	})
	return found
}

func timerCfg(repo string) (perArm, stopCloses, recheck, capture bool) {
	f := parse(repo, "ship/handshake.go")
	arm := funcDecl(f, "setHandshakeTimer")
	stop := funcDecl(f, "stopHandshakeTimer")
	if arm == nil || stop == nil {
		return
	}
	// a fresh channel per armed timer, stored in the connection
	perArm = containsCall(arm.Body, "make") && mentions(arm.Body, "handshakeTimerStopChan")
	// the timer goroutine mentions the connection's channel field only after its timer expired (the re-check):
	// what it selects on is the channel made when it was armed
	capture = true
	ast.Inspect(arm.Body, func(x ast.Node) bool {
		gs, ok := x.(*ast.GoStmt)
		if !ok {
			return true
		}
		lit, ok := gs.Call.Fun.(*ast.FuncLit)
		if !ok {
			capture = false
			return false
		}
		inBody := map[ast.Node]bool{}
		ast.Inspect(lit.Body, func(y ast.Node) bool {
			if cc, ok := y.(*ast.CommClause); ok {
				for _, st := range cc.Body {
					ast.Inspect(st, func(z ast.Node) bool {
						if z != nil {
							inBody[z] = true
						}
						return true
					})
				}
			}
			return true
		})
		ast.Inspect(lit.Body, func(y ast.Node) bool {
			if se, ok := y.(*ast.SelectorExpr); ok && se.Sel.Name == "handshakeTimerStopChan" && !inBody[se] {
				capture = false
			}
			return true
		})
		return false
	})
	// stop closes the channel and does not send on it
	hasSend := false
	ast.Inspect(stop.Body, func(x ast.Node) bool {
		if _, ok := x.(*ast.SendStmt); ok {
			hasSend = true
		}
		return true
	})
	stopCloses = containsCall(stop.Body, "close") && !hasSend
	// the time.After case re-checks running flag and channel identity before handleState, and returns otherwise
	ast.Inspect(arm.Body, func(x ast.Node) bool {
		cc, ok := x.(*ast.CommClause)
		if !ok || cc.Comm == nil || !containsCall(cc.Comm, "After") {
			return true
		}
		guarded := false
		for _, st := range cc.Body {
			if ifs, ok := st.(*ast.IfStmt); ok {
				condOk := (mentions(ifs.Cond, "handshakeTimerRunning") || containsCall(ifs.Cond, "getHandshakeTimerRunning")) &&
					mentions(ifs.Cond, "handshakeTimerStopChan")
				returns := false
				for _, b := range ifs.Body.List {
					if _, ok := b.(*ast.ReturnStmt); ok {
						returns = true
					}
				}
				if condOk && returns {
					guarded = true
				}
			}
			if es, ok := st.(*ast.ExprStmt); ok && containsCall(es, "handleState") {
				if guarded {
					recheck = true
				}
				return false
			}
		}
		return false
	})
	return
}

// ---- ws/websocket.go: design facts of the adapter
func wsCfg(repo string) (pumpClosesQueue, writeSelectsClose, shutdownAlways, reportIfFirst, farewellInsideOnce, readerRechecks, writeWaits bool) {
	f := parse(repo, "ws/websocket.go")
	// any close(…shipWriteChannel) in the file
	ast.Inspect(f, func(x ast.Node) bool {
		if c, ok := x.(*ast.CallExpr); ok && sel(c.Fun) == "close" && len(c.Args) == 1 && sel(c.Args[0]) == "shipWriteChannel" {
			pumpClosesQueue = true
		}
		return true
	})
	// Write: select { case queue <- m | case <-closeChannel }
	if wf := funcDecl(f, "WriteMessageToWebsocketConnection"); wf != nil {
		ast.Inspect(wf.Body, func(x ast.Node) bool {
			ss, ok := x.(*ast.SelectStmt)
			if !ok {
				return true
			}
			hasSend, hasClose := false, false
			for _, c := range ss.Body.List {
				cc := c.(*ast.CommClause)
				if snd, ok := cc.Comm.(*ast.SendStmt); ok && sel(snd.Chan) == "shipWriteChannel" {
					hasSend = true
				}
				if cc.Comm != nil && mentions(cc.Comm, "closeChannel") {
					if _, isSend := cc.Comm.(*ast.SendStmt); !isSend {
						hasClose = true
					}
				}
			}
			writeSelectsClose = hasSend && hasClose
			// no other way out of the select: exactly these two clauses (a default or timer clause would let a
			// Write on an open connection give up and the message be lost)
			writeWaits = hasSend && hasClose && len(ss.Body.List) == 2
			return false
		})
	}
	// the once: its body marks closed, closes the close channel and the socket, with no early return;
	// setConnClosedError is called nowhere else
	onceFunc := ""
	onceOK := false
	setCalls := 0
	for _, d := range f.Decls {
		fd, ok := d.(*ast.FuncDecl)
		if !ok || fd.Body == nil {
			continue
		}
		ast.Inspect(fd.Body, func(x ast.Node) bool {
			c, ok := x.(*ast.CallExpr)
			if !ok {
				return true
			}
			if sel(c.Fun) == "setConnClosedError" {
				setCalls++
			}
			if se, ok := c.Fun.(*ast.SelectorExpr); ok && se.Sel.Name == "Do" && sel(se.X) == "shutdownOnce" && len(c.Args) == 1 {
				if fl, ok := c.Args[0].(*ast.FuncLit); ok {
					onceFunc = fd.Name.Name
					hasRet := false
					ast.Inspect(fl.Body, func(y ast.Node) bool {
						if _, ok := y.(*ast.ReturnStmt); ok {
							hasRet = true
						}
						return true
					})
					closesCh := false
					ast.Inspect(fl.Body, func(y ast.Node) bool {
						if cc, ok := y.(*ast.CallExpr); ok && sel(cc.Fun) == "close" && len(cc.Args) == 1 && sel(cc.Args[0]) == "closeChannel" {
							closesCh = true
						}
						return true
					})
					onceOK = !hasRet && closesCh && containsCall(fl.Body, "setConnClosedError") && containsCall(fl.Body, "Close")
				}
			}
			return true
		})
	}
	shutdownAlways = onceOK && setCalls == 1
	// every ReportConnectionError call is guarded by `if <call of the once function>`
	reportIfFirst = onceFunc != ""
	var walk func(n ast.Node, guarded bool)
	walk = func(n ast.Node, guarded bool) {
		ast.Inspect(n, func(x ast.Node) bool {
			switch v := x.(type) {
			case *ast.IfStmt:
				g := guarded || containsCall(v.Cond, onceFunc)
				walk(v.Body, g)
				if v.Else != nil {
					walk(v.Else, guarded)
				}
				return false
			case *ast.CallExpr:
				if sel(v.Fun) == "ReportConnectionError" && !guarded {
					reportIfFirst = false
				}
			}
			return true
		})
	}
	for _, d := range f.Decls {
		if fd, ok := d.(*ast.FuncDecl); ok && fd.Body != nil {
			walk(fd.Body, false)
		}
	}
	// CloseDataConnection: no transport write outside the once function (its close frame is written by a
	// callback handed to the once function, i.e. after the connection was marked closed)
	if cd := funcDecl(f, "CloseDataConnection"); cd != nil && onceFunc != "" {
		farewellInsideOnce = true
		for _, st := range cd.Body.List {
			ast.Inspect(st, func(x ast.Node) bool {
				if c, ok := x.(*ast.CallExpr); ok {
					name := sel(c.Fun)
					if name == onceFunc {
						return false // arguments of the once function (the farewell callback) are fine
					}
					if name == "writeMessageWithoutErrorHandling" || name == "writeMessage" || name == "WriteMessage" {
						farewellInsideOnce = false
					}
				}
				return true
			})
		}
		if !containsCall(cd.Body, onceFunc) {
			farewellInsideOnce = false
		}
	}
	// readShipPump: the statement after the read is `if w.isConnClosed() { return }`
	if rp := funcDecl(f, "readShipPump"); rp != nil {
		ast.Inspect(rp.Body, func(x ast.Node) bool {
			var list []ast.Stmt
			switch b := x.(type) {
			case *ast.BlockStmt:
				list = b.List
			case *ast.CommClause:
				list = b.Body
			case *ast.CaseClause:
				list = b.Body
			}
			for i, st := range list {
				as, ok := st.(*ast.AssignStmt)
				if !ok || !containsCall(as, "readWebsocketMessage") || i+1 >= len(list) {
					continue
				}
				if ifs, ok := list[i+1].(*ast.IfStmt); ok && containsCall(ifs.Cond, "isConnClosed") && len(ifs.Body.List) == 1 {
					if _, ok := ifs.Body.List[0].(*ast.ReturnStmt); ok {
						readerRechecks = true
					}
				}
			}
			return true
		})
	}
	return
}

// ---- mdns/mdns.go: every asynchronous report is guarded by a sequence check under a mutex
func mdnsReportGuarded(repo string) bool {
	f := parse(repo, "mdns/mdns.go")
	calls, guardedCalls := 0, 0
	ast.Inspect(f, func(x ast.Node) bool {
		fl, ok := x.(*ast.FuncLit)
		if !ok {
			return true
		}
		if !containsCall(fl.Body, "ReportMdnsEntries") {
			return true
		}
		hasLock := containsCall(fl.Body, "Lock")
		hasGuard := false
		for _, st := range fl.Body.List {
			if ifs, ok := st.(*ast.IfStmt); ok && mentions(ifs.Cond, "reportedSeq") {
				for _, b := range ifs.Body.List {
					if _, ok := b.(*ast.ReturnStmt); ok {
						hasGuard = true
					}
				}
			}
		}
		if hasLock && hasGuard {
			guardedCalls++
		}
		return true
	})
	ast.Inspect(f, func(x ast.Node) bool {
		if c, ok := x.(*ast.CallExpr); ok && sel(c.Fun) == "ReportMdnsEntries" {
			calls++
		}
		return true
	})
	return calls > 0 && calls == guardedCalls
}

// ---- mdns/avahi.go: design facts of the reconnect loop
func avahiCfg(repo string) (respectsShutdown, reannounceCurrent bool) {
	f := parse(repo, "mdns/avahi.go")
	loop := funcDecl(f, "attemptReconnect")
	if loop == nil {
		return
	}
	// which function does the loop call to start the provider
	callee := ""
	ast.Inspect(loop.Body, func(x ast.Node) bool {
		if c, ok := x.(*ast.CallExpr); ok {
			if n := sel(c.Fun); n == "Start" || n == "start" {
				callee = n
			}
		}
		return true
	})
	if fd := funcDecl(f, callee); fd != nil {
		// a guard on manualShutdown that returns, placed before manualShutdown is reset
		for _, st := range fd.Body.List {
			if as, ok := st.(*ast.AssignStmt); ok && len(as.Lhs) == 1 && sel(as.Lhs[0]) == "manualShutdown" {
				break
			}
			if ifs, ok := st.(*ast.IfStmt); ok && mentions(ifs.Cond, "manualShutdown") {
				for _, b := range ifs.Body.List {
					if _, ok := b.(*ast.ReturnStmt); ok {
						respectsShutdown = true
					}
				}
			}
		}
	}
	// the announcement is read from the provider inside the loop, not handed in as a parameter
	captured := false
	for _, p := range loop.Type.Params.List {
		if mentions(p.Type, "mdnsServiceData") {
			captured = true
		}
	}
	reannounceCurrent = !captured && mentions(loop.Body, "mdnsServiceData")
	return
}

func main() {
	repo := flag.String("repo", "/repo", "repository root")
	out := flag.String("out", "", "directory for the generated Lean files (default: print)")
	withLocks := flag.Bool("locks", false, "also regenerate LockFacts.lean (type-checks five packages)")
	withSites := flag.Bool("sites", false, "also regenerate PanicFacts.lean (type-checks four packages, ~12 s)")
	flag.Parse()
	names, vals := stateNumbers(*repo)
	var sb strings.Builder
	w := func(format string, a ...any) { fmt.Fprintf(&sb, format, a...) }
	files := map[string]string{}
	header := "/- GENERATED by /verif/extract from /repo — do not edit. -/\nnamespace ShipVerif.Generated\n\n"
	flush := func(name string) {
		files[name] = header + sb.String() + "end ShipVerif.Generated\n"
		sb.Reset()
	}
	w("/-- model/types.go: ShipMessageExchangeState constants -/\ndef stateNumbers : List (String × Nat) :=\n  [")
	for i, n := range names {
		if i > 0 {
			w(", ")
		}
		w("(%s, %d)", leanStr(n), vals[n])
	}
	w("]\n\n")

	w("/-- ship/handshake.go setState: timer side effect per new state (1 = arm WaitForReady, 2 = stop, 0 = none) -/\ndef setStateTimer : Nat → Nat\n")
	tt := setStateTimer(*repo, vals)
	var keys []int
	for k := range tt {
		keys = append(keys, k)
	}
	sort.Ints(keys)
	for _, k := range keys {
		w("  | %d => %d\n", k, tt[k])
	}
	w("  | _ => 0\n\n")

	d := durations(*repo)
	w("/-- ship/types.go: durations in milliseconds -/\n")
	for _, p := range [][2]string{{"cmiTimeout", "cmiTimeoutMs"}, {"tHelloInit", "tHelloInitMs"}, {"tHelloProlongThrInc", "tHelloProlongThrIncMs"}, {"tHelloProlongMin", "tHelloProlongMinMs"}} {
		w("def %s : Nat := %d\n", p[1], d[p[0]])
	}
	w("\n")
	flush("Facts.lean")
	w("/-- ship/helper.go JsonFromEEBUSJson: ordered textual replacements -/\ndef fromEEBUSPasses : List (String × String) :=\n  [")
	for i, p := range jsonPasses(*repo) {
		if i > 0 {
			w(", ")
		}
		w("(%s, %s)", leanStr(p[0]), leanStr(p[1]))
	}
	w("]\n\n/-- util/helper.go NormalizeSKI: operations in order -/\ndef normalizeOps : List (String × String × String) :=\n  [")
	for i, p := range normalizeOps(*repo) {
		if i > 0 {
			w(", ")
		}
		w("%s", p)
	}
	w("]\n\n/-- api/connectionstate.go: ConnectionState names in iota order -/\ndef connStateNames : List String :=\n  [")
	cs := connStates(*repo)
	for i, p := range cs {
		if i > 0 {
			w(", ")
		}
		w("%s", leanStr(p))
	}
	idx := map[string]int{}
	for i, p := range cs {
		idx[p] = i
	}
	w("]\n\n/-- hub/hub_pairing.go mapShipMessageExchangeState: SHIP state number ↦ ConnectionState index -/\ndef pairingStateMap : Nat → Nat\n")
	pm, def := pairingMap(*repo, vals)
	keys = keys[:0]
	for k := range pm {
		keys = append(keys, k)
	}
	sort.Ints(keys)
	for _, k := range keys {
		w("  | %d => %d\n", k, idx[pm[k]])
	}
	w("  | _ => %d\n\n", idx[def])
	w("/-- hub/hub.go connectionInitiationDelayTimeRanges (seconds) -/\ndef delayRanges : List (Nat × Nat) :=\n  [")
	for i, p := range delayRanges(*repo) {
		if i > 0 {
			w(", ")
		}
		w("(%d, %d)", p[0], p[1])
	}
	w("]\n\n/-- mdns/mdns.go processMdnsEntry: mandatory TXT keys -/\ndef mandatoryTxtKeys : List String :=\n  [")
	for i, p := range mandatoryTxt(*repo) {
		if i > 0 {
			w(", ")
		}
		w("%s", leanStr(p))
	}
	w("]\n\n/-- hub/hub_connections.go keepThisConnection: keep the new connection iff ... -/\ndef keepRule : List (String × String) :=\n  [")
	for i, p := range keepRule(*repo) {
		if i > 0 {
			w(", ")
		}
		w("(%s, %s)", leanStr(p[0]), leanStr(p[1]))
	}
	w("]\n\n/-- hub/hub_connections.go: is the decision about a new connection taken under the mutex its registration is made under -/\ndef establishAtomic : List (String × String) :=\n  [")
	for i, p := range establishAtomic(*repo) {
		if i > 0 {
			w(", ")
		}
		w("(%s, %s)", leanStr(p[0]), leanStr(p[1]))
	}
	w("]\n\n")
	flush("MiscFacts.lean")
	{
		a, b, c, d := timerCfg(*repo)
		files["TimerFacts.lean"] = fmt.Sprintf("/- GENERATED by /verif/extract from /repo — do not edit. -/\nimport ShipVerif.Model.Timer\nnamespace ShipVerif.Generated\n\n/-- ship/handshake.go setHandshakeTimer / stopHandshakeTimer: design facts -/\ndef timerCfg : ShipVerif.Timer.Cfg := { perArmChannel := %v, stopCloses := %v, recheck := %v, captureAtArm := %v }\n\nend ShipVerif.Generated\n", a, b, c, d)
	}
	{
		a, b, c, d, e, g, ww := wsCfg(*repo)
		files["WsFacts.lean"] = fmt.Sprintf("/- GENERATED by /verif/extract from /repo — do not edit. -/\nimport ShipVerif.Model.Ws\nnamespace ShipVerif.Generated\n\n/-- ws/websocket.go: design facts -/\ndef wsCfg : ShipVerif.Ws.Cfg := { pumpClosesQueue := %v, writeSelectsClose := %v, shutdownAlways := %v, reportIfFirst := %v, farewellInsideOnce := %v, readerRechecks := %v, writeWaits := %v }\n\nend ShipVerif.Generated\n", a, b, c, d, e, g, ww)
	}
	{
		a, b := avahiCfg(*repo)
		files["AvahiFacts.lean"] = fmt.Sprintf("/- GENERATED by /verif/extract from /repo — do not edit. -/\nimport ShipVerif.Model.Avahi\nnamespace ShipVerif.Generated\n\n/-- mdns/avahi.go: design facts of the reconnect loop -/\ndef avahiCfg : ShipVerif.Avahi.Cfg := { reconnectRespectsShutdown := %v, reannounceCurrent := %v }\n\nend ShipVerif.Generated\n", a, b)
	}
	{
		a, b := pipeCfg(*repo)
		files["PipeFacts.lean"] = fmt.Sprintf("/- GENERATED by /verif/extract from /repo — do not edit. -/\nimport ShipVerif.Model.Pipe\nnamespace ShipVerif.Generated\n\n/-- ship/handshake.go approveHandshake, ship/connection.go HandleIncomingWebsocketMessage, ws/websocket.go readShipPump: design facts -/\ndef pipeCfg : ShipVerif.Pipe.Cfg := { flushSync := %v, deliverSync := %v }\n\nend ShipVerif.Generated\n", a, b)
	}
	{
		a, b := dialCfg(*repo)
		files["DialFacts.lean"] = fmt.Sprintf("/- GENERATED by /verif/extract from /repo — do not edit. -/\nimport ShipVerif.Model.Dial\nnamespace ShipVerif.Generated\n\n/-- hub/hub_connections.go connectFoundService, hub/hub_pairing.go UnregisterRemoteSKI / CancelPairingWithSKI: design facts -/\ndef dialCfg : ShipVerif.Dial.Cfg := { recheck := %v, exclusive := %v }\n\nend ShipVerif.Generated\n", a, b)
	}
	{
		a, b, g := shutCfg(*repo)
		files["ShutFacts.lean"] = fmt.Sprintf("/- GENERATED by /verif/extract from /repo — do not edit. -/\nimport ShipVerif.Model.Shut\nnamespace ShipVerif.Generated\n\n/-- hub/hub.go Shutdown, hub/hub_connections.go connectFoundService / ServeHTTP: design facts -/\ndef shutCfg : ShipVerif.Shut.Cfg := { recheck := %v, exclusive := %v, guardAtStart := %v }\n\nend ShipVerif.Generated\n", a, b, g)
	}
	files["LifeFacts.lean"] = fmt.Sprintf("/- GENERATED by /verif/extract from /repo — do not edit. -/\nimport ShipVerif.Model.Life\nnamespace ShipVerif.Generated\n\n/-- hub/hub_connections.go keepThisConnection: design facts -/\ndef lifeCfg : ShipVerif.Life.Cfg := { closeOldNow := %v }\n\nend ShipVerif.Generated\n", lifeCfg(*repo))
	files["RaceFacts.lean"] = raceFactsLean(*repo, vals)
	files["NotifyFacts.lean"] = notifyFactsLean(*repo)
	files["RegFacts.lean"] = fmt.Sprintf("/- GENERATED by /verif/extract from /repo — do not edit. -/\nimport ShipVerif.Model.Reg\nnamespace ShipVerif.Generated\n\n/-- hub/hub_shipconnection.go HandleConnectionClosed: design facts -/\ndef regCfg : ShipVerif.Reg.Cfg := { closeAtomic := %v }\n\nend ShipVerif.Generated\n", regCfg(*repo))
	files["AsyncFacts.lean"] = fmt.Sprintf("/- GENERATED by /verif/extract from /repo — do not edit. -/\nimport ShipVerif.Model.View\nnamespace ShipVerif.Generated\n\n/-- mdns/mdns.go: reports are delivered under a mutex and dropped when a newer snapshot was delivered -/\ndef mdnsReportCfg : ShipVerif.Async.Cfg := { guarded := %v }\n\nend ShipVerif.Generated\n", mdnsReportGuarded(*repo))
	if *withLocks {
		lf, err := lockFactsLean(*repo)
		if err != nil {
			fmt.Fprintln(os.Stderr, "extract:", err)
			os.Exit(1)
		}
		files["LockFacts.lean"] = lf
	}
	if *withSites {
		of, err := orderFactsLean(*repo)
		if err != nil {
			fmt.Fprintln(os.Stderr, "extract:", err)
			os.Exit(1)
		}
		files["OrderFacts.lean"] = of
	}
	if !*withSites {
	} else if pf, err := panicFactsLean(*repo); err != nil {
		fmt.Fprintln(os.Stderr, "extract:", err)
		os.Exit(1)
	} else {
		files["PanicFacts.lean"] = pf
	}
	for name, text := range files {
		if *out == "" {
			fmt.Printf("-- FILE %s\n%s", name, text)
			continue
		}
		path := filepath.Join(*out, name)
		old, _ := os.ReadFile(path)
		if string(old) != text {
			if err := os.WriteFile(path, []byte(text), 0o644); err != nil {
				fmt.Fprintln(os.Stderr, "extract:", err)
				os.Exit(1)
			}
			fmt.Println("changed", name)
		}
	}
}
