package main

// Facts for Model/Race.lean: which handshake state is in force while a handler of ship.ShipConnection is inside a
// transport write that is followed, on the same control path, by a state assignment that does not read the state
// again ("window": the assignment overwrites whatever another goroutine did during the write), and which states the
// user calls AbortPendingHandshake / ApprovePendingHandshake act in.
//
// The walk is path sensitive over the statement structure (if / switch branches separately, return ends a path) and
// inlines the handshake* helpers; anything it cannot follow yields the state 999, which no obligation accepts.

import (
	"fmt"
	"go/ast"
	"go/token"
	"os"
	"path/filepath"
	"sort"
	"strings"
)

const raceUnknown = 999

type rstate struct {
	cur      int // state in force (the last assignment on this path, or the dispatch state)
	wrotePre int // >= 0: a write happened on this path while that state was in force and no assignment followed yet
}

type raceWalk struct {
	vals    map[string]int
	funcs   map[string]*ast.FuncDecl
	windows map[[2]int]bool
	depth   int
}

func (w *raceWalk) stateArg(e ast.Expr) int {
	if v, ok := w.vals[sel(e)]; ok {
		return v
	}
	return raceUnknown
}

func dedupe(in []rstate) []rstate {
	seen := map[rstate]bool{}
	var out []rstate
	for _, s := range in {
		if !seen[s] {
			seen[s] = true
			out = append(out, s)
		}
	}
	return out
}

// calls of a simple statement / expression in source order, not descending into function literals
func callsIn(n ast.Node) []*ast.CallExpr {
	var cs []*ast.CallExpr
	if n == nil {
		return nil
	}
	ast.Inspect(n, func(x ast.Node) bool {
		switch y := x.(type) {
		case *ast.FuncLit:
			return false
		case *ast.CallExpr:
			// arguments first (they are evaluated before the call)
			for _, a := range y.Args {
				cs = append(cs, callsIn(a)...)
			}
			cs = append(cs, y)
			return false
		}
		return true
	})
	return cs
}

func (w *raceWalk) call(c *ast.CallExpr, in []rstate) []rstate {
	name := sel(c.Fun)
	var out []rstate
	switch {
	case name == "sendShipModel" || name == "WriteMessageToWebsocketConnection":
		for _, s := range in {
			if s.wrotePre < 0 {
				s.wrotePre = s.cur
			}
			out = append(out, s)
		}
	case name == "setState" || name == "setAndHandleState" || name == "endHandshakeWithError":
		x := 39
		if name != "endHandshakeWithError" {
			x = raceUnknown
			if len(c.Args) > 0 {
				x = w.stateArg(c.Args[0])
			}
		}
		for _, s := range in {
			if s.wrotePre >= 0 {
				w.windows[[2]int{s.wrotePre, x}] = true
			}
			if name == "setState" || name == "endHandshakeWithError" {
				out = append(out, rstate{cur: x, wrotePre: -1})
			} else {
				// the handlers of the new state ran: whatever is in force now was put there by them
				out = append(out, rstate{cur: raceUnknown, wrotePre: -1})
			}
		}
	case name == "handleState":
		for range in {
			out = append(out, rstate{cur: raceUnknown, wrotePre: -1})
		}
	case strings.HasPrefix(name, "handshake") || name == "abortProtocolHandshake" || name == "approveHandshake":
		fd := w.funcs[name]
		if fd == nil || fd.Body == nil || w.depth > 5 {
			for range in {
				out = append(out, rstate{cur: raceUnknown, wrotePre: raceUnknown})
			}
			break
		}
		w.depth++
		done, ret := w.block(fd.Body.List, in)
		w.depth--
		out = append(done, ret...)
	default:
		out = in
	}
	return dedupe(out)
}

func (w *raceWalk) simple(n ast.Node, in []rstate) []rstate {
	for _, c := range callsIn(n) {
		in = w.call(c, in)
	}
	return in
}

// block walks a statement list: states that fall out of its end, and states that left through return
func (w *raceWalk) block(list []ast.Stmt, in []rstate) (fall, ret []rstate) {
	cur := in
	for _, st := range list {
		if len(cur) == 0 {
			break
		}
		switch s := st.(type) {
		case *ast.ReturnStmt:
			cur = w.simple(s, cur)
			ret = append(ret, cur...)
			cur = nil
		case *ast.IfStmt:
			var chain func(s *ast.IfStmt, in []rstate) (fall, ret []rstate)
			chain = func(s *ast.IfStmt, in []rstate) (fall, ret []rstate) {
				in = w.simple(s.Init, in)
				in = w.simple(s.Cond, in)
				f1, r1 := w.block(s.Body.List, in)
				fall, ret = f1, r1
				switch e := s.Else.(type) {
				case nil:
					fall = append(fall, in...)
				case *ast.BlockStmt:
					f2, r2 := w.block(e.List, in)
					fall, ret = append(fall, f2...), append(ret, r2...)
				case *ast.IfStmt:
					f2, r2 := chain(e, in)
					fall, ret = append(fall, f2...), append(ret, r2...)
				}
				return
			}
			f, r := chain(s, cur)
			cur, ret = dedupe(f), append(ret, r...)
		case *ast.SwitchStmt:
			cur = w.simple(s.Init, cur)
			cur = w.simple(s.Tag, cur)
			var f []rstate
			hasDefault := false
			for _, cc := range s.Body.List {
				cl := cc.(*ast.CaseClause)
				if cl.List == nil {
					hasDefault = true
				}
				in2 := cur
				for _, e := range cl.List {
					in2 = w.simple(e, in2)
				}
				f2, r2 := w.block(cl.Body, in2)
				f, ret = append(f, f2...), append(ret, r2...)
			}
			if !hasDefault {
				f = append(f, cur...)
			}
			cur = dedupe(f)
		case *ast.BlockStmt:
			f, r := w.block(s.List, cur)
			cur, ret = f, append(ret, r...)
		case *ast.GoStmt, *ast.DeferStmt:
			// another goroutine / the end of the function: not part of this path
		case *ast.ForStmt, *ast.RangeStmt, *ast.SelectStmt, *ast.TypeSwitchStmt, *ast.LabeledStmt, *ast.BranchStmt:
			// not followed: everything after is unknown
			var u []rstate
			for range cur {
				u = append(u, rstate{cur: raceUnknown, wrotePre: raceUnknown})
			}
			cur = dedupe(u)
		default:
			cur = w.simple(st, cur)
		}
	}
	return dedupe(cur), dedupe(ret)
}

// userStates: the states a user call acts in, from its leading `if state != A && state != B { return }`
func userStates(fd *ast.FuncDecl, vals map[string]int) []int {
	if fd == nil || fd.Body == nil {
		return []int{raceUnknown}
	}
	for _, st := range fd.Body.List {
		if sw, ok := st.(*ast.SwitchStmt); ok {
			// switch <state> { case A, B: (nothing) default: return }
			var out []int
			good, defReturns := true, false
			for _, cc := range sw.Body.List {
				cl := cc.(*ast.CaseClause)
				if cl.List == nil {
					for _, s := range cl.Body {
						if _, ok := s.(*ast.ReturnStmt); ok {
							defReturns = true
						}
					}
					continue
				}
				if len(cl.Body) != 0 {
					good = false
				}
				for _, e := range cl.List {
					if v, ok := vals[sel(e)]; ok {
						out = append(out, v)
					} else {
						good = false
					}
				}
			}
			if good && defReturns && len(out) > 0 {
				sort.Ints(out)
				return out
			}
			return []int{raceUnknown}
		}
		is, ok := st.(*ast.IfStmt)
		if !ok {
			continue
		}
		var out []int
		good := true
		var conj func(e ast.Expr)
		conj = func(e ast.Expr) {
			b, ok := e.(*ast.BinaryExpr)
			if !ok {
				good = false
				return
			}
			switch b.Op {
			case token.LAND:
				conj(b.X)
				conj(b.Y)
			case token.NEQ:
				if v, ok := vals[sel(b.Y)]; ok && sel(b.X) == "state" {
					out = append(out, v)
				} else {
					good = false
				}
			default:
				good = false
			}
		}
		conj(is.Cond)
		returns := false
		for _, s := range is.Body.List {
			if _, ok := s.(*ast.ReturnStmt); ok {
				returns = true
			}
		}
		if good && returns && len(out) > 0 {
			sort.Ints(out)
			return out
		}
		return []int{raceUnknown}
	}
	return []int{raceUnknown}
}

func raceFactsLean(repo string, vals map[string]int) string {
	funcs := map[string]*ast.FuncDecl{}
	ents, err := os.ReadDir(filepath.Join(repo, "ship"))
	if err != nil {
		fmt.Fprintln(os.Stderr, "extract:", err)
		os.Exit(1)
	}
	for _, e := range ents {
		n := e.Name()
		if !strings.HasSuffix(n, ".go") || strings.HasSuffix(n, "_test.go") || strings.HasPrefix(n, "verif_") {
			continue
		}
		f := parse(repo, "ship/"+n)
		for _, d := range f.Decls {
			if fd, ok := d.(*ast.FuncDecl); ok && fd.Recv != nil {
				funcs[fd.Name.Name] = fd
			}
		}
	}
	w := &raceWalk{vals: vals, funcs: funcs, windows: map[[2]int]bool{}}
	// the dispatch: every case of the switch in handleState, entered with its state(s) in force
	hs := funcs["handleState"]
	dispatched := 0
	if hs != nil {
		ast.Inspect(hs.Body, func(n ast.Node) bool {
			sw, ok := n.(*ast.SwitchStmt)
			if !ok {
				return true
			}
			for _, cc := range sw.Body.List {
				cl := cc.(*ast.CaseClause)
				for _, e := range cl.List {
					if v, ok := vals[sel(e)]; ok {
						dispatched++
						w.block(cl.Body, []rstate{{cur: v, wrotePre: -1}})
					}
				}
			}
			return false
		})
	}
	if dispatched == 0 {
		w.windows[[2]int{raceUnknown, raceUnknown}] = true
	}
	var ws [][2]int
	for k := range w.windows {
		ws = append(ws, k)
	}
	sort.Slice(ws, func(i, j int) bool { return ws[i][0] < ws[j][0] || (ws[i][0] == ws[j][0] && ws[i][1] < ws[j][1]) })
	var sb strings.Builder
	sb.WriteString("/- GENERATED by /verif/extract from /repo — do not edit. -/\nimport ShipVerif.Model.Race\nnamespace ShipVerif.Generated\n\n")
	sb.WriteString("/-- ship/handshake.go handleState + ship/hs_*.go: (state in force during a transport write, state assigned afterwards without reading it again);\n    ship/connection.go: the states AbortPendingHandshake / ApprovePendingHandshake act in (999 = not recognised) -/\n")
	sb.WriteString("def raceCfg : ShipVerif.Race.Cfg := {\n  windows := [")
	for i, k := range ws {
		if i > 0 {
			sb.WriteString(", ")
		}
		fmt.Fprintf(&sb, "(%d, %d)", k[0], k[1])
	}
	nat := func(xs []int) string {
		var p []string
		for _, x := range xs {
			p = append(p, fmt.Sprint(x))
		}
		return "[" + strings.Join(p, ", ") + "]"
	}
	fmt.Fprintf(&sb, "],\n  abortStates := %s,\n  approveStates := %s }\n\n", nat(userStates(funcs["AbortPendingHandshake"], vals)), nat(userStates(funcs["ApprovePendingHandshake"], vals)))
	// where the ready branch of hello is entered, and under which condition in the dispatch
	isReadyInit := func(c *ast.CallExpr) bool {
		n := sel(c.Fun)
		return (n == "setState" || n == "setAndHandleState") && len(c.Args) > 0 && sel(c.Args[0]) == "SmeHelloStateReadyInit"
	}
	var sites []string
	for name, fd := range funcs {
		found := false
		ast.Inspect(fd, func(n ast.Node) bool {
			if c, ok := n.(*ast.CallExpr); ok && isReadyInit(c) {
				found = true
			}
			return true
		})
		if found {
			sites = append(sites, name)
		}
	}
	sort.Strings(sites)
	guard := map[string]bool{}
	if hs != nil {
		ast.Inspect(hs, func(n ast.Node) bool {
			is, ok := n.(*ast.IfStmt)
			if !ok {
				return true
			}
			in := false
			for _, st := range is.Body.List {
				if es, ok := st.(*ast.ExprStmt); ok {
					if c, ok := es.X.(*ast.CallExpr); ok && isReadyInit(c) {
						in = true
					}
				}
			}
			if !in {
				return true
			}
			ast.Inspect(is.Cond, func(m ast.Node) bool {
				switch x := m.(type) {
				case *ast.CallExpr:
					guard[sel(x.Fun)] = true
				case *ast.Ident:
					if strings.HasPrefix(x.Name, "ShipRole") {
						guard[x.Name] = true
					}
				case *ast.BinaryExpr:
					if x.Op != token.LOR && x.Op != token.EQL {
						guard["OTHER-OPERATOR "+x.Op.String()] = true
					}
				case *ast.UnaryExpr:
					guard["OTHER-OPERATOR "+x.Op.String()] = true
				}
				return true
			})
			return true
		})
	}
	var gs []string
	for k := range guard {
		gs = append(gs, k)
	}
	sort.Strings(gs)
	strs := func(xs []string) string {
		var p []string
		for _, x := range xs {
			p = append(p, leanStr(x))
		}
		return "[" + strings.Join(p, ", ") + "]"
	}
	fmt.Fprintf(&sb, "/-- the functions of package ship that assign SmeHelloStateReadyInit -/\ndef readyInitSites : List String := %s\n\n/-- handleState: what the condition of the branch that assigns SmeHelloStateReadyInit consists of (calls, role constants; anything but `||` and `==` is listed as OTHER-OPERATOR) -/\ndef readyInitGuard : List String := %s\n\nend ShipVerif.Generated\n", strs(sites), strs(gs))
	return sb.String()
}

// notifyFactsLean: hub/hub.go deliverPairingNotifications - is the "delivery active" mark cleared inside the critical
// section that finds the queue empty (between Lock and Unlock, in the branch of `len(queue) == 0`, no deferred code)?
func notifyFactsLean(repo string) string {
	f := parse(repo, "hub/hub.go")
	fd := funcDecl(f, "deliverPairingNotifications")
	clear := false
	if fd != nil && fd.Body != nil {
		hasDefer := false
		clears := 0
		ast.Inspect(fd.Body, func(n ast.Node) bool {
			switch x := n.(type) {
			case *ast.DeferStmt:
				hasDefer = true
			case *ast.AssignStmt:
				if len(x.Lhs) == 1 && sel(x.Lhs[0]) == "pairingNotificationsActive" {
					clears++
				}
			}
			return true
		})
		inSection := false
		ast.Inspect(fd.Body, func(n ast.Node) bool {
			is, ok := n.(*ast.IfStmt)
			if !ok {
				return true
			}
			b, ok := is.Cond.(*ast.BinaryExpr)
			if !ok || b.Op != token.EQL || lit(b.Y) != "0" {
				return true
			}
			c, ok := b.X.(*ast.CallExpr)
			if !ok || sel(c.Fun) != "len" || len(c.Args) != 1 || sel(c.Args[0]) != "pairingNotifications" {
				return true
			}
			// within the branch: the assignment of false must come before the Unlock call
			state := 0 // 0: nothing yet, 1: cleared, 2: cleared then unlocked
			for _, st := range is.Body.List {
				switch x := st.(type) {
				case *ast.AssignStmt:
					if len(x.Lhs) == 1 && sel(x.Lhs[0]) == "pairingNotificationsActive" && len(x.Rhs) == 1 && sel(x.Rhs[0]) == "false" && state == 0 {
						state = 1
					}
				case *ast.ExprStmt:
					if c, ok := x.X.(*ast.CallExpr); ok && sel(c.Fun) == "Unlock" {
						if state == 1 {
							state = 2
						} else {
							state = -1
						}
					}
				}
			}
			if state == 2 {
				inSection = true
			}
			return true
		})
		clear = inSection && !hasDefer && clears == 1
	}
	return fmt.Sprintf("/- GENERATED by /verif/extract from /repo — do not edit. -/\nimport ShipVerif.Model.Notify\nnamespace ShipVerif.Generated\n\n/-- hub/hub.go deliverPairingNotifications: the \"delivery active\" mark is cleared (once, not in deferred code) in the critical section that finds the queue empty -/\ndef notifyCfg : ShipVerif.Notify.Cfg := { clearInSection := %v }\n\nend ShipVerif.Generated\n", clear)
}
