module verif/extract

go 1.22.0
