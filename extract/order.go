package main

// Lock-order facts (C08 / C12: no wedge): which lock may be acquired while which other lock is held, per package
// (ws, ship, hub, mdns), computed with may-hold sets. sync.Once.Do(f) counts as a lock held for the body of f; a
// goroutine that waits for a channel to be closed while it holds locks depends on whoever closes it, and the closer
// depends on every lock it has to take before it gets there: both are edges through a node "sig:<channel field>".
// Calls of function-typed values are taken to reach any function literal of the package that is passed as an argument.
// The extractor also looks for a ranking of the nodes that every edge respects; Lean re-checks the ranking.

import (
	"fmt"
	"go/ast"
	"go/importer"
	"go/parser"
	"go/token"
	"go/types"
	"os"
	"path/filepath"
	"sort"
	"strings"
)

type orderPkg struct {
	name    string
	info    *types.Info
	tpkg    *types.Package
	decls   map[*types.Func]*ast.FuncDecl
	acq     map[*types.Func]map[string]bool
	argLits []*ast.FuncLit
	litAcq  map[string]bool
	edges   map[[2]string]string // edge -> where
	lp      *lockPkg
	closedChans map[string]bool
}

func isOnceType(t types.Type) bool {
	s := t.String()
	return s == "sync.Once" || s == "*sync.Once"
}

func (p *orderPkg) key(sel *ast.SelectorExpr) string {
	k, _ := p.lp.fieldKey(sel, p.tpkg)
	return k
}

// (key, +1 / -1) for mutex operations, ("once:key", 2) for once.Do
func (p *orderPkg) lockCall(c *ast.CallExpr) (string, int) {
	sel, ok := c.Fun.(*ast.SelectorExpr)
	if !ok {
		return "", 0
	}
	inner, ok := sel.X.(*ast.SelectorExpr)
	if !ok {
		return "", 0
	}
	tv, ok := p.info.Types[inner]
	if !ok {
		return "", 0
	}
	switch sel.Sel.Name {
	case "Lock", "RLock":
		if isMutexType(tv.Type) {
			return p.key(inner), 1
		}
	case "Unlock", "RUnlock":
		if isMutexType(tv.Type) {
			return p.key(inner), -1
		}
	case "Do":
		if isOnceType(tv.Type) {
			return "once:" + p.key(inner), 2
		}
	}
	return "", 0
}

type orderWalk struct {
	p        *orderPkg
	decl     *types.Func // the declared function this code belongs to
	fn       string
	record   bool            // record edges (second phase) or only collect acquisitions
	acquired map[string]bool // everything this body has acquired so far (for signal edges and acq sets)
}

func (w *orderWalk) detached() *orderWalk {
	return &orderWalk{p: w.p, decl: w.decl, fn: w.fn, record: w.record, acquired: map[string]bool{}}
}

func (w *orderWalk) edge(a, b string) {
	if !w.record || a == "" || b == "" || strings.HasSuffix(a, ":") || strings.HasSuffix(b, ":") {
		return
	}
	k := [2]string{a, b}
	if old, ok := w.p.edges[k]; !ok || w.fn < old {
		w.p.edges[k] = w.fn // the smallest name: the output must not depend on the order of traversal
	}
}

func (w *orderWalk) acquire(held map[string]bool, k string) {
	for h := range held {
		w.edge(h, k)
	}
	w.acquired[k] = true
}

func (w *orderWalk) calleeAcq(c *ast.CallExpr) map[string]bool {
	var o types.Object
	switch f := c.Fun.(type) {
	case *ast.Ident:
		o = w.p.info.Uses[f]
	case *ast.SelectorExpr:
		o = w.p.info.Uses[f.Sel]
	}
	if fo, ok := o.(*types.Func); ok {
		if _, ok := w.p.decls[fo]; ok {
			return w.p.acq[fo]
		}
		return nil
	}
	// a call of a function-typed variable, parameter or field
	if v, ok := o.(*types.Var); ok {
		if _, isSig := v.Type().Underlying().(*types.Signature); isSig {
			return w.p.litAcq
		}
	}
	return nil
}

func (w *orderWalk) expr(n ast.Node, held map[string]bool) {
	if n == nil {
		return
	}
	ast.Inspect(n, func(x ast.Node) bool {
		switch v := x.(type) {
		case *ast.FuncLit:
			// a literal that is not run here (it is stored or passed on): its own locks start from nothing held and
			// are not acquisitions of this body
			w.detached().block(v.Body, map[string]bool{})
			return false
		case *ast.CallExpr:
			if k, op := w.p.lockCall(v); op == 2 {
				w.acquire(held, k)
				h2 := copySet(held)
				h2[k] = true
				if len(v.Args) == 1 {
					if lit, ok := v.Args[0].(*ast.FuncLit); ok {
						w.block(lit.Body, h2)
					} else {
						for a := range w.calleeAcq(&ast.CallExpr{Fun: v.Args[0]}) {
							w.acquire(h2, a)
						}
					}
				}
				return false
			}
			if sel(v.Fun) == "close" && len(v.Args) == 1 {
				if s, ok := v.Args[0].(*ast.SelectorExpr); ok {
					sig := "sig:" + w.p.key(s)
					// the signal is produced only after everything acquired before it was acquired, and with what is held
					for a := range w.acquired {
						w.edge(sig, a)
					}
					for h := range held {
						w.edge(sig, h)
					}
				}
			}
			for a := range w.calleeAcq(v) {
				w.acquire(held, a)
			}
		case *ast.UnaryExpr:
			// <-x.ch while holding locks: waits for a send or the close of that channel
			if v.Op == token.ARROW {
				if s, ok := v.X.(*ast.SelectorExpr); ok {
					if w.p.closedChans[w.p.key(s)] {
						for h := range held {
							w.edge(h, "sig:"+w.p.key(s))
						}
					}
					// whoever sends on this channel waits for this function to come (back) to the receive: that takes
					// every lock the function may acquire
					if w.decl != nil {
						for a := range w.p.acq[w.decl] {
							w.edge("recv:"+w.p.key(s), a)
						}
					}
				}
			}
		}
		return true
	})
}

func (w *orderWalk) block(b *ast.BlockStmt, held map[string]bool) map[string]bool {
	if b == nil {
		return held
	}
	for _, s := range b.List {
		held = w.stmt(s, held)
	}
	return held
}

func union(a, b map[string]bool) map[string]bool {
	r := copySet(a)
	for k := range b {
		r[k] = true
	}
	return r
}

func (w *orderWalk) stmt(s ast.Stmt, held map[string]bool) map[string]bool {
	switch x := s.(type) {
	case nil:
	case *ast.ExprStmt:
		if c, ok := x.X.(*ast.CallExpr); ok {
			if k, op := w.p.lockCall(c); op == 1 {
				w.acquire(held, k)
				held = copySet(held)
				held[k] = true
				return held
			} else if op == -1 {
				held = copySet(held)
				delete(held, k)
				return held
			}
		}
		w.expr(x.X, held)
	case *ast.DeferStmt:
		if _, op := w.p.lockCall(x.Call); op == -1 {
			return held
		}
		if lit, ok := x.Call.Fun.(*ast.FuncLit); ok {
			w.block(lit.Body, held)
		} else {
			w.expr(x.Call, held)
		}
	case *ast.GoStmt:
		// another goroutine: nothing held, and what it acquires is not acquired by this body
		if lit, ok := x.Call.Fun.(*ast.FuncLit); ok {
			w.detached().block(lit.Body, map[string]bool{})
		} else {
			w.detached().expr(x.Call, map[string]bool{})
		}
	case *ast.BlockStmt:
		return w.block(x, held)
	case *ast.IfStmt:
		held = w.stmt(x.Init, held)
		w.expr(x.Cond, held)
		a := w.block(x.Body, held)
		b := held
		if x.Else != nil {
			b = w.stmt(x.Else, held)
		}
		return union(a, b)
	case *ast.ForStmt:
		held = w.stmt(x.Init, held)
		w.expr(x.Cond, held)
		r := w.block(x.Body, held)
		w.stmt(x.Post, r)
		return union(held, r)
	case *ast.RangeStmt:
		w.expr(x.X, held)
		return union(held, w.block(x.Body, held))
	case *ast.SwitchStmt:
		held = w.stmt(x.Init, held)
		w.expr(x.Tag, held)
		r := held
		for _, c := range x.Body.List {
			cc := c.(*ast.CaseClause)
			h := held
			for _, st := range cc.Body {
				h = w.stmt(st, h)
			}
			r = union(r, h)
		}
		return r
	case *ast.TypeSwitchStmt:
		r := held
		for _, c := range x.Body.List {
			cc := c.(*ast.CaseClause)
			h := held
			for _, st := range cc.Body {
				h = w.stmt(st, h)
			}
			r = union(r, h)
		}
		return r
	case *ast.SelectStmt:
		r := held
		for _, c := range x.Body.List {
			cc := c.(*ast.CommClause)
			h := held
			if cc.Comm != nil {
				h = w.stmt(cc.Comm, h)
			}
			for _, st := range cc.Body {
				h = w.stmt(st, h)
			}
			r = union(r, h)
		}
		return r
	case *ast.AssignStmt:
		for _, e := range x.Rhs {
			w.expr(e, held)
		}
		for _, e := range x.Lhs {
			w.expr(e, held)
		}
	case *ast.ReturnStmt:
		for _, e := range x.Results {
			w.expr(e, held)
		}
	case *ast.SendStmt:
		// a send while locks are held waits for the receiver
		if s, ok := x.Chan.(*ast.SelectorExpr); ok {
			for h := range held {
				w.edge(h, "recv:"+w.p.key(s))
			}
		}
		w.expr(x.Chan, held)
		w.expr(x.Value, held)
	case *ast.DeclStmt, *ast.IncDecStmt, *ast.BranchStmt, *ast.EmptyStmt:
	case *ast.LabeledStmt:
		return w.stmt(x.Stmt, held)
	default:
		w.expr(s, held)
	}
	return held
}

func orderFacts(repo string, pkgs []string) (edges [][3]string, err error) {
	_ = os.Setenv("GOFLAGS", "-mod=mod")
	_ = os.Setenv("GOPROXY", "off")
	_ = os.Setenv("GOSUMDB", "off")
	_ = os.Setenv("GOTOOLCHAIN", "local")
	old, _ := os.Getwd()
	defer func() { _ = os.Chdir(old) }()
	if err := os.Chdir(repo); err != nil {
		return nil, err
	}
	fs := token.NewFileSet()
	imp := importer.ForCompiler(fs, "source", nil)
	for _, pn := range pkgs {
		parsed, perr := parser.ParseDir(fs, filepath.Join(repo, pn), func(fi os.FileInfo) bool {
			return !strings.HasSuffix(fi.Name(), "_test.go") && !strings.HasPrefix(fi.Name(), "verif_")
		}, 0)
		if perr != nil {
			return nil, perr
		}
		for name, pk := range parsed {
			var files []*ast.File
			var names []string
			for fn := range pk.Files {
				names = append(names, fn)
			}
			sort.Strings(names)
			for _, fn := range names {
				files = append(files, pk.Files[fn])
			}
			var terr error
			conf := types.Config{Importer: imp, Error: func(e error) {
				if terr == nil {
					terr = e
				}
			}}
			info := &types.Info{Types: map[ast.Expr]types.TypeAndValue{}, Selections: map[*ast.SelectorExpr]*types.Selection{},
				Uses: map[*ast.Ident]types.Object{}, Defs: map[*ast.Ident]types.Object{}}
			tpkg, _ := conf.Check(name, fs, files, info)
			if terr != nil {
				return nil, fmt.Errorf("type check %s: %v", pn, terr)
			}
			p := &orderPkg{name: pn, info: info, tpkg: tpkg, decls: map[*types.Func]*ast.FuncDecl{}, acq: map[*types.Func]map[string]bool{},
				litAcq: map[string]bool{}, edges: map[[2]string]string{}, closedChans: map[string]bool{},
				lp: &lockPkg{fs: fs, info: info, files: files}}
			for _, f := range files {
				for _, d := range f.Decls {
					if fd, ok := d.(*ast.FuncDecl); ok && fd.Body != nil {
						if o, ok := info.Defs[fd.Name].(*types.Func); ok {
							p.decls[o] = fd
							p.acq[o] = map[string]bool{}
						}
					}
				}
				// function literals passed as arguments (not to once.Do), channels that are closed somewhere
				ast.Inspect(f, func(x ast.Node) bool {
					if c, ok := x.(*ast.CallExpr); ok {
						if _, op := p.lockCall(c); op != 2 {
							for _, a := range c.Args {
								if lit, ok := a.(*ast.FuncLit); ok {
									p.argLits = append(p.argLits, lit)
								}
							}
						}
						if sel(c.Fun) == "close" && len(c.Args) == 1 {
							if s, ok := c.Args[0].(*ast.SelectorExpr); ok {
								p.closedChans[p.key(s)] = true
							}
						}
					}
					return true
				})
			}
			// fixpoint of what a function (and the argument literals) may acquire
			for iter := 0; iter < 15; iter++ {
				changed := false
				for o, fd := range p.decls {
					w := &orderWalk{p: p, decl: o, fn: recvName(fs, fd), acquired: map[string]bool{}}
					w.block(fd.Body, map[string]bool{})
					for k := range w.acquired {
						if !p.acq[o][k] {
							p.acq[o][k] = true
							changed = true
						}
					}
				}
				for _, lit := range p.argLits {
					w := &orderWalk{p: p, fn: "func literal", acquired: map[string]bool{}}
					w.block(lit.Body, map[string]bool{})
					for k := range w.acquired {
						if !p.litAcq[k] {
							p.litAcq[k] = true
							changed = true
						}
					}
				}
				if !changed {
					break
				}
			}
			for o, fd := range p.decls {
				w := &orderWalk{p: p, decl: o, fn: recvName(fs, fd), record: true, acquired: map[string]bool{}}
				w.block(fd.Body, map[string]bool{})
			}
			for e, where := range p.edges {
				edges = append(edges, [3]string{e[0], e[1], where})
			}
		}
	}
	sort.Slice(edges, func(i, j int) bool {
		if edges[i][0] != edges[j][0] {
			return edges[i][0] < edges[j][0]
		}
		return edges[i][1] < edges[j][1]
	})
	return edges, nil
}

// a ranking every edge respects (Kahn); nodes on a cycle all get the same rank, which Lean then refuses
func rankNodes(edges [][3]string) (map[string]int, []string) {
	nodes := map[string]bool{}
	indeg := map[string]int{}
	out := map[string][]string{}
	for _, e := range edges {
		nodes[e[0]], nodes[e[1]] = true, true
		out[e[0]] = append(out[e[0]], e[1])
		indeg[e[1]]++
	}
	rank := map[string]int{}
	var queue []string
	for n := range nodes {
		if indeg[n] == 0 {
			queue = append(queue, n)
		}
	}
	sort.Strings(queue)
	for len(queue) > 0 {
		n := queue[0]
		queue = queue[1:]
		for _, m := range out[n] {
			if rank[m] < rank[n]+1 {
				rank[m] = rank[n] + 1
			}
			indeg[m]--
			if indeg[m] == 0 {
				queue = append(queue, m)
			}
		}
	}
	var cyc []string
	for n := range nodes {
		if indeg[n] > 0 {
			cyc = append(cyc, n)
			rank[n] = 0
		}
	}
	sort.Strings(cyc)
	return rank, cyc
}

func orderFactsLean(repo string) (string, error) {
	edges, err := orderFacts(repo, []string{"ws", "ship", "hub", "mdns"})
	if err != nil {
		return "", err
	}
	rank, cyc := rankNodes(edges)
	var sb strings.Builder
	sb.WriteString("/- GENERATED by /verif/extract from /repo — do not edit. -/\nimport ShipVerif.Model.LockOrder\nnamespace ShipVerif.Generated\n\n")
	sb.WriteString("/-- (held, acquired, function): `acquired` may be taken, waited for or depended on while `held` is held; packages ws, ship, hub, mdns -/\ndef lockEdges : List (String × String × String) := [\n")
	for i, e := range edges {
		if i > 0 {
			sb.WriteString(",\n")
		}
		fmt.Fprintf(&sb, "  (%s, %s, %s)", leanStr(e[0]), leanStr(e[1]), leanStr(e[2]))
	}
	sb.WriteString("\n]\n\n/-- a ranking found by the extractor (untrusted; re-checked by `lockOrder_ranked`) -/\ndef lockRank : List (String × Nat) := [\n")
	var ns []string
	for n := range rank {
		ns = append(ns, n)
	}
	sort.Strings(ns)
	for i, n := range ns {
		if i > 0 {
			sb.WriteString(",\n")
		}
		fmt.Fprintf(&sb, "  (%s, %d)", leanStr(n), rank[n])
	}
	sb.WriteString("\n]\n\n/-- nodes the extractor could not rank (they lie on or behind a cycle) -/\ndef lockCycle : List String := [")
	for i, n := range cyc {
		if i > 0 {
			sb.WriteString(", ")
		}
		sb.WriteString(leanStr(n))
	}
	sb.WriteString("]\n\nend ShipVerif.Generated\n")
	return sb.String(), nil
}
