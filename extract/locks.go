package main

// Lockset facts (C20): for every field of the library's shared structures, every access outside constructors with
// the set of mutexes held at that point. Held sets are computed per function by walking the statements
// (x.mu.Lock() / x.mu.Unlock() / defer x.mu.Unlock(), RLock likewise); a function that is only called from
// inside the package starts with the intersection of the sets held at its call sites (fixpoint); exported
// functions, goroutine bodies and function literals start with nothing held.

import (
	"fmt"
	"go/ast"
	"go/importer"
	"go/parser"
	"go/token"
	"go/types"
	"os"
	"path/filepath"
	"sort"
	"strings"
)

type access struct {
	field string // Type.field
	fn    string
	write bool
	locks []string // Type.mutexfield
}

type lockPkg struct {
	fs    *token.FileSet
	info  *types.Info
	files []*ast.File
	decls map[*types.Func]*ast.FuncDecl
	entry map[*types.Func]map[string]bool // locks held at entry (nil = not yet known / top)
	ctor  map[*types.Func]bool
}

func namedOf(t types.Type) *types.Named {
	for {
		switch x := t.(type) {
		case *types.Pointer:
			t = x.Elem()
		case *types.Named:
			return x
		default:
			return nil
		}
	}
}

func isMutexType(t types.Type) bool {
	s := t.String()
	return s == "sync.Mutex" || s == "sync.RWMutex" || s == "*sync.Mutex" || s == "*sync.RWMutex"
}

func isSelfSyncType(t types.Type) bool {
	s := t.String()
	if strings.HasPrefix(s, "sync.") || strings.HasPrefix(s, "*sync.") || strings.HasPrefix(s, "sync/atomic.") || strings.HasPrefix(s, "atomic.") {
		return true
	}
	if _, ok := t.Underlying().(*types.Chan); ok {
		return true
	}
	return false
}

// "Type.field" for a selector whose base is a struct of this package, else ""
func (p *lockPkg) fieldKey(sel *ast.SelectorExpr, pkg *types.Package) (string, *types.Var) {
	s, ok := p.info.Selections[sel]
	if !ok || s.Kind() != types.FieldVal {
		return "", nil
	}
	v, ok := s.Obj().(*types.Var)
	if !ok || v.Pkg() != pkg {
		return "", nil
	}
	n := namedOf(s.Recv())
	if n == nil || n.Obj().Pkg() != pkg {
		return "", nil
	}
	return n.Obj().Name() + "." + v.Name(), v
}

func copySet(m map[string]bool) map[string]bool {
	r := map[string]bool{}
	for k := range m {
		r[k] = true
	}
	return r
}

func intersect(a, b map[string]bool) map[string]bool {
	if a == nil {
		return copySet(b)
	}
	r := map[string]bool{}
	for k := range a {
		if b[k] {
			r[k] = true
		}
	}
	return r
}

type lockWalker struct {
	p        *lockPkg
	pkg      *types.Package
	fn       string
	out      *[]access
	calls    func(callee *types.Func, held map[string]bool)
	inCtor   bool
	deferred []string
}

// lock operation on a mutex field: returns (key, +1 lock / -1 unlock)
func (w *lockWalker) lockOp(c *ast.CallExpr) (string, int) {
	sel, ok := c.Fun.(*ast.SelectorExpr)
	if !ok {
		return "", 0
	}
	op := 0
	switch sel.Sel.Name {
	case "Lock", "RLock":
		op = 1
	case "Unlock", "RUnlock":
		op = -1
	default:
		return "", 0
	}
	inner, ok := sel.X.(*ast.SelectorExpr)
	if !ok {
		return "", 0
	}
	if tv, ok := w.p.info.Types[inner]; !ok || !isMutexType(tv.Type) {
		return "", 0
	}
	key, _ := w.p.fieldKey(inner, w.pkg)
	return key, op
}

func (w *lockWalker) record(sel *ast.SelectorExpr, write bool, held map[string]bool) {
	key, v := w.p.fieldKey(sel, w.pkg)
	if key == "" || w.inCtor {
		return
	}
	if isMutexType(v.Type()) || isSelfSyncType(v.Type()) {
		return
	}
	var ls []string
	for k := range held {
		ls = append(ls, k)
	}
	sort.Strings(ls)
	*w.out = append(*w.out, access{key, w.fn, write, ls})
}

// the field selector at the root of an lvalue (h.m[k], h.s.x, *h.p ...)
func rootSel(e ast.Expr) (*ast.SelectorExpr, bool) {
	direct := true
	for {
		switch x := e.(type) {
		case *ast.ParenExpr:
			e = x.X
		case *ast.IndexExpr:
			e = x.X
			direct = false
		case *ast.StarExpr:
			e = x.X
			direct = false
		case *ast.SelectorExpr:
			return x, direct
		default:
			return nil, false
		}
	}
}

func (w *lockWalker) expr(e ast.Node, held map[string]bool) {
	if e == nil {
		return
	}
	ast.Inspect(e, func(x ast.Node) bool {
		switch v := x.(type) {
		case *ast.FuncLit:
			// runs later (goroutine, callback, once body): nothing of the creator's locks is held for sure
			w.block(v.Body, map[string]bool{})
			return false
		case *ast.CallExpr:
			if key, op := w.lockOp(v); op != 0 && key != "" {
				return false
			}
			// delete(h.m, k) and append to a field are writes
			if id, ok := v.Fun.(*ast.Ident); ok && id.Name == "delete" && len(v.Args) == 2 {
				if sel, _ := rootSel(v.Args[0]); sel != nil {
					w.record(sel, true, held)
				}
			}
			if w.calls != nil {
				var o types.Object
				switch f := v.Fun.(type) {
				case *ast.Ident:
					o = w.p.info.Uses[f]
				case *ast.SelectorExpr:
					o = w.p.info.Uses[f.Sel]
				}
				if fo, ok := o.(*types.Func); ok {
					w.calls(fo, held)
				}
			}
		case *ast.SelectorExpr:
			w.record(v, false, held)
		}
		return true
	})
}

func (w *lockWalker) block(b *ast.BlockStmt, held map[string]bool) map[string]bool {
	if b == nil {
		return held
	}
	held = copySet(held)
	for _, s := range b.List {
		held = w.stmt(s, held)
	}
	return held
}

func (w *lockWalker) stmt(s ast.Stmt, held map[string]bool) map[string]bool {
	switch x := s.(type) {
	case nil:
	case *ast.ExprStmt:
		if c, ok := x.X.(*ast.CallExpr); ok {
			if key, op := w.lockOp(c); op != 0 && key != "" {
				held = copySet(held)
				if op > 0 {
					held[key] = true
				} else {
					delete(held, key)
				}
				return held
			}
		}
		w.expr(x.X, held)
	case *ast.DeferStmt:
		if key, op := w.lockOp(x.Call); op < 0 && key != "" {
			return held // stays held until the function returns
		}
		if lit, ok := x.Call.Fun.(*ast.FuncLit); ok {
			w.block(lit.Body, held)
		} else {
			w.expr(x.Call, held)
		}
	case *ast.GoStmt:
		if lit, ok := x.Call.Fun.(*ast.FuncLit); ok {
			w.block(lit.Body, map[string]bool{})
			for _, a := range x.Call.Args {
				w.expr(a, held)
			}
		} else {
			// `go h.f(x)`: the callee starts with nothing held; arguments are evaluated here
			saved := w.calls
			w.calls = func(callee *types.Func, _ map[string]bool) {
				if saved != nil {
					saved(callee, map[string]bool{})
				}
			}
			w.expr(x.Call.Fun, held)
			w.calls = saved
			for _, a := range x.Call.Args {
				w.expr(a, held)
			}
			if saved != nil {
				var o types.Object
				switch f := x.Call.Fun.(type) {
				case *ast.Ident:
					o = w.p.info.Uses[f]
				case *ast.SelectorExpr:
					o = w.p.info.Uses[f.Sel]
				}
				if fo, ok := o.(*types.Func); ok {
					saved(fo, map[string]bool{})
				}
			}
		}
	case *ast.AssignStmt:
		for _, l := range x.Lhs {
			if sel, direct := rootSel(l); sel != nil {
				_ = direct
				w.record(sel, true, held)
				// index / base expressions inside the lvalue are reads
				if ix, ok := l.(*ast.IndexExpr); ok {
					w.expr(ix.Index, held)
				}
				if sel.X != nil {
					w.expr(sel.X, held)
				}
			} else {
				w.expr(l, held)
			}
		}
		for _, r := range x.Rhs {
			w.expr(r, held)
		}
	case *ast.IncDecStmt:
		if sel, _ := rootSel(x.X); sel != nil {
			w.record(sel, true, held)
		} else {
			w.expr(x.X, held)
		}
	case *ast.ReturnStmt:
		for _, r := range x.Results {
			w.expr(r, held)
		}
	case *ast.BlockStmt:
		return w.block(x, held)
	case *ast.IfStmt:
		held = w.stmt(x.Init, held)
		w.expr(x.Cond, held)
		a := w.block(x.Body, held)
		b := held
		if x.Else != nil {
			b = w.stmt(x.Else, held)
		}
		// a branch that ends in return does not reach the join
		if terminates(x.Body) {
			return b
		}
		if eb, ok := x.Else.(*ast.BlockStmt); ok && terminates(eb) {
			return a
		}
		return intersect(a, b)
	case *ast.ForStmt:
		held = w.stmt(x.Init, held)
		w.expr(x.Cond, held)
		w.block(x.Body, held)
		w.stmt(x.Post, held)
	case *ast.RangeStmt:
		w.expr(x.X, held)
		w.block(x.Body, held)
	case *ast.SwitchStmt:
		held = w.stmt(x.Init, held)
		w.expr(x.Tag, held)
		for _, c := range x.Body.List {
			cc := c.(*ast.CaseClause)
			for _, e := range cc.List {
				w.expr(e, held)
			}
			h := copySet(held)
			for _, st := range cc.Body {
				h = w.stmt(st, h)
			}
		}
	case *ast.TypeSwitchStmt:
		held = w.stmt(x.Init, held)
		w.stmt(x.Assign, held)
		for _, c := range x.Body.List {
			cc := c.(*ast.CaseClause)
			h := copySet(held)
			for _, st := range cc.Body {
				h = w.stmt(st, h)
			}
		}
	case *ast.SelectStmt:
		for _, c := range x.Body.List {
			cc := c.(*ast.CommClause)
			h := w.stmt(cc.Comm, copySet(held))
			for _, st := range cc.Body {
				h = w.stmt(st, h)
			}
		}
	case *ast.SendStmt:
		w.expr(x.Chan, held)
		w.expr(x.Value, held)
	case *ast.LabeledStmt:
		return w.stmt(x.Stmt, held)
	case *ast.DeclStmt:
		w.expr(x, held)
	}
	return held
}

func isConstructor(fd *ast.FuncDecl) bool {
	return fd.Recv == nil && strings.HasPrefix(fd.Name.Name, "New")
}

func lockFacts(repo string, pkgs []string) ([]access, error) {
	_ = os.Setenv("GOFLAGS", "-mod=mod")
	_ = os.Setenv("GOPROXY", "off")
	_ = os.Setenv("GOSUMDB", "off")
	_ = os.Setenv("GOTOOLCHAIN", "local")
	old, _ := os.Getwd()
	defer func() { _ = os.Chdir(old) }()
	if err := os.Chdir(repo); err != nil {
		return nil, err
	}
	fs := token.NewFileSet()
	imp := importer.ForCompiler(fs, "source", nil)
	var all []access
	for _, pn := range pkgs {
		dir := filepath.Join(repo, pn)
		parsed, err := parser.ParseDir(fs, dir, func(fi os.FileInfo) bool {
			return !strings.HasSuffix(fi.Name(), "_test.go") && !strings.HasPrefix(fi.Name(), "verif_")
		}, parser.ParseComments)
		if err != nil {
			return nil, err
		}
		for name, pk := range parsed {
			var files []*ast.File
			var names []string
			for fn := range pk.Files {
				names = append(names, fn)
			}
			sort.Strings(names)
			for _, fn := range names {
				files = append(files, pk.Files[fn])
			}
			var terr error
			conf := types.Config{Importer: imp, Error: func(err error) {
				if terr == nil {
					terr = err
				}
			}}
			info := &types.Info{Types: map[ast.Expr]types.TypeAndValue{}, Selections: map[*ast.SelectorExpr]*types.Selection{},
				Uses: map[*ast.Ident]types.Object{}, Defs: map[*ast.Ident]types.Object{}}
			tpkg, _ := conf.Check(name, fs, files, info)
			if terr != nil {
				return nil, fmt.Errorf("type check %s: %v", pn, terr)
			}
			p := &lockPkg{fs: fs, info: info, files: files, decls: map[*types.Func]*ast.FuncDecl{}, entry: map[*types.Func]map[string]bool{}, ctor: map[*types.Func]bool{}}
			for _, f := range files {
				for _, d := range f.Decls {
					if fd, ok := d.(*ast.FuncDecl); ok && fd.Body != nil {
						if o, ok := info.Defs[fd.Name].(*types.Func); ok {
							p.decls[o] = fd
							p.ctor[o] = isConstructor(fd)
						}
					}
				}
			}
			// fixpoint of entry lock sets: exported functions and constructors start empty; unexported ones with the
			// intersection over their call sites (nil = no call site seen yet)
			for o, fd := range p.decls {
				if fd.Name.IsExported() || p.ctor[o] {
					p.entry[o] = map[string]bool{}
				}
			}
			for iter := 0; iter < 12; iter++ {
				next := map[*types.Func]map[string]bool{}
				for o, fd := range p.decls {
					start, known := p.entry[o]
					if !known {
						continue // not reachable yet
					}
					var sink []access
					w := &lockWalker{p: p, pkg: tpkg, fn: recvName(fs, fd), out: &sink, inCtor: p.ctor[o]}
					w.calls = func(callee *types.Func, held map[string]bool) {
						cfd, ok := p.decls[callee]
						if !ok || cfd.Name.IsExported() || p.ctor[callee] {
							return
						}
						if cur, ok := next[callee]; ok {
							next[callee] = intersect(cur, held)
						} else {
							next[callee] = copySet(held)
						}
					}
					w.block(fd.Body, start)
				}
				changed := false
				for o, s := range next {
					if cur, ok := p.entry[o]; !ok || len(cur) != len(s) {
						changed = true
					}
					p.entry[o] = s
				}
				if !changed {
					break
				}
			}
			for o, fd := range p.decls {
				start, known := p.entry[o]
				if !known {
					start = map[string]bool{} // never called inside the package: assume nothing held
				}
				w := &lockWalker{p: p, pkg: tpkg, fn: recvName(fs, fd), out: &all, inCtor: p.ctor[o]}
				w.block(fd.Body, start)
			}
		}
	}
	sort.SliceStable(all, func(i, j int) bool {
		if all[i].field != all[j].field {
			return all[i].field < all[j].field
		}
		return all[i].fn < all[j].fn
	})
	return all, nil
}

func lockFactsLean(repo string) (string, error) {
	acc, err := lockFacts(repo, []string{"api", "hub", "ship", "ws", "mdns"})
	if err != nil {
		return "", err
	}
	// fields never written outside constructors are immutable: only their (racing-free) reads exist
	written := map[string]bool{}
	for _, a := range acc {
		if a.write {
			written[a.field] = true
		}
	}
	type key struct {
		field, fn string
		write     bool
		locks     string
	}
	seen := map[key]bool{}
	var sb strings.Builder
	sb.WriteString("/- GENERATED by /verif/extract from /repo — do not edit. -/\nimport ShipVerif.Model.Lockset\nnamespace ShipVerif.Generated\nopen ShipVerif.Lockset\n\n")
	sb.WriteString("/-- every access (outside constructors) to a field that is written somewhere outside constructors, in packages api, hub, ship, ws, mdns, with the mutexes held -/\ndef accesses : List Access := [\n")
	first := true
	for _, a := range acc {
		if !written[a.field] {
			continue
		}
		k := key{a.field, a.fn, a.write, strings.Join(a.locks, ",")}
		if seen[k] {
			continue
		}
		seen[k] = true
		var ls []string
		for _, l := range a.locks {
			ls = append(ls, leanStr(l))
		}
		if !first {
			sb.WriteString(",\n")
		}
		first = false
		fmt.Fprintf(&sb, "  { field := %s, fn := %s, write := %v, locks := [%s] }", leanStr(a.field), leanStr(a.fn), a.write, strings.Join(ls, ", "))
	}
	sb.WriteString("\n]\n\nend ShipVerif.Generated\n")
	return sb.String(), nil
}
