package main

// Inventory of partial operations ("panic sites") in the packages a remote party can feed: every slice /
// string / array index, slice expression, explicit pointer dereference, selector through a pointer-typed
// struct field or element, unchecked type assertion, integer division, channel send / close, write to a
// map held in a field, and explicit panic call - each with the conditions that dominate it
// (enclosing if / for / case conditions, left operands of && and ||, earlier early-exit guards, range loops).
// Type information comes from go/types with the source importer (nothing is linked or run).

import (
	"bytes"
	"fmt"
	"go/ast"
	"go/importer"
	"go/parser"
	"go/printer"
	"go/token"
	"go/types"
	"os"
	"path/filepath"
	"sort"
	"strings"
)

type site struct {
	pkg, fn, kind, expr string
	op                  string   // Lean term of type Op
	guards              []string // Lean terms of type G
}

func exprText(fs *token.FileSet, n ast.Node) string {
	var b bytes.Buffer
	_ = printer.Fprint(&b, fs, n)
	s := b.String()
	s = strings.Join(strings.Fields(s), " ")
	return s
}

// does the block always leave (return / continue / break / goto / panic)?
func terminates(b *ast.BlockStmt) bool {
	if b == nil || len(b.List) == 0 {
		return false
	}
	switch s := b.List[len(b.List)-1].(type) {
	case *ast.ReturnStmt:
		return true
	case *ast.BranchStmt:
		return s.Tok == token.CONTINUE || s.Tok == token.BREAK || s.Tok == token.GOTO
	case *ast.ExprStmt:
		if c, ok := s.X.(*ast.CallExpr); ok {
			if id, ok := c.Fun.(*ast.Ident); ok && id.Name == "panic" {
				return true
			}
		}
	}
	return false
}

// a sync.Once body and everything it can call inside its package
type onceBody struct {
	pkg, fn, once string
	callees       []string // transitive, package-local, by static dispatch
	doers         []string // functions of the package that run the same once
}

var onceBodies []onceBody

func recvName(fs *token.FileSet, fd *ast.FuncDecl) string {
	if fd.Recv != nil && len(fd.Recv.List) == 1 {
		return strings.TrimPrefix(exprText(fs, fd.Recv.List[0].Type), "*") + "." + fd.Name.Name
	}
	return fd.Name.Name
}

func collectOnce(fs *token.FileSet, info *types.Info, pkg string, files []*ast.File) {
	decls := map[types.Object]*ast.FuncDecl{}
	for _, f := range files {
		for _, d := range f.Decls {
			if fd, ok := d.(*ast.FuncDecl); ok && fd.Body != nil {
				if o := info.Defs[fd.Name]; o != nil {
					decls[o] = fd
				}
			}
		}
	}
	callee := func(c *ast.CallExpr) types.Object {
		switch f := c.Fun.(type) {
		case *ast.Ident:
			return info.Uses[f]
		case *ast.SelectorExpr:
			return info.Uses[f.Sel]
		}
		return nil
	}
	isOnceDo := func(c *ast.CallExpr) (string, *ast.FuncLit) {
		sel, ok := c.Fun.(*ast.SelectorExpr)
		if !ok || sel.Sel.Name != "Do" || len(c.Args) != 1 {
			return "", nil
		}
		if tv, ok := info.Types[sel.X]; !ok || !strings.HasSuffix(tv.Type.String(), "sync.Once") {
			return "", nil
		}
		lit, _ := c.Args[0].(*ast.FuncLit)
		x := exprText(fs, sel.X)
		if i := strings.Index(x, "."); i >= 0 {
			x = x[i+1:] // drop the receiver name
		}
		return x, lit
	}
	var closure func(n ast.Node, seen map[types.Object]bool)
	closure = func(n ast.Node, seen map[types.Object]bool) {
		ast.Inspect(n, func(x ast.Node) bool {
			if c, ok := x.(*ast.CallExpr); ok {
				if o := callee(c); o != nil {
					if fd, ok := decls[o]; ok && !seen[o] {
						seen[o] = true
						closure(fd.Body, seen)
					}
				}
			}
			return true
		})
	}
	doers := map[string][]string{}
	type pending struct {
		fn, once string
		lit      *ast.FuncLit
	}
	var found []pending
	for _, fd := range decls {
		fd := fd
		ast.Inspect(fd.Body, func(x ast.Node) bool {
			if c, ok := x.(*ast.CallExpr); ok {
				if once, lit := isOnceDo(c); once != "" {
					doers[once] = append(doers[once], recvName(fs, fd))
					if lit != nil {
						found = append(found, pending{recvName(fs, fd), once, lit})
					}
				}
			}
			return true
		})
	}
	for _, p := range found {
		seen := map[types.Object]bool{}
		closure(p.lit.Body, seen)
		var cs []string
		for o := range seen {
			cs = append(cs, recvName(fs, decls[o]))
		}
		sort.Strings(cs)
		ds := append([]string{}, doers[p.once]...)
		sort.Strings(ds)
		onceBodies = append(onceBodies, onceBody{pkg, p.fn, p.once, cs, ds})
	}
}

type siteWalker struct {
	fs    *token.FileSet
	info  *types.Info
	pkg   string
	fn    string
	sites []site
}

func (w *siteWalker) add(kind string, n ast.Node, guards []string) {
	g := append([]string{}, guards...)
	w.sites = append(w.sites, site{w.pkg, w.fn, kind, exprText(w.fs, n), w.opTerm(kind, n), g})
}

func (w *siteWalker) idxTerm(e ast.Expr) string {
	if e == nil {
		return "none"
	}
	if tv, ok := w.info.Types[e]; ok && tv.Value != nil {
		if v, ok := constantNat(tv.Value.ExactString()); ok {
			return fmt.Sprintf("(.lit %d)", v)
		}
	}
	return "(.var " + leanStr(exprText(w.fs, e)) + ")"
}

func constantNat(s string) (int, bool) {
	n := 0
	if s == "" {
		return 0, false
	}
	for _, c := range s {
		if c < '0' || c > '9' {
			return 0, false
		}
		n = n*10 + int(c-'0')
	}
	return n, true
}

func (w *siteWalker) opTerm(kind string, n ast.Node) string {
	t := func(e ast.Node) string { return leanStr(exprText(w.fs, e)) }
	opt := func(e ast.Expr) string {
		if e == nil {
			return "none"
		}
		return "(some " + w.idxTerm(e) + ")"
	}
	switch x := n.(type) {
	case *ast.IndexExpr:
		if kind == "mapwrite" {
			return ".mapwrite " + t(x.X)
		}
		return ".index " + t(x.X) + " " + w.idxTerm(x.Index)
	case *ast.SliceExpr:
		return ".slice " + t(x.X) + " " + opt(x.Low) + " " + opt(x.High)
	case *ast.StarExpr:
		return ".deref " + t(x.X)
	case *ast.SelectorExpr:
		return ".fieldptr " + t(x.X)
	case *ast.TypeAssertExpr:
		return ".assert " + t(x.X) + " " + t(x.Type)
	case *ast.BinaryExpr:
		return ".div " + t(x.Y)
	case *ast.SendStmt:
		return ".send " + t(x.Chan)
	case *ast.CallExpr:
		if kind == "close" {
			return ".close " + t(x.Args[0])
		}
		return ".panic"
	}
	return ".panic"
}

// a condition (negated or not) as a Lean term of type G
func (w *siteWalker) gTerm(e ast.Expr, neg bool) string {
	for {
		if p, ok := e.(*ast.ParenExpr); ok {
			e = p.X
			continue
		}
		if u, ok := e.(*ast.UnaryExpr); ok && u.Op == token.NOT {
			e = u.X
			neg = !neg
			continue
		}
		break
	}
	b01 := map[bool]string{true: "true", false: "false"}
	if b, ok := e.(*ast.BinaryExpr); ok {
		cmp := map[token.Token]string{token.GTR: ".gt", token.GEQ: ".ge", token.EQL: ".eq", token.NEQ: ".ne", token.LSS: ".lt", token.LEQ: ".le"}
		flip := map[token.Token]token.Token{token.GTR: token.LSS, token.GEQ: token.LEQ, token.EQL: token.EQL, token.NEQ: token.NEQ, token.LSS: token.GTR, token.LEQ: token.GEQ}
		if c, ok := cmp[b.Op]; ok {
			lenArg := func(x ast.Expr) ast.Expr {
				if call, ok := x.(*ast.CallExpr); ok && len(call.Args) == 1 {
					if id, ok := call.Fun.(*ast.Ident); ok && id.Name == "len" {
						return call.Args[0]
					}
				}
				return nil
			}
			isNil := func(x ast.Expr) bool { id, ok := x.(*ast.Ident); return ok && id.Name == "nil" }
			if a := lenArg(b.X); a != nil && lenArg(b.Y) == nil {
				return fmt.Sprintf(".len %s %s %s %s", leanStr(exprText(w.fs, a)), c, w.idxTerm(b.Y), b01[neg])
			}
			if a := lenArg(b.Y); a != nil && lenArg(b.X) == nil {
				return fmt.Sprintf(".len %s %s %s %s", leanStr(exprText(w.fs, a)), cmp[flip[b.Op]], w.idxTerm(b.X), b01[neg])
			}
			if (b.Op == token.EQL || b.Op == token.NEQ) && (isNil(b.X) || isNil(b.Y)) {
				other := b.X
				if isNil(b.X) {
					other = b.Y
				}
				return fmt.Sprintf(".nil %s %s", leanStr(exprText(w.fs, other)), b01[(b.Op == token.EQL) != neg])
			}
			// comparisons of plain integers (a loop bound such as `maxLen > 0`)
			return fmt.Sprintf(".cmp %s %s %s %s", w.idxTerm(b.X), c, w.idxTerm(b.Y), b01[neg])
		}
	}
	txt := exprText(w.fs, e)
	if neg {
		txt = "!(" + txt + ")"
	}
	return ".other " + leanStr(txt)
}

func (w *siteWalker) typeOf(e ast.Expr) types.Type {
	if tv, ok := w.info.Types[e]; ok && tv.Type != nil {
		return tv.Type.Underlying()
	}
	return nil
}

func (w *siteWalker) isType(e ast.Expr) bool {
	tv, ok := w.info.Types[e]
	return ok && tv.IsType()
}

// walk an expression with the guards that hold when it is evaluated
func (w *siteWalker) expr(e ast.Expr, g []string) {
	if e == nil {
		return
	}
	switch x := e.(type) {
	case *ast.BinaryExpr:
		if x.Op == token.LAND {
			w.expr(x.X, g)
			w.expr(x.Y, append(append([]string{}, g...), w.conj(x.X)...))
			return
		}
		if x.Op == token.LOR {
			w.expr(x.X, g)
			w.expr(x.Y, append(append([]string{}, g...), w.neg(x.X)...))
			return
		}
		if x.Op == token.QUO || x.Op == token.REM {
			if t, ok := w.typeOf(x.Y).(*types.Basic); ok && t.Info()&types.IsInteger != 0 {
				if tv := w.info.Types[x.Y]; tv.Value == nil {
					w.add("div", x, g)
				}
			}
		}
		w.expr(x.X, g)
		w.expr(x.Y, g)
	case *ast.IndexExpr:
		if !w.isType(x.X) {
			switch t := w.typeOf(x.X).(type) {
			case *types.Slice, *types.Array:
				w.add("index", x, g)
			case *types.Basic:
				if t.Info()&types.IsString != 0 {
					w.add("index", x, g)
				}
			case *types.Pointer:
				w.add("index", x, g)
			}
		}
		w.expr(x.X, g)
		w.expr(x.Index, g)
	case *ast.SliceExpr:
		w.add("slice", x, g)
		w.expr(x.X, g)
		w.expr(x.Low, g)
		w.expr(x.High, g)
		w.expr(x.Max, g)
	case *ast.StarExpr:
		if !w.isType(x) {
			w.add("deref", x, g)
		}
		w.expr(x.X, g)
	case *ast.SelectorExpr:
		if _, ok := w.typeOf(x.X).(*types.Pointer); ok {
			switch x.X.(type) {
			case *ast.SelectorExpr, *ast.IndexExpr:
				// only a field or an element that is itself a pointer: `a.B.C` with B of pointer type
				if s, ok := w.info.Selections[x]; ok && (s.Kind() == types.FieldVal) {
					w.add("fieldptr", x, g)
				}
			}
		}
		w.expr(x.X, g)
	case *ast.TypeAssertExpr:
		if x.Type != nil {
			w.add("assert", x, g)
		}
		w.expr(x.X, g)
	case *ast.CallExpr:
		if id, ok := x.Fun.(*ast.Ident); ok {
			if id.Name == "panic" {
				w.add("panic", x, g)
			}
			if id.Name == "close" && len(x.Args) == 1 {
				w.add("close", x, g)
			}
		}
		w.expr(x.Fun, g)
		for _, a := range x.Args {
			w.expr(a, g)
		}
	case *ast.ParenExpr:
		w.expr(x.X, g)
	case *ast.UnaryExpr:
		w.expr(x.X, g)
	case *ast.KeyValueExpr:
		w.expr(x.Value, g)
	case *ast.CompositeLit:
		for _, el := range x.Elts {
			w.expr(el, g)
		}
	case *ast.FuncLit:
		w.block(x.Body, nil) // runs later: the guards of the creation site do not hold any more
	}
}

// conjuncts of a condition (a && b && c -> [a, b, c])
func (w *siteWalker) conj(e ast.Expr) []string {
	if b, ok := e.(*ast.BinaryExpr); ok && b.Op == token.LAND {
		return append(w.conj(b.X), w.conj(b.Y)...)
	}
	if p, ok := e.(*ast.ParenExpr); ok {
		return w.conj(p.X)
	}
	return []string{w.gTerm(e, false)}
}

// negation of a condition as guards: !(a || b) -> [!(a), !(b)]
func (w *siteWalker) neg(e ast.Expr) []string {
	if b, ok := e.(*ast.BinaryExpr); ok && b.Op == token.LOR {
		return append(w.neg(b.X), w.neg(b.Y)...)
	}
	if p, ok := e.(*ast.ParenExpr); ok {
		return w.neg(p.X)
	}
	return []string{w.gTerm(e, true)}
}

func (w *siteWalker) block(b *ast.BlockStmt, g []string) {
	if b == nil {
		return
	}
	w.stmts(b.List, g)
}

// names assigned anywhere inside the statements: name -> only ever decremented
func (w *siteWalker) assigned(n ast.Node, acc map[string]bool) {
	if n == nil {
		return
	}
	ast.Inspect(n, func(x ast.Node) bool {
		switch s := x.(type) {
		case *ast.FuncLit:
			return false
		case *ast.AssignStmt:
			for _, l := range s.Lhs {
				acc[exprText(w.fs, l)] = false
			}
		case *ast.IncDecStmt:
			name := exprText(w.fs, s.X)
			if old, seen := acc[name]; s.Tok == token.DEC && (!seen || old) {
				acc[name] = true
			} else {
				acc[name] = false
			}
		case *ast.RangeStmt:
			if s.Key != nil {
				acc[exprText(w.fs, s.Key)] = false
			}
			if s.Value != nil {
				acc[exprText(w.fs, s.Value)] = false
			}
		}
		return true
	})
}

// drop the guards an assignment invalidates; a variable that is only decremented keeps its upper bounds
func kill(g []string, names map[string]bool) []string {
	if len(names) == 0 {
		return g
	}
	var out []string
	for _, t := range g {
		dead := false
		for name, decOnly := range names {
			q := leanStr(name)
			if !strings.Contains(t, q) {
				continue
			}
			if decOnly && (strings.HasPrefix(t, ".len ") && (strings.HasSuffix(t, ".le (.var "+q+") true") || strings.HasSuffix(t, ".gt (.var "+q+") false"))) {
				continue
			}
			dead = true
		}
		if !dead {
			out = append(out, t)
		}
	}
	return out
}

func (w *siteWalker) stmts(list []ast.Stmt, g []string) {
	g = append([]string{}, g...)
	for _, s := range list {
		w.stmt(s, g)
		names := map[string]bool{}
		w.assigned(s, names)
		if as, ok := s.(*ast.AssignStmt); ok && as.Tok == token.DEFINE {
			// a fresh variable cannot invalidate anything except a shadowed name
			_ = as
		}
		g = kill(g, names)
		// an early exit adds the negated condition for everything after it
		if is, ok := s.(*ast.IfStmt); ok && is.Else == nil && terminates(is.Body) && is.Init == nil {
			g = append(g, w.neg(is.Cond)...)
		} else if ok && is.Else == nil && terminates(is.Body) {
			g = append(g, w.neg(is.Cond)...)
		}
	}
}

func (w *siteWalker) stmt(s ast.Stmt, g []string) {
	switch x := s.(type) {
	case nil:
	case *ast.ExprStmt:
		w.expr(x.X, g)
	case *ast.AssignStmt:
		for _, l := range x.Lhs {
			if ix, ok := l.(*ast.IndexExpr); ok {
				if _, isMap := w.typeOf(ix.X).(*types.Map); isMap {
					if _, isField := ix.X.(*ast.SelectorExpr); isField {
						w.add("mapwrite", ix, g)
					}
				}
			}
			w.expr(l, g)
		}
		for _, r := range x.Rhs {
			// `v, ok := x.(T)` does not panic
			if ta, ok := r.(*ast.TypeAssertExpr); ok && len(x.Lhs) == 2 {
				w.expr(ta.X, g)
				continue
			}
			w.expr(r, g)
		}
	case *ast.IncDecStmt:
		w.expr(x.X, g)
	case *ast.SendStmt:
		w.add("send", x, g)
		w.expr(x.Chan, g)
		w.expr(x.Value, g)
	case *ast.GoStmt:
		w.expr(x.Call, g)
	case *ast.DeferStmt:
		w.expr(x.Call, g)
	case *ast.ReturnStmt:
		for _, r := range x.Results {
			w.expr(r, g)
		}
	case *ast.BlockStmt:
		w.block(x, g)
	case *ast.IfStmt:
		w.stmt(x.Init, g)
		w.expr(x.Cond, g)
		w.block(x.Body, append(append([]string{}, g...), w.conj(x.Cond)...))
		if x.Else != nil {
			w.stmt(x.Else, append(append([]string{}, g...), w.neg(x.Cond)...))
		}
	case *ast.ForStmt:
		w.stmt(x.Init, g)
		{
			names := map[string]bool{}
			w.assigned(x.Body, names)
			w.assigned(x.Post, names)
			g = kill(append([]string{}, g...), names)
		}
		gg := g
		if x.Cond != nil {
			w.expr(x.Cond, g)
			gg = append(append([]string{}, g...), w.conj(x.Cond)...)
		}
		w.block(x.Body, gg)
		w.stmt(x.Post, gg)
	case *ast.RangeStmt:
		w.expr(x.X, g)
		{
			names := map[string]bool{}
			w.assigned(x.Body, names)
			g = kill(append([]string{}, g...), names)
		}
		gg := append([]string{}, g...)
		if x.Key != nil {
			gg = append(gg, ".range "+leanStr(exprText(w.fs, x.Key))+" "+leanStr(exprText(w.fs, x.X)))
		}
		w.block(x.Body, gg)
	case *ast.SwitchStmt:
		w.stmt(x.Init, g)
		w.expr(x.Tag, g)
		for _, c := range x.Body.List {
			cc := c.(*ast.CaseClause)
			gg := append([]string{}, g...)
			if x.Tag == nil && len(cc.List) == 1 {
				gg = append(gg, w.conj(cc.List[0])...)
			}
			for _, e := range cc.List {
				w.expr(e, g)
			}
			w.stmts(cc.Body, gg)
		}
	case *ast.TypeSwitchStmt:
		w.stmt(x.Init, g)
		// the guarded assertion of a type switch never panics; case bodies know the dynamic type
		for _, c := range x.Body.List {
			cc := c.(*ast.CaseClause)
			gg := append([]string{}, g...)
			if len(cc.List) == 1 {
				gg = append(gg, ".typeIs "+leanStr(exprText(w.fs, cc.List[0])))
			}
			w.stmts(cc.Body, gg)
		}
	case *ast.SelectStmt:
		for _, c := range x.Body.List {
			cc := c.(*ast.CommClause)
			if snd, ok := cc.Comm.(*ast.SendStmt); ok {
				w.add("send", snd, append(append([]string{}, g...), ".sel"))
				w.expr(snd.Value, g)
			} else {
				w.stmt(cc.Comm, g)
			}
			w.stmts(cc.Body, g)
		}
	case *ast.LabeledStmt:
		w.stmt(x.Stmt, g)
	case *ast.DeclStmt:
		if gd, ok := x.Decl.(*ast.GenDecl); ok {
			for _, sp := range gd.Specs {
				if vs, ok := sp.(*ast.ValueSpec); ok {
					for _, v := range vs.Values {
						w.expr(v, g)
					}
				}
			}
		}
	}
}

func panicSites(repo string, pkgs []string) ([]site, error) {
	_ = os.Setenv("GOFLAGS", "-mod=mod")
	_ = os.Setenv("GOPROXY", "off")
	_ = os.Setenv("GOSUMDB", "off")
	_ = os.Setenv("GOTOOLCHAIN", "local")
	old, _ := os.Getwd()
	defer func() { _ = os.Chdir(old) }()
	var all []site
	fs := token.NewFileSet()
	if err := os.Chdir(repo); err != nil {
		return nil, err
	}
	imp := importer.ForCompiler(fs, "source", nil)
	for _, p := range pkgs {
		dir := filepath.Join(repo, p)
		parsed, err := parser.ParseDir(fs, dir, func(fi os.FileInfo) bool {
			return !strings.HasSuffix(fi.Name(), "_test.go") && !strings.HasPrefix(fi.Name(), "verif_")
		}, parser.ParseComments)
		if err != nil {
			return nil, err
		}
		for name, pk := range parsed {
			var files []*ast.File
			var names []string
			for fn := range pk.Files {
				names = append(names, fn)
			}
			sort.Strings(names)
			for _, fn := range names {
				files = append(files, pk.Files[fn])
			}
			var terr error
			conf := types.Config{Importer: imp, Error: func(err error) {
				if terr == nil {
					terr = err
				}
			}}
			info := &types.Info{Types: map[ast.Expr]types.TypeAndValue{}, Selections: map[*ast.SelectorExpr]*types.Selection{},
				Uses: map[*ast.Ident]types.Object{}, Defs: map[*ast.Ident]types.Object{}}
			_, _ = conf.Check(name, fs, files, info)
			if terr != nil {
				return nil, fmt.Errorf("type check %s: %v", p, terr)
			}
			collectOnce(fs, info, p, files)
			for _, f := range files {
				for _, d := range f.Decls {
					fd, ok := d.(*ast.FuncDecl)
					if !ok || fd.Body == nil {
						continue
					}
					w := &siteWalker{fs: fs, info: info, pkg: p, fn: fd.Name.Name}
					if fd.Recv != nil && len(fd.Recv.List) == 1 {
						w.fn = strings.TrimPrefix(exprText(fs, fd.Recv.List[0].Type), "*") + "." + fd.Name.Name
					}
					w.block(fd.Body, nil)
					all = append(all, w.sites...)
				}
			}
		}
	}
	sort.SliceStable(all, func(i, j int) bool {
		a, b := all[i], all[j]
		if a.pkg != b.pkg {
			return a.pkg < b.pkg
		}
		if a.fn != b.fn {
			return a.fn < b.fn
		}
		return false
	})
	return all, nil
}

func panicFactsLean(repo string) (string, error) {
	onceBodies = nil
	sites, err := panicSites(repo, []string{"ship", "ws", "mdns", "util", "hub"})
	if err != nil {
		return "", err
	}
	var sb strings.Builder
	sb.WriteString("/- GENERATED by /verif/extract from /repo — do not edit. -/\nimport ShipVerif.Model.Panic\nnamespace ShipVerif.Generated\nopen ShipVerif.Panic\n\n")
	sb.WriteString("/-- every partial operation in packages ship, ws, mdns, util, hub (non-test, non-hook files) with its dominating conditions -/\ndef panicSites : List Site := [\n")
	for i, s := range sites {
		sep := ","
		if i == len(sites)-1 {
			sep = ""
		}
		fmt.Fprintf(&sb, "  { pkg := %s, fn := %s, text := %s, op := %s,\n    guards := [%s] }%s\n", leanStr(s.pkg), leanStr(s.fn), leanStr(s.expr), s.op, strings.Join(s.guards, ", "), sep)
	}
	sb.WriteString("]\n\n/-- every sync.Once body with the package-local functions it can reach by static calls, and the functions that run the same once -/\ndef onceBodies : List OnceBody := [\n")
	sort.Slice(onceBodies, func(i, j int) bool { return onceBodies[i].pkg+onceBodies[i].fn < onceBodies[j].pkg+onceBodies[j].fn })
	q := func(l []string) string {
		var o []string
		for _, x := range l {
			o = append(o, leanStr(x))
		}
		return "[" + strings.Join(o, ", ") + "]"
	}
	for i, b := range onceBodies {
		sep := ","
		if i == len(onceBodies)-1 {
			sep = ""
		}
		fmt.Fprintf(&sb, "  { pkg := %s, fn := %s, once := %s,\n    callees := %s,\n    doers := %s }%s\n", leanStr(b.pkg), leanStr(b.fn), leanStr(b.once), q(b.callees), q(b.doers), sep)
	}
	sb.WriteString("]\n\nend ShipVerif.Generated\n")
	return sb.String(), nil
}
