#!/bin/bash
# quick developer loop: build harness from /repo, run connstep, diff against the model
export GOFLAGS=-mod=mod GOPROXY=off GOSUMDB=off GOTOOLCHAIN=local
set -e
cd /verif/harness && go build -tags verif -o /verif/bin/harness .
cd /verif/work && /verif/bin/harness connstep -seed ${1:-1} -n ${2:-300} -in conn_in.txt -impl conn_impl.txt
/verif/lean/.lake/build/bin/shipdrv conn < conn_in.txt > conn_model.txt
diff <(sed 's/ final=1//' conn_impl.txt) conn_model.txt > conn_diff.txt || true
echo "lines: $(wc -l < conn_in.txt) diff-hunks: $(grep -c '^[0-9]' conn_diff.txt)"
