#!/bin/bash
# run every registered quick (or thorough) check on the current tree; evidence is rewritten
cd "$(dirname "$0")/.."
tier=${1:-quick}
fail=0
for p in $(python3 -c "import json;print(' '.join(c['property_id'] for c in json.load(open('MANIFEST.json'))['checks']))"); do
  s=$(date +%s)
  out=$(./check $p --tier $tier 2>/dev/null); rc=$?
  echo "$p rc=$rc $(( $(date +%s) - s ))s $(echo "$out" | grep -c KNOWN-FINDING) known; $(echo "$out" | grep VIOLATION)"
  [ $rc -ne 0 ] && fail=1
done
exit $fail
