#!/bin/bash
# Build everything the checks need, offline.
set -e
cd "$(dirname "$0")/.."
export GOFLAGS=-mod=mod GOPROXY=off GOSUMDB=off GOTOOLCHAIN=local
(cd lean && lake build ShipVerif shipdrv 2>&1 | grep -v '^trace' | tail -5)
