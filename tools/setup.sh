#!/bin/bash
# Build everything the checks need, offline: Lean library (all proofs), driver, extractor, harness.
set -e
cd "$(dirname "$0")/.."
export GOFLAGS=-mod=mod GOPROXY=off GOSUMDB=off GOTOOLCHAIN=local
mkdir -p bin work evidence replays
(cd extract && go build -o ../bin/extract .)
cp /repo/go.sum harness/go.sum
(cd harness && go build -tags verif -o ../bin/harness .)
(cd lean && lake build ShipVerif shipdrv 2>&1 | grep -v '^trace' | tail -15)
test -x lean/.lake/build/bin/shipdrv
