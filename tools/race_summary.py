#!/usr/bin/env python3
"""summarise Go race detector reports: for each report the innermost library frame of both accesses"""
import collections
import re
import sys


def summarise(txt):
    reports = txt.split("WARNING: DATA RACE")[1:]
    sig = collections.Counter()
    ex = {}
    for r in reports:
        r = r.split("==================")[0]
        tops = []
        for m in re.finditer(r"(?:Write|Read|Previous write|Previous read) at [^\n]*\n((?:  \S.*\n\s+\S.*\n)+)", r):
            fr = re.findall(r"  (\S+)\(\)\n\s+(/\S+):(\d+)", m.group(1))
            lib = [(f.split("/")[-1], p.split("/")[-2] + "/" + p.split("/")[-1], int(n)) for f, p, n in fr if "enbility/ship-go" in f]
            har = [(f.split("/")[-1], p.split("/")[-1], int(n)) for f, p, n in fr]
            tops.append(lib[0] if lib else (har[0] if har else ("?", "?", 0)))
        k = tuple(sorted(set(tops)))
        sig[k] += 1
        ex.setdefault(k, r[:2500])
    return sig, ex


if __name__ == "__main__":
    s, ex = summarise(open(sys.argv[1]).read())
    for k, v in s.most_common():
        print(v, k)
