#!/bin/bash
# developer tool: statement coverage of /repo's packages reached by the engines of the given checks
# usage: tools/coverage.sh [quick|thorough] [ids...]   -> work/cover/func.txt, summary on stdout
cd "$(dirname "$0")/.."
tier=${1:-quick}; shift
ids=${@:-C01 C02 C03 C05 C07 C08 C10 C12 C14 C16 C17 C19}
rm -rf work/cover; mkdir -p work/cover/data
export VERIF_COVER=$PWD/work/cover/data
for p in $ids; do ./check $p --tier $tier >/dev/null 2>&1; echo "$p exit=$?"; done
export GOFLAGS=-mod=mod GOPROXY=off GOSUMDB=off GOTOOLCHAIN=local
(cd harness && go tool covdata textfmt -i=$VERIF_COVER -o ../work/cover/cover.out && go tool cover -func=../work/cover/cover.out > ../work/cover/func.txt)
(cd harness && go tool covdata percent -i=$VERIF_COVER)
