#!/bin/bash
# developer tool: all checks of a tier, N at a time (a loaded machine must not make a check raise an alarm)
# usage: tools/parallel.sh [N] [seed] [tier] [keep]   - with `keep` the evidence written is left in place
cd "$(dirname "$0")/.."
n=${1:-4}; seed=${2:-1}; tier=${3:-quick}
python3 -c "import json;print('\n'.join(c['property_id'] for c in json.load(open('MANIFEST.json'))['checks']))" | \
  xargs -P $n -I{} sh -c 's=$(date +%s); out=$(./check {} --tier '$tier' --seed '$seed' 2>/dev/null); rc=$?; echo "{} rc=$rc $(( $(date +%s) - s ))s $(echo "$out" | grep VIOLATION)"'
[ "$4" = keep ] || git checkout -- evidence
