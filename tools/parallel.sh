#!/bin/bash
# developer tool: all quick checks, N at a time (a loaded machine must not make a check raise an alarm)
cd "$(dirname "$0")/.."
n=${1:-4}; seed=${2:-1}
python3 -c "import json;print('\n'.join(c['property_id'] for c in json.load(open('MANIFEST.json'))['checks']))" | \
  xargs -P $n -I{} sh -c 's=$(date +%s); out=$(./check {} --tier quick --seed '$seed' 2>/dev/null); rc=$?; echo "{} rc=$rc $(( $(date +%s) - s ))s $(echo "$out" | grep VIOLATION)"'
git checkout -- evidence
