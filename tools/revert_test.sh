#!/bin/bash
# developer tool: temporarily revert one /repo commit in the working tree and run checks
c=$1; shift
git -C /repo revert --no-commit $c >/dev/null 2>&1 || { echo "revert failed"; git -C /repo revert --abort; exit 1; }
for p in "$@"; do /verif/check $p 2>/dev/null; echo "$p exit=$?"; done
git -C /repo revert --abort 2>/dev/null || git -C /repo reset -q --hard HEAD
git -C /repo status --short | head -3
