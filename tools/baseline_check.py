#!/usr/bin/env python3
"""Run the repository's suite (guard off) and compare with /root/.vp/BASELINE.json stable_pass."""
import json, subprocess, sys, os
env = dict(os.environ, GOFLAGS="-mod=mod", GOPROXY="off", GOSUMDB="off", GOTOOLCHAIN="local")
p = subprocess.run("go test -json -vet=off -count=1 -timeout 25m ./...", shell=True, cwd="/repo", env=env, stdout=subprocess.PIPE, stderr=subprocess.STDOUT, text=True)
res = {}
for l in p.stdout.splitlines():
    try:
        e = json.loads(l)
    except Exception:
        continue
    if e.get("Action") in ("pass", "fail") and e.get("Test"):
        res[e["Package"] + "::" + e["Test"]] = e["Action"]
b = json.load(open("/root/.vp/BASELINE.json"))
missing = [k for k in b["stable_pass"] if res.get(k) != "pass"]
print("passed", sum(1 for v in res.values() if v == "pass"), "of", len(res), "; baseline tests not passing:", missing)
sys.exit(1 if missing else 0)
