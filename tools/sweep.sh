#!/bin/bash
# developer tool: every quick check on the unchanged tree for several seeds (looking for alarms that depend on the seed or the clock)
cd "$(dirname "$0")/.."
for sd in "$@"; do
  for p in $(python3 -c "import json;print(' '.join(c['property_id'] for c in json.load(open('MANIFEST.json'))['checks']))"); do
    s=$(date +%s)
    out=$(./check $p --tier quick --seed $sd 2>/dev/null); rc=$?
    echo "seed=$sd $p rc=$rc $(( $(date +%s) - s ))s $(echo "$out" | grep VIOLATION)"
    if [ $rc -ne 0 ]; then mkdir -p work/sweep; cp replays/${p}_*_${sd}.json work/sweep/ 2>/dev/null; fi
  done
done
git checkout -- evidence
