#!/bin/bash
# developer tool: confirm a seeded defect in a scratch worktree (never in /repo's working tree)
# usage: confirm_seed.sh <src dir with patchN.diff/demoN_test.go> <N> <pkg dir> <run pattern> [race]
# prints: suite result with the patch, demo result with the patch (must fail) and without (must pass)
src=$1; n=$2; pkg=$3; pat=$4; race=${5:+-race}
export GOFLAGS=-mod=mod GOPROXY=off GOSUMDB=off GOTOOLCHAIN=local
wt=/tmp/wt/confirm_$(basename $src)_$n
git -C /repo worktree remove --force $wt >/dev/null 2>&1
git -C /repo worktree add --detach $wt HEAD >/dev/null 2>&1 || { echo "cannot create worktree"; exit 2; }
cd $wt
git apply $src/patch$n.diff || { echo "RESULT $(basename $src) $n patch-does-not-apply"; git -C /repo worktree remove --force $wt; exit 2; }
go build ./... || { echo "RESULT $(basename $src) $n does-not-build"; git -C /repo worktree remove --force $wt; exit 2; }
suite=$(go test -vet=off -count=1 ./... 2>&1 | grep -E "^(--- FAIL|FAIL|ok|panic)" | grep -v "^ok" | grep -v -E "Test_AvahiOnly|Test_LongStrings|Test_Start_IFaces|TestMdnsSuite \(|ship-go/mdns|^FAIL$" | tr '\n' ';')
cp $src/demo${n}_test.go $pkg/zz_seed${n}_test.go
go test $race -vet=off -count=1 -timeout 300s -run "$pat" ./$pkg/ > /tmp/wt/confirm_$(basename $src)_$n.with 2>&1; with=$?
git checkout -- . 
go test $race -vet=off -count=1 -timeout 300s -run "$pat" ./$pkg/ > /tmp/wt/confirm_$(basename $src)_$n.clean 2>&1; clean=$?
cd /; git -C /repo worktree remove --force $wt
echo "RESULT $(basename $src) $n suite_unexpected=[${suite}] demo_with_patch_exit=$with demo_clean_exit=$clean"
