#!/bin/bash
cd /verif/work && /verif/bin/harness hubstep -seed ${1:-1} -n ${2:-40} -events ${3:-14} 2>/dev/null && /verif/lean/.lake/build/bin/shipdrv hub < hub_in.txt > hub_model.txt && paste -d'@' hub_in.txt hub_impl.txt hub_model.txt | awk -F'@' '{a=$2; b=$3; gsub(/ +$/,"",a); gsub(/ +$/,"",b); if (a!=b) print NR": "$1"\n   I: "$2"\n   M: "$3}' | head -${4:-30}; wc -l hub_in.txt
