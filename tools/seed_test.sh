#!/bin/bash
# developer tool: apply a seeded defect to /repo's working tree, run the given checks, undo it
# usage: seed_test.sh <patch file> <property ids...>   (env TIER=quick|thorough)
pf=$1; shift
git -C /repo status --short | grep -q . && { echo "/repo working tree not clean"; exit 2; }
git -C /repo apply "$pf" || { echo "patch does not apply"; exit 2; }
for p in "$@"; do
  out=$(/verif/check $p --tier ${TIER:-quick} 2>/dev/null); rc=$?
  echo "$p exit=$rc $(echo "$out" | grep VIOLATION | head -3)"
done
git -C /repo checkout -- . ; git -C /repo status --short | head -3
# evidence written while a seeded defect was applied is not evidence about /repo
git -C /verif checkout -- evidence 2>/dev/null
