//go:build verif

package main

// Engine connstep: drives one real ship.ShipConnection per scenario with a harness-owned data writer
// and info provider, and records (event line, observation line) pairs for the Lean driver.

import (
	"bufio"
	"bytes"
	"encoding/hex"
	"encoding/json"
	"flag"
	"fmt"
	"math/rand"
	"os"
	"strings"
	"sync"
	"time"

	"github.com/enbility/ship-go/api"
	"github.com/enbility/ship-go/model"
	"github.com/enbility/ship-go/ship"
)

// ---------------------------------------------------------------- recorder

type rec struct {
	mu  sync.Mutex
	obs []string
	off bool
}

func (r *rec) add(s string) {
	r.mu.Lock()
	if !r.off {
		r.obs = append(r.obs, s)
	}
	r.mu.Unlock()
}

func (r *rec) take() []string {
	r.mu.Lock()
	o := r.obs
	r.obs = nil
	r.mu.Unlock()
	return o
}

func b01(b bool) string {
	if b {
		return "1"
	}
	return "0"
}

// ---------------------------------------------------------------- mock writer

type mockWriter struct {
	r      *rec
	mu     sync.Mutex
	closed bool
	nw     int
	failAt int
	reason string // the user reason of this scenario
	// engine userrace: called (outside the mutex) before a write is carried out; may block
	blockHook func()
}

func (w *mockWriter) InitDataProcessing(api.WebsocketDataReaderInterface) {}

func (w *mockWriter) WriteMessageToWebsocketConnection(msg []byte) error {
	w.mu.Lock()
	idx := w.nw
	w.nw++
	hook := w.blockHook
	w.mu.Unlock()
	if hook != nil {
		hook()
	}
	w.mu.Lock()
	closed := w.closed
	failAt := w.failAt
	w.mu.Unlock()
	if closed || idx == failAt {
		return fmt.Errorf("connection is closed")
	}
	w.r.add("W:" + canonFrame(msg))
	return nil
}

func (w *mockWriter) CloseDataConnection(code int, reason string) {
	w.mu.Lock()
	w.closed = true
	w.mu.Unlock()
	rc := "err"
	switch reason {
	case "":
		rc = "none"
	case "close":
		rc = "close"
	case "Node rejected by application":
		rc = "rejected"
	case w.reason:
		rc = "user"
	}
	w.r.add(fmt.Sprintf("WSC:%d:%s", code, rc))
}

func (w *mockWriter) IsDataConnectionClosed() (bool, error) {
	w.mu.Lock()
	defer w.mu.Unlock()
	if w.closed {
		return true, fmt.Errorf("connection is closed")
	}
	return false, nil
}

func (w *mockWriter) isClosed() bool {
	w.mu.Lock()
	defer w.mu.Unlock()
	return w.closed
}

func (w *mockWriter) setClosed() {
	w.mu.Lock()
	w.closed = true
	w.mu.Unlock()
}

func (w *mockWriter) beginEvent(failAt int) {
	w.mu.Lock()
	w.nw = 0
	w.failAt = failAt
	w.mu.Unlock()
}

// ---------------------------------------------------------------- mock provider / reader

type env struct{ paired, auto, allow bool }

type mockProvider struct {
	r      *rec
	mu     sync.Mutex
	e      env
	writer api.ShipConnectionDataWriterInterface
	hook   func() // called (outside the mutex) after a state update has been recorded: a scheduling point of engine userrace
}

func (p *mockProvider) get() env {
	p.mu.Lock()
	defer p.mu.Unlock()
	return p.e
}
func (p *mockProvider) set(e env) {
	p.mu.Lock()
	p.e = e
	p.mu.Unlock()
}

func (p *mockProvider) IsRemoteServiceForSKIPaired(string) bool {
	v := p.get().paired
	p.r.add("Qp" + b01(v))
	return v
}
func (p *mockProvider) IsAutoAcceptEnabled() bool {
	v := p.get().auto
	p.r.add("Qa" + b01(v))
	return v
}
func (p *mockProvider) AllowWaitingForTrust(string) bool {
	v := p.get().allow
	p.r.add("Qw" + b01(v))
	return v
}
func (p *mockProvider) HandleConnectionClosed(_ api.ShipConnectionInterface, end bool) {
	p.r.add("CB:" + b01(end))
}
func (p *mockProvider) ReportServiceShipID(_ string, id string) {
	p.r.add("ID:" + hex.EncodeToString([]byte(id)))
}
func (p *mockProvider) HandleShipHandshakeStateUpdate(_ string, st model.ShipState) {
	s := fmt.Sprintf("S%d", uint(st.State))
	if st.Error != nil {
		s += "e"
	}
	p.r.add(s)
	p.mu.Lock()
	h := p.hook
	p.mu.Unlock()
	if h != nil {
		h()
	}
}
func (p *mockProvider) SetupRemoteDevice(_ string, w api.ShipConnectionDataWriterInterface) api.ShipConnectionDataReaderInterface {
	p.r.add("SETUP")
	p.mu.Lock()
	p.writer = w
	p.mu.Unlock()
	return &mockReader{r: p.r}
}

type mockReader struct{ r *rec }

func (m *mockReader) HandleShipPayloadMessage(b []byte) {
	m.r.add("P:" + hex.EncodeToString(b))
}

// ---------------------------------------------------------------- frames: building and canonical names

func mkFrame(typ byte, v any) []byte {
	b, err := json.Marshal(v)
	if err != nil {
		panic(err)
	}
	e, err := ship.JsonIntoEEBUSJson(b)
	if err != nil {
		panic(err)
	}
	return append([]byte{typ}, []byte(e)...)
}

func canonFrame(msg []byte) string {
	if bytes.Equal(msg, []byte{0, 0}) {
		return "init"
	}
	if len(msg) < 2 {
		return "raw:" + hex.EncodeToString(msg)
	}
	hb := msg[0]
	body := ship.JsonFromEEBUSJson(msg[1:])
	name := ""
	want := model.MsgTypeControl
	s := string(body)
	switch {
	case strings.Contains(s, `"connectionHello"`):
		var h model.ConnectionHello
		if json.Unmarshal(body, &h) == nil {
			w, p := "-", "-"
			if h.ConnectionHello.Waiting != nil {
				w = fmt.Sprint(*h.ConnectionHello.Waiting)
			}
			if h.ConnectionHello.ProlongationRequest != nil {
				p = map[bool]string{true: "t", false: "f"}[*h.ConnectionHello.ProlongationRequest]
			}
			name = fmt.Sprintf("hello.%s.%s.%s", h.ConnectionHello.Phase, w, p)
		}
	case strings.Contains(s, `"messageProtocolHandshake"`):
		var h model.MessageProtocolHandshake
		if json.Unmarshal(body, &h) == nil {
			m := h.MessageProtocolHandshake
			name = "prot." + string(m.HandshakeType)
			if m.Version.Major != 1 || m.Version.Minor != 0 || len(m.Formats.Format) != 1 || m.Formats.Format[0] != model.MessageProtocolFormatTypeUTF8 {
				name += fmt.Sprintf(".v%d.%d.f%v", m.Version.Major, m.Version.Minor, m.Formats.Format)
			}
		}
	case strings.HasPrefix(s, `{"error":`):
		var h model.MessageProtocolHandshakeError
		if json.Unmarshal(body, &h) == nil {
			name = fmt.Sprintf("prot.err.%d", h.Error)
		}
	case strings.Contains(s, `"connectionPinState"`):
		var h model.ConnectionPinState
		if json.Unmarshal(body, &h) == nil {
			name = "pin." + string(h.ConnectionPinState.PinState)
		}
	case strings.Contains(s, `"accessMethodsRequest"`):
		name = "acc.req"
	case strings.Contains(s, `"accessMethods"`):
		var h model.AccessMethods
		if json.Unmarshal(body, &h) == nil && h.AccessMethods.Id != nil {
			name = "acc.methods:" + hex.EncodeToString([]byte(*h.AccessMethods.Id))
		}
	case strings.Contains(s, `"connectionClose"`):
		want = model.MsgTypeEnd
		var h model.ConnectionClose
		if json.Unmarshal(body, &h) == nil {
			name = "close." + string(h.ConnectionClose.Phase)
			if h.ConnectionClose.Phase == model.ConnectionClosePhaseTypeAnnounce {
				r := ""
				if h.ConnectionClose.Reason != nil {
					r = string(*h.ConnectionClose.Reason)
				}
				name += ":" + hex.EncodeToString([]byte(r))
				if h.ConnectionClose.MaxTime == nil || *h.ConnectionClose.MaxTime != 500 {
					name += ".mt?"
				}
			}
		}
	case strings.HasPrefix(s, `{"data":`):
		want = model.MsgTypeData
		var h model.ShipData
		if json.Unmarshal(body, &h) == nil && h.Data.Payload != nil {
			name = "data:" + hex.EncodeToString(h.Data.Payload)
			if h.Data.Header.ProtocolId != model.ShipProtocolId {
				name += ".pid?"
			}
		}
	}
	if name == "" {
		return "raw:" + hex.EncodeToString(msg)
	}
	if hb != want {
		name += fmt.Sprintf("!hb%d", hb)
	}
	return name
}

// ---------------------------------------------------------------- views of an incoming message

func parseMessage(msg []byte, jsonFormat bool) (byte, []byte) {
	if len(msg) == 0 {
		return 0, nil
	}
	if jsonFormat {
		return msg[0], ship.JsonFromEEBUSJson(msg[1:])
	}
	return msg[0], msg[1:]
}

func msgViews(msg []byte) string {
	var sb strings.Builder
	dg := bytes.Contains(msg, []byte("datagram"))
	_, body := parseMessage(msg, true)
	sb.WriteString("dg=" + b01(dg))
	// data view
	data := "none"
	if dg {
		var d model.ShipData
		if err := json.Unmarshal(body, &d); err != nil || d.Data.Payload == nil {
			data = "bad"
		} else {
			data = "ok:" + hex.EncodeToString(d.Data.Payload)
		}
	}
	sb.WriteString(" data=" + data)
	sb.WriteString(" len3=" + b01(len(msg) > 2))
	// close view
	cl := "none"
	{
		var c model.ConnectionClose
		if err := json.Unmarshal(body, &c); err == nil && c.ConnectionClose.Phase != "" {
			switch c.ConnectionClose.Phase {
			case model.ConnectionClosePhaseTypeAnnounce:
				cl = "announce"
			case model.ConnectionClosePhaseTypeConfirm:
				cl = "confirm"
			default:
				cl = "other"
			}
		}
	}
	sb.WriteString(" close=" + cl)
	// init view
	{
		t, d := parseMessage(msg, false)
		ok := t == model.MsgTypeInit && !(len(d) > 0 && d[0] != 0)
		sb.WriteString(" init=" + map[bool]string{true: "ok", false: "bad"}[ok])
	}
	// hello view
	{
		var h model.ConnectionHello
		if err := json.Unmarshal(body, &h); err != nil {
			sb.WriteString(" hello=err:-:-")
		} else {
			ph := string(h.ConnectionHello.Phase)
			if ph != "ready" && ph != "pending" && ph != "aborted" {
				ph = "other"
			}
			w, p := "-", "-"
			if h.ConnectionHello.Waiting != nil {
				w = fmt.Sprint(*h.ConnectionHello.Waiting)
			}
			if h.ConnectionHello.ProlongationRequest != nil {
				p = map[bool]string{true: "t", false: "f"}[*h.ConnectionHello.ProlongationRequest]
			}
			sb.WriteString(fmt.Sprintf(" hello=%s:%s:%s", ph, w, p))
		}
	}
	// protocol handshake view
	{
		var h model.MessageProtocolHandshake
		if err := json.Unmarshal(body, &h); err != nil {
			sb.WriteString(" prot=err:0:0")
		} else {
			m := h.MessageProtocolHandshake
			t := string(m.HandshakeType)
			if t != "announceMax" && t != "select" {
				t = "oth"
			}
			verOk := m.Version.Major == 1 && m.Version.Minor == 0
			fmtOk := len(m.Formats.Format) == 1 && m.Formats.Format[0] == model.MessageProtocolFormatTypeUTF8
			sb.WriteString(fmt.Sprintf(" prot=%s:%s:%s", t, b01(verOk), b01(fmtOk)))
		}
	}
	// pin view
	{
		var h model.ConnectionPinState
		if err := json.Unmarshal(body, &h); err != nil {
			sb.WriteString(" pin=err")
		} else if h.ConnectionPinState.PinState == model.PinStateTypeNone {
			sb.WriteString(" pin=none")
		} else {
			sb.WriteString(" pin=other")
		}
	}
	// access methods view
	{
		s := string(body)
		switch {
		case strings.Contains(s, "\"accessMethodsRequest\":{"):
			sb.WriteString(" acc=req")
		case strings.Contains(s, "\"accessMethods\":{"):
			var h model.AccessMethods
			if err := json.Unmarshal(body, &h); err != nil {
				sb.WriteString(" acc=meth:err")
			} else if h.AccessMethods.Id == nil {
				sb.WriteString(" acc=meth:noid")
			} else {
				sb.WriteString(" acc=meth:id:" + hex.EncodeToString([]byte(*h.AccessMethods.Id)))
			}
		default:
			sb.WriteString(" acc=neither")
		}
	}
	return sb.String()
}

// ---------------------------------------------------------------- message catalogue

func uptr(v uint) *uint     { return &v }
func bptr(v bool) *bool     { return &v }
func sptr(v string) *string { return &v }

func helloMsg(phase string, waiting *uint, prolong *bool) []byte {
	return mkFrame(model.MsgTypeControl, model.ConnectionHello{ConnectionHello: model.ConnectionHelloType{
		Phase: model.ConnectionHelloPhaseType(phase), Waiting: waiting, ProlongationRequest: prolong}})
}

func protMsg(t string, maj, min uint8, formats []model.MessageProtocolFormatType) []byte {
	return mkFrame(model.MsgTypeControl, model.MessageProtocolHandshake{MessageProtocolHandshake: model.MessageProtocolHandshakeType{
		HandshakeType: model.ProtocolHandshakeTypeType(t), Version: model.Version{Major: maj, Minor: min},
		Formats: model.MessageProtocolFormatsType{Format: formats}}})
}

func pinMsg(s string) []byte {
	return mkFrame(model.MsgTypeControl, model.ConnectionPinState{ConnectionPinState: model.ConnectionPinStateType{PinState: model.PinStateType(s)}})
}

func accReqMsg() []byte {
	return mkFrame(model.MsgTypeControl, model.AccessMethodsRequest{})
}

func accMethodsMsg(id *string) []byte {
	return mkFrame(model.MsgTypeControl, model.AccessMethods{AccessMethods: model.AccessMethodsType{Id: id}})
}

func closeMsg(phase string) []byte {
	return mkFrame(model.MsgTypeEnd, model.ConnectionClose{ConnectionClose: model.ConnectionCloseType{Phase: model.ConnectionClosePhaseType(phase)}})
}

func dataMsg(payload string) []byte {
	return mkFrame(model.MsgTypeData, model.ShipData{Data: model.DataType{
		Header: model.HeaderType{ProtocolId: model.ShipProtocolId}, Payload: json.RawMessage(payload)}})
}

var waitings = []*uint{nil, uptr(0), uptr(500), uptr(999), uptr(1000), uptr(15000), uptr(29999), uptr(33000), uptr(60000), uptr(100000)}
var prolongs = []*bool{nil, bptr(true), bptr(false)}
var utf8 = model.MessageProtocolFormatTypeUTF8
var utf16 = model.MessageProtocolFormatTypeUTF16
var formatSets = [][]model.MessageProtocolFormatType{{utf8}, {utf8}, {utf8}, {utf16}, {}, nil, {utf8, utf16}, {utf16, utf8}}

type gen struct {
	rnd     *rand.Rand
	ids     []string
	payload int
}

func (g *gen) pick(n int) int { return g.rnd.Intn(n) }

func (g *gen) randHello() []byte {
	phases := []string{"ready", "ready", "pending", "pending", "aborted", "foo", ""}
	w := waitings[g.pick(len(waitings))]
	if connFuzz && g.pick(3) == 0 {
		w = nil // members that are simply missing
	}
	return helloMsg(phases[g.pick(len(phases))], w, prolongs[g.pick(len(prolongs))])
}

func (g *gen) randProt() []byte {
	if g.pick(12) == 0 {
		// present but empty format list, written so that the textual EEBUS pass does not rewrite it
		return append([]byte{1}, []byte(`{"messageProtocolHandshake":[{"handshakeType":"select"},{"version":[{"major":1},{"minor":0}]},{"formats":[{"format":[ ]}]}]}`)...)
	}
	types := []string{"announceMax", "select", "announceMax", "select", "foo"}
	vers := [][2]uint8{{1, 0}, {1, 0}, {1, 0}, {1, 1}, {2, 0}, {0, 0}}
	v := vers[g.pick(len(vers))]
	return protMsg(types[g.pick(len(types))], v[0], v[1], formatSets[g.pick(len(formatSets))])
}

func (g *gen) randPin() []byte {
	s := []string{"none", "none", "none", "required", "optional", "pinOk", "foo"}
	return pinMsg(s[g.pick(len(s))])
}

func (g *gen) randAcc() []byte {
	switch g.pick(8) {
	case 0, 1, 2:
		return accReqMsg()
	case 3:
		return accMethodsMsg(nil)
	case 4:
		return append([]byte{1}, []byte(`{"accessMethods":[{"id":5}]}`)...)
	default:
		return accMethodsMsg(sptr(g.ids[g.pick(len(g.ids))]))
	}
}

func (g *gen) randData() []byte {
	switch g.pick(10) {
	case 0:
		return helloMsg("datagram", nil, nil) // routed to the SPINE path, carries no payload
	case 1:
		return append([]byte{2}, []byte(`{"data":[{"header":[{"protocolId":"ee1.0"}]},{"payload":{"datagram":`)...) // truncated
	default:
		g.payload++
		return dataMsg(fmt.Sprintf(`{"datagram":{"n":%d}}`, g.payload))
	}
}

func (g *gen) randClose() []byte {
	s := []string{"announce", "confirm", "announce", "confirm", "foo", ""}
	return closeMsg(s[g.pick(len(s))])
}

// connFuzz: peer-controlled input dominated by malformed and out-of-phase messages (C08)
var connFuzz bool

var fuzzTokens = []string{"null", "[]", "[ ]", "{}", "{ }", `""`, "-1", "0", "1e999", "4294967296", "true", `"x"`, `[{}]`, `[[]]`, `[null]`, `{"a":1}`, `"\u0000"`, "18446744073709551616"}

// structured mutation of a valid message
func (g *gen) mutate() []byte {
	m := append([]byte{}, g.anyValid()...)
	if len(m) < 2 {
		return m
	}
	body := string(m[1:])
	switch g.pick(11) {
	case 0, 1, 2: // replace the value after a random ':' by a token of another shape
		var pos []int
		for i, c := range body {
			if c == ':' {
				pos = append(pos, i)
			}
		}
		if len(pos) > 0 {
			i := pos[g.pick(len(pos))]
			j := i + 1
			depth := 0
			inStr := false
			for ; j < len(body); j++ {
				c := body[j]
				if inStr {
					if c == '"' {
						inStr = false
					}
					continue
				}
				if c == '"' {
					inStr = true
				} else if c == '[' || c == '{' {
					depth++
				} else if c == ']' || c == '}' {
					if depth == 0 {
						break
					}
					depth--
				} else if c == ',' && depth == 0 {
					break
				}
			}
			body = body[:i+1] + fuzzTokens[g.pick(len(fuzzTokens))] + body[j:]
		}
	case 3: // whitespace inside brackets and braces
		body = strings.ReplaceAll(body, "[", "[ ")
		if g.pick(2) == 0 {
			body = strings.ReplaceAll(body, "{", "{\n")
		}
	case 4: // drop one element of the first array
		if i := strings.Index(body, "},{"); i >= 0 {
			if j := strings.Index(body[i+2:], "}"); j >= 0 {
				body = body[:i+1] + body[i+2+j+1:]
			}
		}
	case 5: // duplicate the tail
		if i := strings.Index(body, ",{"); i >= 0 {
			body = body[:i] + body[i:len(body)-2] + body[i:]
		}
	case 6: // wrong header byte
		m[0] = byte(g.pick(6))
	case 7: // trailing bytes
		body += []string{"}", "]", ",", "\x00", " {}", "garbage"}[g.pick(6)]
	case 8: // a very long message
		body = strings.Replace(body, "[", "["+strings.Repeat(`{"x":[]},`, 500+g.pick(3000)), 1)
	case 9: // deep nesting
		k := 50 + g.pick(12000)
		body = strings.Replace(body, ":", ":"+strings.Repeat("[", k)+strings.Repeat("]", k)+",\"y\":", 1)
	default: // bytes that are not UTF-8
		b := []byte(body)
		if len(b) > 0 {
			b[g.pick(len(b))] = byte(0x80 + g.pick(0x7f))
		}
		body = string(b)
	}
	return append([]byte{m[0]}, []byte(body)...)
}

func (g *gen) garbage() []byte {
	if connFuzz && g.pick(3) != 0 {
		return g.mutate()
	}
	switch g.pick(6) {
	case 0:
		n := g.pick(12)
		b := make([]byte, n)
		g.rnd.Read(b)
		return b
	case 1:
		m := g.anyValid()
		if len(m) > 3 {
			return m[:1+g.pick(len(m)-1)]
		}
		return m
	case 2:
		m := append([]byte{}, g.anyValid()...)
		if len(m) > 0 {
			m[g.pick(len(m))] ^= byte(1 << uint(g.pick(8)))
		}
		return m
	case 3:
		return []byte{1, '{', '}'}
	case 4:
		return []byte{byte(g.pick(5)), byte(g.pick(3))}
	default:
		return append([]byte{1}, []byte(`{"connectionHello":[{"phase":"ready"},{"waiting":"soon"}]}`)...)
	}
}

func (g *gen) anyValid() []byte {
	switch g.pick(7) {
	case 0:
		return []byte{0, 0}
	case 1:
		return g.randHello()
	case 2:
		return g.randProt()
	case 3:
		return g.randPin()
	case 4:
		return g.randAcc()
	case 5:
		return g.randClose()
	default:
		return g.randData()
	}
}

// message that makes progress (or is at least in phase) for the given state
func (g *gen) inPhase(state uint) []byte {
	switch state {
	case 2, 4:
		if g.pick(8) == 0 {
			return [][]byte{{1, 0}, {0, 1}, {0}, {0, 0, 0}}[g.pick(4)]
		}
		return []byte{0, 0}
	case 8:
		if g.pick(3) == 0 {
			return g.randHello()
		}
		return helloMsg("ready", uptr(60000), nil)
	case 11:
		if g.pick(2) == 0 {
			return g.randHello()
		}
		return helloMsg("ready", uptr(60000), nil)
	case 20:
		if g.pick(4) == 0 {
			return g.randProt()
		}
		return protMsg("announceMax", 1, 0, formatSets[0])
	case 21, 22:
		if g.pick(4) == 0 {
			return g.randProt()
		}
		return protMsg("select", 1, 0, formatSets[0])
	case 27:
		if g.pick(5) == 0 {
			return g.randPin()
		}
		return pinMsg("none")
	case 36:
		return g.randAcc()
	}
	return g.anyValid()
}

// ---------------------------------------------------------------- scenario

type scenario struct {
	id      int
	header  string
	events  []string // input lines
	outs    []string // implementation observation lines
	aux     []string // per event: facts that are not part of the correspondence (timer generation)
	elapsed time.Duration
}

type runner struct {
	g        *gen
	conn     *ship.ShipConnection
	w        *mockWriter
	p        *mockProvider
	r        *rec
	cbSeen   bool
	lateSent bool // the one message the data connection may still hand over after the close has been delivered
	setup    bool
	pendRej  bool
	rejSince time.Time
	pendGr   bool
	grSince  time.Time
	sc       *scenario
	dead     bool
	gens     []any
}

const eventDeadline = 5 * time.Second

// run f with panic capture and a deadline
func (rn *runner) guarded(f func()) {
	done := make(chan string, 1)
	go func() {
		defer func() {
			if x := recover(); x != nil {
				done <- fmt.Sprintf("PANIC:%s", hex.EncodeToString([]byte(fmt.Sprint(x))))
				return
			}
			done <- ""
		}()
		f()
	}()
	select {
	case s := <-done:
		if s != "" {
			rn.r.add(s)
			rn.dead = true
		}
	case <-time.After(eventDeadline):
		rn.r.add("HANG")
		rn.dead = true
	}
}

func (rn *runner) snapLine(final bool) string {
	st, t, tt, buf, _ := rn.conn.VerifSnapshot()
	s := fmt.Sprintf("st=%d t=%s tt=%d buf=%d ws=%s", st, b01(t), tt, buf, b01(rn.w.isClosed()))
	if final {
		s += " final=1"
	}
	return s
}

func (rn *runner) do(line string, e env, failAt int, f func()) {
	envs := b01(e.paired) + b01(e.auto) + b01(e.allow)
	fs := "-"
	if failAt >= 0 {
		fs = fmt.Sprint(failAt)
	}
	rn.p.set(e)
	rn.w.beginEvent(failAt)
	rn.guarded(f)
	obs := rn.r.take()
	for _, o := range obs {
		switch {
		case strings.HasPrefix(o, "CB:"):
			rn.cbSeen = true
			rn.pendGr = false
		case o == "SETUP":
			rn.setup = true
		case o == "S15" || o == "S16":
			if !rn.pendRej {
				rn.pendRej = true
				rn.rejSince = time.Now()
			}
		}
	}
	rn.sc.aux = append(rn.sc.aux, fmt.Sprintf("gen=%d", rn.genIndex()))
	rn.sc.events = append(rn.sc.events, fmt.Sprintf("%s env=%s fail=%s", line, envs, fs))
	rn.sc.outs = append(rn.sc.outs, strings.Join(obs, " ")+" | "+rn.snapLine(false))
}

// index of the armed timer's stop channel among the ones seen in this scenario (kept alive, so never reused)
func (rn *runner) genIndex() int {
	g := rn.conn.VerifTimerGeneration()
	for i, x := range rn.gens {
		if x == g {
			return i
		}
	}
	rn.gens = append(rn.gens, g)
	return len(rn.gens) - 1
}

func (rn *runner) randEnv() env {
	g := rn.g
	return env{paired: g.pick(3) == 0, auto: g.pick(4) == 0, allow: g.pick(2) == 0}
}

func (rn *runner) randFail() int {
	switch k := rn.g.pick(20); {
	case k < 3:
		return 0
	case k < 5:
		return 1
	case k < 6:
		return 2
	}
	return -1
}

func (rn *runner) evMsg(msg []byte) {
	if (rn.pendRej || rn.pendGr) && strings.Contains(msgViews(msg), "close=announce") && !bytes.Contains(msg, []byte("datagram")) {
		// the announce handler sleeps 500 ms: a sleeping closer would fire in the middle of it
		return
	}
	line := "msg raw=" + hex.EncodeToString(msg) + " " + msgViews(msg)
	rn.do(line, rn.randEnv(), rn.randFail(), func() { rn.conn.HandleIncomingWebsocketMessage(msg) })
}

func runScenario(id int, seed int64, maxEvents int) *scenario {
	g := &gen{rnd: rand.New(rand.NewSource(seed)), ids: []string{"RemoteShipID", "OtherID", "", "x"}}
	role := ship.ShipRoleServer
	rs := "s"
	if g.pick(2) == 0 {
		role = ship.ShipRoleClient
		rs = "c"
	}
	stored := []string{"", "", "RemoteShipID", "OtherID"}[g.pick(4)]
	local := "LocalShipID"
	r := &rec{}
	w := &mockWriter{r: r, failAt: -1, reason: fmt.Sprintf("ur-%d", id)}
	p := &mockProvider{r: r}
	sc := &scenario{id: id, header: fmt.Sprintf("new role=%s stored=%s local=%s", rs, hex.EncodeToString([]byte(stored)), hex.EncodeToString([]byte(local)))}
	conn := ship.NewConnectionHandler(p, w, role, local, "ski-remote", stored)
	rn := &runner{g: g, conn: conn, w: w, p: p, r: r, sc: sc}
	start := time.Now()

	if g.pick(8) == 0 {
		// the read pump is started by NewConnectionHandler, Run() is called a moment later: the peer's first
		// message can be handled before Run()
		if g.pick(3) == 0 {
			rn.evMsg(g.anyValid())
		} else {
			rn.evMsg([]byte{0, 0})
		}
	}
	rn.do("run", rn.randEnv(), rn.randFail(), func() { conn.Run() })

	// bias of this scenario: how cooperative the peer is
	coop := 55 + g.pick(40)
	fuzzDepth := 0 // fuzz mode: this many events first follow the protocol, so that malformed input arrives in deep states too
	if connFuzz {
		coop = 20 + g.pick(45)
		fuzzDepth = g.pick(9)
	}
	postTerm := 0
	for n := 0; n < maxEvents && !rn.dead; n++ {
		// the sleeping closers of the implementation fire on their own after 1 s / 500 ms: keep clear of that
		if rn.pendRej && time.Since(rn.rejSince) > 500*time.Millisecond {
			break
		}
		if rn.pendGr && time.Since(rn.grSince) > 250*time.Millisecond {
			break
		}
		st, trun, _, _, _ := conn.VerifSnapshot()
		open := !w.isClosed()
		slow := rn.pendRej || rn.pendGr // no 500 ms waits while a closer is pending
		if st == 15 || st == 16 || st == 17 || st == 39 || !open {
			postTerm++
			if postTerm > 4 {
				break
			}
		}
		if !open && !rn.lateSent && g.pick(2) == 0 {
			// the data connection was closed while a message had just been read: that one message is still handed over
			// (C13 bounds this by one); the connection must not act on it
			rn.lateSent = true
			if g.pick(3) == 0 {
				rn.evMsg(g.randData())
			} else {
				rn.evMsg(g.inPhase(st))
			}
			continue
		}
		k := g.pick(100)
		if connFuzz && n < fuzzDepth {
			k = g.pick(coop + 1) // cooperative
		} else if connFuzz && open && g.pick(3) == 0 {
			// unusual but well-formed hello messages in whatever state the connection is in
			rn.evMsg(g.randHello())
			continue
		}
		if st == 38 && open && !rn.cbSeen && g.pick(2) == 0 {
			// completed connection: data in both directions and the ways it can end
			switch c := g.pick(20); {
			case c < 6:
				rn.evMsg(g.randData())
			case c < 11:
				rn.appWrite()
			case c < 14:
				if !rn.pendGr {
					code := []int{0, 4500}[g.pick(2)]
					rn.do(fmt.Sprintf("close safe=1 code=%d reason=%s", code, hex.EncodeToString([]byte(w.reason))),
						rn.randEnv(), rn.randFail(), func() { conn.CloseConnection(true, code, w.reason) })
					if !rn.cbSeen {
						rn.pendGr = true
						rn.grSince = time.Now()
					}
				}
			case c < 16:
				if !slow {
					rn.evMsg(closeMsg("announce"))
				}
			case c < 17:
				rn.evMsg(closeMsg("confirm"))
			case c < 18:
				w.setClosed()
				rn.do("connerr", rn.randEnv(), rn.randFail(), func() { conn.ReportConnectionError(fmt.Errorf("transport down")) })
			default:
				rn.evMsg(g.anyValid())
			}
			continue
		}
		// a pending pairing request: the user's decision is the interesting event
		if st == 11 && !rn.cbSeen && g.pick(4) == 0 {
			if g.pick(3) != 0 {
				rn.do("approve", rn.randEnv(), rn.randFail(), func() { conn.ApprovePendingHandshake() })
			} else {
				rn.do("abort", rn.randEnv(), rn.randFail(), func() { conn.AbortPendingHandshake() })
			}
			continue
		}
		switch {
		case k < coop && open:
			m := g.inPhase(st)
			if slow && strings.Contains(msgViews(m), "close=announce") {
				continue
			}
			rn.evMsg(m)
		case k < coop+8 && open:
			m := g.anyValid()
			if slow && strings.Contains(msgViews(m), "close=announce") {
				continue
			}
			rn.evMsg(m)
		case (k < coop+14 || (connFuzz && k < coop+45)) && open:
			rn.evMsg(g.garbage())
		case k < coop+20 && open:
			rn.evMsg(g.randData())
		default:
			switch g.pick(12) {
			case 0, 1:
				if trun {
					e := rn.randEnv()
					_, _, tt, _, _ := conn.VerifSnapshot()
					rn.do("timeout", e, rn.randFail(), func() { conn.VerifFireTimeout() })
					if st == 11 && !e.allow && tt == 1 && !rn.dead {
						// handshakeHello_PendingTimeout arms the reply timer with
						// time.Duration(66000) = 66 µs when no waiting value was received:
						// the real timer fires at once. Record that as its own timeout event.
						rn.spontaneousTimeout(e)
					}
				}
			case 2, 3:
				if !rn.cbSeen {
					rn.do("approve", rn.randEnv(), rn.randFail(), func() { conn.ApprovePendingHandshake() })
				}
			case 4:
				if !rn.cbSeen {
					rn.do("abort", rn.randEnv(), rn.randFail(), func() { conn.AbortPendingHandshake() })
				}
			case 5:
				if !rn.cbSeen {
					safe := g.pick(2) == 0
					code := []int{0, 0, 4500, 4444}[g.pick(4)]
					wasGr := rn.pendGr
					rn.do(fmt.Sprintf("close safe=%s code=%d reason=%s", b01(safe), code, hex.EncodeToString([]byte(w.reason))),
						rn.randEnv(), rn.randFail(), func() { conn.CloseConnection(safe, code, w.reason) })
					if !rn.cbSeen && !wasGr && safe && st == 38 {
						rn.pendGr = true
						rn.grSince = time.Now()
					}
				}
			case 6:
				if open {
					w.setClosed()
					rn.do("connerr", rn.randEnv(), rn.randFail(), func() { conn.ReportConnectionError(fmt.Errorf("transport down")) })
				}
			case 7, 8:
				if rn.setup {
					rn.appWrite()
				}
			case 9:
				if rn.pendRej {
					rn.do("firerej", rn.randEnv(), rn.randFail(), func() { conn.CloseConnection(false, 4452, "Node rejected by application") })
					rn.pendRej = false
				}
			case 10:
				if rn.pendGr {
					rn.fireGrace()
				}
			default:
				if open && !slow {
					rn.evMsg(g.randClose())
				}
			}
		}
	}
	// settle: let every sleeping closer run, then take the final snapshot
	if !rn.dead {
		if rn.pendGr {
			rn.fireGrace()
		}
		if rn.pendRej {
			rn.do("firerej", env{}, -1, func() { conn.CloseConnection(false, 4452, "Node rejected by application") })
			rn.pendRej = false
		}
		if n := len(sc.outs); n > 0 {
			sc.outs[n-1] += " final=1"
		}
	}
	r.mu.Lock()
	r.off = true
	r.mu.Unlock()
	sc.elapsed = time.Since(start)
	return sc
}

// wait for the implementation's own (very short) timer to fire and record what it did
func (rn *runner) spontaneousTimeout(e env) {
	st0, trun, _, _, _ := rn.conn.VerifSnapshot()
	if !trun || st0 != 11 {
		return
	}
	fired := false
	rn.do("timeout", e, -1, func() {
		deadline := time.Now().Add(40 * time.Millisecond)
		for time.Now().Before(deadline) {
			st, _, _, _, _ := rn.conn.VerifSnapshot()
			if st != 11 {
				fired = true
				break
			}
			time.Sleep(200 * time.Microsecond)
		}
		if fired {
			// let the handler finish (abort message, state 15 or 39)
			for i := 0; i < 200; i++ {
				st, _, _, _, _ := rn.conn.VerifSnapshot()
				if st == 15 || st == 39 {
					break
				}
				time.Sleep(200 * time.Microsecond)
			}
			time.Sleep(2 * time.Millisecond)
		}
	})
	if !fired {
		// the armed timer is a long one: nothing happened, drop the record
		n := len(rn.sc.events)
		rn.sc.events = rn.sc.events[:n-1]
		rn.sc.outs = rn.sc.outs[:n-1]
		rn.sc.aux = rn.sc.aux[:len(rn.sc.aux)-1]
	}
}

func (rn *runner) appWrite() {
	g := rn.g
	rn.p.mu.Lock()
	wr := rn.p.writer
	rn.p.mu.Unlock()
	valid := g.pick(6) != 0
	g.payload++
	pl := fmt.Sprintf(`{"datagram":{"w":%d}}`, g.payload)
	if !valid {
		pl = `{"datagram":`
	}
	rn.do(fmt.Sprintf("appwrite valid=%s payload=%s", b01(valid), hex.EncodeToString([]byte(pl))),
		rn.randEnv(), rn.randFail(), func() { wr.WriteShipMessageWithPayload([]byte(pl)) })
}

func (rn *runner) fireGrace() {
	rn.do("firegrace", env{}, -1, func() {
		deadline := time.Now().Add(1500 * time.Millisecond)
		for time.Now().Before(deadline) {
			rn.r.mu.Lock()
			seen := false
			for _, o := range rn.r.obs {
				if strings.HasPrefix(o, "CB:") {
					seen = true
				}
			}
			rn.r.mu.Unlock()
			if seen {
				return
			}
			time.Sleep(5 * time.Millisecond)
		}
	})
	rn.pendGr = false
}

// ---------------------------------------------------------------- main

func connstepMain(args []string) int {
	fs := flag.NewFlagSet("connstep", flag.ExitOnError)
	seed := fs.Int64("seed", 1, "PRNG seed")
	n := fs.Int("n", 1000, "number of scenarios")
	maxEv := fs.Int("events", 30, "max events per scenario")
	workers := fs.Int("workers", 32, "parallel scenarios")
	outIn := fs.String("in", "conn_in.txt", "event lines (model input)")
	outImpl := fs.String("impl", "conn_impl.txt", "implementation observation lines")
	outAux := fs.String("aux", "", "per-event auxiliary facts (timer generation), one line per event line")
	fuzz := fs.Bool("fuzz", false, "malformed and out-of-phase messages dominate (C08)")
	_ = fs.Parse(args)
	connFuzz = *fuzz

	res := make([]*scenario, *n)
	var wg sync.WaitGroup
	sem := make(chan struct{}, *workers)
	for i := 0; i < *n; i++ {
		wg.Add(1)
		sem <- struct{}{}
		go func(i int) {
			defer wg.Done()
			defer func() { <-sem }()
			res[i] = runScenario(i, *seed*1000003+int64(i), *maxEv)
		}(i)
	}
	wg.Wait()

	fi, _ := os.Create(*outIn)
	fo, _ := os.Create(*outImpl)
	bi, bo := bufio.NewWriter(fi), bufio.NewWriter(fo)
	for _, sc := range res {
		fmt.Fprintln(bi, sc.header)
		fmt.Fprintln(bo, "new")
		for k := range sc.events {
			fmt.Fprintln(bi, sc.events[k])
			fmt.Fprintln(bo, sc.outs[k])
		}
	}
	bi.Flush()
	bo.Flush()
	fi.Close()
	fo.Close()
	if *outAux != "" {
		fa, _ := os.Create(*outAux)
		ba := bufio.NewWriter(fa)
		for _, sc := range res {
			fmt.Fprintln(ba, "new")
			for k := range sc.events {
				fmt.Fprintln(ba, sc.aux[k])
			}
		}
		ba.Flush()
		fa.Close()
	}
	return 0
}
