//go:build verif

package main

// Engine wsstress (C12, C13): real ws.WebsocketConnection over a loopback websocket whose net.Conn can
// fail at a chosen write or read; many writers; a closing event (local close, peer close frame, abrupt
// cut, failing write) at a random moment. Each trial's outcome is checked against the statements of
// C12/C13; the goroutine dump after each batch must not contain pump frames; every wrapped net.Conn
// of a closed connection must have been closed.

import (
	"bytes"
	"errors"
	"flag"
	"fmt"
	"math/rand"
	"net"
	"net/http"
	"net/http/httptest"
	"os"
	"runtime/pprof"
	"strings"
	"sync"
	"sync/atomic"
	"time"

	"github.com/enbility/ship-go/ws"
	"github.com/gorilla/websocket"
)

type faultConn struct {
	net.Conn
	mu          sync.Mutex
	writes      int
	reads       int
	failWriteAt int // -1: never
	failReadAt  int
	closed      int32
	onRead      func() // runs once, after the next read that returned data and before the data is handed to the caller
	gate        chan struct{} // if set: the next read that returned data waits here and then fails
	gateHit     chan struct{}
}

func (c *faultConn) Write(b []byte) (int, error) {
	c.mu.Lock()
	n := c.writes
	c.writes++
	f := c.failWriteAt
	c.mu.Unlock()
	if f >= 0 && n >= f {
		return 0, errors.New("injected write failure")
	}
	return c.Conn.Write(b)
}

func (c *faultConn) Read(b []byte) (int, error) {
	c.mu.Lock()
	n := c.reads
	c.reads++
	f := c.failReadAt
	c.mu.Unlock()
	if f >= 0 && n >= f {
		return 0, errors.New("injected read failure")
	}
	k, err := c.Conn.Read(b)
	if k > 0 {
		c.mu.Lock()
		h := c.onRead
		c.onRead = nil
		g, gh := c.gate, c.gateHit
		c.gate = nil
		c.mu.Unlock()
		if h != nil {
			h()
		}
		if g != nil {
			close(gh)
			<-g
			return 0, errors.New("injected read failure (released together with a local close)")
		}
	}
	return k, err
}

func (c *faultConn) Close() error {
	atomic.StoreInt32(&c.closed, 1)
	return c.Conn.Close()
}

type wsReader struct {
	mu        sync.Mutex
	delivered [][]byte
	reports   int
	lastErr   error
	afterErr  int // deliveries after an error report
	closedNow bool
	afterCls  int // deliveries after a close that had completed before the read returned
}

func (r *wsReader) HandleIncomingWebsocketMessage(m []byte) {
	r.mu.Lock()
	r.delivered = append(r.delivered, append([]byte{}, m...))
	if r.reports > 0 {
		r.afterErr++
	}
	if r.closedNow {
		r.afterCls++
	}
	r.mu.Unlock()
}

func (r *wsReader) ReportConnectionError(err error) {
	r.mu.Lock()
	r.reports++
	r.lastErr = err
	r.mu.Unlock()
}

type wsTrialResult struct {
	id   int
	kind string
	bad  []string
	info string
}

var wsPeers sync.Map // trial id -> chan *websocket.Conn

func wsPeerHandler(w http.ResponseWriter, r *http.Request) {
	up := websocket.Upgrader{CheckOrigin: func(*http.Request) bool { return true }}
	c, err := up.Upgrade(w, r, nil)
	if err != nil {
		return
	}
	if ch, ok := wsPeers.Load(r.URL.Query().Get("t")); ok {
		ch.(chan *websocket.Conn) <- c
	} else {
		c.Close()
	}
}

func runWsTrial(id int, seed int64, url string) *wsTrialResult {
	rnd := rand.New(rand.NewSource(seed))
	res := &wsTrialResult{id: id}
	fail := func(f string, a ...any) { res.bad = append(res.bad, fmt.Sprintf(f, a...)) }

	nWriters := 1 + rnd.Intn(8)
	perWriter := 1 + rnd.Intn(6)
	kinds := []string{"local", "localreason", "peerclose", "cut", "writefault", "readfault", "peermsgs+local", "closeduringread", "local||readerror"}
	kind := kinds[rnd.Intn(len(kinds))]
	// now and then: a peer that stops reading, writers blocked on a full queue, then a local close with a reason -
	// everything must come back once the transport write deadline (10 s) has passed
	big := rnd.Intn(100) == 0 || wsStallOnly
	if big {
		kind = "stalledpeer+localreason"
	}
	res.kind = kind
	delay := time.Duration(rnd.Intn(1500)) * time.Microsecond

	// every call into the connection is watched: one that does not come back is the finding (C12: "always returns"),
	// the trial is abandoned with its goroutines
	var hungFlag atomic.Bool
	guarded := func(what string, d time.Duration, f func()) bool {
		if hungFlag.Load() {
			return false
		}
		ch := make(chan struct{})
		go func() { defer close(ch); f() }()
		select {
		case <-ch:
			return true
		case <-time.After(d):
			hungFlag.Store(true)
			fail("C12: C13: %s did not return within %s (blocked); kind=%s", what, d, res.kind)
			return false
		}
	}

	peerCh := make(chan *websocket.Conn, 1)
	key := fmt.Sprint(id)
	wsPeers.Store(key, peerCh)
	defer wsPeers.Delete(key)

	var fc *faultConn
	dialer := websocket.Dialer{NetDial: func(network, addr string) (net.Conn, error) {
		c, err := net.Dial(network, addr)
		if err != nil {
			return nil, err
		}
		fc = &faultConn{Conn: c, failWriteAt: -1, failReadAt: -1}
		return fc, nil
	}}
	conn, resp, err := dialer.Dial(url+"?t="+key, nil)
	if err != nil {
		res.bad = append(res.bad, "dial: "+err.Error())
		return res
	}
	resp.Body.Close()
	peer := <-peerCh
	defer peer.Close()

	// peer reader: records what it receives
	var peerMu sync.Mutex
	var peerGot [][]byte
	peerDone := make(chan struct{})
	peerMayRead := make(chan struct{})
	if !big {
		close(peerMayRead)
	}
	go func() {
		defer close(peerDone)
		<-peerMayRead
		for {
			_, m, err := peer.ReadMessage()
			if err != nil {
				return
			}
			peerMu.Lock()
			peerGot = append(peerGot, m)
			peerMu.Unlock()
		}
	}()

	reader := &wsReader{}
	sut := ws.NewWebsocketConnection(conn, "ski")
	sut.InitDataProcessing(reader)


	type wres struct {
		accepted [][]byte
		rejected int
		panicked string
		lateOK   int // nil result although the connection was observed closed before the call
	}
	wr := make([]*wres, nWriters)
	var wg sync.WaitGroup
	start := make(chan struct{})
	for i := 0; i < nWriters; i++ {
		wr[i] = &wres{}
		wg.Add(1)
		go func(i int) {
			defer wg.Done()
			defer func() {
				if x := recover(); x != nil {
					wr[i].panicked = fmt.Sprint(x)
				}
			}()
			<-start
			wrnd := rand.New(rand.NewSource(seed*131 + int64(i))) // math/rand sources are not safe for concurrent use
			for j := 0; j < perWriter; j++ {
				msg := []byte{1, byte(i), byte(j), 0xAA}
				if big {
					msg = append(msg, make([]byte, 1<<20)...)
				}
				closedBefore, _ := sut.IsDataConnectionClosed()
				err := sut.WriteMessageToWebsocketConnection(msg)
				if err == nil {
					wr[i].accepted = append(wr[i].accepted, msg)
					if closedBefore {
						wr[i].lateOK++
					}
				} else {
					wr[i].rejected++
				}
				if wrnd.Intn(3) == 0 {
					time.Sleep(time.Duration(50+i*37%200) * time.Microsecond)
				}
			}
		}(i)
	}
	// peer traffic towards the sut
	peerSent := 0
	if strings.HasPrefix(kind, "peermsgs") || rnd.Intn(2) == 0 {
		for k := 0; k < 3; k++ {
			if peer.WriteMessage(websocket.BinaryMessage, []byte{1, 0xBB, byte(k)}) == nil {
				peerSent++
			}
		}
	}
	close(start)
	time.Sleep(delay)
	switch kind {
	case "local", "peermsgs+local":
		guarded("CloseDataConnection(4001, \"\")", 15*time.Second, func() { sut.CloseDataConnection(4001, "") })
	case "stalledpeer+localreason":
		time.Sleep(300 * time.Millisecond)
		guarded("CloseDataConnection(4001, \"bye\") with a stalled peer and blocked writers", 25*time.Second, func() { sut.CloseDataConnection(4001, "bye") })
		close(peerMayRead)
	case "localreason":
		guarded("CloseDataConnection(4001, \"bye\")", 15*time.Second, func() { sut.CloseDataConnection(4001, "bye") })
	case "peerclose":
		// regular and irregular close codes alike: the SHIP layer has to learn that the connection is gone
		code := []int{1000, 1001, 1002, 1011, 4001, 4452, 4000 + rnd.Intn(500)}[rnd.Intn(7)]
		_ = peer.WriteMessage(websocket.CloseMessage, websocket.FormatCloseMessage(code, "peer"))
	case "closeduringread":
		// the frame is taken from the socket, then the connection is closed locally, then the read returns it
		fc.mu.Lock()
		fc.onRead = func() {
			guarded("CloseDataConnection(4001, \"\") during a read", 15*time.Second, func() { sut.CloseDataConnection(4001, "") })
			reader.mu.Lock()
			reader.closedNow = true
			reader.mu.Unlock()
		}
		fc.mu.Unlock()
		_ = peer.WriteMessage(websocket.BinaryMessage, []byte{1, 0xDD, 0xDD})
	case "local||readerror":
		// two closing events within a few instructions of each other: a read that fails and a local close
		gate, hit := make(chan struct{}), make(chan struct{})
		fc.mu.Lock()
		fc.gate, fc.gateHit = gate, hit
		fc.mu.Unlock()
		_ = peer.WriteMessage(websocket.BinaryMessage, []byte{1, 0xDE, 0xDE})
		select {
		case <-hit:
			var goFlag atomic.Bool
			go func() {
				for !goFlag.Load() {
				}
				close(gate)
			}()
			time.Sleep(50 * time.Microsecond)
			goFlag.Store(true)
			guarded("CloseDataConnection(4001, \"\") racing with a read error", 15*time.Second, func() { sut.CloseDataConnection(4001, "") })
		case <-time.After(2 * time.Second):
			close(gate)
			guarded("CloseDataConnection(4001, \"\")", 15*time.Second, func() { sut.CloseDataConnection(4001, "") })
		}
	case "cut":
		_ = peer.UnderlyingConn().Close()
	case "writefault":
		fc.mu.Lock()
		fc.failWriteAt = fc.writes + rnd.Intn(4)
		fc.mu.Unlock()
	case "readfault":
		fc.mu.Lock()
		fc.failReadAt = fc.reads
		fc.mu.Unlock()
		// something must arrive (or the blocked read must return) for the fault to show
		_ = peer.WriteMessage(websocket.BinaryMessage, []byte{1, 0xCC})
	}
	// writers must return
	done := make(chan struct{})
	go func() { wg.Wait(); close(done) }()
	select {
	case <-done:
	case <-time.After(25 * time.Second):
		fail("C12: a writer did not return within 25 s")
		guarded("CloseDataConnection after a stuck writer", 5*time.Second, func() { sut.CloseDataConnection(4001, "") })
		return res
	}
	if hungFlag.Load() {
		return res
	}
	// a write fault only shows when something is written; make sure the connection does end
	if kind == "writefault" {
		for k := 0; k < 50; k++ {
			if c, _ := sut.IsDataConnectionClosed(); c {
				break
			}
			if !guarded("Write (probe)", 15*time.Second, func() { _ = sut.WriteMessageToWebsocketConnection([]byte{1, 0xEE, byte(k)}) }) {
				return res
			}
			time.Sleep(2 * time.Millisecond)
		}
	}
	// wait for closed
	deadline := time.Now().Add(2 * time.Second)
	for time.Now().Before(deadline) {
		if c, _ := sut.IsDataConnectionClosed(); c {
			break
		}
		time.Sleep(time.Millisecond)
	}
	closed, cerr := sut.IsDataConnectionClosed()
	if !closed {
		fail("C13: connection not closed after %s", kind)
		guarded("CloseDataConnection", 15*time.Second, func() { sut.CloseDataConnection(4001, "") })
	} else if cerr == nil {
		fail("C13: closed-query returned a nil error")
	}
	// a write now must fail
	var lastErr error
	if !guarded("Write on the closed connection", 15*time.Second, func() { lastErr = sut.WriteMessageToWebsocketConnection([]byte{1, 0xFF}) }) {
		return res
	}
	if lastErr == nil {
		fail("C12: write on a closed connection returned nil")
	}
	time.Sleep(20 * time.Millisecond)
	peer.Close()
	<-peerDone

	// --- verdicts
	for i, w := range wr {
		if w.panicked != "" {
			fail("C12: writer %d panicked: %s", i, w.panicked)
		}
		if w.lateOK > 0 {
			fail("C12: writer %d: %d writes accepted although the connection was closed before the call", i, w.lateOK)
		}
	}
	// per writer: what the peer got from it is a prefix of what was accepted from it; no duplicates, no foreign bytes
	peerMu.Lock()
	got := peerGot
	peerMu.Unlock()
	per := make([][][]byte, nWriters)
	for _, m := range got {
		if big && len(m) == 4+1<<20 {
			m = m[:4]
		}
		if len(m) == 4 && m[0] == 1 && m[3] == 0xAA && int(m[1]) < nWriters {
			per[m[1]] = append(per[m[1]], m)
		} else if len(m) >= 2 && m[1] == 0xEE {
			// probe writes
		} else {
			fail("C12: peer received an unexpected frame %x", m)
		}
	}
	lost := 0
	for i := range per {
		if len(per[i]) > len(wr[i].accepted) {
			fail("C12: peer got more messages of writer %d than were accepted", i)
			continue
		}
		for k := range per[i] {
			if !bytes.Equal(per[i][k], wr[i].accepted[k][:4]) {
				fail("C12: writer %d: peer got %x at position %d, accepted was %x (reordered, duplicated or gap)", i, per[i][k], k, wr[i].accepted[k])
				break
			}
		}
		lost += len(wr[i].accepted) - len(per[i])
	}
	reader.mu.Lock()
	reports, afterErr, ndel := reader.reports, reader.afterErr, len(reader.delivered)
	reader.mu.Unlock()
	switch kind {
	case "local", "localreason", "peermsgs+local", "closeduringread", "stalledpeer+localreason":
		if reports != 0 {
			fail("C13: %d error reports after a deliberate local close", reports)
		}
	case "local||readerror":
		// either event may have won
		if reports > 1 {
			fail("C13: %d error reports after %s (at most one)", reports, kind)
		}
	default:
		if reports != 1 {
			fail("C13: %d error reports after %s (expected exactly one)", reports, kind)
		}
	}
	// the one message whose read completed before the connection was closed may still be handed over
	// (C13_transport_loss: deliveredAfterClose <= 1); more than one is a violation
	if afterErr > 1 {
		fail("C13: %d messages delivered after the error report", afterErr)
	}
	reader.mu.Lock()
	afterCls := reader.afterCls
	reader.mu.Unlock()
	if afterCls > 0 {
		fail("C13: %d message(s) whose read returned after the local close had completed were delivered", afterCls)
	}
	if ndel > peerSent+1 {
		fail("C13: more deliveries (%d) than the peer sent (%d)", ndel, peerSent+1)
	}
	if atomic.LoadInt32(&fc.closed) == 0 {
		fail("C13: the network connection was never closed (%s)", kind)
	}
	res.info = fmt.Sprintf("writers=%d per=%d lost=%d reports=%d delivered=%d", nWriters, perWriter, lost, reports, ndel)
	return res
}

var wsStallOnly bool

func pumpFrames() int {
	var b bytes.Buffer
	_ = pprof.Lookup("goroutine").WriteTo(&b, 2)
	return strings.Count(b.String(), "WebsocketConnection).readShipPump") + strings.Count(b.String(), "WebsocketConnection).writeShipPump")
}

func wsstressMain(args []string) int {
	fs := flag.NewFlagSet("wsstress", flag.ExitOnError)
	seed := fs.Int64("seed", 1, "PRNG seed")
	n := fs.Int("n", 300, "number of trials")
	workers := fs.Int("workers", 16, "parallel trials")
	out := fs.String("out", "ws_out.txt", "result lines")
	stall := fs.Bool("stallonly", false, "only trials with a peer that stops reading")
	_ = fs.Parse(args)
	wsStallOnly = *stall
	srv := httptest.NewServer(http.HandlerFunc(wsPeerHandler))
	defer srv.Close()
	url := "ws" + strings.TrimPrefix(srv.URL, "http")
	res := make([]*wsTrialResult, *n)
	var wg sync.WaitGroup
	sem := make(chan struct{}, *workers)
	for i := 0; i < *n; i++ {
		wg.Add(1)
		sem <- struct{}{}
		go func(i int) {
			defer wg.Done()
			defer func() { <-sem }()
			res[i] = runWsTrial(i, *seed*104729+int64(i), url)
		}(i)
	}
	wg.Wait()
	// all connections are closed now: the pumps must be gone
	frames := 0
	for k := 0; k < 40; k++ {
		frames = pumpFrames()
		if frames == 0 {
			break
		}
		time.Sleep(50 * time.Millisecond)
	}
	f, _ := os.Create(*out)
	defer f.Close()
	for _, t := range res {
		v := "ok"
		if len(t.bad) > 0 {
			v = "BAD"
		}
		fmt.Fprintf(f, "%s trial=%d kind=%s %s %s\n", v, t.id, t.kind, t.info, strings.Join(t.bad, " | "))
	}
	if frames > 0 {
		fmt.Fprintf(f, "BAD trial=-1 kind=all C13: %d pump goroutines still alive 2 s after every connection was closed\n", frames)
	}
	return 0
}
