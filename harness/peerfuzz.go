//go:build verif

package main

// Engines wsfuzz and mdnsfuzz (C08): arbitrary websocket frames against a real WebsocketConnection and
// arbitrary resolver callbacks / TXT records against a real MdnsManager. A panic in a library goroutine
// ends the process: every input is written to the log (and flushed) before it is delivered, so the last
// log line is the failing input.

import (
	"bufio"
	"encoding/hex"
	"flag"
	"fmt"
	"math/rand"
	"net"
	"net/http"
	"net/http/httptest"
	"os"
	"strings"
	"sync"
	"time"

	"github.com/enbility/ship-go/api"
	"github.com/enbility/ship-go/mdns"
	"github.com/enbility/ship-go/ws"
	"github.com/gorilla/websocket"
)

type flog struct {
	mu sync.Mutex
	w  *bufio.Writer
	f  *os.File
}

func (l *flog) line(format string, a ...any) {
	l.mu.Lock()
	fmt.Fprintf(l.w, format+"\n", a...)
	l.w.Flush()
	l.mu.Unlock()
}

func short(b []byte) string {
	if len(b) > 48 {
		return fmt.Sprintf("%s..(%d bytes)", hex.EncodeToString(b[:48]), len(b))
	}
	return hex.EncodeToString(b)
}

// one trial: frames from the peer; expectation by the contract of the read pump: binary frames of at least two
// bytes are delivered in order until the first frame that is not one of those (or a transport violation);
// that one closes the connection with exactly one error report, nothing is delivered after it
func runWsFuzzTrial(id int, seed int64, url string, lg *flog) (bad []string, frames int, kinds map[string]int) {
	rnd := rand.New(rand.NewSource(seed))
	kinds = map[string]int{}
	fail := func(f string, a ...any) {
		bad = append(bad, fmt.Sprintf("trial %d seed %d: ", id, seed)+fmt.Sprintf(f, a...))
	}
	peerCh := make(chan *websocket.Conn, 1)
	key := fmt.Sprintf("f%d", id)
	wsPeers.Store(key, peerCh)
	defer wsPeers.Delete(key)
	conn, resp, err := websocket.DefaultDialer.Dial(url+"?t="+key, nil)
	if err != nil {
		fail("dial: %v", err)
		return
	}
	resp.Body.Close()
	peer := <-peerCh
	defer peer.Close()
	go func() { // drain what the library writes (pongs, close frames)
		for {
			if _, _, err := peer.ReadMessage(); err != nil {
				return
			}
		}
	}()
	reader := &wsReader{}
	sut := ws.NewWebsocketConnection(conn, "ski")
	sut.InitDataProcessing(reader)
	defer sut.CloseDataConnection(0, "")

	var want [][]byte
	fatal := ""
	n := 1 + rnd.Intn(8)
	for k := 0; k < n && fatal == ""; k++ {
		kind := []string{"bin", "bin", "bin", "bin1", "bin0", "text", "textbad", "ping", "pong", "close", "closebad", "raw", "big", "frag"}[rnd.Intn(14)]
		kinds[kind]++
		frames++
		var payload []byte
		switch kind {
		case "bin":
			payload = make([]byte, 2+rnd.Intn(40))
			rnd.Read(payload)
			lg.line("ws trial=%d frame=%d kind=bin payload=%s", id, k, short(payload))
			_ = peer.WriteMessage(websocket.BinaryMessage, payload)
			want = append(want, payload)
		case "big":
			payload = make([]byte, 70000+rnd.Intn(400000))
			rnd.Read(payload)
			lg.line("ws trial=%d frame=%d kind=big payload=%s", id, k, short(payload))
			_ = peer.WriteMessage(websocket.BinaryMessage, payload)
			want = append(want, payload)
		case "bin1", "bin0":
			payload = make([]byte, map[string]int{"bin1": 1, "bin0": 0}[kind])
			rnd.Read(payload)
			lg.line("ws trial=%d frame=%d kind=%s payload=%s", id, k, kind, short(payload))
			_ = peer.WriteMessage(websocket.BinaryMessage, payload)
			fatal = kind
		case "text":
			payload = []byte(`{"connectionHello":[{"phase":"ready"}]}`)
			lg.line("ws trial=%d frame=%d kind=text payload=%s", id, k, short(payload))
			_ = peer.WriteMessage(websocket.TextMessage, payload)
			fatal = kind
		case "textbad":
			payload = []byte{0xff, 0xfe, 0x80, 'a'}
			lg.line("ws trial=%d frame=%d kind=textbad payload=%s", id, k, short(payload))
			_ = peer.WriteMessage(websocket.TextMessage, payload)
			fatal = kind
		case "ping", "pong":
			payload = make([]byte, rnd.Intn(100))
			rnd.Read(payload)
			lg.line("ws trial=%d frame=%d kind=%s payload=%s", id, k, kind, short(payload))
			t := websocket.PingMessage
			if kind == "pong" {
				t = websocket.PongMessage
			}
			_ = peer.WriteControl(t, payload, time.Now().Add(time.Second))
		case "close":
			code := []int{1000, 1001, 1006, 4001, 4452, 4500, 0, 65535}[rnd.Intn(8)]
			lg.line("ws trial=%d frame=%d kind=close code=%d", id, k, code)
			_ = peer.WriteControl(websocket.CloseMessage, websocket.FormatCloseMessage(code, "bye"), time.Now().Add(time.Second))
			fatal = kind
		case "closebad":
			payload = make([]byte, 1+rnd.Intn(60))
			rnd.Read(payload)
			lg.line("ws trial=%d frame=%d kind=closebad payload=%s", id, k, short(payload))
			_ = peer.WriteControl(websocket.CloseMessage, payload, time.Now().Add(time.Second))
			fatal = kind
		case "raw":
			payload = make([]byte, 2+rnd.Intn(30))
			rnd.Read(payload)
			payload[0] |= 0x70 // reserved bits set: a protocol violation whatever follows
			lg.line("ws trial=%d frame=%d kind=raw payload=%s", id, k, short(payload))
			_, _ = peer.UnderlyingConn().Write(payload)
			fatal = kind
		case "frag":
			// a binary message in two fragments is one message
			a, b := make([]byte, 1+rnd.Intn(10)), make([]byte, 1+rnd.Intn(10))
			rnd.Read(a)
			rnd.Read(b)
			lg.line("ws trial=%d frame=%d kind=frag payload=%s+%s", id, k, short(a), short(b))
			if w, err := peer.NextWriter(websocket.BinaryMessage); err == nil {
				_, _ = w.Write(a)
				if f, ok := w.(interface{ Flush() error }); ok {
					_ = f.Flush()
				}
				_, _ = w.Write(b)
				_ = w.Close()
			}
			want = append(want, append(append([]byte{}, a...), b...))
		}
	}
	// wait for the expected outcome
	deadline := time.Now().Add(3 * time.Second)
	for time.Now().Before(deadline) {
		reader.mu.Lock()
		nd, nr := len(reader.delivered), reader.reports
		reader.mu.Unlock()
		closed, _ := sut.IsDataConnectionClosed()
		if nd >= len(want) && (fatal == "" || (nr >= 1 && closed)) {
			break
		}
		time.Sleep(2 * time.Millisecond)
	}
	time.Sleep(5 * time.Millisecond)
	reader.mu.Lock()
	defer reader.mu.Unlock()
	closed, _ := sut.IsDataConnectionClosed()
	if len(reader.delivered) != len(want) {
		fail("delivered %d messages, the peer sent %d valid ones before %q", len(reader.delivered), len(want), fatal)
	} else {
		for i := range want {
			if string(want[i]) != string(reader.delivered[i]) {
				fail("message %d delivered altered or out of order", i)
				break
			}
		}
	}
	if fatal != "" {
		if reader.reports != 1 {
			fail("%d error reports after a %q frame", reader.reports, fatal)
		}
		if !closed {
			fail("connection still open 3 s after a %q frame (read pump wedged?)", fatal)
		}
	} else if reader.reports != 0 || closed {
		fail("connection closed (reports=%d) although every frame was valid or a control frame", reader.reports)
	}
	return
}

func wsfuzzMain(args []string) int {
	fs := flag.NewFlagSet("wsfuzz", flag.ExitOnError)
	seed := fs.Int64("seed", 1, "PRNG seed")
	n := fs.Int("n", 300, "trials")
	out := fs.String("out", "wsfuzz.txt", "result")
	logf := fs.String("log", "wsfuzz_log.txt", "input log (flushed per frame)")
	_ = fs.Parse(args)
	srv := httptest.NewServer(http.HandlerFunc(wsPeerHandler))
	defer srv.Close()
	url := "ws" + strings.TrimPrefix(srv.URL, "http")
	lf, _ := os.Create(*logf)
	lg := &flog{w: bufio.NewWriter(lf), f: lf}
	var mu sync.Mutex
	var bad []string
	total := 0
	kinds := map[string]int{}
	var wg sync.WaitGroup
	sem := make(chan struct{}, 32)
	for i := 0; i < *n; i++ {
		wg.Add(1)
		sem <- struct{}{}
		go func(i int) {
			defer wg.Done()
			defer func() { <-sem }()
			b, f, k := runWsFuzzTrial(i, *seed*9176+int64(i), url, lg)
			mu.Lock()
			bad = append(bad, b...)
			total += f
			for kk, v := range k {
				kinds[kk] += v
			}
			mu.Unlock()
		}(i)
	}
	wg.Wait()
	fo, _ := os.Create(*out)
	defer fo.Close()
	fmt.Fprintf(fo, "trials=%d frames=%d\n", *n, total)
	for k, v := range kinds {
		fmt.Fprintf(fo, "kind %s %d\n", k, v)
	}
	for _, b := range bad {
		fmt.Fprintln(fo, "BAD", b)
	}
	return 0
}

// ---------------------------------------------------------------- mdns

func randTxtString(rnd *rand.Rand) string {
	switch rnd.Intn(8) {
	case 0:
		return ""
	case 1:
		b := make([]byte, rnd.Intn(300))
		rnd.Read(b)
		return string(b)
	case 2:
		return strings.Repeat("ä€😀", rnd.Intn(40))
	case 3:
		return strings.Repeat("=", rnd.Intn(4)) + "x" + strings.Repeat("=", rnd.Intn(3))
	case 4:
		return []string{"true", "false", "TRUE", "1", "yes", " true"}[rnd.Intn(6)]
	case 5:
		return []string{"1", "2", "0", "-1", "1.0", "01"}[rnd.Intn(6)]
	case 6:
		return fmt.Sprintf("ski%d", rnd.Intn(4))
	default:
		return "/ship/"
	}
}

func mdnsfuzzMain(args []string) int {
	fs := flag.NewFlagSet("mdnsfuzz", flag.ExitOnError)
	seed := fs.Int64("seed", 1, "PRNG seed")
	n := fs.Int("n", 20000, "callbacks")
	out := fs.String("out", "mdnsfuzz.txt", "result")
	logf := fs.String("log", "mdnsfuzz_log.txt", "input log (flushed per callback)")
	_ = fs.Parse(args)
	rnd := rand.New(rand.NewSource(*seed))
	lf, _ := os.Create(*logf)
	lg := &flog{w: bufio.NewWriter(lf), f: lf}
	var bad []string
	keys := []string{"txtvers", "id", "path", "ski", "register", "brand", "type", "model", "", "=", "TXTVERS", "x"}
	m := mdns.NewMDNS("ski0", "", "", "", "", nil, "local", "svc", 1, nil, mdns.MdnsProviderSelectionGoZeroConfOnly)
	m.VerifSetProvider(&fakeProvider{}, nullReport{})
	accepted, ignored, parsed := 0, 0, 0
	for i := 0; i < *n; i++ {
		if i%500 == 0 {
			m = mdns.NewMDNS("ski0", "", "", "", "", nil, "local", "svc", 1, nil, mdns.MdnsProviderSelectionGoZeroConfOnly)
			m.VerifSetProvider(&fakeProvider{}, nullReport{})
		}
		// TXT strings as a provider receives them, through the real parser
		var txt []string
		for j := rnd.Intn(9); j > 0; j-- {
			k := keys[rnd.Intn(len(keys))]
			switch rnd.Intn(5) {
			case 0:
				txt = append(txt, k) // no '='
			case 1:
				txt = append(txt, randTxtString(rnd))
			default:
				txt = append(txt, k+"="+randTxtString(rnd))
			}
		}
		var el map[string]string
		mode := rnd.Intn(10)
		if mode == 0 {
			el = nil
		} else {
			lg.line("mdns i=%d parse txt=%q", i, txt)
			el = mdns.VerifParseTxt(txt)
			parsed++
			if mode < 5 { // mostly valid: fill in the mandatory keys that are missing
				for k, v := range map[string]string{"txtvers": "1", "id": "id", "path": "/ship/", "ski": fmt.Sprintf("ski%d", rnd.Intn(4)), "register": "false"} {
					if _, ok := el[k]; !ok || rnd.Intn(3) != 0 {
						el[k] = v
					}
				}
			}
		}
		var ips []net.IP
		for j := rnd.Intn(5); j > 0; j-- {
			switch rnd.Intn(7) {
			case 0:
				ips = append(ips, nil)
			case 1:
				ips = append(ips, net.IP{})
			case 2:
				ips = append(ips, net.IP{1, 2, 3}) // not a valid length
			case 3:
				ips = append(ips, net.IPv4zero)
			case 4:
				ips = append(ips, net.ParseIP("fe80::1"))
			case 5:
				b := make([]byte, 16)
				rnd.Read(b)
				ips = append(ips, net.IP(b))
			default:
				ips = append(ips, net.IPv4(byte(rnd.Intn(256)), 168, 1, byte(rnd.Intn(256))))
			}
		}
		host := []string{"", "host.local", strings.Repeat("h", 300), "\x00", "ä.local."}[rnd.Intn(5)]
		name := []string{"", "svc", strings.Repeat("n", 500), "a\xffb"}[rnd.Intn(4)]
		port := []int{0, -1, 4711, 65535, 70000, 1 << 40}[rnd.Intn(6)]
		remove := rnd.Intn(5) == 0
		lg.line("mdns i=%d resolve el=%q name=%q host=%q ips=%v port=%d remove=%v", i, el, name, host, ips, port, remove)
		before := len(m.VerifRawEntries())
		done := make(chan string, 1)
		go func() {
			defer func() {
				if x := recover(); x != nil {
					done <- fmt.Sprint("PANIC ", x)
					return
				}
				done <- ""
			}()
			m.VerifResolve(el, name, host, ips, port, remove)
		}()
		select {
		case s := <-done:
			if s != "" {
				bad = append(bad, fmt.Sprintf("callback %d: %s", i, s))
				m = mdns.NewMDNS("ski0", "", "", "", "", nil, "local", "svc", 1, nil, mdns.MdnsProviderSelectionGoZeroConfOnly)
				m.VerifSetProvider(&fakeProvider{}, nullReport{})
				continue
			}
		case <-time.After(5 * time.Second):
			bad = append(bad, fmt.Sprintf("callback %d: HANG (resolver callback did not return within 5 s)", i))
			m = mdns.NewMDNS("ski0", "", "", "", "", nil, "local", "svc", 1, nil, mdns.MdnsProviderSelectionGoZeroConfOnly)
			m.VerifSetProvider(&fakeProvider{}, nullReport{})
			continue
		}
		after := m.VerifRawEntries()
		if len(after) != before {
			accepted++
		} else {
			ignored++
		}
		for ski, e := range after {
			if e == nil {
				bad = append(bad, fmt.Sprintf("callback %d: nil entry stored for %q", i, ski))
			}
		}
	}
	fo, _ := os.Create(*out)
	defer fo.Close()
	fmt.Fprintf(fo, "callbacks=%d changed=%d ignored=%d parsed=%d\n", *n, accepted, ignored, parsed)
	for _, b := range bad {
		fmt.Fprintln(fo, "BAD", b)
	}
	return 0
}

var _ api.MdnsEntry
