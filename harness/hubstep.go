//go:build verif

package main

// Engine hubstep (C10, C11, C15, C18): one real hub.Hub per scenario with an inert fake mDNS, a recording
// HubReader, mock connections registered through the verif hook and a TCP listener per remote SKI that
// records dial attempts. User operations use random spellings of the SKIs. Sleeping dial tasks (1-2 s
// through the delay-range hook) and delayed notifications (500 ms) run during `tick` events.

import (
	"bufio"
	"encoding/hex"
	"errors"
	"flag"
	"fmt"
	"math/rand"
	"net"
	"os"
	"sort"
	"strings"
	"sync"
	"time"

	"github.com/enbility/ship-go/api"
	"github.com/enbility/ship-go/cert"
	"github.com/enbility/ship-go/hub"
	"github.com/enbility/ship-go/model"
)

type obsLog struct {
	mu   sync.Mutex
	obs  []string
	last time.Time
}

func (o *obsLog) add(s string) {
	o.mu.Lock()
	o.obs = append(o.obs, s)
	o.last = time.Now()
	o.mu.Unlock()
}

func (o *obsLog) take() []string {
	o.mu.Lock()
	defer o.mu.Unlock()
	r := o.obs
	o.obs = nil
	return r
}

func (o *obsLog) quietFor() time.Duration {
	o.mu.Lock()
	defer o.mu.Unlock()
	return time.Since(o.last)
}

type mockConn struct {
	log *obsLog
	id  int
	ski string
	mu  sync.Mutex
	st  model.ShipMessageExchangeState
	dh  api.WebsocketDataWriterInterface
	// runs once inside AbortPendingHandshake before it acts: a state update of the read goroutine that is processed
	// while the user's cancel is under way
	onAbort func()
}

type mockDH struct{ id int }

func (*mockDH) InitDataProcessing(api.WebsocketDataReaderInterface) {}
func (*mockDH) WriteMessageToWebsocketConnection([]byte) error      { return nil }
func (*mockDH) CloseDataConnection(int, string)                     {}
func (*mockDH) IsDataConnectionClosed() (bool, error)               { return false, nil }
func (c *mockConn) DataHandler() api.WebsocketDataWriterInterface   { return c.dh }
func (c *mockConn) RemoteSKI() string                               { return c.ski }
func (c *mockConn) ApprovePendingHandshake()                        { c.log.add(fmt.Sprintf("approve:%d", c.id)) }
func (c *mockConn) CloseConnection(safe bool, code int, reason string) {
	c.log.add(fmt.Sprintf("close:%d:%s:%d", c.id, b01(safe), code))
}
func (c *mockConn) AbortPendingHandshake() {
	c.log.add(fmt.Sprintf("abort:%d", c.id))
	c.mu.Lock()
	hook := c.onAbort
	c.onAbort = nil
	c.mu.Unlock()
	if hook != nil {
		hook()
	}
	c.mu.Lock()
	if c.st == model.SmeHelloStateReadyListen || c.st == model.SmeHelloStatePendingListen {
		c.st = model.SmeHelloStateAbortDone
	}
	c.mu.Unlock()
}
func (c *mockConn) ShipHandshakeState() (model.ShipMessageExchangeState, error) {
	c.log.add(fmt.Sprintf("query:%d", c.id))
	c.mu.Lock()
	defer c.mu.Unlock()
	return c.st, nil
}

type hubReader struct {
	log *obsLog
	gen *genTracker
}

// genTracker orders the pairing detail objects of a SKI by the moment they became the current one; a
// notification that shows an object older than one already shown is logged as "stale:<ski>"
type genTracker struct {
	mu        sync.Mutex
	order     map[string][]*api.ConnectionStateDetail
	delivered map[string]int
}

func newGenTracker() *genTracker {
	return &genTracker{order: map[string][]*api.ConnectionStateDetail{}, delivered: map[string]int{}}
}

func (g *genTracker) index(ski string, d *api.ConnectionStateDetail) int {
	for i, x := range g.order[ski] {
		if x == d {
			return i
		}
	}
	g.order[ski] = append(g.order[ski], d)
	return len(g.order[ski]) - 1
}

func (g *genTracker) observe(ski string, d *api.ConnectionStateDetail) {
	g.mu.Lock()
	g.index(ski, d)
	g.mu.Unlock()
}

func (g *genTracker) notified(ski string, d *api.ConnectionStateDetail) bool {
	g.mu.Lock()
	defer g.mu.Unlock()
	i := g.index(ski, d)
	if i < g.delivered[ski] {
		return true
	}
	g.delivered[ski] = i
	return false
}

func (r *hubReader) RemoteSKIConnected(string) {}
func (r *hubReader) RemoteSKIDisconnected(ski string) {
	r.log.add("disc:" + hex.EncodeToString([]byte(ski)))
}
func (r *hubReader) SetupRemoteDevice(string, api.ShipConnectionDataWriterInterface) api.ShipConnectionDataReaderInterface {
	return &nullSpine{}
}
func (r *hubReader) VisibleRemoteServicesUpdated(e []api.RemoteService) {
	r.log.add(fmt.Sprintf("visible:%d", len(e)))
}
func (r *hubReader) ServiceShipIDUpdate(string, string) {}
func (r *hubReader) ServicePairingDetailUpdate(ski string, d *api.ConnectionStateDetail) {
	e := ""
	if d.Error() != nil {
		e = "e"
	}
	if r.gen != nil && r.gen.notified(ski, d) {
		r.log.add("stale:" + hex.EncodeToString([]byte(ski)))
	}
	r.log.add(fmt.Sprintf("pairing:%s:%d%s", hex.EncodeToString([]byte(ski)), uint(d.State()), e))
}
func (r *hubReader) AllowWaitingForTrust(string) bool { return false }

type inertMdns struct{ log *obsLog }

func (m *inertMdns) Start(api.MdnsReportInterface) error { return nil }
func (m *inertMdns) Shutdown()                           { m.log.add("mshut") }
func (m *inertMdns) AnnounceMdnsEntry() error            { m.log.add("mann"); return nil }
func (m *inertMdns) UnannounceMdnsEntry()                {}
func (m *inertMdns) SetAutoAccept(b bool)                { m.log.add("mauto:" + b01(b)) }
func (m *inertMdns) QRCodeText() string                  { return "" }
func (m *inertMdns) RequestMdnsEntries()                 { m.log.add("mreq") }

var hubErr = errors.New("handshake failed")

var hubCertOnce sync.Once
var hubCertShared []byte

type hubScenario struct {
	events []string
	outs   []string
}

// hubCanon: draw the same random numbers but return the canonical spelling (metamorphic twin run for C15)
var hubCanon bool

func spell(rnd *rand.Rand, ski string) string {
	r := spellRaw(rnd, ski)
	if hubCanon {
		return ski
	}
	return r
}

func spellRaw(rnd *rand.Rand, ski string) string {
	// whole-string spellings now and then: upper case without any separator (a complete 40 character SKI as a
	// certificate viewer shows it), upper case with a dash after every byte
	switch rnd.Intn(6) {
	case 0:
		return strings.ToUpper(ski)
	case 1:
		var sb strings.Builder
		for i, c := range strings.ToUpper(ski) {
			if i > 0 && i%2 == 0 {
				sb.WriteString("-")
			}
			sb.WriteRune(c)
		}
		return sb.String()
	}
	var sb strings.Builder
	for i, c := range ski {
		if rnd.Intn(3) == 0 {
			sb.WriteString(strings.ToUpper(string(c)))
		} else {
			sb.WriteRune(c)
		}
		if i%2 == 1 && rnd.Intn(4) == 0 {
			sb.WriteString([]string{" ", "-", "  "}[rnd.Intn(3)])
		}
	}
	return sb.String()
}

// hubSlow stretches every settling wait (confirmation re-runs of a single scenario)
var hubSlow = 1

func runHubScenario(seed int64, maxEv int, port int) *hubScenario {
	rnd := rand.New(rand.NewSource(seed))
	log := &obsLog{last: time.Now()}
	sc := &hubScenario{}
	// SKIs of the real shape: 40 hex characters
	keys := []string{"aabb01" + strings.Repeat("0a", 17), "ccdd02" + strings.Repeat("1b", 17), "eeff03" + strings.Repeat("2c", 17)}
	// dial observers
	ports := map[string]int{}
	var listeners []net.Listener
	for _, k := range keys {
		k := k
		ln, err := net.Listen("tcp", "127.0.0.1:0")
		if err != nil {
			panic(err)
		}
		listeners = append(listeners, ln)
		ports[k] = ln.Addr().(*net.TCPAddr).Port
		go func() {
			sockets := 0
			for {
				c, err := ln.Accept()
				if err != nil {
					return
				}
				// one connection attempt of the hub opens two sockets: with the path, then without
				if sockets%2 == 0 {
					log.add("dial:" + hex.EncodeToString([]byte(k)))
				}
				sockets++
				c.Close()
			}
		}()
	}
	defer func() {
		for _, ln := range listeners {
			ln.Close()
		}
	}()
	certificate, _ := cert.CreateCertificate("unit", "verif", "DE", fmt.Sprintf("hub-%d", seed))
	gens := newGenTracker()
	h := hub.NewHub(&hubReader{log, gens}, &inertMdns{log}, port, certificate, api.NewServiceDetails("0011223344"))

	conns := map[string]*mockConn{} // registered (as far as the harness knows)
	var allConns []*mockConn
	nextID := 1
	settle := func(max time.Duration) {
		if max < 150*time.Millisecond {
			max = 150 * time.Millisecond
		}
		max *= time.Duration(hubSlow)
		deadline := time.Now().Add(max)
		time.Sleep(time.Duration(hubSlow) * 25 * time.Millisecond)
		for time.Now().Before(deadline) && log.quietFor() < time.Duration(hubSlow)*50*time.Millisecond {
			time.Sleep(5 * time.Millisecond)
		}
	}
	snapshot := func() string {
		var rows []string
		for _, k := range keys {
			svc := h.ServiceForSKI(k)
			d := svc.ConnectionStateDetail()
			gens.observe(k, d)
			c := h.VerifConnectionFor(k)
			cid := "-"
			if mc, ok := c.(*mockConn); ok {
				cid = fmt.Sprint(mc.id)
			}
			n, ok, running := h.VerifAttemptCounter(k)
			ns := "-"
			if ok {
				ns = fmt.Sprint(n)
			}
			e := ""
			if d.Error() != nil {
				e = "e"
			}
			if !svc.Trusted() && d.State() == api.ConnectionStateNone && e == "" && cid == "-" && ns == "-" && !running {
				continue
			}
			rows = append(rows, fmt.Sprintf("%s:t=%s,d=%d%s,c=%s,n=%s,r=%s", hex.EncodeToString([]byte(k)), b01(svc.Trusted()), uint(d.State()), e, cid, ns, b01(running)))
		}
		sort.Strings(rows)
		return strings.Join(rows, " ")
	}
	record := func(ev string, extra []string) {
		obs := append(log.take(), extra...)
		var others, pairs []string
		for _, o := range obs {
			if strings.HasPrefix(o, "pairing:") {
				pairs = append(pairs, o)
			} else {
				others = append(others, o)
			}
		}
		sort.Strings(others)
		sc.events = append(sc.events, ev)
		sc.outs = append(sc.outs, strings.Join(others, " ")+" ; "+strings.Join(pairs, " ")+" | "+snapshot())
	}
	hexs := func(s string) string { return hex.EncodeToString([]byte(s)) }

	h.Start() // starts the (unused) websocket server and the inert mDNS
	settle(150 * time.Millisecond)
	log.take()
	sc.events = append(sc.events, "start")
	sc.outs = append(sc.outs, " ;  | ")

	var script []scripted
	sinceDelayed := -1 // events since a delayed notification / dial task was created (-1: none pending)
	var delayedAt time.Time // when that was: the delay is 500 ms of real time, events take 150 ms and more on a loaded machine
	shutdown := false
	for n := 0; n < maxEv; n++ {
		k := keys[rnd.Intn(len(keys))]
		if sinceDelayed >= 2 || (sinceDelayed >= 0 && time.Since(delayedAt) > 220*time.Millisecond) {
			time.Sleep(2200 * time.Millisecond)
			settle(300 * time.Millisecond)
			record("tick", nil)
			sinceDelayed = -1
			continue
		}
		slowNext := func(choice int) bool { return (choice >= 48 && choice < 62) || choice >= 91 }
		choice := rnd.Intn(100)
		// now and then a realistic episode instead of independent events: a connection of an SKI comes up, its
		// handshake ends one way or another, the connection closes, the service is seen again via mDNS
		forcedSt := -1
		if len(script) == 0 && rnd.Intn(14) == 0 {
			// the user pairs, a connection of the SKI is in the hello phase (or completed), the user changes his mind;
			// later the service is seen again
			script = []scripted{{"register", k, -1}, {"connected", k, []int{8, 11, 8, 38}[rnd.Intn(4)]}, {[]string{"cancel", "unregister"}[rnd.Intn(2)], k, -1},
				{"connclosed", k, -1}, {"report", k, -1}, {"tick", k, -1}}
		}
		if len(script) == 0 && rnd.Intn(12) == 0 {
			ends := []int{16, 39, 14, 15, 17, 38, 13}
			script = []scripted{{"connected", k, []int{8, 11, 2, 4}[rnd.Intn(4)]}, {"connupdate", k, ends[rnd.Intn(len(ends))]}, {"connclosed", k, -1}, {"report", k, -1}, {"tick", k, -1}}
			if rnd.Intn(2) == 0 {
				script = append([]scripted{{"report", k, -1}}, script...)
			}
		}
		if len(script) > 0 {
			f := script[0]
			script = script[1:]
			k, forcedSt = f.k, f.st
			choice = map[string]int{"connected": 70, "connupdate": 85, "connclosed": 95, "report": 50, "tick": 65, "register": 5, "unregister": 20, "cancel": 28}[f.kind]
			if f.kind == "connclosed" || f.kind == "connupdate" {
				if _, ok := conns[k]; !ok {
					script = nil
					continue
				}
			}
		}
		// a delayed notification (500 ms) is under way and the next event takes 400 ms to settle: let the delay pass
		// first, so that the event in which the notification shows does not depend on the clock
		if sinceDelayed >= 0 && (slowNext(choice) || time.Since(delayedAt) > 220*time.Millisecond) {
			time.Sleep(2200 * time.Millisecond)
			settle(300 * time.Millisecond)
			record("tick", nil)
			sinceDelayed = -1
		}
		delayedCreated := false
		switch {
		case choice < 16:
			raw := spell(rnd, k)
			h.RegisterRemoteSKI(raw)
			settle(120 * time.Millisecond)
			record("register "+hexs(raw), nil)
		case choice < 24:
			raw := spell(rnd, k)
			h.UnregisterRemoteSKI(raw)
			settle(120 * time.Millisecond)
			record("unregister "+hexs(raw), nil)
		case choice < 32:
			raw := spell(rnd, k)
			raceSt := -1
			if c, ok := conns[k]; ok {
				c.mu.Lock()
				cst := c.st
				c.mu.Unlock()
				if cst == 8 && rnd.Intn(2) == 0 {
					raceSt = 13 // the peer's hello "ready" is processed by the read goroutine while the cancel is under way
				} else if (cst == 8 || cst == 11) && rnd.Intn(3) == 0 {
					raceSt = 39 // the write of the "aborted" hello fails: the handshake ends in the error state inside the abort
				}
			}
			if c, ok := conns[k]; ok && raceSt >= 0 {
				// the connection reports a state between the hub's first look at it and the end of AbortPendingHandshake
				changed := false
				var e error
				if raceSt == 39 {
					e = hubErr
				}
				c.mu.Lock()
				c.onAbort = func() {
					c.mu.Lock()
					c.st = model.ShipMessageExchangeState(raceSt)
					c.mu.Unlock()
					before := h.ServiceForSKI(k).ConnectionStateDetail()
					h.HandleShipHandshakeStateUpdate(k, model.ShipState{State: model.ShipMessageExchangeState(raceSt), Error: e})
					changed = h.ServiceForSKI(k).ConnectionStateDetail() != before
					gens.observe(k, h.ServiceForSKI(k).ConnectionStateDetail())
				}
				c.mu.Unlock()
				h.CancelPairingWithSKI(raw)
				settle(120 * time.Millisecond)
				record(fmt.Sprintf("cancelrace %s %s %d %s", hexs(raw), hexs(k), raceSt, b01(e != nil)), nil)
				delayedCreated = changed
				break
			}
			h.CancelPairingWithSKI(raw)
			settle(120 * time.Millisecond)
			record("cancel "+hexs(raw), nil)
		case choice < 37:
			raw := spell(rnd, k)
			h.DisconnectSKI(raw, "bye")
			settle(120 * time.Millisecond)
			record("disconnect "+hexs(raw), nil)
		case choice < 43:
			raw := spell(rnd, k)
			d := h.PairingDetailForSki(raw)
			e := ""
			if d.Error() != nil {
				e = "e"
			}
			settle(80 * time.Millisecond)
			record("pairingdetail "+hexs(raw), []string{fmt.Sprintf("detail:%d%s", uint(d.State()), e)})
		case choice < 47 && rnd.Intn(3) != 0:
			raw := spell(rnd, k)
			svc := h.ServiceForSKI(raw)
			settle(60 * time.Millisecond)
			record("lookup "+hexs(raw), []string{fmt.Sprintf("service:%s:%s", hexs(svc.SKI()), b01(svc.Trusted()))})
		case choice < 46:
			b := rnd.Intn(2) == 0
			h.SetAutoAccept(b)
			settle(80 * time.Millisecond)
			record("setauto "+b01(b), nil)
		case choice < 48:
			if !shutdown {
				h.Shutdown()
				shutdown = true
				settle(200 * time.Millisecond)
				record("shutdown", nil)
			}
		case choice < 62:
			// one visible service per report keeps the order of effects defined
			entries := map[string]*api.MdnsEntry{k: {Name: "n", Ski: k, Identifier: "id", Path: "/ship/", Host: "127.0.0.1", Port: ports[k]}}
			svc := h.ServiceForSKI(k)
			willDelay := svc.Trusted() && svc.ConnectionStateDetail().State() != api.ConnectionStateQueued
			h.ReportMdnsEntries(entries, true)
			settle(400 * time.Millisecond)
			record("report "+hexs(k), nil)
			delayedCreated = willDelay
		case choice < 68:
			time.Sleep(2200 * time.Millisecond)
			settle(300 * time.Millisecond)
			record("tick", nil)
			sinceDelayed = -1
			continue
		case choice < 77:
			st := []model.ShipMessageExchangeState{2, 4, 8, 11, 22, 27, 36, 38}[rnd.Intn(8)]
			if forcedSt >= 0 {
				st = model.ShipMessageExchangeState(forcedSt)
			}
			c := &mockConn{log: log, id: nextID, ski: k, st: st}
			c.dh = &mockDH{id: nextID}
			nextID++
			h.VerifRegisterConnection(c)
			conns[k] = c
			allConns = append(allConns, c)
			settle(60 * time.Millisecond)
			record(fmt.Sprintf("connected %s %d %d", hexs(k), c.id, uint(st)), nil)
		case choice < 91:
			if c, ok := conns[k]; ok && forcedSt < 0 && rnd.Intn(2) == 0 {
				// a burst: several state updates back to back, as a handshake that runs through its phases produces them
				all := []model.ShipMessageExchangeState{2, 6, 8, 11, 13, 18, 20, 26, 31, 36, 38}
				var parts []string
				changed := false
				for j := 0; j < 3+rnd.Intn(2); j++ {
					st := all[rnd.Intn(len(all))]
					c.mu.Lock()
					c.st = st
					c.mu.Unlock()
					before := h.ServiceForSKI(k).ConnectionStateDetail()
					h.HandleShipHandshakeStateUpdate(k, model.ShipState{State: st})
					if h.ServiceForSKI(k).ConnectionStateDetail() != before {
						changed = true
					}
					gens.observe(k, h.ServiceForSKI(k).ConnectionStateDetail())
					parts = append(parts, fmt.Sprintf("%d:0", uint(st)))
				}
				settle(60 * time.Millisecond)
				record("burst "+hexs(k)+" "+strings.Join(parts, ","), nil)
				delayedCreated = changed
			} else if c, ok := conns[k]; ok {
				st := []model.ShipMessageExchangeState{2, 6, 7, 8, 10, 11, 13, 14, 15, 16, 18, 20, 26, 27, 31, 36, 37, 38, 39}[rnd.Intn(19)]
				if forcedSt >= 0 {
					st = model.ShipMessageExchangeState(forcedSt)
				}
				isErr := st == 39 || rnd.Intn(12) == 0
				var e error
				if isErr {
					e = hubErr
				}
				c.mu.Lock()
				c.st = st
				c.mu.Unlock()
				before := h.ServiceForSKI(k).ConnectionStateDetail()
				h.HandleShipHandshakeStateUpdate(k, model.ShipState{State: st, Error: e})
				after := h.ServiceForSKI(k).ConnectionStateDetail()
				settle(60 * time.Millisecond)
				record(fmt.Sprintf("connupdate %s %d %s", hexs(k), uint(st), b01(isErr)), nil)
				delayedCreated = before != after
			}
		default:
			if len(allConns) > 0 {
				c := allConns[rnd.Intn(len(allConns))]
				if fc, ok := conns[k]; ok && choice == 95 {
					c = fc
				}
				end := rnd.Intn(2) == 0
				h.HandleConnectionClosed(c, end)
				if conns[c.ski] == c {
					delete(conns, c.ski)
				}
				settle(400 * time.Millisecond)
				record(fmt.Sprintf("connclosed %s %d %s", hexs(c.ski), c.id, b01(end)), nil)
			}
		}
		if delayedCreated && sinceDelayed < 0 {
			sinceDelayed = 0
			delayedAt = time.Now()
		} else if sinceDelayed >= 0 {
			sinceDelayed++
		}
	}
	// everything that sleeps gets its turn
	time.Sleep(2200 * time.Millisecond)
	settle(300 * time.Millisecond)
	record("tick", nil)
	if !shutdown {
		h.Shutdown()
	}
	return sc
}

type scripted struct {
	kind string
	k    string
	st   int
}

func hubstepMain(args []string) int {
	fs := flag.NewFlagSet("hubstep", flag.ExitOnError)
	seed := fs.Int64("seed", 1, "PRNG seed")
	n := fs.Int("n", 40, "scenarios")
	maxEv := fs.Int("events", 14, "events per scenario")
	workers := fs.Int("workers", 40, "parallel scenarios")
	outIn := fs.String("in", "hub_in.txt", "events")
	outImpl := fs.String("impl", "hub_impl.txt", "implementation observations")
	canon := fs.Bool("canon", false, "use canonical SKI spellings in every user operation (same scenarios otherwise)")
	only := fs.Int("only", -1, "run only the scenario with this index")
	slow := fs.Int("slow", 1, "stretch settling waits by this factor")
	_ = fs.Parse(args)
	hubSlow = *slow
	hubCanon = *canon
	hub.VerifSetDelayRanges([][2]int{{1, 2}, {1, 2}, {1, 2}})
	res := make([]*hubScenario, *n)
	var wg sync.WaitGroup
	sem := make(chan struct{}, *workers)
	basePort := 20000 + rand.New(rand.NewSource(time.Now().UnixNano())).Intn(20000)
	for i := 0; i < *n; i++ {
		if *only >= 0 && i != *only {
			res[i] = &hubScenario{}
			continue
		}
		wg.Add(1)
		sem <- struct{}{}
		go func(i int) {
			defer wg.Done()
			defer func() { <-sem }()
			defer func() {
				if x := recover(); x != nil {
					res[i] = &hubScenario{events: []string{"panic"}, outs: []string{fmt.Sprintf("PANIC %v", x)}}
				}
			}()
			res[i] = runHubScenario(*seed*7349+int64(i), *maxEv, basePort+i)
		}(i)
	}
	wg.Wait()
	fi, _ := os.Create(*outIn)
	fo, _ := os.Create(*outImpl)
	bi, bo := bufio.NewWriter(fi), bufio.NewWriter(fo)
	for _, sc := range res {
		fmt.Fprintln(bi, "new")
		fmt.Fprintln(bo, "new")
		for k := range sc.events {
			fmt.Fprintln(bi, sc.events[k])
			fmt.Fprintln(bo, sc.outs[k])
		}
	}
	bi.Flush()
	bo.Flush()
	fi.Close()
	fo.Close()
	return 0
}
