//go:build verif

// Harness for the correspondence checks: drives the real ship-go code in-process and prints
// line-protocol records that the Lean driver (shipdrv) replays on the model.
package main

import (
	"fmt"
	"os"
)

func main() {
	if len(os.Args) < 2 {
		fmt.Fprintln(os.Stderr, "usage: harness <engine> [flags]")
		os.Exit(2)
	}
	switch os.Args[1] {
	case "timerstress":
		os.Exit(timerstressMain(os.Args[2:]))
	case "wsstress":
		os.Exit(wsstressMain(os.Args[2:]))
	case "jsonrt":
		os.Exit(jsonrtMain(os.Args[2:]))
	case "txtqr":
		os.Exit(txtqrMain(os.Args[2:]))
	case "tlspeer":
		os.Exit(tlspeerMain(os.Args[2:]))
	case "mdnsview":
		os.Exit(mdnsviewMain(os.Args[2:]))
	case "avahistep":
		os.Exit(avahistepMain(os.Args[2:]))
	case "hubstep":
		os.Exit(hubstepMain(os.Args[2:]))
	case "pairstep":
		os.Exit(pairstepMain(os.Args[2:]))
	case "racestress":
		os.Exit(racestressMain(os.Args[2:]))
	case "twohubs":
		os.Exit(twohubsMain(os.Args[2:]))
	case "wsfuzz":
		os.Exit(wsfuzzMain(os.Args[2:]))
	case "mdnsfuzz":
		os.Exit(mdnsfuzzMain(os.Args[2:]))
	case "datapipe":
		os.Exit(datapipeMain(os.Args[2:]))
	case "notifystress":
		os.Exit(notifystressMain(os.Args[2:]))
	case "userrace":
		os.Exit(userraceMain(os.Args[2:]))
	case "regrace":
		os.Exit(regraceMain(os.Args[2:]))
	case "connstep":
		os.Exit(connstepMain(os.Args[2:]))
	default:
		fmt.Fprintln(os.Stderr, "unknown engine", os.Args[1])
		os.Exit(2)
	}
}
